#!/usr/bin/env python3
"""Regenerates props/api_surface_differentiation.json from the scan of /repo by the naming rules
of the differentiation module (which macro generates which operand form).  Entries that the rules
do not classify are printed and get owner "UNCLASSIFIED" — classify them by hand in the JSON."""
import json, os, re, sys
ROOT = os.path.dirname(os.path.dirname(os.path.abspath(__file__)))
sys.path.insert(0, os.path.join(ROOT, "props"))
import _api_surface as A

FORM = {"value_value": "val_val", "reference_value": "ref_val", "value_reference": "val_ref"}
OPS = {"Add": "add", "Sub": "sub", "Mul": "mul", "Div": "div", "Pow": "pow"}
UN = {"Sin": "sin", "Cos": "cos", "Exp": "exp", "Ln": "ln", "Sqrt": "sqrt", "Neg": "neg"}
RULE_FN = {"Addition": "add", "Subtraction": "sub", "Multiplication": "mul", "Division": "div", "Power": "pow",
           "Sine": "sin", "Cosine": "cos", "Exponential": "exp", "NaturalLogarithm": "ln", "SquareRoot": "sqrt"}


def classify(item):
    f, x = item.split(": ", 1)
    rec = "Record" in x and "Trace" not in x
    pre = r"^c04\.fp\.matrix\." if f != "trace_operations.rs" and "Trace" not in x else r"^c05\.fp\.matrix\."
    owner = "C04" if pre.startswith(r"^c04") else "C05"
    W = "Record" if owner == "C04" else "Trace"
    def ent(stats, note, o=None):
        return {"owner": o or owner, "stats": stats, "note": note}
    # declarations
    if re.match(r"pub (struct|type|trait) ", x):
        return ent([], "declaration, no behaviour of its own", "decl")
    if x.startswith("private fn test_"):
        return ent([], "unit test of the crate", "outside")
    if "cfg(serde)" in x:
        return ent([], "serde feature is off in every check", "outside")
    if x.startswith("macro impl_primitive!") or x.startswith("impl Primitive for"):
        return ent([], "marker trait impl without code (Wrapping/Saturating element types: C19)", "outside")
    if x.startswith("impl Copy for"):
        return ent([], "marker trait; needs a Copy element type, the by-value forms run the same code", "outside")
    if f == "functions.rs":
        m = re.match(r"impl \w+<T> for (\w+)<T>", x)
        if m and m.group(1) == "Negation":
            return ent([], "only used by the container operators", "C06")
        if m:
            return ent([r"^c04\.fp\.matrix\.%s\." % RULE_FN[m.group(1)]], "the local rule of the operator", "C04")
    if x.startswith("pub(crate) fn same_list") or x.startswith("pub(crate) fn same_lists"):
        return ent([r"^c15\.cross\."], "the same_list test of every binary operator", "C15")
    if x.startswith("pub(crate) fn are_"):
        return ent([], "container operators", "C06")
    # macros
    m = re.match(r"macro (\w+)!\(impl (\w+) for (\w+)\)", x)
    if m:
        name, op, _ = m.groups()
        fm = re.search(r"impl_(value_value|reference_value|value_reference)$", name)
        if name.endswith("real_operator_impl_value") and op in UN:
            return ent([pre + UN[op] + r"\.val\."], "by-value form of the function")
        if fm and op in OPS:
            form = FORM[fm.group(1)]
            if name.startswith("real_number_"):
                o = "npow"
            elif "_number_" in name:
                o = {"add": "addn", "sub": "subn", "mul": "muln", "div": "divn", "pow": "pown"}[OPS[op]]
            else:
                o = OPS[op]
            return ent([pre + o + r"\." + form + r"\."], f"{W} operator form {o} {form}")
    # hand-written impls
    m = re.match(r"impl (\w+)<&%s<T>> for &%s<T>" % (W, W), x)
    if m and m.group(1) in OPS:
        return ent([pre + OPS[m.group(1)] + r"\.ref_ref\."], "reference∘reference form")
    m = re.match(r"impl (\w+)<&T> for &%s<T>" % W, x)
    if m and m.group(1) in OPS:
        o = {"add": "addn", "sub": "subn", "mul": "muln", "div": "divn", "pow": "pown"}[OPS[m.group(1)]]
        return ent([pre + o + r"\.ref_ref\."], "record/trace ∘ number, reference∘reference")
    if re.match(r"impl Pow<&%s<T>> for &T" % W, x):
        return ent([pre + r"npow\.ref_ref\."], "number ^ record/trace")
    m = re.match(r"impl (\w+) for (&?)%s<T>" % W, x)
    if m and m.group(1) in UN:
        return ent([pre + UN[m.group(1)] + (r"\.ref\." if m.group(2) else r"\.val\.")], "unary function / negation")
    m = re.match(r"impl SwappedOperations<(&?)T> for (&?)Record<T>", x)
    if m:
        form = ("ref" if m.group(2) else "val") + "_" + ("ref" if m.group(1) else "val")
        return ent([pre + r"subsw\." + form + r"\.", pre + r"divsw\." + form + r"\."], "sub_swapped / div_swapped " + form)
    simple = {
        "impl std::fmt::Display for %s<T>" % W: ([pre + "show$"], "show"),
        "impl ZeroOne for %s<T>" % W: ([pre + r"const\.zero$", pre + r"const\.one$"], "const via=zero|one"),
        "impl FromUsize for %s<T>" % W: ([pre + r"const\.from_usize$"], "const via=from_usize"),
        "impl Pi for %s<T>" % W: ([pre + r"const\.pi$"], "const via=pi"),
        "impl Clone for %s<T>" % W: ([pre + r"clone\.clone$", pre + r"clone\.clone_from$"], "clone via=clone|clone_from (clone_from: the default method)"),
        "impl PartialEq for %s<T>" % W: ([pre + r"cmp\.eq\.(ref|val|method)$", pre + r"cmp\.ne\."], "cmp eq|ne in three forms"),
        "impl PartialOrd for %s<T>" % W: ([pre + r"cmp\.%s\." % o for o in ("lt", "le", "gt", "ge", "pcmp")], "cmp lt|le|gt|ge|pcmp in three forms"),
        "impl Sum for %s<T>" % W: ([pre + r"sum\.empty$", pre + r"sum\.c+$", pre + r"sum\.v+$", pre + r"sum\.c+v", pre + r"sum\.v+c"], "sum over every constant/variable pattern up to 4 terms"),
        "derive Debug for %s" % W: ([pre + "debug$"], "debug line (aux)"),
    }
    if x in simple:
        return ent(*simple[x])
    table = {
        "pub fn Trace::constant": ("C05", [r"^c05\.fp\.matrix\.const\.constant$"], "const via=constant"),
        "pub fn Trace::variable": ("C05", [r"^c05\.fp\.matrix\.var\.record$"], "var via=record (via=list: struct literal)"),
        "pub fn Trace::derivative": ("C05", [r"^c05\.fp\.matrix\.derivs\."], "every derivs line of C05 also calls Trace::derivative with the program as closure"),
        "pub fn Trace::unary": ("C05", [r"^c05\.fp\.matrix\.unary\."], "unary fn=…"),
        "pub fn Trace::binary": ("C05", [r"^c05\.fp\.matrix\.binary\..*\.var_const$", r"^c05\.fp\.matrix\.binary\..*\.const_var$"], "binary fn=… in every pairing"),
        "pub fn Record::constant": ("C04", [r"^c04\.fp\.matrix\.const\.constant$"], "const via=constant"),
        "pub fn Record::variable": ("C04", [r"^c04\.fp\.matrix\.var\.record$"], "var via=record"),
        "pub fn WengertList::variable": ("C04", [r"^c04\.fp\.matrix\.var\.list$"], "var via=list"),
        "pub fn WengertList::new": ("C04", [r"^c04\.fp\.tape\.new$"], "@ tape via=new"),
        "impl Default for WengertList<T>": ("C04", [r"^c04\.fp\.tape\.default$"], "@ tape via=default"),
        "pub fn Record::history": ("C04", [r"^c04\.fp\.matrix\.var\.record$"], "const= of every instruction answer is history().is_none()"),
        "pub fn Record::derivatives": ("C04", [r"^c04\.fp\.matrix\.derivs\.vec$"], "derivs"),
        "pub fn Record::try_derivatives": ("C04", [r"^c04\.fp\.matrix\.tryderivs$"], "tryderivs"),
        "pub fn Record::unary": ("C04", [r"^c04\.fp\.matrix\.unary\."], "unary fn=…"),
        "pub fn Record::binary": ("C04", [r"^c04\.fp\.matrix\.binary\..*\.var_var$", r"^c04\.fp\.matrix\.binary\..*\.var_const$", r"^c04\.fp\.matrix\.binary\..*\.const_var$", r"^c04\.fp\.matrix\.binary\..*\.const_const$"], "binary fn=… in every pairing"),
        "pub fn Derivatives::at": ("C04", [r"^c04\.fp\.matrix\.derivs\.at$"], "derivs via=at"),
        "impl std::ops::Index<&Record<T>> for Derivatives<T>": ("C04", [r"^c04\.fp\.matrix\.derivs\.index$"], "derivs via=index"),
        "impl std::convert::From<Derivatives<T>> for Vec<T>": ("C04", [r"^c04\.fp\.matrix\.derivs\.vec$", r"^c04\.fp\.matrix\.derivs\.into$"], "derivs via=vec (Vec::from) and via=into"),
        "impl Clone for Derivatives<T>": ("C04", [r"^c04\.fp\.matrix\.derivs\.vec$"], "derivs via=vec clones the Derivatives first"),
        "impl Clone for Operation<T>": ("C04", [r"^c04\.fp\.matrix\.derivs\."], "used by the reverse sweep for every entry"),
        "derive Debug for WengertList": ("C04", [r"^c04\.fp\.matrix\.debug$"], "part of the Debug text of a record"),
        "derive Debug for Operation": ("C04", [r"^c04\.fp\.matrix\.debug$"], "part of the Debug text of a record"),
        "derive Debug for Derivatives": ("C04", [r"^c04\.fp\.matrix\.debugd$"], "debugd line (aux)"),
        "pub fn Record::reset": ("C15", [r"^c15\.reset\.reset$"], "reset via=reset"),
        "pub fn Record::do_reset": ("C15", [r"^c15\.reset\.do_reset$"], "reset via=do_reset"),
        "pub fn WengertList::clear": ("C15", [r"^c15\.clear$"], "clear"),
        "impl Clone for WengertList<T>": ("C15", [r"^c15\.clonetape$"], "clonetape"),
        "pub fn Record::from_existing": ("C15", [r"^c15\.rehome\."], "rehome"),
    }
    if x in table:
        o, st, note = table[x]
        return ent(st, note, o)
    return ent([], "", "UNCLASSIFIED")


items = A.scan(sys.argv[1] if len(sys.argv) > 1 else "/repo")
out = {}
for it in items:
    out[it] = classify(it)
    if out[it]["owner"] == "UNCLASSIFIED":
        print("UNCLASSIFIED:", it)
json.dump(out, open(A.TABLE, "w"), indent=1, ensure_ascii=False)
print(len(out), "entries written to", A.TABLE)
