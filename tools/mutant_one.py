import json,sys,subprocess,os,hashlib
mid=sys.argv[1]; props=sys.argv[2:]
m=json.load(open('/verif/mutation/results.json'))[mid]
wt='/tmp/mut1-'+mid
subprocess.run(['git','-C','/repo','worktree','remove','--force',wt],capture_output=True)
subprocess.run(['git','-C','/repo','worktree','add','-q','--detach',wt,'HEAD'],check=True)
p=os.path.join(wt,m['file']); src=open(p).read().split('\n')
# locate the old line near the recorded position (HEAD may have moved)
idx=None
for d in range(0,40):
    for k in (m['line']-1+d, m['line']-1-d):
        if 0<=k<len(src) and src[k]==m['old']: idx=k; break
    if idx is not None: break
assert idx is not None, 'old line not found'
src[idx]=m['new']; open(p,'w').write('\n'.join(src))
for pid in props:
    r=subprocess.run(['python3','verif.py','check',pid],cwd='/verif',env=dict(os.environ,EASYML_REPO=wt),capture_output=True)
    out=r.stdout.decode()
    v=[l for l in out.split('\n') if l.startswith('VIOLATION')]
    print(mid,pid,'rc=',r.returncode,v[:1])
tag=hashlib.sha1(wt.encode()).hexdigest()[:8]
subprocess.run(['git','-C','/repo','worktree','remove','--force',wt],capture_output=True)
subprocess.run(['rm','-rf','/verif/harness/target-'+tag,'/verif/work/hm-'+tag,'/verif/work/scratch-'+tag])
