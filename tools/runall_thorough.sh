#!/bin/bash
cd /verif
run() { for p in "$@"; do python3 verif.py check $p --tier thorough > /tmp/thor_$p.log 2>&1; rc=$?; echo "$p rc=$rc $(grep -E '^\[' /tmp/thor_$p.log | tail -n 1)"; grep -E "VIOLATION|KNOWN-FINDING|MACHINERY" /tmp/thor_$p.log | head -n 3; done; }
run C01 C05 C09 C13 C17 &
run C02 C06 C11 C14 C19 &
run C03 C07 C12 C15 C20 &
run C04 C08 C16 &
wait
run C10 C18
echo THOROUGH-DONE
