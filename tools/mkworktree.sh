#!/bin/sh
# tools/mkworktree.sh <id>  — development worktree of /verif for one property owner
set -e
id="$1"
mkdir -p /tmp/vw
git -C /verif worktree add -q /tmp/vw/"$id" -b wip-"$id" HEAD
echo /tmp/vw/"$id"
