#!/bin/bash
cd /verif
( python3 tools/rewriteall.py C01 C06 C11 > /tmp/rewr_1.log 2>&1 ) &
( python3 tools/rewriteall.py C02 C07 C13 > /tmp/rewr_2.log 2>&1 ) &
( python3 tools/rewriteall.py C03 C08 C14 > /tmp/rewr_3.log 2>&1 ) &
( python3 tools/rewriteall.py C04 C09 C16 > /tmp/rewr_4.log 2>&1 ) &
wait
echo REWRITES-DONE >> /tmp/rewr_1.log
