#!/bin/sh
# tools/seedverify.sh <dir with patch.diff and seed_demo.rs>
# Confirms a seeded change: applies to a scratch worktree of /repo HEAD, builds, runs the whole
# existing suite (must pass), runs the demonstration with and without the change.
set -u
d="$(cd "$1" && pwd)"
wt="/tmp/rw-seedverify-$$"
git -C /repo worktree add -q --detach "$wt" HEAD || exit 2
trap 'git -C /repo worktree remove --force "$wt" >/dev/null 2>&1' EXIT
cd "$wt"
cp "$d/seed_demo.rs" tests/seed_demo.rs
echo "== demo WITHOUT the change (must pass)"
if CARGO_NET_OFFLINE=true cargo test --offline --test seed_demo >/tmp/seedverify-$$.log 2>&1; then echo "demo-without: PASS"; else echo "demo-without: FAIL"; tail -5 /tmp/seedverify-$$.log; fi
if ! git apply "$d/patch.diff"; then echo "patch does not apply"; exit 1; fi
echo "== build + existing suite WITH the change (must pass)"
rm tests/seed_demo.rs
if CARGO_NET_OFFLINE=true cargo test --workspace --no-fail-fast --offline >/tmp/seedverify-$$.log 2>&1; then echo "suite-with: PASS"; else echo "suite-with: FAIL"; grep -E "FAILED|failed|panicked" /tmp/seedverify-$$.log | head; fi
cp "$d/seed_demo.rs" tests/seed_demo.rs
echo "== demo WITH the change (must fail)"
if CARGO_NET_OFFLINE=true cargo test --offline --test seed_demo >/tmp/seedverify-$$.log 2>&1; then echo "demo-with: PASS (bad)"; else echo "demo-with: FAIL (good)"; fi
rm -f /tmp/seedverify-$$.log
