#!/usr/bin/env python3
"""Runs the claimed checks against every seeded change (scratch worktree of /repo HEAD + patch,
EASYML_REPO), records which checks report it in seeded/<id>/meta.json and seeded/RESULTS.md.
usage: tools/seedall.py [seed-id …]   (default: all; target property's check + C10 + C18 if claimed)"""
import json, os, re, subprocess, sys, hashlib
ROOT = "/verif"
SEED = os.path.join(ROOT, "seeded")
claimed = {c["property_id"] for c in json.load(open(os.path.join(ROOT, "MANIFEST.json")))["checks"]}
ids = sys.argv[1:] or sorted(d for d in os.listdir(SEED) if os.path.isdir(os.path.join(SEED, d)))
extra = [a for a in os.environ.get("SEED_EXTRA_CHECKS", "").split(",") if a]
for sid in ids:
    d = os.path.join(SEED, sid)
    meta = json.load(open(os.path.join(d, "meta.json")))
    prop = meta["breaks_property"]
    checks = [p for p in [prop] + extra if p in claimed]
    if not checks:
        print(f"{sid}: property {prop} not claimed yet"); continue
    wt = f"/tmp/rw-seedall-{sid}"
    subprocess.run(["git", "-C", "/repo", "worktree", "remove", "--force", wt], capture_output=True)
    subprocess.run(["git", "-C", "/repo", "worktree", "add", "-q", "--detach", wt, "HEAD"], check=True)
    try:
        r = subprocess.run(["git", "-C", wt, "apply", os.path.join(d, "patch.diff")], capture_output=True)
        if r.returncode != 0:
            print(f"{sid}: patch does not apply to current HEAD: {r.stderr.decode()[:200]}")
            meta["detected_by"]["_note"] = "patch no longer applies to the repaired HEAD"
            json.dump(meta, open(os.path.join(d, "meta.json"), "w"), indent=1)
            continue
        for pid in checks:
            env = dict(os.environ, EASYML_REPO=wt)
            p = subprocess.run(["python3", "verif.py", "check", pid, "--tier", os.environ.get("TIER", "quick")],
                               cwd=ROOT, env=env, capture_output=True)
            out = p.stdout.decode()
            viol = [l for l in out.split("\n") if l.startswith("VIOLATION")]
            nf = all("no-failing-input-found" in l for l in viol) if viol else False
            verdict = ("caught" + (" (no-failing-input-found)" if nf else " (concrete replay)")) if p.returncode == 1 and viol \
                else ("MISSED" if p.returncode == 0 else f"machinery-error rc={p.returncode}")
            meta["detected_by"][pid] = {"verdict": verdict, "violation_lines": viol[:2],
                                        "ran": f"EASYML_REPO=<scratch worktree with patch> python3 verif.py check {pid}"}
            print(f"{sid}: {pid}: {verdict}")
        json.dump(meta, open(os.path.join(d, "meta.json"), "w"), indent=1)
    finally:
        subprocess.run(["git", "-C", "/repo", "worktree", "remove", "--force", wt], capture_output=True)
        tag = hashlib.sha1(wt.encode()).hexdigest()[:8]
        subprocess.run(["rm", "-rf", os.path.join(ROOT, "harness", "target-" + tag), os.path.join(ROOT, "work", "hm-" + tag), os.path.join(ROOT, "work", "scratch-" + tag)])
# results table
rows = []
for sid in sorted(d for d in os.listdir(SEED) if os.path.isdir(os.path.join(SEED, d))):
    meta = json.load(open(os.path.join(SEED, sid, "meta.json")))
    det = "; ".join(f"{k}: {v['verdict']}" for k, v in meta.get("detected_by", {}).items() if isinstance(v, dict)) or "not run yet"
    rows.append(f"| {sid} | {meta['breaks_property']} | {', '.join(meta['files_changed'])} | {det} |")
open(os.path.join(SEED, "RESULTS.md"), "w").write(
    "# Seeded changes and which checks report them\n\n| seed | property | files | checks |\n|---|---|---|---|\n" + "\n".join(rows) + "\n")
