#!/usr/bin/env python3
"""Systematic mutation analysis of the registered checks (a development measurement, not a check).

Where the seeded changes of seeded/ were written by hand (by independent sub-agents), this tool
produces MANY small mechanical changes inside the code regions each property is anchored in
(properties.jsonl: anchors.*.where line ranges, mapped from the pinned commit to the current HEAD),
keeps those that still compile AND still pass the existing test suite, and runs the quick check of
the anchoring property against each.  A mutant that the check does not report is either an
equivalent mutant (behaviour unchanged: dead code, redundant guard, performance only) or a gap in
the check; survivors are listed for triage in mutation/RESULTS.md.

usage: tools/mutate.py gen  [--per-prop N] [--seed S] [--props C01,C02,…]   -> mutation/mutants.json
       tools/mutate.py run  [--workers W] [--props …] [--redo]               -> mutation/results.json, RESULTS.md
       tools/mutate.py table                                                 -> mutation/RESULTS.md

Nothing is ever applied to /repo: each worker owns a scratch worktree /tmp/mut-w<k> of /repo HEAD
(removed at the end together with its build output).
"""
import argparse, difflib, hashlib, json, os, random, re, subprocess, sys, threading, time
from concurrent.futures import ThreadPoolExecutor

ROOT = os.path.dirname(os.path.dirname(os.path.abspath(__file__)))
OUT = os.path.join(ROOT, "mutation")
PINNED = "c223509"
ENV = dict(os.environ, CARGO_NET_OFFLINE="true")

# (name, regex, replacement) — textual operators on one code line; only the first match on the
# chosen line is rewritten.  Lines that are comments, attributes or inside doc comments are skipped.
OPS = [
    ("lt->le", r" < ", " <= "), ("le->lt", r" <= ", " < "),
    ("gt->ge", r" > ", " >= "), ("ge->gt", r" >= ", " > "),
    ("eq->ne", r" == ", " != "), ("ne->eq", r" != ", " == "),
    ("and->or", r" && ", " || "), ("or->and", r" \|\| ", " && "),
    ("plus->minus", r" \+ ", " - "), ("minus->plus", r" - ", " + "),
    ("mul->add", r" \* ", " + "), ("div->mul", r" / ", " * "),
    ("plus1->plus0", r" \+ 1\b", " + 0"), ("minus1->minus0", r" - 1\b", " - 0"),
    ("plus1->plus2", r" \+ 1\b", " + 2"),
    ("pluseq->minuseq", r" \+= ", " -= "), ("minuseq->pluseq", r" -= ", " += "),
    ("range0->range1", r"\b0\.\.", "1.."), ("rangeincl->excl", r"\.\.=", ".."),
    ("true->false", r"\btrue\b", "false"), ("false->true", r"\bfalse\b", "true"),
    ("rev-removed", r"\.rev\(\)", ""), ("min->max", r"\bmin\(", "max("), ("max->min", r"\bmax\(", "min("),
    ("zero->one", r"T::zero\(\)", "T::one()"), ("one->zero", r"T::one\(\)", "T::zero()"),
    ("some->none-guard", r"\.is_some\(\)", ".is_none()"), ("isnone->issome", r"\.is_none\(\)", ".is_some()"),
    ("isempty-negated", r"(\S+)\.is_empty\(\)", r"!\1.is_empty()"),
    ("not-removed", r"if !", "if "),
    ("idx0->idx1", r"\[0\]", "[1]"), ("idx1->idx0", r"\[1\]", "[0]"),
    ("dot0->dot1", r"\.0\b(?!\.)", ".1"), ("dot1->dot0", r"\.1\b(?!\.)", ".0"),
    ("row<->column", r"\brow\b", "column"), ("column<->row", r"\bcolumn\b", "row"),
    ("rows<->columns", r"\brows\b", "columns"), ("columns<->rows", r"\bcolumns\b", "rows"),
    ("clone-skip", r"\.skip\((\w+)\)", r".skip(\1 + 1)"), ("take-less", r"\.take\((\w+)\)", r".take(\1 - 1)"),
    ("return-early-none", r"^(\s*)return None;", r"\1();"),
    ("neg-dropped", r"= -", "= "),
    ("lhs<->rhs", r"\blhs\b", "rhs"), ("left<->right", r"\bleft\b", "right"),
    ("x<->y", r"\bx\b", "y"), ("i<->j", r"\bi\b", "j"),
]


def sh(cmd, cwd=None, env=None, timeout=3600):
    try:
        p = subprocess.run(cmd, cwd=cwd, env=env or ENV, capture_output=True, timeout=timeout)
        return p.returncode, p.stdout.decode(errors="replace"), p.stderr.decode(errors="replace")
    except subprocess.TimeoutExpired:
        return 124, "", "timeout"


def line_map(path):
    """pinned line number -> current line number (None when the pinned line was changed)."""
    rc, old, _ = sh(["git", "-C", "/repo", "show", f"{PINNED}:{path}"])
    if rc != 0:
        return None, None
    cur = open(os.path.join("/repo", path)).read().split("\n")
    old = old.split("\n")
    m = {}
    for a, b, n in difflib.SequenceMatcher(None, old, cur, autojunk=False).get_matching_blocks():
        for k in range(n):
            m[a + k + 1] = b + k + 1
    return m, cur


def anchored_ranges():
    """property -> list of (file, first, last) in current line numbers."""
    res = {}
    maps = {}
    for l in open(os.path.join(ROOT, "properties.jsonl")):
        p = json.loads(l)
        out = []
        for group in ("state", "mechanism", "entry_points", "checks", "docs"):
            for item in p["anchors"].get(group, []) or []:
                where = item.get("where", "") if isinstance(item, dict) else ""
                for part in where.split(";"):
                    mm = re.match(r"\s*(src/[\w/\.]+\.rs):([\d,\-\s]+)", part)
                    if not mm:
                        continue
                    f = mm.group(1)
                    if f not in maps:
                        maps[f] = line_map(f)
                    lm, cur = maps[f]
                    if lm is None:
                        continue
                    for r in mm.group(2).split(","):
                        r = r.strip()
                        if not r:
                            continue
                        a, _, b = r.partition("-")
                        a = int(a); b = int(b or a)
                        lines = [lm[k] for k in range(a, b + 1) if k in lm]
                        if lines:
                            out.append((f, min(lines), max(lines)))
        res[p["id"]] = out
    return res


def code_lines(path, first, last):
    """(line number, text) of lines in the range that are code: not comments, docs, attributes,
    test modules."""
    src = open(os.path.join("/repo", path)).read().split("\n")
    res = []
    in_block = False
    in_tests = False
    in_hook = False
    for no, text in enumerate(src, 1):
        t = text.strip()
        if re.match(r"#\[cfg\(test\)\]", t) and no < len(src) and re.match(r"\s*(pub )?mod ", src[no]):
            in_tests = True
        if "/*" in t and "*/" not in t:
            in_block = True
            continue
        if in_block:
            if "*/" in t:
                in_block = False
            continue
        if in_tests or no < first or no > last:
            continue
        if not t or t.startswith("//") or t.startswith("#[") or t.startswith("*") or t.startswith("/*"):
            continue
        if "cfg(feature" in t:
            in_hook = True
            continue
        if in_hook:
            if t.endswith(";") or t.endswith("}"):
                in_hook = False
            continue
        if "verif_hooks" in t:
            continue
        res.append((no, text))
    return res


def gen(args):
    rng = random.Random(args.seed)
    ranges = anchored_ranges()
    props = args.props.split(",") if args.props else sorted(ranges)
    mutants = []
    seen = set()
    files_of = {}
    for l in open(os.path.join(ROOT, "properties.jsonl")):
        pp = json.loads(l)
        files_of[pp["id"]] = set(pp["anchors"].get("files", []))
    prev = os.path.join(OUT, "results.json")
    if os.path.exists(prev):
        for r in json.load(open(prev)).values():
            seen.add((r["file"], r["old"], r["new"]))
    for pid in props:
        cands = []
        for f, a, b in ranges.get(pid, []):
            for no, text in code_lines(f, a, b):
                code = text.split("//")[0]
                # string literals and inline /* */ comments are masked: edits of message texts
                # and comments are equivalent mutants by construction
                masked = re.sub(r'"(?:[^"\\]|\\.)*"', lambda m: "\x00" * len(m.group(0)), code)
                masked = re.sub(r"/\*.*?\*/", lambda m: "\x00" * len(m.group(0)), masked)
                if re.search(r"\b(panic|assert|assert_eq|unreachable|write|format)!\(", masked) is None and '\x00' in masked and masked.strip().startswith('\x00'):
                    continue        # continuation line of a message
                for name, pat, rep in OPS:
                    mm = re.search(pat, masked)
                    if mm:
                        new_part = re.sub(pat, rep, masked[mm.start():mm.end()], count=1)
                        new = code[:mm.start()] + new_part + code[mm.end():] + text[len(code):]
                        if new != text and "\x00" not in new_part:
                            cands.append((f, no, name, text, new))
        rng.shuffle(cands)
        # spread over operators and lines: at most one mutant per (file, line), round-robin over ops
        byop = {}
        for c in cands:
            byop.setdefault(c[2], []).append(c)
        picked = []
        used_lines = set()
        while len(picked) < args.per_prop and any(byop.values()):
            for op in sorted(byop):
                while byop[op]:
                    c = byop[op].pop()
                    key = (c[0], c[1])
                    if key in used_lines or (c[0], c[3], c[4]) in seen:
                        continue
                    used_lines.add(key)
                    picked.append(c)
                    break
                if len(picked) >= args.per_prop:
                    break
        for k, (f, no, name, old, new) in enumerate(picked):
            seen.add((f, old, new))
            mutants.append({"id": f"{pid}-{args.tag}{k:03d}", "property": pid, "file": f, "line": no,
                            "operator": name, "old": old, "new": new,
                            "also": [q for q in sorted(files_of) if q != pid and f in files_of[q]
                                     and q not in ("C18", "C20")][:4]})
        print(f"{pid}: {len(cands)} candidate edits in {len(ranges.get(pid, []))} anchored ranges, picked {len(picked)}")
    os.makedirs(OUT, exist_ok=True)
    mp = os.path.join(OUT, "mutants.json")
    if os.path.exists(mp):
        old_m = json.load(open(mp))["mutants"]
        ids = {m["id"] for m in mutants}
        mutants = [m for m in old_m if m["id"] not in ids] + mutants
    json.dump({"repo_head": sh(["git", "-C", "/repo", "rev-parse", "--short", "HEAD"])[1].strip(),
               "seed": args.seed, "mutants": mutants}, open(os.path.join(OUT, "mutants.json"), "w"), indent=1)


def worker_setup(k):
    wt = f"/tmp/mut-w{k}"
    sh(["git", "-C", "/repo", "worktree", "remove", "--force", wt])
    rc, _, err = sh(["git", "-C", "/repo", "worktree", "add", "-q", "--detach", wt, "HEAD"])
    if rc != 0:
        raise SystemExit("worktree: " + err)
    if os.path.exists("/repo/Cargo.lock"):
        sh(["cp", "/repo/Cargo.lock", wt + "/Cargo.lock"])
    # warm the caches on the unmutated tree
    sh(["cargo", "test", "--offline", "--lib", "--tests", "--no-run", "--quiet"], cwd=wt)
    return wt


def worker_teardown(k):
    wt = f"/tmp/mut-w{k}"
    tag = hashlib.sha1(wt.encode()).hexdigest()[:8]
    sh(["git", "-C", "/repo", "worktree", "remove", "--force", wt])
    sh(["rm", "-rf", wt, os.path.join(ROOT, "harness", "target-" + tag), os.path.join(ROOT, "work", "hm-" + tag), os.path.join(ROOT, "work", "scratch-" + tag)])


def run_one(wt, m):
    t0 = time.time()
    sh(["git", "-C", wt, "checkout", "--", "."])
    path = os.path.join(wt, m["file"])
    src = open(path).read().split("\n")
    if src[m["line"] - 1] != m["old"]:
        return {"verdict": "stale (HEAD moved)"}
    src[m["line"] - 1] = m["new"]
    open(path, "w").write("\n".join(src))
    env = dict(ENV, RUSTFLAGS="-Awarnings")
    rc, _, err = sh(["cargo", "check", "--offline", "--quiet", "--lib", "--features", "verif-hooks"], cwd=wt, env=env, timeout=900)
    if rc != 0:
        return {"verdict": "does-not-compile", "wall": round(time.time() - t0, 1)}
    rc, out, err = sh(["cargo", "test", "--offline", "--lib", "--tests", "--no-fail-fast", "--quiet"], cwd=wt, env=env, timeout=1800)
    if rc != 0:
        failed = re.findall(r"^test (\S+) \.\.\. FAILED", out, re.M)
        return {"verdict": "killed-by-existing-tests", "tests": failed[:3], "wall": round(time.time() - t0, 1)}
    rc, out, err = sh(["python3", "verif.py", "check", m["property"], "--tier", "quick"], cwd=ROOT,
                      env=dict(ENV, EASYML_REPO=wt), timeout=3600)
    viol = [l for l in out.split("\n") if l.startswith("VIOLATION")]
    if rc == 1 and viol:
        nf = all("no-failing-input-found" in l for l in viol)
        v = "caught (no-failing-input-found)" if nf else "caught (concrete replay)"
    elif rc == 0:
        v = "SURVIVED"
        for other in m.get("also", []):
            rc2, out2, _ = sh(["python3", "verif.py", "check", other, "--tier", "quick"], cwd=ROOT,
                              env=dict(ENV, EASYML_REPO=wt), timeout=3600)
            if rc2 == 1 and any(l.startswith("VIOLATION") for l in out2.split("\n")):
                v = "reported by " + other + " (not by the anchoring property)"
                break
    else:
        v = f"machinery-error rc={rc}: " + (err or out)[-300:]
    return {"verdict": v, "wall": round(time.time() - t0, 1)}


def run(args):
    data = json.load(open(os.path.join(OUT, "mutants.json")))
    respath = os.path.join(OUT, "results.json")
    results = json.load(open(respath)) if os.path.exists(respath) and not args.redo else {}
    todo = [m for m in data["mutants"] if m["id"] not in results
            and (not args.props or m["property"] in args.props.split(","))]
    print(f"{len(todo)} mutants to run on {args.workers} workers")
    chunks = [todo[k::args.workers] for k in range(args.workers)]

    lock = threading.Lock()

    def work(k):
        if not chunks[k]:
            return
        wt = worker_setup(k)
        try:
            for m in chunks[k]:
                r = run_one(wt, m)
                with lock:
                    results[m["id"]] = dict(m, **r)
                    json.dump(results, open(respath + f".{k}", "w"), indent=1)
                print(f"{m['id']} {m['file']}:{m['line']} {m['operator']}: {r['verdict']}", flush=True)
        finally:
            worker_teardown(k)

    with ThreadPoolExecutor(args.workers) as ex:
        list(ex.map(work, range(args.workers)))
    json.dump(results, open(respath, "w"), indent=1, sort_keys=True)
    for k in range(args.workers):
        if os.path.exists(respath + f".{k}"):
            os.remove(respath + f".{k}")
    table(args)


def table(args):
    results = json.load(open(os.path.join(OUT, "results.json")))
    triage = {}
    tp = os.path.join(OUT, "triage.json")
    if os.path.exists(tp):
        triage = json.load(open(tp))
    props = sorted({r["property"] for r in results.values()})
    lines = ["# Mechanical mutants inside the anchored code regions (tools/mutate.py)\n",
             "A measurement, not a check: one-token edits in the code each property is anchored in; a mutant counts",
             "only if it compiles and the existing test suite (`cargo test --lib --tests`) still passes with it;",
             "the quick check of the anchoring property is then run against a scratch worktree holding it.\n",
             "| property | generated | do not compile | killed by existing tests | reach the check | reported (concrete) | reported (no input) | reported by another property's check | survived | of which triaged equivalent or reported by the property they concern |",
             "|---|---|---|---|---|---|---|---|---|---|"]
    tot = [0] * 9
    for pid in props:
        rs = [r for r in results.values() if r["property"] == pid]
        nc = sum(r["verdict"] == "does-not-compile" for r in rs)
        kt = sum(r["verdict"] == "killed-by-existing-tests" for r in rs)
        cc = sum(r["verdict"] == "caught (concrete replay)" for r in rs)
        cn = sum(r["verdict"] == "caught (no-failing-input-found)" for r in rs)
        co = sum(r["verdict"].startswith("reported by") for r in rs)
        sv = [r for r in rs if r["verdict"] == "SURVIVED"]
        eq = sum(1 for r in sv if triage.get(r["id"], {}).get("class") in ("equivalent", "caught-by-other-property"))
        row = [len(rs), nc, kt, cc + cn + co + len(sv), cc, cn, co, len(sv), eq]
        tot = [a + b for a, b in zip(tot, row)]
        lines.append(f"| {pid} | " + " | ".join(str(x) for x in row) + " |")
    lines.append("| **all** | " + " | ".join(str(x) for x in tot) + " |")
    lines.append("\n## Survivors\n")
    lines.append("| mutant | where | edit | triage |")
    lines.append("|---|---|---|---|")
    for mid in sorted(results):
        r = results[mid]
        if r["verdict"] == "SURVIVED":
            t = triage.get(mid, {})
            lines.append(f"| {mid} | {r['file']}:{r['line']} | `{r['old'].strip()}` → `{r['new'].strip()}` | {t.get('class', 'untriaged')}: {t.get('why', '')} |")
    other = [r for r in results.values() if r["verdict"].startswith("machinery") or r["verdict"].startswith("stale")]
    if other:
        lines.append("\n## Not decided\n")
        for r in other:
            lines.append(f"* {r['id']} {r['file']}:{r['line']}: {r['verdict'][:200]}")
    open(os.path.join(OUT, "RESULTS.md"), "w").write("\n".join(lines) + "\n")
    print("\n".join(lines[4:8 + len(props)]))


if __name__ == "__main__":
    ap = argparse.ArgumentParser()
    sub = ap.add_subparsers(dest="cmd", required=True)
    g = sub.add_parser("gen"); g.add_argument("--per-prop", type=int, default=12); g.add_argument("--seed", type=int, default=1); g.add_argument("--props", default=""); g.add_argument("--tag", default="x")
    r = sub.add_parser("run"); r.add_argument("--workers", type=int, default=4); r.add_argument("--props", default=""); r.add_argument("--redo", action="store_true")
    t = sub.add_parser("table")
    a = ap.parse_args()
    {"gen": gen, "run": run, "table": table}[a.cmd](a)
