#!/usr/bin/env python3
"""Copies confirmed seeded changes from /tmp/seed/out/<prop>/<mN> into /verif/seeded/<prop>-<mN>/
(patch.diff, seed_demo.rs, README.md from its author, meta.json).  A change is installed only if
tools/seedverify.sh confirmed: demo passes without the change, the whole existing suite passes
with it, the demo fails with it."""
import json, os, re, shutil, subprocess, sys
SRC = sys.argv[1] if len(sys.argv) > 1 else "/tmp/seed/out"
PREFIX = sys.argv[2] if len(sys.argv) > 2 else ""
DST = "/verif/seeded"
head = subprocess.check_output(["git", "-C", "/repo", "rev-parse", "--short", "HEAD"]).decode().strip()
for prop in sorted(os.listdir(SRC)):
    for m in sorted(os.listdir(os.path.join(SRC, prop))):
        d = os.path.join(SRC, prop, m)
        log = os.path.join(d, "verify.log")
        if not os.path.exists(log):
            continue
        t = open(log).read()
        ok = ("demo-without: PASS" in t and "suite-with: PASS" in t and "demo-with: FAIL (good)" in t)
        out = os.path.join(DST, f"{prop}-{PREFIX}{m}")
        if not ok:
            print(f"{prop}-{m}: NOT confirmed, skipped"); continue
        if os.path.exists(os.path.join(out, "meta.json")):
            continue
        os.makedirs(out, exist_ok=True)
        for f in ("patch.diff", "seed_demo.rs", "README.md"):
            if os.path.exists(os.path.join(d, f)):
                shutil.copy(os.path.join(d, f), os.path.join(out, f))
        readme = open(os.path.join(d, "README.md")).read() if os.path.exists(os.path.join(d, "README.md")) else ""
        files = re.findall(r"^\+\+\+ b/(\S+)", open(os.path.join(d, "patch.diff")).read(), re.M)
        meta = {
            "breaks_property": prop,
            "files_changed": files,
            "origin": "independent sub-agent given only the property text and a scratch worktree of the repository",
            "needs_to_manifest": "see README.md (written by the change's author)",
            "confirmed_by_coordinator": {
                "command": "tools/seedverify.sh <dir>  (scratch worktree of /repo HEAD; cargo test --offline)",
                "demo_without_change": "pass", "existing_suite_with_change": "pass", "demo_with_change": "fail",
                "repo_head_when_confirmed": head,
            },
            "detected_by": {},
        }
        json.dump(meta, open(os.path.join(out, "meta.json"), "w"), indent=1)
        print(f"{prop}-{PREFIX}{m}: installed")
