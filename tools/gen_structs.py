#!/usr/bin/env python3
"""gen_structs.py — translates the struct/enum definitions of an easy-ml checkout into the Lean
table `lean/EasyMl/Generated/Structs.lean` used by the auto-trait (Send/Sync) theorems of C20.

    tools/gen_structs.py [--repo DIR] [--out FILE] [--check]

For every `struct` / `enum` item under <repo>/src (doc comments, `#[cfg(test)]` modules and
function bodies excluded) it records the type parameters (lifetimes and const generics are erased:
they play no role for auto traits) and the field types of all fields / variants as terms of
`EasyMl.Auto.Ty`, plus explicit `unsafe impl Send/Sync` items.  Type aliases (`pub type`) are
expanded; references to other crate types are resolved through the file's `use` items.

The module is also imported by props/c20_extra.py (`load(repo)` returns the parsed table, the
aliases and a `TypeParser` for probe type expressions).
"""
import argparse
import os
import re
import sys

ROOT = os.path.dirname(os.path.dirname(os.path.abspath(__file__)))
DEFAULT_OUT = os.path.join(ROOT, "lean", "EasyMl", "Generated", "Structs.lean")

PRIMS = {"usize", "isize", "u8", "u16", "u32", "u64", "u128", "i8", "i16", "i32", "i64", "i128", "f32", "f64",
         "bool", "char", "str", "String"}
UNARY_STD = {"Vec": "vec", "Option": "option", "Box": "box", "Range": "range", "RangeInclusive": "range",
             "PhantomData": "phantom", "RefCell": "refCell", "Cell": "cell", "Rc": "rc", "Arc": "arc",
             "Mutex": "mutex", "RwLock": "unknown", "UnsafeCell": "refCell", "VecDeque": "vec",
             "NonNull": "rawPtr", "Wrapping": "box", "Saturating": "box"}


class TranslateError(Exception):
    pass


# ---------------------------------------------------------------------------------------------
# lexical cleaning
# ---------------------------------------------------------------------------------------------

def strip_comments_and_strings(text):
    """Removes // and (nested) /* */ comments; replaces string/char literals by empty ones."""
    out = []
    i, n = 0, len(text)
    depth = 0
    while i < n:
        if depth > 0:
            if text.startswith("/*", i):
                depth += 1
                i += 2
            elif text.startswith("*/", i):
                depth -= 1
                i += 2
            else:
                if text[i] == "\n":
                    out.append("\n")
                i += 1
            continue
        if text.startswith("/*", i):
            depth = 1
            i += 2
        elif text.startswith("//", i):
            while i < n and text[i] != "\n":
                i += 1
        elif text[i] == '"':
            j = i + 1
            while j < n and text[j] != '"':
                j += 2 if text[j] == "\\" else 1
            out.append('""')
            i = j + 1
        elif text[i] == "'" and re.match(r"'(\\.|[^\\'])'", text[i:i + 4]):
            m = re.match(r"'(\\.|[^\\'])'", text[i:i + 4])
            out.append("' '")
            i += m.end()
        else:
            out.append(text[i])
            i += 1
    return "".join(out)


def match_close(s, i, op, cl):
    """s[i] == op; returns index of the matching closer."""
    d = 0
    j = i
    while j < len(s):
        if s[j] == op:
            d += 1
        elif s[j] == cl:
            d -= 1
            if d == 0:
                return j
        j += 1
    raise TranslateError("unbalanced " + op)


def match_angle(s, i):
    """s[i] == '<'; matching '>' ignoring '->' arrows."""
    d = 0
    j = i
    while j < len(s):
        c = s[j]
        if c == "<":
            d += 1
        elif c == ">" and s[j - 1] != "-":
            d -= 1
            if d == 0:
                return j
        j += 1
    raise TranslateError("unbalanced <")


def split_top(s, sep=","):
    """split at top-level separators (outside <>, (), [], {})"""
    parts, cur, d = [], [], 0
    i = 0
    while i < len(s):
        c = s[i]
        if c in "<([{":
            d += 1
        elif c in ")]}":
            d -= 1
        elif c == ">" and (i == 0 or s[i - 1] != "-"):
            d -= 1
        if c == sep and d == 0:
            parts.append("".join(cur))
            cur = []
        else:
            cur.append(c)
        i += 1
    if "".join(cur).strip():
        parts.append("".join(cur))
    return [p.strip() for p in parts]


def blank_out(text, spans):
    chars = list(text)
    for a, b in spans:
        for k in range(a, b):
            if chars[k] != "\n":
                chars[k] = " "
    return "".join(chars)


def remove_test_modules_and_fn_bodies(text):
    """Blank out `#[cfg(test)] mod … { }` and the bodies of functions (local items are not API)."""
    spans = []
    for m in re.finditer(r"#\[cfg\(test\)\]\s*(pub\s+)?mod\s+\w+\s*\{", text):
        spans.append((m.start(), match_close(text, m.end() - 1, "{", "}") + 1))
    text = blank_out(text, spans)
    spans = []
    for m in re.finditer(r"\bfn\s+\w+", text):
        # find the body: first '{' at depth 0 of <>() after the signature, or ';' (trait method)
        j = m.end()
        d = 0
        while j < len(text):
            c = text[j]
            if c in "(<[":
                d += 1
            elif c in ")]" or (c == ">" and text[j - 1] != "-"):
                d -= 1
            elif c == ";" and d <= 0:
                break
            elif c == "{" and d <= 0:
                spans.append((j + 1, match_close(text, j, "{", "}")))
                break
            j += 1
    return blank_out(text, spans)


def strip_attributes(s):
    out = []
    i = 0
    while i < len(s):
        if s[i] == "#" and i + 1 < len(s) and s[i + 1] in "[!":
            j = s.index("[", i)
            i = match_close(s, j, "[", "]") + 1
        else:
            out.append(s[i])
            i += 1
    return "".join(out)


# ---------------------------------------------------------------------------------------------
# type expressions -> AST
#   ("param", name) ("prim",) ("ref", t) ("mutRef", t) ("un", ctor, t) ("tuple", [ts]) ("fnPtr",)
#   ("dyn", send, sync) ("path", name, [generic args as AST or ("lifetime",) / ("const",)]) ("unknown", why)
# ---------------------------------------------------------------------------------------------

def parse_type(s):
    s = s.strip()
    if not s:
        raise TranslateError("empty type")
    if s.startswith("&"):
        rest = s[1:].strip()
        rest = re.sub(r"^'\w+\s*", "", rest)
        if re.match(r"mut\b", rest):
            return ("mutRef", parse_type(rest[3:]))
        return ("ref", parse_type(rest))
    if s.startswith("*const ") or s.startswith("*mut "):
        return ("un", "rawPtr", parse_type(s.split(" ", 1)[1]))
    if s.startswith("("):
        end = match_close(s, 0, "(", ")")
        if end != len(s) - 1:
            raise TranslateError("cannot parse " + s)
        inner = s[1:-1].strip()
        if not inner:
            return ("prim",)
        parts = split_top(inner)
        if len(parts) == 1 and not inner.rstrip().endswith(","):
            return parse_type(parts[0])
        return ("tuple", [parse_type(p) for p in parts])
    if s.startswith("["):
        inner = s[1:match_close(s, 0, "[", "]")]
        parts = split_top(inner, ";")
        if len(parts) == 2:
            return ("un", "array", parse_type(parts[0]))
        return ("un", "slice", parse_type(inner))
    if re.match(r"(unsafe\s+)?(extern\s+\"\"\s+)?fn\s*\(", s):
        return ("fnPtr",)
    if re.match(r"dyn\b", s):
        bounds = [b.strip() for b in split_top(s[3:], "+")]
        return ("dyn", "Send" in bounds, "Sync" in bounds)
    if re.match(r"impl\b", s):
        return ("unknown", "impl Trait")
    if s == "!":
        return ("prim",)
    # a path, possibly with generic arguments on the last segment
    m = re.match(r"^((?:[A-Za-z_]\w*\s*::\s*)*)([A-Za-z_]\w*)\s*(<.*>)?$", s, flags=re.S)
    if not m:
        return ("unknown", "syntax: " + s)
    prefix, name, generics = m.group(1), m.group(2), m.group(3)
    args = []
    if generics:
        for a in split_top(generics[1:-1]):
            if a.startswith("'"):
                args.append(("lifetime",))
            elif re.fullmatch(r"[0-9_]+(usize)?|\{.*\}|true|false", a):
                args.append(("const", a))
            else:
                args.append(parse_type(a))
    return ("path", name, args, re.sub(r"\s+", "", prefix))


# ---------------------------------------------------------------------------------------------
# items
# ---------------------------------------------------------------------------------------------

class Param:
    def __init__(self, kind, name, default=None, bounds=""):
        self.kind, self.name, self.default, self.bounds = kind, name, default, bounds


def parse_generics(s):
    """'<'a, T: X = Y, const D: usize>' (without the brackets) -> [Param]"""
    params = []
    for p in split_top(s):
        if not p:
            continue
        if p.startswith("'"):
            params.append(Param("lifetime", p.split(":")[0].strip()))
        elif p.startswith("const "):
            params.append(Param("const", re.match(r"const\s+(\w+)", p).group(1)))
        else:
            default = None
            if "=" in p:
                # '=' at top level only
                eq = split_top(p, "=")
                if len(eq) == 2:
                    p, default = eq[0].strip(), eq[1].strip()
            name = re.match(r"(\w+)", p).group(1)
            bounds = p.split(":", 1)[1].strip() if ":" in p else ""
            params.append(Param("type", name, default, bounds))
    return params


class Item:
    def __init__(self):
        self.kind = ""          # struct | enum
        self.name = ""
        self.module = ""        # crate-relative module path of the file, e.g. tensors::indexing
        self.file = ""
        self.public = False
        self.params = []        # [Param]
        self.field_srcs = []    # source text of the field types
        self.fields = []        # ASTs
        self.explicit = []      # [(trait, [(param index, trait)])]
        self.qual = ""

    @property
    def type_params(self):
        return [p for p in self.params if p.kind == "type"]


class Alias:
    def __init__(self, name, module, file, params, body_src):
        self.name, self.module, self.file, self.params, self.body_src = name, module, file, params, body_src
        self.body = parse_type(body_src)


def module_of(relpath):
    p = relpath[:-3]
    parts = p.split(os.sep)
    if parts[-1] in ("mod", "lib"):
        parts = parts[:-1]
    return "::".join(parts)


def parse_uses(text, module):
    """name -> module path it is imported from (crate-relative), for `use crate::…` / `use super::…`"""
    uses = {}

    def add(path, name, alias=None):
        uses[alias or name] = path

    def walk(prefix, tree):
        tree = tree.strip()
        if tree.startswith("{"):
            for part in split_top(tree[1:match_close(tree, 0, "{", "}")]):
                walk(prefix, part)
            return
        m = re.match(r"^([\w]+)\s*::\s*(.*)$", tree, flags=re.S)
        if m and not tree.startswith("{"):
            walk(prefix + [m.group(1)], m.group(2))
            return
        m = re.match(r"^(\w+|\*)(\s+as\s+(\w+))?$", tree)
        if m:
            if m.group(1) == "self":
                add("::".join(prefix[:-1]), prefix[-1], m.group(3))
            elif m.group(1) != "*":
                add("::".join(prefix), m.group(1), m.group(3))

    for m in re.finditer(r"\buse\s+([^;]+);", text):
        tree = m.group(1).strip()
        if tree.startswith("crate::"):
            walk([], tree[len("crate::"):])
        elif tree.startswith("super::"):
            base = module.split("::")[:-1] if module else []
            rest = tree[len("super::"):]
            while rest.startswith("super::"):
                base = base[:-1]
                rest = rest[len("super::"):]
            walk(base, rest)
        elif tree.startswith("self::"):
            walk(module.split("::") if module else [], tree[len("self::"):])
    return uses


def parse_file(repo_src, relpath):
    raw = open(os.path.join(repo_src, relpath), encoding="utf-8").read()
    text = strip_comments_and_strings(raw)
    text = remove_test_modules_and_fn_bodies(text)
    module = module_of(relpath)
    items, aliases, impls = [], [], []
    for m in re.finditer(r"(?<![\w])(pub(\s*\([^)]*\))?\s+)?(struct|enum)\s+(\w+)\s*", text):
        it = Item()
        it.kind, it.name, it.module, it.file = m.group(3), m.group(4), module, relpath
        it.public = bool(m.group(1)) and not m.group(2)
        i = m.end()
        if i < len(text) and text[i] == "<":
            j = match_angle(text, i)
            it.params = parse_generics(text[i + 1:j])
            i = j + 1
        # skip a where clause up to the body
        k = i
        while k < len(text) and text[k] not in "{(;":
            k += 1
        if k >= len(text):
            continue
        if text[k] == ";":
            body, tuple_body = "", False
        elif text[k] == "(":
            e = match_close(text, k, "(", ")")
            body, tuple_body = text[k + 1:e], True
        else:
            e = match_close(text, k, "{", "}")
            body, tuple_body = text[k + 1:e], False
        body = strip_attributes(body)
        if it.kind == "struct":
            it.field_srcs = struct_field_types(body, tuple_body)
        else:
            it.field_srcs = enum_field_types(body)
        items.append(it)
    for m in re.finditer(r"(?<![\w])(pub(\s*\([^)]*\))?\s+)?type\s+(\w+)\s*(<[^=]*>)?\s*=\s*([^;]+);", text):
        params = parse_generics(m.group(4)[1:-1]) if m.group(4) else []
        try:
            aliases.append(Alias(m.group(3), module, relpath, params, re.sub(r"\s+", " ", m.group(5).strip())))
        except TranslateError:
            pass
    for m in re.finditer(r"(unsafe\s+)?impl\s*(<[^{;]*?>)?\s*(!)?\s*(Send|Sync)\s+for\s+([^{;]+?)\s*(where[^{]*)?\{", text):
        impls.append({"negative": bool(m.group(3)), "trait": m.group(4), "generics": m.group(2) or "",
                      "target": m.group(5).strip(), "where": m.group(6) or "", "file": relpath, "module": module})
    return items, aliases, impls, parse_uses(text, module)


def strip_vis(s):
    return re.sub(r"^\s*pub(\s*\([^)]*\))?\s+", "", s.strip())


def struct_field_types(body, tuple_body):
    out = []
    for part in split_top(body):
        part = strip_vis(part)
        if not part:
            continue
        if tuple_body:
            out.append(part)
        else:
            if ":" not in part:
                continue
            out.append(part.split(":", 1)[1].strip())
    return out


def enum_field_types(body):
    out = []
    for variant in split_top(body):
        variant = variant.strip()
        if not variant:
            continue
        m = re.match(r"^(\w+)\s*(.*)$", variant, flags=re.S)
        rest = m.group(2).strip()
        if rest.startswith("("):
            out += struct_field_types(rest[1:match_close(rest, 0, "(", ")")], True)
        elif rest.startswith("{"):
            out += struct_field_types(rest[1:match_close(rest, 0, "{", "}")], False)
    return out


# ---------------------------------------------------------------------------------------------
# the table
# ---------------------------------------------------------------------------------------------

class Table:
    def __init__(self, repo):
        self.repo = repo
        src = os.path.join(repo, "src")
        self.items, self.aliases, self.impls, self.uses = [], [], [], {}
        self.leaves = {}
        for base, _dirs, files in sorted(os.walk(src)):
            for fn in sorted(files):
                if fn.endswith(".rs"):
                    rel = os.path.relpath(os.path.join(base, fn), src)
                    items, aliases, impls, uses = parse_file(src, rel)
                    self.items += items
                    self.aliases += aliases
                    self.impls += impls
                    self.uses[rel] = uses
        for it in self.items:
            it.qual = (it.module + "::" if it.module else "") + it.name
        self.items.sort(key=lambda it: it.qual)
        quals = [it.qual for it in self.items]
        dup = {q for q in quals if quals.count(q) > 1}
        if dup:
            # same name twice in one module (inline modules): disambiguate by order
            seen = {}
            for it in self.items:
                if it.qual in dup:
                    seen[it.qual] = seen.get(it.qual, 0) + 1
                    it.qual = f"{it.qual}#{seen[it.qual]}"
        self.ids = {it.qual: i for i, it in enumerate(self.items)}
        for it in self.items:
            it.fields = []
            for src_ty in it.field_srcs:
                try:
                    ast = parse_type(src_ty)
                except TranslateError as e:
                    ast = ("unknown", str(e))
                it.fields.append(self.resolve(ast, it.file, [p.name for p in it.type_params]))
        self.attach_impls()

    # -- name resolution -------------------------------------------------------------------
    def find_item(self, name, file, prefix=""):
        cands = [it for it in self.items if it.name == name]
        if not cands:
            return None
        if len(cands) == 1:
            return cands[0]
        same = [it for it in cands if it.file == file]
        if len(same) == 1:
            return same[0]
        imported = self.uses.get(file, {}).get(name)
        if prefix.startswith("crate::"):
            imported = prefix[len("crate::"):].rstrip(":")
        if imported is not None:
            exact = [it for it in cands if it.module == imported]
            if len(exact) == 1:
                return exact[0]
            pref = [it for it in cands if it.module.startswith(imported)]
            if len(pref) == 1:
                return pref[0]
        return None

    def find_alias(self, name, file):
        cands = [a for a in self.aliases if a.name == name]
        if not cands:
            return None
        same = [a for a in cands if a.file == file]
        return (same or cands)[0]

    def resolve(self, ast, file, tparams):
        """AST with paths -> AST with ("adt", id, args) / params / std constructors"""
        k = ast[0]
        if k in ("prim", "fnPtr", "dyn", "unknown", "leaf"):
            return ast
        if k in ("ref", "mutRef"):
            return (k, self.resolve(ast[1], file, tparams))
        if k == "un":
            return ("un", ast[1], self.resolve(ast[2], file, tparams))
        if k == "tuple":
            return ("tuple", [self.resolve(t, file, tparams) for t in ast[1]])
        if k == "param":
            return ast
        assert k == "path", ast
        _, name, args, prefix = ast
        targs = [a for a in args if a[0] not in ("lifetime", "const")]
        if not prefix and not args and name in tparams:
            return ("param", tparams.index(name))
        if not prefix and not args and name in self.leaves:
            return self.leaves[name]
        if prefix.startswith("easy_ml::"):
            prefix = "crate::" + prefix[len("easy_ml::"):]
        if name == "Self" and not args:
            return ("unknown", "Self")
        is_std_path = prefix.startswith("std::") or prefix.startswith("core::") or prefix.startswith("alloc::")
        if name in PRIMS and not args:
            return ("prim",)
        local = None if is_std_path else self.find_item(name, file, prefix)
        alias = None if (is_std_path or local) else self.find_alias(name, file)
        if local is None and alias is None:
            if name in UNARY_STD and len(targs) == 1:
                ctor = UNARY_STD[name]
                if ctor == "unknown":
                    return ("unknown", name)
                return ("un", ctor, self.resolve(targs[0], file, tparams))
            if name in ("Iter",) and len(targs) == 1:       # std::slice::Iter<'a, T>
                return ("ref", ("un", "slice", self.resolve(targs[0], file, tparams)))
            if name in ("IterMut",) and len(targs) == 1:
                return ("mutRef", ("un", "slice", self.resolve(targs[0], file, tparams)))
            return ("unknown", "unresolved type " + prefix + name)
        if alias is not None:
            # substitute the alias' type parameters
            a_tparams = [p for p in alias.params if p.kind == "type"]
            nonlife = [a for a in args if a[0] != "lifetime"]
            a_nonlife = [p for p in alias.params if p.kind != "lifetime"]
            subst = {}
            for p, a in zip(a_nonlife, nonlife):
                if p.kind == "type":
                    subst[p.name] = self.resolve(a, file, tparams)
            body = self.resolve(alias.body, alias.file, [p.name for p in a_tparams])
            if len(subst) != len(a_tparams):
                return ("unknown", "alias arity " + name)
            return substitute(body, [subst[p.name] for p in a_tparams])
        # a crate ADT: keep the type arguments only, fill defaults
        nonlife_params = [p for p in local.params if p.kind != "lifetime"]
        nonlife_args = [a for a in args if a[0] != "lifetime"]
        out = []
        for idx, p in enumerate(nonlife_params):
            if p.kind != "type":
                continue
            if idx < len(nonlife_args):
                out.append(self.resolve(nonlife_args[idx], file, tparams))
            elif p.default is not None:
                # defaults may mention earlier parameters of the callee
                d = self.resolve(parse_type(p.default), local.file, [q.name for q in local.type_params])
                out.append(substitute(d, list(out) + [("unknown", "fwd")] * len(local.type_params)))
            else:
                return ("unknown", "missing type argument for " + name)
        return ("adt", self.ids[local.qual], out)

    def resolve_probe_type(self, ty, leaves):
        """a Rust type expression of a probe program (names `E11`… stand for opaque types with known
        auto traits) -> AST over this table"""
        self.leaves = leaves
        try:
            return self.resolve(parse_type(ty), "<probe>", [])
        finally:
            self.leaves = {}

    def attach_impls(self):
        for imp in self.impls:
            try:
                t = parse_type(imp["target"])
            except TranslateError:
                continue
            if t[0] != "path":
                continue
            it = self.find_item(t[1], imp["file"], t[3])
            if it is None:
                continue
            if imp["negative"]:
                it.explicit.append((imp["trait"].lower(), [(10 ** 6, "send")]))   # never holds
                continue
            gen = parse_generics(imp["generics"][1:-1]) if imp["generics"] else []
            targ_names = []
            for a in t[2]:
                if a[0] in ("lifetime", "const"):
                    continue
                targ_names.append(a[1] if a[0] == "path" and not a[2] else None)
            bounds = {}
            for p in gen:
                if p.kind == "type":
                    bounds.setdefault(p.name, [])
                    bounds[p.name] += [b.strip() for b in split_top(p.bounds, "+")] if p.bounds else []
            if imp["where"]:
                for clause in split_top(imp["where"][len("where"):]):
                    if ":" in clause:
                        n, b = clause.split(":", 1)
                        bounds.setdefault(n.strip(), [])
                        bounds[n.strip()] += [x.strip() for x in split_top(b, "+")]
            req = []
            for pos, n in enumerate(targ_names):
                for b in bounds.get(n, []) if n else []:
                    if b in ("Send", "Sync"):
                        req.append((pos, b.lower()))
            it.explicit.append((imp["trait"].lower(), req))


def substitute(ast, args):
    k = ast[0]
    if k == "param":
        return args[ast[1]] if ast[1] < len(args) else ("unknown", "param out of range")
    if k in ("ref", "mutRef"):
        return (k, substitute(ast[1], args))
    if k == "un":
        return ("un", ast[1], substitute(ast[2], args))
    if k == "tuple":
        return ("tuple", [substitute(t, args) for t in ast[1]])
    if k == "adt":
        return ("adt", ast[1], [substitute(t, args) for t in ast[2]])
    return ast


# ---------------------------------------------------------------------------------------------
# output
# ---------------------------------------------------------------------------------------------

def lean_ty(ast, param_names=None):
    k = ast[0]
    if k == "param":
        return param_names[ast[1]] if param_names else f".param {ast[1]}"
    if k == "leaf":
        return f".leaf {'true' if ast[1] else 'false'} {'true' if ast[2] else 'false'}"
    if k == "prim":
        return ".prim"
    if k == "fnPtr":
        return ".fnPtr"
    if k == "dyn":
        return f".dyn {'true' if ast[1] else 'false'} {'true' if ast[2] else 'false'}"
    if k == "unknown":
        return ".unknown"
    if k in ("ref", "mutRef"):
        return f".{k} ({lean_ty(ast[1], param_names)})"
    if k == "un":
        return f".{ast[1]} ({lean_ty(ast[2], param_names)})"
    if k == "tuple":
        return ".tuple [" + ", ".join(lean_ty(t, param_names) for t in ast[1]) + "]"
    if k == "adt":
        return f".adt {ast[1]} [" + ", ".join(lean_ty(t, param_names) for t in ast[2]) + "]"
    raise TranslateError("cannot print " + repr(ast))


def sexp_ty(ast, table):
    """the driver's query syntax (definitions by qualified name)"""
    k = ast[0]
    if k == "leaf":
        return f"(leaf {int(ast[1])} {int(ast[2])})"
    if k in ("prim", "fnPtr", "unknown"):
        return k
    if k == "dyn":
        return f"(dyn {int(ast[1])} {int(ast[2])})"
    if k in ("ref", "mutRef"):
        return f"({k} {sexp_ty(ast[1], table)})"
    if k == "un":
        return f"({ast[1]} {sexp_ty(ast[2], table)})"
    if k == "tuple":
        return "(tuple" + "".join(" " + sexp_ty(t, table) for t in ast[1]) + ")"
    if k == "adt":
        return f"(adt {table.items[ast[1]].qual}" + "".join(" " + sexp_ty(t, table) for t in ast[2]) + ")"
    raise TranslateError("cannot print " + repr(ast))


def lean_ident(qual, unique_simple):
    simple = qual.split("::")[-1].split("#")[0]
    if unique_simple:
        return simple
    mod = "_".join(qual.split("::")[:-1])
    return f"{simple}_{mod}" + (("_" + qual.split("#")[1]) if "#" in qual else "")


def render(table):
    names = [it.name for it in table.items]
    L = []
    L.append("/-")
    L.append("  GENERATED by tools/gen_structs.py from the `src/` tree of the easy-ml checkout under test.")
    L.append("  Do not edit: the file is rewritten by every `verif.py check C20` run; the committed copy is")
    L.append("  the one generated from the pinned tree.  One entry per struct / enum: its name, the number")
    L.append("  of type parameters (lifetimes and const generics erased) and the types of all its fields /")
    L.append("  variant payloads as `EasyMl.Auto.Ty` terms; explicit `unsafe impl Send/Sync` items.")
    L.append("-/")
    L.append("import EasyMl.Model.AutoTraits")
    L.append("")
    L.append("namespace EasyMl.Generated")
    L.append("open EasyMl.Auto")
    L.append("")
    L.append("def structs : Env := [")
    for i, it in enumerate(table.items):
        fields = ", ".join(lean_ty(f) for f in it.fields)
        expl = ""
        if it.explicit:
            imps = []
            for tr, req in it.explicit:
                rq = ", ".join(f"({p}, .{t})" for p, t in req)
                imps.append(f"{{ tr := .{tr}, requires := [{rq}] }}")
            expl = ", explicit := [" + ", ".join(imps) + "]"
        L.append(f"  -- {i}: {it.qual}  ({'pub ' if it.public else ''}{it.kind}, {it.file})")
        for src in it.field_srcs:
            L.append(f"  --      {re.sub(chr(10), ' ', src)[:110]}")
        comma = "," if i + 1 < len(table.items) else ""
        L.append(f"  {{ name := \"{it.qual}\", nparams := {len(it.type_params)}, fields := [{fields}]{expl} }}{comma}")
    L.append("]")
    L.append("")
    L.append("-- table indices by name")
    L.append("namespace Id")
    for i, it in enumerate(table.items):
        L.append(f"def {lean_ident(it.qual, names.count(it.name) == 1)} : Nat := {i}")
    L.append("end Id")
    L.append("")
    L.append("/-- the public structs and enums of the crate -/")
    L.append("def publicIds : List Nat := [" + ", ".join(str(i) for i, it in enumerate(table.items) if it.public) + "]")
    L.append("")
    L.append("-- type aliases, expanded")
    L.append("namespace Alias")
    for a in table.aliases:
        tps = [p for p in a.params if p.kind == "type"]
        if not tps:
            continue
        body = table.resolve(a.body, a.file, [p.name for p in tps])
        L.append(f"-- type {a.name}<…> = {a.body_src}")
        L.append(f"def {a.name} " + " ".join(f"({p.name} : Ty)" for p in tps) + f" : Ty := {lean_ty(body, [p.name for p in tps])}")
    L.append("end Alias")
    L.append("")
    L.append("end EasyMl.Generated")
    return "\n".join(L) + "\n"


def load(repo):
    return Table(repo)


def main():
    ap = argparse.ArgumentParser()
    ap.add_argument("--repo", default=os.environ.get("EASYML_REPO", "/repo"))
    ap.add_argument("--out", default=DEFAULT_OUT)
    ap.add_argument("--check", action="store_true", help="do not write; exit 1 if the file would change")
    args = ap.parse_args()
    table = Table(args.repo)
    text = render(table)
    old = open(args.out).read() if os.path.exists(args.out) else None
    if args.check:
        sys.exit(0 if old == text else 1)
    if old != text:
        os.makedirs(os.path.dirname(args.out), exist_ok=True)
        with open(args.out, "w") as f:
            f.write(text)
        print(f"wrote {args.out}: {len(table.items)} definitions" + (" (changed)" if old is not None else ""))
    else:
        print(f"{args.out} up to date: {len(table.items)} definitions")


if __name__ == "__main__":
    main()
