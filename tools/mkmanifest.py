#!/usr/bin/env python3
"""Regenerates /verif/MANIFEST.json from props/*.json (one registry file per property) and
tools/manifest_base.json.  Properties without a registry file are listed under not_applicable
with the reason given in tools/manifest_base.json."""
import json, os, re
ROOT = os.path.dirname(os.path.dirname(os.path.abspath(__file__)))
base = json.load(open(os.path.join(ROOT, "tools", "manifest_base.json")))
ids = [json.loads(l)["id"] for l in open(os.path.join(ROOT, "properties.jsonl"))]
checks, na = [], []
for pid in ids:
    p = os.path.join(ROOT, "props", pid + ".json")
    if os.path.exists(p):
        r = json.load(open(p))
        unproved = r.get("level") == "proof" and not r.get("theorems")
        if unproved:
            r = dict(r, claimed=False, not_applicable_reason=(
                "not claimed in this revision: the model and the correspondence run exist, but no property "
                "theorem is registered yet, so nothing would decide it by proof"))
        if r.get("claimed", True):
            checks.append({
                "property_id": pid,
                "quick_cmd": f"python3 verif.py check {pid} --tier quick",
                "thorough_cmd": f"python3 verif.py check {pid} --tier thorough",
                "evidence_file": f"evidence/{pid}.json",
                "replay_cmd_template": "python3 verif.py replay {path}",
                "engine": "lean4-proof+correspondence",
                "level_claimed": {"category": r["level"], "text": r["level_text"], "design_ref": r.get("design_ref", "DESIGN.md §7")},
                "level_note": r["level_note"],
                "technique": r["technique"],
            })
            continue
        na.append({"property_id": pid, "reason": r.get("not_applicable_reason", "not claimed")})
    else:
        na.append({"property_id": pid, "reason": base["pending_reason"]})
m = {"version": 1, "setup_cmd": base["setup_cmd"], "hooks": base["hooks"], "engines": base["engines"],
     "checks": checks, "notes": base["notes"], "not_applicable": na}
json.dump(m, open(os.path.join(ROOT, "MANIFEST.json"), "w"), indent=1)
print(f"MANIFEST.json: {len(checks)} checks, {len(na)} not_applicable")
