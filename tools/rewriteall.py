#!/usr/bin/env python3
"""Harmless-rewrite test: installs behaviour-preserving refactors produced by independent sub-agents
(/tmp/refac/out/<prop>/<rN>/{patch.diff,README.md}) under /verif/rewrites/<prop>-<rN>/ and runs the
property's check (plus any listed in REWRITE_EXTRA_CHECKS) against a scratch worktree of /repo HEAD
with the patch applied.  A check that stays quiet (exit 0) is the wanted outcome; a
`no-failing-input-found` report is the accepted-but-noisy outcome; a concrete VIOLATION would be a
false alarm (or the rewrite is not harmless after all — look at the replay)."""
import json, os, shutil, subprocess, sys, hashlib
ROOT = "/verif"; SRC = "/tmp/refac/out"; DST = os.path.join(ROOT, "rewrites")
os.makedirs(DST, exist_ok=True)
only = sys.argv[1:]
extra = [a for a in os.environ.get("REWRITE_EXTRA_CHECKS", "").split(",") if a]
# new rewrites delivered under /tmp/refac/out/<prop>/<rN>/ are installed first
if os.path.isdir(SRC):
    for prop in sorted(os.listdir(SRC)):
        for r in sorted(os.listdir(os.path.join(SRC, prop))):
            d = os.path.join(SRC, prop, r)
            if os.path.isfile(os.path.join(d, "patch.diff")):
                out = os.path.join(DST, f"{prop}-{r}")
                os.makedirs(out, exist_ok=True)
                for f in ("patch.diff", "README.md"):
                    if os.path.exists(os.path.join(d, f)):
                        shutil.copy(os.path.join(d, f), os.path.join(out, f))
for rid in sorted(os.listdir(DST)):
    out = os.path.join(DST, rid)
    if not os.path.isfile(os.path.join(out, "patch.diff")):
        continue
    prop = rid.split("-")[0]
    if only and rid not in only and prop not in only:
        continue
    if True:
        mp = os.path.join(out, "meta.json")
        meta = json.load(open(mp)) if os.path.exists(mp) else {"area_of_property": prop, "results": {}}
        wt = f"/tmp/rw-rewrite-{rid}"
        subprocess.run(["git", "-C", "/repo", "worktree", "remove", "--force", wt], capture_output=True)
        subprocess.run(["git", "-C", "/repo", "worktree", "add", "-q", "--detach", wt, "HEAD"], check=True)
        try:
            a = subprocess.run(["git", "-C", wt, "apply", os.path.join(out, "patch.diff")], capture_output=True)
            if a.returncode != 0:
                meta["results"]["_apply"] = "patch does not apply to HEAD: " + a.stderr.decode()[:200]
                print(rid, "patch does not apply"); continue
            t = subprocess.run(["cargo", "test", "--workspace", "--no-fail-fast", "--offline"], cwd=wt, capture_output=True,
                               env=dict(os.environ, CARGO_NET_OFFLINE="true"))
            meta["existing_suite_with_rewrite"] = "pass" if t.returncode == 0 else "FAIL"
            for pid in [prop] + extra:
                p = subprocess.run(["python3", "verif.py", "check", pid], cwd=ROOT, env=dict(os.environ, EASYML_REPO=wt),
                                   capture_output=True)
                o = p.stdout.decode()
                viol = [l for l in o.split("\n") if l.startswith("VIOLATION")]
                if p.returncode == 0:
                    verdict = "quiet (exit 0)"
                elif viol and all("no-failing-input-found" in l for l in viol):
                    verdict = "reports no-failing-input-found (tie broke, no failing input)"
                elif viol:
                    verdict = "REPORTS CONCRETE VIOLATION"
                else:
                    verdict = f"machinery error rc={p.returncode}"
                meta["results"][pid] = {"verdict": verdict, "lines": viol[:3]}
                print(rid, pid, verdict, "| suite:", meta["existing_suite_with_rewrite"])
        finally:
            json.dump(meta, open(mp, "w"), indent=1)
            subprocess.run(["git", "-C", "/repo", "worktree", "remove", "--force", wt], capture_output=True)
            subprocess.run(["rm", "-rf", os.path.join(ROOT, "harness", "target-" + hashlib.sha1(wt.encode()).hexdigest()[:8]), os.path.join(ROOT, "work", "hm-" + hashlib.sha1(wt.encode()).hexdigest()[:8]), os.path.join(ROOT, "work", "scratch-" + hashlib.sha1(wt.encode()).hexdigest()[:8])])
rows = []
for rid in sorted(os.listdir(DST)):
    mp = os.path.join(DST, rid, "meta.json")
    if os.path.exists(mp):
        m = json.load(open(mp))
        rows.append(f"| {rid} | {m.get('existing_suite_with_rewrite','?')} | " + "; ".join(f"{k}: {v['verdict']}" for k, v in m["results"].items() if isinstance(v, dict)) + " |")
open(os.path.join(DST, "RESULTS.md"), "w").write("# Harmless rewrites and what the checks say\n\n| rewrite | existing suite | checks |\n|---|---|---|\n" + "\n".join(rows) + "\n")
