#!/bin/sh
# tools/seedrun.sh <dir with patch.diff> <property id> [more property ids…]
# Runs the registered checks against a scratch worktree of /repo HEAD with the seeded change
# applied (EASYML_REPO), so /repo itself is never touched while other work uses it.
set -u
d="$(cd "$1" && pwd)"; shift
wt="/tmp/rw-seedrun-$$"
git -C /repo worktree add -q --detach "$wt" HEAD || exit 2
tag=$(python3 -c "import hashlib;print(hashlib.sha1(b\"$wt\").hexdigest()[:8])")
trap 'git -C /repo worktree remove --force "$wt" >/dev/null 2>&1; rm -rf "$(dirname "$0")/../harness/target-$tag" "$(dirname "$0")/../work/hm-$tag" "$(dirname "$0")/../work/scratch-$tag"' EXIT
if ! git -C "$wt" apply "$d/patch.diff"; then echo "patch does not apply"; exit 1; fi
cd "$(dirname "$0")/.."
for pid in "$@"; do
  EASYML_REPO="$wt" python3 verif.py check "$pid" --tier "${TIER:-quick}" > /tmp/seedrun-$$.log 2>&1
  rc=$?
  grep -E "VIOLATION|KNOWN-FINDING|MACHINERY|^\[" /tmp/seedrun-$$.log
  echo "check $pid exit=$rc"
  rm -f /tmp/seedrun-$$.log
done
