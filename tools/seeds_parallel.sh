#!/bin/bash
# final rerun of all seeds: 5 groups by property number mod 5
cd /verif
for g in 0 1 2 3 4; do
  ids=$(ls seeded | grep -E "^C[0-9]+" | awk -v g=$g '{ n=substr($0,2,2)+0; if (n%5==g) print }' | tr '\n' ' ')
  ( python3 tools/seedall.py $ids > /tmp/seedall_final_$g.log 2>&1; echo GROUP-DONE >> /tmp/seedall_final_$g.log ) &
done
wait
