#!/bin/sh
# tools/coverage.sh — development aid (not part of any check): measures which functions of the
# library the twenty correspondence workloads execute.  Builds the harness binaries with the
# nightly toolchain and `-C instrument-coverage` in a scratch directory outside /verif, runs every
# property's quick workload, and writes notes/coverage-gaps.md (functions never executed, by file)
# and notes/coverage-report.txt (llvm-cov per-file table).  Generic functions the harness never
# instantiates do not appear, so the gap list is a lower bound.
set -e
ROOT="$(cd "$(dirname "$0")/.." && pwd)"
W=/tmp/covh
LLVM=/root/.rustup/toolchains/nightly-x86_64-unknown-linux-gnu/lib/rustlib/x86_64-unknown-linux-gnu/bin
rm -rf "$W/src" "$W/prof" "$W/out"; mkdir -p "$W/prof" "$W/out"
cp -r "$ROOT/harness/src" "$ROOT/harness/Cargo.toml.in" "$ROOT/harness/.cargo" "$W/"
cp /repo/Cargo.lock "$W/"
cd "$W"
sed -e 's#@REPO@#/repo#' -e 's#@FEATURES@#"verif-hooks"#' -e 's#@HFEATURES@#"hooks"#' Cargo.toml.in > Cargo.toml
RUSTFLAGS="-C instrument-coverage -Awarnings" cargo +nightly build --offline --bins --target-dir "$W/target" 2>&1 | tail -1
objs=""
for i in 01 02 03 04 05 06 07 08 09 10 11 12 13 14 15 16 17 18 19 20; do
  p=C$i; b=target/debug/emlv-$p; objs="$objs -object $b"
  LLVM_PROFILE_FILE=prof/gen-$p.profraw $b gen $p "${TIER:-quick}" 0 2>/dev/null | grep -v '^#' > out/$p.ops || true
  LLVM_PROFILE_FILE=prof/run-$p.profraw $b run $p < out/$p.ops > out/$p.impl 2>/dev/null || true
done
$LLVM/llvm-profdata merge -sparse prof/run-*.profraw -o all.profdata
$LLVM/llvm-cov report $objs -instr-profile=all.profdata --ignore-filename-regex='(/tmp/covh|\.cargo|rustc|verif_hooks)' > "$ROOT/notes/coverage-report.txt" 2>/dev/null
$LLVM/llvm-cov export $objs -instr-profile=all.profdata --ignore-filename-regex='(/tmp/covh|\.cargo|rustc|verif_hooks)' -format=text -skip-expansions > cov.json 2>/dev/null
python3 - "$ROOT" <<'PY'
import json, collections, sys
root = sys.argv[1]
funcs = json.load(open('/tmp/covh/cov.json'))['data'][0]['functions']
agg = collections.defaultdict(int)
for f in funcs:
    fn = f['filenames'][0]
    if '/repo/src/' in fn:
        agg[(fn.replace('/repo/', ''), f['regions'][0][0])] += f['count']
byfile = collections.defaultdict(list)
for (fn, line), c in sorted(agg.items()):
    if c == 0:
        byfile[fn].append(line)
out = []
for fn, lines in byfile.items():
    src = open('/repo/' + fn).read().split('\n')
    out.append(f"\n## {fn} ({len(lines)} never executed)")
    for l in lines:
        k = l - 1
        while k > l - 8 and 'fn ' not in src[k]:
            k -= 1
        out.append(f"  {fn}:{l}: {src[k].strip()[:120]}")
open(root + '/notes/coverage-gaps.md', 'w').write(
    "# Functions of the library never executed by any correspondence workload (quick tier)\n\n"
    "Measured by tools/coverage.sh (`-C instrument-coverage`, nightly llvm-cov) over the twenty `emlv-Cxx run` workloads; "
    f"{len(agg)} functions by definition site, {sum(len(v) for v in byfile.values())} never executed.  Generic functions that the harness never "
    "instantiates do not appear at all, so this list is a lower bound of what is not driven.\n" + "\n".join(out) + "\n")
print(len(agg), "functions,", sum(len(v) for v in byfile.values()), "never executed")
PY
tail -3 "$ROOT/notes/coverage-report.txt"
