#!/usr/bin/env python3
"""verif.py — orchestrator of the Lean-4 proof machinery for easy-ml.

  verif.py setup                                  build the Lean package and the harness, offline
  verif.py check <Cxx> [--tier quick|thorough] [--seed N]
  verif.py replay <replay.json>                   re-execute a recorded failing case against the repo
  verif.py audit                                  axiom audit of every registered theorem

A check decides one property (DESIGN.md §5):
  1. the property's Lean theorems must build, be present and depend on no axiom outside
     {propext, Classical.choice, Quot.sound}; the Lean sources must contain no sorry/admit/...;
  2. the correspondence: the harness (rebuilt against the repo's working tree) and the compiled
     Lean model answer the same generated operation lines; the answers are compared;
  3. if 1 or 2 breaks, the failing case is classified: an answer differing in the part the
     property speaks about (before `##`) is a concrete failing input -> VIOLATION with replay;
     otherwise VIOLATION ... no-failing-input-found, naming what no longer checks.
Exit status: 0 held, 1 violation, 3 machinery/build error.
"""
import argparse
import fcntl
import hashlib
import importlib.util
import json
import os
import re
import shutil
import subprocess
import sys
import time

ROOT = os.path.dirname(os.path.abspath(__file__))
LEAN = os.path.join(ROOT, "lean")
HARNESS = os.path.join(ROOT, "harness")
GWORK = os.path.join(ROOT, "work")          # shared between runs: locks, audit cache, manifests
EVIDENCE = os.path.join(ROOT, "evidence")
CORPUS = os.path.join(ROOT, "corpus")
PROPS = os.path.join(ROOT, "props")
REPO = os.environ.get("EASYML_REPO", "/repo")
if os.path.abspath(REPO) == "/repo":
    WORK = GWORK
    REPLAY = os.path.join(ROOT, "replay")
else:
    # a run against a scratch checkout keeps all its files apart, so that concurrent runs of the
    # same property against different checkouts cannot read each other's streams
    WORK = os.path.join(GWORK, "scratch-" + hashlib.sha1(os.path.abspath(REPO).encode()).hexdigest()[:8])
    REPLAY = os.path.join(WORK, "replay")
ALLOWED_AXIOMS = {"propext", "Classical.choice", "Quot.sound"}
FORBIDDEN = re.compile(
    r"\b(sorry|admit|native_decide|bv_decide|implemented_by|unsafe)\b|^\s*axiom\s|maxHeartbeats\s+0\b"
)
MODEL_BIN = os.path.join(LEAN, ".lake", "build", "bin", "emlmodel")

ENV = dict(os.environ)
ENV.update({"CARGO_NET_OFFLINE": "true", "GOPROXY": "off", "PIP_NO_INDEX": "1"})


class MachineryError(Exception):
    pass


def log(msg):
    print(msg, flush=True)


def sh(cmd, cwd=None, stdin_path=None, stdout_path=None, timeout=None, check=True, env=None):
    """Run a command; returns (rc, stdout, stderr)."""
    stdin = open(stdin_path, "rb") if stdin_path else subprocess.DEVNULL
    stdout = open(stdout_path, "wb") if stdout_path else subprocess.PIPE
    try:
        p = subprocess.run(cmd, cwd=cwd, stdin=stdin, stdout=stdout, stderr=subprocess.PIPE,
                           timeout=timeout, env=env or ENV)
    finally:
        if stdin_path:
            stdin.close()
        if stdout_path:
            stdout.close()
    out = p.stdout.decode("utf-8", "replace") if p.stdout else ""
    err = p.stderr.decode("utf-8", "replace") if p.stderr else ""
    if check and p.returncode != 0:
        raise MachineryError(f"command failed ({p.returncode}): {' '.join(cmd)}\n{out[-3000:]}\n{err[-3000:]}")
    return p.returncode, out, err


class Lock:
    """Serialises lake / cargo builds between concurrently running checks."""

    def __init__(self, name):
        os.makedirs(GWORK, exist_ok=True)
        self.path = os.path.join(GWORK, name + ".lock")

    def __enter__(self):
        self.f = open(self.path, "w")
        fcntl.flock(self.f, fcntl.LOCK_EX)
        return self

    def __exit__(self, *a):
        fcntl.flock(self.f, fcntl.LOCK_UN)
        self.f.close()


# ------------------------------------------------------------------------------------------
# registry
# ------------------------------------------------------------------------------------------

def load_registry(pid):
    path = os.path.join(PROPS, pid + ".json")
    if not os.path.exists(path):
        raise MachineryError(f"no registry entry {path}")
    with open(path) as f:
        return json.load(f)


def all_property_ids():
    return sorted(f[:-5] for f in os.listdir(PROPS) if re.fullmatch(r"C\d+\.json", f))


def load_extra(pid):
    """Optional per-property python module props/<pid>_extra.py with run(ctx) -> dict."""
    path = os.path.join(PROPS, pid.lower() + "_extra.py")
    if not os.path.exists(path):
        return None
    spec = importlib.util.spec_from_file_location(pid.lower() + "_extra", path)
    mod = importlib.util.module_from_spec(spec)
    spec.loader.exec_module(mod)
    return mod


# ------------------------------------------------------------------------------------------
# building
# ------------------------------------------------------------------------------------------

def repo_tag():
    return hashlib.sha1(os.path.abspath(REPO).encode()).hexdigest()[:8]


def harness_target_dir(profile_release=False):
    return os.path.join(HARNESS, "target-" + repo_tag())


def harness_dir():
    """Directory holding the generated Cargo.toml of the harness for the checkout under test.
    For /repo it is harness/ itself; for a scratch checkout (EASYML_REPO) it is a directory of
    symlinks under work/, so that concurrent runs against different checkouts neither rewrite
    each other's manifest nor wait for one another's builds."""
    if os.path.abspath(REPO) == "/repo":
        return HARNESS
    d = os.path.join(GWORK, "hm-" + repo_tag())
    os.makedirs(d, exist_ok=True)
    for name in ("src", ".cargo", "Cargo.toml.in"):
        link = os.path.join(d, name)
        if not os.path.islink(link):
            try:
                os.symlink(os.path.join(HARNESS, name), link)
            except FileExistsError:
                pass
    return d


def harness_bin(pid, release=False):
    return os.path.join(harness_target_dir(), "release" if release else "debug", "emlv-" + pid)


def hooks_available():
    try:
        with open(os.path.join(REPO, "Cargo.toml")) as f:
            return "verif-hooks" in f.read()
    except OSError:
        return False


def build_harness(pid=None, release=False):
    """Builds the harness binary of one property (or of all, pid=None) against the checkout under
    test; one binary per property (harness/src/bin/emlv-Cxx.rs) keeps rebuilds after a change
    of the checkout small.  Returns the path of the property's binary."""
    hdir = harness_dir()
    with Lock("cargo" if hdir == HARNESS else "cargo-" + repo_tag()):
        with open(os.path.join(HARNESS, "Cargo.toml.in")) as f:
            tmpl = f.read()
        feats = '"verif-hooks"' if hooks_available() else ""
        text = (tmpl.replace("@REPO@", os.path.abspath(REPO)).replace("@FEATURES@", feats)
                .replace("@HFEATURES@", '"hooks"' if feats else ""))
        cargo_toml = os.path.join(hdir, "Cargo.toml")
        old = open(cargo_toml).read() if os.path.exists(cargo_toml) else None
        if old != text:
            with open(cargo_toml, "w") as f:
                f.write(text)
        lock = os.path.join(hdir, "Cargo.lock")
        if not os.path.exists(lock):
            for cand in (os.path.join(HARNESS, "Cargo.lock"), os.path.join(REPO, "Cargo.lock"), "/repo/Cargo.lock"):
                if os.path.exists(cand) and cand != lock:
                    shutil.copy(cand, lock)
                    break
        cmd = ["cargo", "build", "--offline", "--quiet", "--target-dir", harness_target_dir()]
        cmd += ["--bin", "emlv-" + pid] if pid else ["--bins"]
        if release:
            cmd.append("--release")
        env = dict(ENV)
        env["RUSTFLAGS"] = env.get("RUSTFLAGS", "") + " -Awarnings"
        rc, out, err = sh(cmd, cwd=hdir, check=False, env=env, timeout=3600)
        if rc != 0:
            raise MachineryError("harness build failed against " + REPO + ":\n" + err[-6000:])
    return harness_bin(pid, release) if pid else None


def lake_build(targets):
    with Lock("lake"):
        rc, out, err = sh(["lake", "build"] + targets, cwd=LEAN, check=False, timeout=7200)
    return rc, out + err


def lean_source_hash():
    h = hashlib.sha256()
    for base, _dirs, files in sorted(os.walk(LEAN)):
        if ".lake" in base:
            continue
        for fn in sorted(files):
            if fn.endswith(".lean") or fn.endswith(".toml"):
                p = os.path.join(base, fn)
                h.update(p.encode())
                with open(p, "rb") as f:
                    h.update(f.read())
    return h.hexdigest()


def strip_lean_comments(text):
    # remove block comments (nested) and line comments
    out = []
    i, depth, n = 0, 0, len(text)
    while i < n:
        if text.startswith("/-", i):
            depth += 1
            i += 2
        elif depth > 0 and text.startswith("-/", i):
            depth -= 1
            i += 2
        elif depth > 0:
            if text[i] == "\n":
                out.append("\n")
            i += 1
        elif text.startswith("--", i):
            while i < n and text[i] != "\n":
                i += 1
        else:
            out.append(text[i])
            i += 1
    return "".join(out)


def forbidden_scan():
    hits = []
    for base, _dirs, files in os.walk(LEAN):
        if ".lake" in base:
            continue
        for fn in files:
            if not fn.endswith(".lean"):
                continue
            p = os.path.join(base, fn)
            text = strip_lean_comments(open(p).read())
            # string literals may mention the words (e.g. in messages); drop them
            text = re.sub(r'"(\\.|[^"\\])*"', '""', text)
            for ln, line in enumerate(text.split("\n"), 1):
                if FORBIDDEN.search(line):
                    hits.append(f"{os.path.relpath(p, ROOT)}:{ln}: {line.strip()[:120]}")
    return hits


def audit_theorems(pid, module, theorems):
    """Returns dict theorem -> {'ok': bool, 'axioms': [...], 'why': str}.  Cached by source hash."""
    os.makedirs(os.path.join(GWORK, "audit"), exist_ok=True)
    cache_path = os.path.join(GWORK, "audit", pid + ".json")
    key = lean_source_hash() + "|" + ",".join(theorems)
    if os.path.exists(cache_path):
        try:
            c = json.load(open(cache_path))
            if c.get("key") == key:
                return c["result"], c.get("build_log", "")
        except Exception:
            pass
    result = {t: {"ok": False, "axioms": [], "why": "not checked"} for t in theorems}
    modules = module if isinstance(module, list) else [module]
    rc, logtxt = lake_build(modules)
    if rc != 0:
        for t in theorems:
            result[t]["why"] = "lake build " + " ".join(modules) + " failed"
        return result, logtxt[-4000:]
    src = os.path.join(GWORK, "audit", f"Audit_{pid}.lean")
    with open(src, "w") as f:
        for mod in modules:
            f.write(f"import {mod}\n")
        for t in theorems:
            f.write(f"#print axioms {t}\n")
    with Lock("lake"):
        rc, out, err = sh(["lake", "env", "lean", src], cwd=LEAN, check=False, timeout=3600)
    text = out + err
    # messages may be wrapped over several lines: normalise whitespace
    flat = re.sub(r"\s+", " ", text)
    for t in theorems:
        m = re.search(r"'" + re.escape(t) + r"' depends on axioms: \[([^\]]*)\]", flat)
        if m:
            axioms = [a.strip() for a in m.group(1).split(",") if a.strip()]
            bad = [a for a in axioms if a not in ALLOWED_AXIOMS]
            result[t] = {"ok": not bad, "axioms": axioms,
                         "why": "" if not bad else "uses axioms " + ",".join(bad)}
        elif re.search(r"'" + re.escape(t) + r"' does not depend on any axioms", flat):
            result[t] = {"ok": True, "axioms": [], "why": ""}
        else:
            result[t] = {"ok": False, "axioms": [], "why": "theorem not found by #print axioms"}
    with open(cache_path, "w") as f:
        json.dump({"key": key, "result": result, "build_log": ""}, f)
    return result, ""


# ------------------------------------------------------------------------------------------
# correspondence
# ------------------------------------------------------------------------------------------

def split_answer(line):
    if " ## " in line:
        obs, aux = line.split(" ## ", 1)
        return obs.strip(), aux.strip()
    return line.strip(), ""


def run_impl(bin_path, pid, ops_path, out_path, flush=False):
    env = dict(ENV)
    if flush:
        env["EMLV_FLUSH"] = "1"
    rc, _out, err = sh([bin_path, "run", pid], stdin_path=ops_path, stdout_path=out_path,
                       check=False, env=env, timeout=7200)
    return rc, err


def run_model(pid, ops_path, out_path):
    rc, _out, err = sh([MODEL_BIN, pid], stdin_path=ops_path, stdout_path=out_path, check=False,
                       timeout=7200)
    if rc != 0:
        raise MachineryError(f"model driver failed on {pid}: {err[-2000:]}")


def read_lines(path):
    with open(path, encoding="utf-8", errors="replace") as f:
        return f.read().split("\n")[:-1] if os.path.getsize(path) else []


def segment_of(ops, k):
    """Lines of the independent case that contains line k: from the last '@' line up to k."""
    start = k
    while start > 0 and not ops[start].startswith("@"):
        start -= 1
    return start


OWNER = [None]   # the property whose check is running (its work directory owns every scratch file)


def rerun_pair(bin_path, pid, lines, tag):
    d = os.path.join(WORK, OWNER[0] or pid, "shrink-" + pid)
    os.makedirs(d, exist_ok=True)
    op = os.path.join(d, tag + ".ops")
    with open(op, "w") as f:
        f.write("".join(l + "\n" for l in lines))
    ip, mp = os.path.join(d, tag + ".impl"), os.path.join(d, tag + ".model")
    rc, _ = run_impl(bin_path, pid, op, ip, flush=True)
    run_model(pid, op, mp)
    return rc, read_lines(ip), read_lines(mp)


def mismatch_kind(impl_line, model_line):
    io, ia = split_answer(impl_line)
    mo, ma = split_answer(model_line)
    if io != mo:
        return "obs"
    if ia != ma:
        return "aux"
    return None


def shrink_case(bin_path, pid, seg, kind):
    """Delta-debugging over the intermediate lines of a case: keep the first ('@') and the last
    (mismatching) line, drop chunks of the middle while the last line still mismatches the same way."""
    first, last, middle = seg[0], seg[-1], list(seg[1:-1])
    budget = [150]

    def still_fails(mid):
        cand = [first] + mid + [last]
        budget[0] -= 1
        rc, il, ml = rerun_pair(bin_path, pid, cand, "cand")
        if len(ml) != len(cand):
            return False
        if kind == "crash":
            return rc != 0 and len(il) == len(cand) - 1
        return len(il) == len(cand) and mismatch_kind(il[-1], ml[-1]) == kind

    n = 1
    while middle and budget[0] > 0:
        chunk = max(1, (len(middle) + n - 1) // n)
        removed = False
        i = 0
        while i < len(middle) and budget[0] > 0:
            cand = middle[:i] + middle[i + chunk:]
            if still_fails(cand):
                middle = cand
                removed = True
            else:
                i += chunk
        if not removed:
            if chunk == 1:
                break
            n = min(n * 2, len(middle))
    return [first] + middle + [last]


def correspondence(pid, reg, tier, seed, bin_path, wd=None):
    """Generates cases, runs implementation and model, compares.  Returns a result dict."""
    wd = wd or os.path.join(WORK, pid)
    os.makedirs(wd, exist_ok=True)
    ops_raw = os.path.join(wd, "ops.txt")
    # corpus (minimised past failures) first
    corpus_lines = []
    cdir = os.path.join(CORPUS, pid)
    if os.path.isdir(cdir):
        for fn in sorted(os.listdir(cdir)):
            if fn.endswith(".ops"):
                corpus_lines += [l for l in read_lines(os.path.join(cdir, fn))]
    rc, out, err = sh([bin_path, "gen", pid, tier, str(seed)], check=False, timeout=3600)
    if rc != 0:
        raise MachineryError(f"generator failed for {pid}: {err[-2000:]}")
    gen_lines = out.split("\n")
    if gen_lines and gen_lines[-1] == "":
        gen_lines.pop()
    all_lines = corpus_lines + gen_lines
    with open(ops_raw, "w") as f:
        f.write("".join(l + "\n" for l in all_lines))
    stats = {}
    ops = []
    for l in all_lines:
        if l.startswith("#"):
            m = re.match(r"#stat (\S+) (\d+)", l)
            if m:
                stats[m.group(1)] = stats.get(m.group(1), 0) + int(m.group(2))
            continue
        if l.strip():
            ops.append(l)
    ops_path = os.path.join(wd, "ops.clean")
    with open(ops_path, "w") as f:
        f.write("".join(l + "\n" for l in ops))
    impl_path, model_path = os.path.join(wd, "impl.txt"), os.path.join(wd, "model.txt")
    rc, ierr = run_impl(bin_path, pid, ops_path, impl_path)
    run_model(pid, ops_path, model_path)
    impl = read_lines(impl_path)
    model = read_lines(model_path)
    res = {"ops": len(ops), "segments": sum(1 for l in ops if l.startswith("@")), "stats": stats,
           "mismatches": [], "corpus_lines": len(corpus_lines)}
    if len(model) != len(ops):
        raise MachineryError(f"model answered {len(model)} lines for {len(ops)} operations")
    for i, ml in enumerate(model):
        if "MODEL-SPEC-DISAGREE" in ml or ml == "bad-op":
            raise MachineryError(f"model driver: line {i + 1}: {ops[i]!r} -> {ml!r}")
    if rc != 0 or len(impl) != len(ops):
        # the implementation process died: find the operation it died on
        rc2, _ = run_impl(bin_path, pid, ops_path, impl_path, flush=True)
        impl = read_lines(impl_path)
        k = min(len(impl), len(ops) - 1)
        res["mismatches"].append({"kind": "crash", "line": k, "impl": f"process exit {rc2}: {ierr[-400:]}",
                                  "model": model[k]})
        res["impl"] = impl
        res["model"] = model
        res["ops_list"] = ops
        return res
    seen_segments = set()
    for i in range(len(ops)):
        kind = mismatch_kind(impl[i], model[i])
        if kind:
            s = segment_of(ops, i)
            if (s, kind) in seen_segments:
                continue  # one report per case
            seen_segments.add((s, kind))
            res["mismatches"].append({"kind": kind, "line": i, "impl": impl[i], "model": model[i]})
    # distinct / non-trivial counting: distinct (operation, answer) pairs that are not setup lines
    distinct = set()
    for i in range(len(ops)):
        distinct.add((ops[i].split(" via=")[0], split_answer(model[i])[0]))
    res["distinct"] = len(distinct)
    answers = {}
    for i in range(len(ops)):
        a = split_answer(impl[i])[0]
        key = re.sub(r"[0-9]+", "N", a)[:40]
        answers[key] = answers.get(key, 0) + 1
    res["answer_kinds"] = dict(sorted(answers.items(), key=lambda kv: -kv[1])[:25])
    res["impl"] = impl
    res["model"] = model
    res["ops_list"] = ops
    return res


# ------------------------------------------------------------------------------------------
# known findings
# ------------------------------------------------------------------------------------------

def load_known(pid):
    known = []
    path = os.path.join(ROOT, "known_findings.txt")
    if not os.path.exists(path):
        return known
    for line in open(path):
        line = line.strip()
        m = re.match(r"known:\s+property=(\S+)\s+match=(\S+)\s+(.*)", line)
        if m and m.group(1) == pid:
            known.append({"regex": m.group(2), "what": m.group(3)})
    return known


# ------------------------------------------------------------------------------------------
# check
# ------------------------------------------------------------------------------------------

def write_replay(pid, n, payload):
    os.makedirs(REPLAY, exist_ok=True)
    payload.setdefault("repo", os.path.abspath(REPO))
    path = os.path.join(REPLAY, f"{pid}-{n}.json")
    with open(path, "w") as f:
        json.dump(payload, f, indent=1)
    return os.path.relpath(path, ROOT)


def check(pid, tier, seed):
    t0 = time.time()
    OWNER[0] = pid
    reg = load_registry(pid)
    level = reg.get("level", "proof")
    violations = []   # (line, replay)
    known_lines = []
    assumptions = list(reg.get("assumptions", []))
    coverage = {}
    replay_n = 0

    # --- 0. optional per-property preparation (e.g. C20 regenerates a Lean table from the repo) ---
    extra = load_extra(pid)
    if extra is not None and hasattr(extra, "pre"):
        os.makedirs(os.path.join(WORK, pid), exist_ok=True)
        extra.pre({"pid": pid, "tier": tier, "seed": seed, "root": ROOT, "repo": REPO, "lean": LEAN,
                   "work": os.path.join(WORK, pid), "sh": sh, "log": log, "MachineryError": MachineryError})

    # --- 1. theorems -------------------------------------------------------------------------
    theorems = reg.get("theorems", [])
    module = reg.get("lean_module")
    thm_failures = []
    audit = {}
    if theorems and module:
        audit, build_log = audit_theorems(pid, module, theorems)
        for t in theorems:
            if not audit[t]["ok"]:
                thm_failures.append((t, audit[t]["why"]))
        hits = forbidden_scan()
        if hits:
            thm_failures.append(("<source scan>", "forbidden tokens: " + "; ".join(hits[:5])))
        if build_log and thm_failures:
            log(build_log[-3000:])
        if tier == "thorough" and not thm_failures:
            # independent re-check of the compiled proof terms by the toolchain's own checker
            with Lock("lake"):
                rc_lc, out_lc, err_lc = sh(["lake", "env", "leanchecker"] +
                                           (module if isinstance(module, list) else [module]),
                                           cwd=LEAN, check=False, timeout=3600)
            coverage["leanchecker"] = "ok" if rc_lc == 0 else (out_lc + err_lc)[-500:]
            if rc_lc != 0:
                thm_failures.append(("<leanchecker>", f"leanchecker rejected {module}"))
    rc, out = lake_build(["emlmodel"])
    if rc != 0:
        raise MachineryError("lake build emlmodel failed:\n" + out[-4000:])

    # --- 2. correspondence -------------------------------------------------------------------
    bin_path = build_harness(pid)
    corr = None
    corrs = []   # (protocol property, its harness binary, correspondence result)
    if reg.get("protocol", "line") == "line":
        corr = correspondence(pid, reg, tier, seed, bin_path)
        corrs.append((pid, bin_path, corr))
    # clauses of this property that are carried by another property's model and correspondence
    # (e.g. C16's "decompositions on degenerate input" by C08's): run those streams too and
    # report their disagreements as violations of this property
    for q in reg.get("also_correspond", []):
        bq = build_harness(q)
        # scratch files of a re-run stream live under the claiming property's work directory, so
        # that checks of different properties can run concurrently
        corrs.append((q, bq, correspondence(q, load_registry(q), tier, seed, bq,
                                            wd=os.path.join(WORK, pid, "also-" + q))))

    # --- 2b. extra per-property steps ---------------------------------------------------------
    extra_result = None
    extra = load_extra(pid)
    if extra is not None:
        ctx = {"pid": pid, "tier": tier, "seed": seed, "root": ROOT, "repo": REPO, "work": os.path.join(WORK, pid),
               "bin": bin_path, "sh": sh, "lake_build": lake_build, "lean": LEAN, "env": ENV,
               "build_harness": build_harness, "bin_for": lambda p, release=False: build_harness(p, release),
               "model_bin": MODEL_BIN, "log": log, "corr": corr,
               "MachineryError": MachineryError, "harness_target_dir": harness_target_dir(),
               "harness_dir": harness_dir()}
        os.makedirs(ctx["work"], exist_ok=True)
        extra_result = extra.run(ctx)

    # --- 3. verdict --------------------------------------------------------------------------
    known = load_known(pid)
    samples = []
    for proto, proto_bin, corr_i in corrs:
        ops = corr_i["ops_list"]
        # concrete failing inputs (obs / crash) are reported before aux-only disagreements
        corr_i["mismatches"].sort(key=lambda m: (0 if m["kind"] in ("obs", "crash") else 1, m["line"]))
        reported_here = 0
        for m in corr_i["mismatches"]:
            k = m["line"]
            s = segment_of(ops, k)
            seg = ops[s:k + 1]
            try:
                seg_min = shrink_case(proto_bin, proto, seg, m["kind"]) if len(seg) > 2 else seg
            except Exception as e:  # shrinking is best effort
                seg_min = seg
            case_text = " ; ".join(seg_min)
            matched = None
            for kf in known:
                if re.search(kf["regex"], case_text):
                    matched = kf
                    break
            if matched and m["kind"] in ("obs", "crash"):
                known_lines.append(f"KNOWN-FINDING: property={pid} {matched['what']}")
                continue
            replay_n += 1
            reported_here += 1
            payload = {"property": pid, "protocol_property": proto, "kind": m["kind"], "seed": seed,
                       "tier": tier, "ops": seg_min,
                       "ops_unshrunk": seg if len(seg) < 200 else seg[-200:],
                       "implementation_answer": m["impl"], "model_answer": m["model"],
                       "replay_cmd": f"python3 verif.py replay replay/{pid}-{replay_n}.json"}
            if m["kind"] in ("obs", "crash"):
                payload["explanation"] = (
                    "The implementation's answer on the last operation differs from the answer the "
                    "property demands (the model's answer before `##`, which the Lean theorems prove "
                    "equal to the specification).  This is a concrete failing input.")
                path = write_replay(pid, replay_n, payload)
                violations.append(f"VIOLATION property={pid} replay={path}")
            else:
                payload["explanation"] = (
                    "The implementation agrees with the specification-level answer but not with the "
                    "code-shaped detail of the model (after `##`): the correspondence stream no longer "
                    "checks, so the theorems no longer speak about this code; no failing input found.")
                payload["broken"] = f"correspondence stream {proto}, first differing operation shown"
                path = write_replay(pid, replay_n, payload)
                violations.append(f"VIOLATION property={pid} replay={path} no-failing-input-found")
            if reported_here >= 5:
                break
        n_s = 0
        for i in range(min(len(ops), 400)):
            if n_s >= (6 if proto == pid else 2):
                break
            if i % 67 == 0 or ops[i].startswith("@") and n_s < 2:
                n_s += 1
                samples.append({"op": ops[i], "protocol": proto,
                                "implementation": corr_i["impl"][i] if i < len(corr_i["impl"]) else None,
                                "model": corr_i["model"][i]})

    if extra_result:
        for v in extra_result.get("violations", []):
            replay_n += 1
            payload = dict(v)
            payload["property"] = pid
            nf = payload.pop("no_failing_input", False)
            case_text = payload.get("case", "")
            matched = None
            for kf in known:
                if re.search(kf["regex"], case_text):
                    matched = kf
                    break
            if matched and not nf:
                known_lines.append(f"KNOWN-FINDING: property={pid} {matched['what']}")
                continue
            path = write_replay(pid, replay_n, payload)
            violations.append(f"VIOLATION property={pid} replay={path}" + (" no-failing-input-found" if nf else ""))
        samples += extra_result.get("samples", [])[:6]

    if thm_failures and not any("no-failing-input-found" not in v for v in violations):
        # a proof obligation no longer checks and no concrete failing input was found
        replay_n += 1
        path = write_replay(pid, replay_n, {
            "property": pid, "kind": "theorem",
            "broken": [{"theorem": t, "why": w} for t, w in thm_failures],
            "explanation": "These proof obligations are no longer discharged by Lean; the correspondence "
                           "run found no concrete failing input."})
        violations.append(f"VIOLATION property={pid} replay={path} no-failing-input-found")

    # --- 4. evidence -------------------------------------------------------------------------
    obligations = len(theorems)
    discharged = sum(1 for t in theorems if audit.get(t, {}).get("ok"))
    coverage["obligations"] = obligations
    coverage["discharged"] = discharged
    coverage["checker_cmd"] = (f"cd lean && lake build {module} && lake env lean <#print axioms of each theorem>"
                               if module else "n/a")
    coverage["trusted_base"] = reg.get("trusted_base", [])
    coverage["theorems"] = [{"name": t, "axioms": audit.get(t, {}).get("axioms", []),
                             "ok": audit.get(t, {}).get("ok", False)} for t in theorems]
    if corr is not None:
        coverage["evaluations"] = corr["ops"]
        coverage["distinct_nontrivial"] = corr.get("distinct", 0)
        coverage["traces_validated_against_impl"] = corr["segments"]
        coverage["programs"] = corr["segments"]
        coverage["disagreements_checked"] = len(corr["mismatches"])
        coverage["input_distribution"] = corr["stats"]
        coverage["answer_kinds"] = corr.get("answer_kinds", {})
        coverage["corpus_lines_run_first"] = corr["corpus_lines"]
        coverage["rule"] = reg.get("rule", "")
    for proto, _b, corr_i in corrs:
        if proto != pid:
            for k in ("evaluations", "traces_validated_against_impl", "programs"):
                coverage[k] = coverage.get(k, 0) + (corr_i["ops"] if k == "evaluations" else corr_i["segments"])
            coverage["distinct_nontrivial"] = coverage.get("distinct_nontrivial", 0) + corr_i.get("distinct", 0)
            coverage["disagreements_checked"] = coverage.get("disagreements_checked", 0) + len(corr_i["mismatches"])
            coverage.setdefault("also_corresponded", {})[proto] = {
                "operations": corr_i["ops"], "cases": corr_i["segments"], "mismatches": len(corr_i["mismatches"])}
    if extra_result:
        for k, v in extra_result.get("coverage", {}).items():
            if k in ("evaluations", "distinct_nontrivial", "traces_validated_against_impl", "programs",
                     "disagreements_checked") and isinstance(coverage.get(k), int):
                coverage[k] += v
            else:
                coverage[k] = v
    coverage["samples"] = samples + [{"obligation": t} for t in theorems[:4]]
    coverage["explanation"] = reg.get("explanation", "")
    coverage["exhaustive"] = False
    ev = {"property_id": pid, "tier": tier, "seed": seed, "level": level, "coverage": coverage,
          "assumptions": assumptions, "wall_s": round(time.time() - t0, 2), "violations": len(violations),
          "known_findings_reported": len(known_lines), "repo": os.path.abspath(REPO)}
    # evidence under /verif/evidence is only ever written by runs against /repo itself; runs
    # against a scratch checkout (EASYML_REPO, used for seeded changes) write elsewhere
    ev_dir = EVIDENCE if os.path.abspath(REPO) == "/repo" else os.path.join(WORK, "evidence-scratch")
    os.makedirs(ev_dir, exist_ok=True)
    with open(os.path.join(ev_dir, pid + ".json"), "w") as f:
        json.dump(ev, f, indent=1)

    for l in sorted(set(known_lines)):
        log(l)
    for v in violations:
        log(v)
    n_ops = corr["ops"] if corr else 0
    log(f"[{pid}] tier={tier} seed={seed} theorems {discharged}/{obligations} operations={n_ops} "
        f"violations={len(violations)} wall={ev['wall_s']}s")
    return 1 if violations else 0


def replay(path):
    payload = json.load(open(path))
    pid = payload["property"]
    if "ops" not in payload or payload.get("replay_argv"):
        log(json.dumps(payload, indent=1))
        if payload.get("replay_argv"):
            rc, out, err = sh(payload["replay_argv"] + [os.path.abspath(path)], cwd=ROOT, check=False)
            log(out + err)
            return rc
        return 0
    proto = payload.get("protocol_property", pid)
    OWNER[0] = pid
    bin_path = build_harness(proto)
    lake_build(["emlmodel"])
    rc, il, ml = rerun_pair(bin_path, proto, payload["ops"], "replay")
    bad = 0
    for i, op in enumerate(payload["ops"]):
        a = il[i] if i < len(il) else f"<process died rc={rc}>"
        b = ml[i] if i < len(ml) else "<none>"
        flag = "" if i < len(il) and mismatch_kind(a, b) is None else "   <== differs"
        if flag:
            bad += 1
        log(f"{op}\n    implementation: {a}\n    model/spec:     {b}{flag}")
    log(f"replay of {path}: {bad} differing answers")
    return 1 if bad else 0


def setup():
    t0 = time.time()
    rc, out = lake_build([])
    if rc != 0:
        log(out[-6000:])
        raise MachineryError("lake build failed")
    log(f"lake build ok ({time.time() - t0:.0f}s)")
    build_harness(None)
    log(f"harness build ok ({time.time() - t0:.0f}s)")
    for pid in all_property_ids():
        reg = load_registry(pid)
        if reg.get("theorems") and reg.get("lean_module"):
            audit, _ = audit_theorems(pid, reg["lean_module"], reg["theorems"])
            bad = [t for t in reg["theorems"] if not audit[t]["ok"]]
            log(f"audit {pid}: {len(reg['theorems']) - len(bad)}/{len(reg['theorems'])} theorems ok" +
                (" BAD: " + ", ".join(bad) if bad else ""))
    return 0


def main():
    ap = argparse.ArgumentParser()
    sub = ap.add_subparsers(dest="cmd", required=True)
    sub.add_parser("setup")
    c = sub.add_parser("check")
    c.add_argument("pid")
    c.add_argument("--tier", default=os.environ.get("VERIF_TIER", "quick"))
    c.add_argument("--seed", type=int, default=int(os.environ.get("VERIF_SEED", "0") or 0))
    r = sub.add_parser("replay")
    r.add_argument("path")
    sub.add_parser("audit")
    args = ap.parse_args()
    try:
        if args.cmd == "setup":
            sys.exit(setup())
        if args.cmd == "check":
            tier = args.tier if args.tier in ("quick", "thorough") else "quick"
            sys.exit(check(args.pid, tier, args.seed))
        if args.cmd == "replay":
            sys.exit(replay(args.path))
        if args.cmd == "audit":
            for pid in all_property_ids():
                reg = load_registry(pid)
                if reg.get("theorems"):
                    audit, _ = audit_theorems(pid, reg["lean_module"], reg["theorems"])
                    for t, r_ in audit.items():
                        log(f"{pid} {t}: {'ok' if r_['ok'] else 'FAIL ' + r_['why']} {r_['axioms']}")
            sys.exit(0)
    except MachineryError as e:
        log("MACHINERY-ERROR: " + str(e))
        sys.exit(3)


if __name__ == "__main__":
    main()
