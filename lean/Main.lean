/-
  emlmodel — the executable model.  `emlmodel <property>` reads operation lines on stdin and
  writes one answer line per operation.  Imports only the core-Lean model and driver modules
  (anything importing Mathlib would make the executable fail to link).
-/
import Driver.C01
import Driver.C02
import Driver.C03
import Driver.C04
import Driver.C05
import Driver.C06
import Driver.C07
import Driver.C08
import Driver.C09
import Driver.C10
import Driver.C11
import Driver.C12
import Driver.C13
import Driver.C14
import Driver.C15
import Driver.C16
import Driver.C17
import Driver.C18
import Driver.C19
import Driver.C20

def main (args : List String) : IO UInt32 := do
  match args with
  | ["C01"] => Driver.runLoop Driver.C01.step Driver.C01.init; return 0
  | ["C02"] => Driver.runLoop Driver.C02.step Driver.C02.init; return 0
  | ["C03"] => Driver.runLoop Driver.C03.step Driver.C03.init; return 0
  | ["C04"] => Driver.runLoop Driver.C04.step Driver.C04.init; return 0
  | ["C05"] => Driver.runLoop Driver.C05.step Driver.C05.init; return 0
  | ["C06"] => Driver.runLoop Driver.C06.step Driver.C06.init; return 0
  | ["C07"] => Driver.runLoop Driver.C07.step Driver.C07.init; return 0
  | ["C08"] => Driver.runLoop Driver.C08.step Driver.C08.init; return 0
  | ["C09"] => Driver.runLoop Driver.C09.step Driver.C09.init; return 0
  | ["C10"] => Driver.runLoop Driver.C10.step Driver.C10.init; return 0
  | ["C11"] => Driver.runLoop Driver.C11.step Driver.C11.init; return 0
  | ["C12"] => Driver.runLoop Driver.C12.step Driver.C12.init; return 0
  | ["C13"] => Driver.runLoop Driver.C13.step Driver.C13.init; return 0
  | ["C14"] => Driver.runLoop Driver.C14.step Driver.C14.init; return 0
  | ["C15"] => Driver.runLoop Driver.C15.step Driver.C15.init; return 0
  | ["C16"] => Driver.runLoop Driver.C16.step Driver.C16.init; return 0
  | ["C17"] => Driver.runLoop Driver.C17.step Driver.C17.init; return 0
  | ["C18"] => Driver.runLoop Driver.C18.step Driver.C18.init; return 0
  | ["C19"] => Driver.runLoop Driver.C19.step Driver.C19.init; return 0
  | ["C20"] => Driver.runLoop Driver.C20.step Driver.C20.init; return 0
  | _ =>
    IO.eprintln "usage: emlmodel <property id>"
    return 2
