/-
  Driver.C01 — line protocol for named-dimension addressing.

    @ from <shape> <n>            Tensor::from with ids 0..n-1      → ok | panic(explicit)
    @ try_from <shape> <n>        Tensor::try_from                  → ok | err
    index_by <names>              (any of the index_by* / TensorAccess::try_from forms)
                                                                    → ok shape=<shape> | reject
    get <idx>                     fallible and panicking getters    → some(<id>) | none
    set <idx>                     write a sentinel, scan the data   → changed=<offsets> | none

  The answer before `##` is what C01 speaks about (and is computed from the *spec*);
  the answer after it is the code-shaped model's (theorems in Props/C01 say they coincide).
-/
import EasyMl.Model.Tensor
import EasyMl.Model.Transform
import EasyMl.Model.TensorChecked
import EasyMl.Spec.Tensor
import Driver.Parse
import Driver.Surface

namespace Driver.C01
open EasyMl Driver

structure State where
  tensor : Option (Tensor String Nat) := none
  access : Option (Access String Nat) := none
  names : List String := []
  /-- the tensor was built by `from_fn` with the producer `code` -/
  producer : Bool := false

/-- the producer handed to `Tensor::from_fn` (the harness uses the same) -/
def code (idx : List Nat) : Nat := idx.foldl (fun acc i => acc * 7 + i + 1) 1000

def showNames (l : List String) : String := if l.isEmpty then "-" else ",".intercalate l

def showBool (b : Bool) : String := if b then "true" else "false"

def specValidShape (shape : List (String × Nat)) : Bool :=
  decide ((shape.map (·.1)).Nodup ∧ ∀ d ∈ shape, 1 ≤ d.2)

def init : State := {}

def both (spec model : String) : String :=
  if spec = model then spec else s!"{spec} ## MODEL-SPEC-DISAGREE {model}"

def step (s : State) (toks : List String) : State × String :=
  match toks with
  | "@" :: "from_fn" :: shapeS :: _ =>
    match parseShape shapeS with
    | some shape =>
      let t := Tensor.fromFn shape code
      ({ tensor := t, access := none, producer := true },
        both (if specValidShape shape then "ok" else "panic(explicit)")
             (if t.isSome then "ok" else "panic(explicit)"))
    | none => (s, "bad-op")
  | "@" :: "from_scalar" :: vS :: _ =>
    match vS.toNat? with
    | some v =>
      let t : Tensor String Nat := Tensor.fromScalar v
      ({ tensor := some t, access := none },
        both (if Tensor.tryFrom ([] : List (String × Nat)) [v] |>.isSome then "ok" else "panic(explicit)") "ok")
    | none => (s, "bad-op")
  | ["@", kind, shapeS, nS] =>
    match parseShape shapeS, nS.toNat? with
    | some shape, some n =>
      let t := Tensor.tryFrom shape (List.range n)
      -- `try_from` hands the shape back in an InvalidShapeError, whose `is_valid` says whether
      -- only the element count was wrong
      let errS := fun (v : Bool) =>
        if kind = "from" then "panic(explicit)" else s!"err valid={showBool v}"
      ({ tensor := t, access := none },
        both (if decide (Spec.Accepts shape n) then "ok" else errS (specValidShape shape))
             -- the validation as coded (checked product, `usize::MAX` bound)
             (if (validateDimensionsChecked usizeMax shape n).isNone && t.isSome then "ok"
              else if (validateDimensionsChecked usizeMax shape n).isNone || t.isSome then "CHECKED-VS-UNBOUNDED"
              else errS (shapeIsValid shape)))
    | _, _ => (s, "bad-op")
  | "dimerr" :: providedS :: validS :: _ =>
    -- `InvalidDimensionsError<D, P>`: a plain record of two name lists
    let provided := parseNames providedS
    let valid := parseNames validS
    (s, both s!"provided={showNames provided} valid={showNames valid} dup={showBool (decide (¬ provided.Nodup))}"
             s!"provided={showNames provided} valid={showNames valid} dup={showBool (hasDuplicates provided)}")
  | "dim" :: name :: _ =>
    match s.tensor with
    | none => (s, "no-tensor")
    | some t =>
      let names := t.shape.map (·.1)
      let specLen := if name ∈ names
        then some (((Spec.shapeFor t.shape [name]).map (·.2)).getD 0 0) else none
      let specPos := if name ∈ names then some (names.idxOf name) else none
      (s, both s!"pos={showOpt specPos} contains={showBool (decide (name ∈ names))} len={showOpt specLen} last={showOpt (specLen.map (· - 1))}"
               s!"pos={showOpt (dimPositionOf t.shape name)} contains={showBool (dimContains t.shape name)} len={showOpt (dimLengthOf t.shape name)} last={showOpt (dimLastIndexOf t.shape name)}")
  | "names" :: _ =>
    match s.tensor with
    | none => (s, "no-tensor")
    | some t =>
      (s, both s!"names={showNames (t.shape.map (·.1))} elements={t.data.length}"
               s!"names={showNames (dimNamesOf t.shape)} elements={elements t.shape}")
  | "index_by" :: namesS :: _ =>
    match s.tensor with
    | none => (s, "no-tensor")
    | some t =>
      let names := parseNames namesS
      let specS := if decide (Spec.IsOrdering t.shape names)
        then s!"ok shape={showShape (Spec.shapeFor t.shape names)}" else "reject"
      match t.indexBy names with
      | some a =>
        ({ s with access := some a, names := names }, both specS s!"ok shape={showShape a.shape}")
      | none => ({ s with access := none }, both specS "reject")
  | "get" :: idxS :: _ =>
    match s.access, parseNatList idxS with
    | some a, some idx =>
      -- for a tensor built by `from_fn` the spec's answer is the producer applied to the
      -- addressed coordinates (not a look-up in the stored data)
      let specAns :=
        if s.producer then
          (Spec.lookupOffset a.source.shape s.names idx).map fun _ =>
            code (Spec.coords a.source.shape s.names idx)
        else Spec.lookupByName a.source.shape a.source.data s.names idx
      (s, both (showOpt specAns) (showOpt (a.get idx)))
    | _, _ => (s, "no-access")
  | "set" :: idxS :: _ =>
    match s.access, parseNatList idxS with
    | some a, some idx =>
      -- a write changes exactly the addressed offset (or nothing when absent)
      (s, both (match Spec.lookupOffset a.source.shape s.names idx with
                | some o => s!"changed={o}" | none => "none")
               (match a.offset idx with
                | some o => s!"changed={o}" | none => "none"))
    | _, _ => (s, "no-access")
  | _ =>
    match s.tensor with
    | none => (s, "bad-op")
    | some t =>
      match Driver.Surface.step t toks with
      | some ans => (s, ans)
      | none => (s, "bad-op")

end Driver.C01
