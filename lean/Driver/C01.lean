/-
  Driver.C01 — line protocol for named-dimension addressing.

    @ from <shape> <n>            Tensor::from with ids 0..n-1      → ok | panic(explicit)
    @ try_from <shape> <n>        Tensor::try_from                  → ok | err
    index_by <names>              (any of the index_by* / TensorAccess::try_from forms)
                                                                    → ok shape=<shape> | reject
    get <idx>                     fallible and panicking getters    → some(<id>) | none
    set <idx>                     write a sentinel, scan the data   → changed=<offsets> | none

  The answer before `##` is what C01 speaks about (and is computed from the *spec*);
  the answer after it is the code-shaped model's (theorems in Props/C01 say they coincide).
-/
import EasyMl.Model.Tensor
import EasyMl.Spec.Tensor
import Driver.Parse

namespace Driver.C01
open EasyMl Driver

structure State where
  tensor : Option (Tensor String Nat) := none
  access : Option (Access String Nat) := none
  names : List String := []

def init : State := {}

def both (spec model : String) : String :=
  if spec = model then spec else s!"{spec} ## MODEL-SPEC-DISAGREE {model}"

def step (s : State) (toks : List String) : State × String :=
  match toks with
  | ["@", kind, shapeS, nS] =>
    match parseShape shapeS, nS.toNat? with
    | some shape, some n =>
      let t := Tensor.tryFrom shape (List.range n)
      let errS := if kind = "from" then "panic(explicit)" else "err"
      ({ tensor := t, access := none },
        both (if decide (Spec.Accepts shape n) then "ok" else errS)
             (if t.isSome then "ok" else errS))
    | _, _ => (s, "bad-op")
  | "index_by" :: namesS :: _ =>
    match s.tensor with
    | none => (s, "no-tensor")
    | some t =>
      let names := parseNames namesS
      let specS := if decide (Spec.IsOrdering t.shape names)
        then s!"ok shape={showShape (Spec.shapeFor t.shape names)}" else "reject"
      match t.indexBy names with
      | some a =>
        ({ s with access := some a, names := names }, both specS s!"ok shape={showShape a.shape}")
      | none => ({ s with access := none }, both specS "reject")
  | "get" :: idxS :: _ =>
    match s.access, parseNatList idxS with
    | some a, some idx =>
      (s, both (showOpt (Spec.lookupByName a.source.shape a.source.data s.names idx))
               (showOpt (a.get idx)))
    | _, _ => (s, "no-access")
  | "set" :: idxS :: _ =>
    match s.access, parseNatList idxS with
    | some a, some idx =>
      -- a write changes exactly the addressed offset (or nothing when absent)
      (s, both (match Spec.lookupOffset a.source.shape s.names idx with
                | some o => s!"changed={o}" | none => "none")
               (match a.offset idx with
                | some o => s!"changed={o}" | none => "none"))
    | _, _ => (s, "no-access")
  | _ => (s, "bad-op")

end Driver.C01
