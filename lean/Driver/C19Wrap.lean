/-
  Driver.C19Wrap — operators of `Trace<T>` / `Record<T>` (all owned/borrowed operand forms) for
  property C19:

    @ trop <elem> <op> <an> <ad> <bn> <bd>      num=<v> der=<v> | panic(<kind>) | agree
    @ trsc <elem> <op> <an> <ad> <r>            (Trace op scalar)
    @ trneg <elem> <an> <ad>
    @ trpow <elem> <an> <ad> <bn> <bd>          agree   (Real element types: forms compared only)
    @ recop <elem> <vv|vc|cv|cc> <op> <a> <b>   num=<v> hist=<some|none> idx=<i> [dx=<v>] [dy=<v>]
    @ recsc <elem> <v|c> <op> <a> <r>
    @ recneg <elem> <v|c> <a>
    @ recpow <elem> <vv|vc|cv|cc> <a> <b>       agree
    @ freal <elem> <fn> <a> <b>                 agree   (sqrt exp ln sin cos pow pi on f32 / f64 / Fp, every form)
    @ trreal <elem> <fn> <an> <ad>              agree
    @ recreal <elem> <v|c> <fn> <a>             agree

  <elem> ∈ i64 (overflow-checked), wrapping_u8, Fp (exact), f64 (forms compared with each other
  only: the model answers `agree`).  <op> ∈ add sub mul div.
-/
import Driver.Parse
import EasyMl.Model.WrapperOps

namespace Driver.C19Wrap
open EasyMl EasyMl.Num

structure Elem (α : Type) where
  arith : Arith α
  parse : String → Option α
  render : α → String

def elemI64 : Elem (Val .i64) where
  arith := arithPlain .i64
  parse s := s.toInt?.bind fun i =>
    if IntTy.minInt .i64 ≤ i ∧ i ≤ IntTy.maxInt .i64 then some (ofInt .i64 i) else none
  render v := toString (toInt .i64 v)

def elemPlain (t : IntTy) : Elem (Val t) where
  arith := arithPlain t
  parse s := s.toInt?.bind fun i =>
    if IntTy.minInt t ≤ i ∧ i ≤ IntTy.maxInt t then some (ofInt t i) else none
  render v := toString (toInt t v)

def elemWrappingU8 : Elem (Val .u8) where
  arith := arithWrapping .u8
  parse s := s.toNat?.bind fun n => if n < 256 then some (ofInt .u8 n) else none
  render v := toString (toInt .u8 v)

def elemFp : Elem Fp where
  arith := arithFp
  parse s := s.toNat?.map Fp.ofNat
  render v := toString v.val

def showTrace {α : Type} (E : Elem α) : Outcome (Trace α) → String
  | .ok t => s!"num={E.render t.number} der={E.render t.derivative}"
  | .panic k => s!"panic({k})"

def showRec {α : Type} (E : Elem α) : Outcome (RecOut α) → String
  | .ok r =>
    let dx := match r.dx with | some v => s!" dx={E.render v}" | none => ""
    let dy := match r.dy with | some v => s!" dy={E.render v}" | none => ""
    s!"num={E.render r.number} hist={if r.hasHistory then "some" else "none"} idx={r.index}{dx}{dy}"
  | .panic k => s!"panic({k})"

def kinds? : String → Option (Bool × Bool)
  | "vv" => some (true, true) | "vc" => some (true, false)
  | "cv" => some (false, true) | "cc" => some (false, false) | _ => none

def kind? : String → Option Bool
  | "v" => some true | "c" => some false | _ => none

def answerAt {α : Type} (E : Elem α) (cmd : String) (args : List String) : String :=
  let p := E.parse
  match cmd, args with
  | "trop", [op, an, ad, bn, bd] =>
    match BinOp.ofName? op, p an, p ad, p bn, p bd with
    | some op, some an, some ad, some bn, some bd => showTrace E (traceBin E.arith op ⟨an, ad⟩ ⟨bn, bd⟩)
    | _, _, _, _, _ => "bad-op"
  | "trsc", [op, an, ad, r] =>
    match BinOp.ofName? op, p an, p ad, p r with
    | some op, some an, some ad, some r => showTrace E (traceScalar E.arith op ⟨an, ad⟩ r)
    | _, _, _, _ => "bad-op"
  | "trneg", [an, ad] =>
    match p an, p ad with
    | some an, some ad => showTrace E (traceNeg E.arith ⟨an, ad⟩)
    | _, _ => "bad-op"
  | "recop", [ks, op, a, b] =>
    match kinds? ks, BinOp.ofName? op, p a, p b with
    | some (va, vb), some op, some a, some b => showRec E (recordBin E.arith op va vb a b)
    | _, _, _, _ => "bad-op"
  | "recsc", [k, op, a, r] =>
    match kind? k, BinOp.ofName? op, p a, p r with
    | some va, some op, some a, some r => showRec E (recordScalar E.arith op va a r)
    | _, _, _, _ => "bad-op"
  | "recsw", [k, op, a, lhs] =>
    -- `lhs op record` through SwappedOperations: the constant-left case of `recordBin`
    match kind? k, BinOp.ofName? op, p a, p lhs with
    | some va, some op, some a, some lhs =>
      if op == .sub || op == .div then
        showRec E (do
          let r ← recordBin E.arith op false va lhs a
          pure ⟨r.number, r.hasHistory, r.index, r.dy, none⟩)
      else "bad-op"
    | _, _, _, _ => "bad-op"
  | "recneg", [k, a] =>
    match kind? k, p a with
    | some va, some a => showRec E (recordNeg E.arith va a)
    | _, _ => "bad-op"
  | _, _ => "bad-op"

def answer (cmd : String) (toks : List String) : String :=
  match toks with
  | elem :: args =>
    if ["trpow", "recpow", "freal", "trreal", "recreal"].contains cmd then
      -- Real functions: forms compared with each other only (their formulas are C04 / C05 / C17)
      (if elem == "f64" || elem == "f32" || elem == "Fp" then "agree" else "bad-op")
    else match elem with
    | "i64" => answerAt elemI64 cmd args
    | "i32" => answerAt (elemPlain .i32) cmd args
    | "i8" => answerAt (elemPlain .i8) cmd args
    | "wrapping_u8" => answerAt elemWrappingU8 cmd args
    | "Fp" => answerAt elemFp cmd args
    | "f64" => "agree"
    | "f32" => "agree"
    | _ => "bad-op"
  | [] => "bad-op"

/-! ### routines that convert a count with `T::from_usize` (the three covariance routines)

`@ userw <routine> <wrapping_i8|wrapping_u8|wrapping_i16> <RxC:v,…>`: the documented contract is
"the zero meaned dot product of the two feature vectors divided by the number of samples", with a
panic ("… cannot represent this many samples") when the element type cannot represent the number
of samples — i.e. exactly when `from_usize` fails, which `C19.wrapper_some_iff_representable`
characterises. -/

def sumW (t : IntTy) (l : List (Val t)) : Val t := l.foldl (wAdd t) (wrapZero t)

def covarianceW (t : IntTy) (features : List (List (Val t))) (samples : Nat) : String :=
  match wrapFromUsize t (BitVec.ofNat 64 samples) with
  | none => "panic(samples-not-representable)"
  | some n =>
    let means : Outcome (List (Val t)) := features.mapM fun f => wDiv t (sumW t f) n
    let res : Outcome (List (Val t)) := do
      let ms ← means
      let fm := features.zip ms
      (fm.flatMap fun (fi, mi) => fm.map fun (fj, mj) => (fi, mi, fj, mj)).mapM fun (fi, mi, fj, mj) =>
        wDiv t (sumW t (List.zipWith (fun x y => wMul t (wSub t x mi) (wSub t y mj)) fi fj)) n
    match res with
    | .panic k => s!"panic({k})"
    | .ok vals =>
      let k := features.length
      s!"{k}x{k}:" ++ ",".intercalate (vals.map fun v => toString (toInt t v))

def transposeL {α : Type} (m : List (List α)) : List (List α) :=
  match m with
  | [] => []
  | r :: _ =>
    let arrs := m.map List.toArray
    (List.range r.length).map fun j => arrs.filterMap fun row => row[j]?

def chunksL {α : Type} (l : List α) (c : Nat) : List (List α) :=
  if c = 0 then [] else
    let rec go (fuel : Nat) (l : List α) (acc : Array (List α)) : Array (List α) :=
      match fuel with
      | 0 => acc
      | fuel + 1 => go fuel (l.drop c) (acc.push (l.take c))
    (go (l.length / c) l #[]).toList

def answerCounting (toks : List String) : String :=
  match toks with
  | [routine, elem, arg] =>
    let ty : Option IntTy := match elem with
      | "wrapping_i8" => some .i8 | "wrapping_u8" => some .u8 | "wrapping_i16" => some .i16 | _ => none
    match ty, arg.splitOn ":" with
    | some t, [dims, vals] =>
      match dims.splitOn "x" with
      | [r, c] =>
        match r.toNat?, c.toNat?, (splitComma vals).mapM String.toInt? with
        | some r, some c, some vs =>
          if vs.length ≠ r * c ∨ vs.any (fun i => i < t.minInt ∨ t.maxInt < i) then "bad-op" else
          let rows := chunksL (vs.map (ofInt t)) c
          if ["covariance_column_features", "matrix_covariance_column_features", "covariance_tensor_columns"].contains routine then
            covarianceW t (transposeL rows) r
          else if ["covariance_row_features", "matrix_covariance_row_features", "covariance_tensor_rows"].contains routine then
            covarianceW t rows c
          else "bad-op"
        | _, _, _ => "bad-op"
      | _ => "bad-op"
    | _, _ => "bad-op"
  | _ => "bad-op"

end Driver.C19Wrap
