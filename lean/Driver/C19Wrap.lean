/-
  Driver.C19Wrap — operators of `Trace<T>` / `Record<T>` (all owned/borrowed operand forms) for
  property C19:

    @ trop <elem> <op> <an> <ad> <bn> <bd>      num=<v> der=<v> | panic(<kind>) | agree
    @ trsc <elem> <op> <an> <ad> <r>            (Trace op scalar)
    @ trneg <elem> <an> <ad>
    @ trpow <elem> <an> <ad> <bn> <bd>          agree   (Real element types: forms compared only)
    @ recop <elem> <vv|vc|cv|cc> <op> <a> <b>   num=<v> hist=<some|none> idx=<i> [dx=<v>] [dy=<v>]
    @ recsc <elem> <v|c> <op> <a> <r>
    @ recneg <elem> <v|c> <a>
    @ recpow <elem> <vv|vc|cv|cc> <a> <b>       agree
    @ freal <elem> <fn> <a> <b>                 agree   (sqrt exp ln sin cos pow pi on f32 / f64 / Fp, every form)
    @ trreal <elem> <fn> <an> <ad>              agree
    @ recreal <elem> <v|c> <fn> <a>             agree

  <elem> ∈ i64 (overflow-checked), wrapping_u8, Fp (exact), f64 (forms compared with each other
  only: the model answers `agree`).  <op> ∈ add sub mul div.
-/
import Driver.Parse
import EasyMl.Model.WrapperOps

namespace Driver.C19Wrap
open EasyMl EasyMl.Num

structure Elem (α : Type) where
  arith : Arith α
  parse : String → Option α
  render : α → String

def elemI64 : Elem (Val .i64) where
  arith := arithPlain .i64
  parse s := s.toInt?.bind fun i =>
    if IntTy.minInt .i64 ≤ i ∧ i ≤ IntTy.maxInt .i64 then some (ofInt .i64 i) else none
  render v := toString (toInt .i64 v)

def elemWrappingU8 : Elem (Val .u8) where
  arith := arithWrapping .u8
  parse s := s.toNat?.bind fun n => if n < 256 then some (ofInt .u8 n) else none
  render v := toString (toInt .u8 v)

def elemFp : Elem Fp where
  arith := arithFp
  parse s := s.toNat?.map Fp.ofNat
  render v := toString v.val

def showTrace {α : Type} (E : Elem α) : Outcome (Trace α) → String
  | .ok t => s!"num={E.render t.number} der={E.render t.derivative}"
  | .panic k => s!"panic({k})"

def showRec {α : Type} (E : Elem α) : Outcome (RecOut α) → String
  | .ok r =>
    let dx := match r.dx with | some v => s!" dx={E.render v}" | none => ""
    let dy := match r.dy with | some v => s!" dy={E.render v}" | none => ""
    s!"num={E.render r.number} hist={if r.hasHistory then "some" else "none"} idx={r.index}{dx}{dy}"
  | .panic k => s!"panic({k})"

def kinds? : String → Option (Bool × Bool)
  | "vv" => some (true, true) | "vc" => some (true, false)
  | "cv" => some (false, true) | "cc" => some (false, false) | _ => none

def kind? : String → Option Bool
  | "v" => some true | "c" => some false | _ => none

def answerAt {α : Type} (E : Elem α) (cmd : String) (args : List String) : String :=
  let p := E.parse
  match cmd, args with
  | "trop", [op, an, ad, bn, bd] =>
    match BinOp.ofName? op, p an, p ad, p bn, p bd with
    | some op, some an, some ad, some bn, some bd => showTrace E (traceBin E.arith op ⟨an, ad⟩ ⟨bn, bd⟩)
    | _, _, _, _, _ => "bad-op"
  | "trsc", [op, an, ad, r] =>
    match BinOp.ofName? op, p an, p ad, p r with
    | some op, some an, some ad, some r => showTrace E (traceScalar E.arith op ⟨an, ad⟩ r)
    | _, _, _, _ => "bad-op"
  | "trneg", [an, ad] =>
    match p an, p ad with
    | some an, some ad => showTrace E (traceNeg E.arith ⟨an, ad⟩)
    | _, _ => "bad-op"
  | "recop", [ks, op, a, b] =>
    match kinds? ks, BinOp.ofName? op, p a, p b with
    | some (va, vb), some op, some a, some b => showRec E (recordBin E.arith op va vb a b)
    | _, _, _, _ => "bad-op"
  | "recsc", [k, op, a, r] =>
    match kind? k, BinOp.ofName? op, p a, p r with
    | some va, some op, some a, some r => showRec E (recordScalar E.arith op va a r)
    | _, _, _, _ => "bad-op"
  | "recneg", [k, a] =>
    match kind? k, p a with
    | some va, some a => showRec E (recordNeg E.arith va a)
    | _, _ => "bad-op"
  | _, _ => "bad-op"

def answer (cmd : String) (toks : List String) : String :=
  match toks with
  | elem :: args =>
    if ["trpow", "recpow", "freal", "trreal", "recreal"].contains cmd then
      -- Real functions: forms compared with each other only (their formulas are C04 / C05 / C17)
      (if elem == "f64" || elem == "f32" || elem == "Fp" then "agree" else "bad-op")
    else match elem with
    | "i64" => answerAt elemI64 cmd args
    | "wrapping_u8" => answerAt elemWrappingU8 cmd args
    | "Fp" => answerAt elemFp cmd args
    | "f64" => "agree"
    | "f32" => "agree"
    | _ => "bad-op"
  | [] => "bad-op"

end Driver.C19Wrap
