/-
  Driver.C14 — line protocol for mean, variance, covariance, softmax and F1.

    @ <fp|rat|trace|record>             new case, element type (trace / record: Trace<Fp> / Record<Fp>
                                        elements, values written v~d, constants v)  → ok
    t/v/m/w …                           operand definitions, as in Driver.C03
    mean <values> via=…                 linear_algebra::mean                      → value=… | panic(explicit)
    variance <values> via=…             linear_algebra::variance                  → value=… | panic(explicit)
    covcol <M> via=…                    covariance_column_features                → size=FxF data=…
    covrow <M> via=…                    covariance_row_features                   → size=FxF data=…
    covt <T> <feature> via=…            covariance (tensor / tensor view input)   → shape=i:F,j:F data=… | panic(explicit)
    softmax <values>                    linear_algebra::softmax (fp only)         → data=…
    softmax_f64 <floats>                f64 sanity oracle (harness side only)     → sane len=N
    f1 <precision> <recall>             f1_score                                  → value=…
-/
import EasyMl.Model.Stats
import EasyMl.Model.DualElem
import Driver.C03

namespace Driver.C14
open EasyMl EasyMl.Arith EasyMl.Stats Driver Driver.C03

section Generic
variable {α : Type} [Add α] [Sub α] [Mul α] [Div α] [Neg α] [Zero α] [One α] [NatCast α] [Elem α]

def showValue (o : Outcome α) : String := showOutcome (fun (x : α) => s!"value={Elem.render x}") o

def stepStats (e : Env α) (toks : List String) : Env α × String :=
  match toks with
  | "mean" :: valsS :: _ =>
    match (parseVals valsS : Option (List α)) with
    | some vals => (e, showValue (mean vals))
    | none => (e, "bad-op")
  | "variance" :: valsS :: _ =>
    match (parseVals valsS : Option (List α)) with
    | some vals => (e, showValue (variance vals))
    | none => (e, "bad-op")
  | "covcol" :: name :: _ =>
    match lookupM e name with
    | some (.matrix m) => (e, showMatrix (covarianceColumnFeatures m))
    | _ => (e, "no-operand")
  | "covrow" :: name :: _ =>
    match lookupM e name with
    | some (.matrix m) => (e, showMatrix (covarianceRowFeatures m))
    | _ => (e, "no-operand")
  | "covt" :: name :: feature :: _ =>
    match lookupT e name with
    | some o => (e, showTensor (covarianceTensor "i" "j" o.asView feature))
    | none => (e, "no-operand")
  | "f1" :: pS :: rS :: _ =>
    match (Elem.parse pS : Option α), (Elem.parse rS : Option α) with
    | some p, some r => (e, s!"value={Elem.render (f1Score p r)}")
    | _, _ => (e, "bad-op")
  | _ => stepEnv e toks

end Generic

/-- `Trace<Fp>` / `Record<Fp>` as element types: forward-mode dual numbers over the prime field
    (`Model/DualElem.lean`).  On the wire `v~d` is a value with derivative part `d` (a `Trace`, or a
    `Record` variable whose seed is `d`), a bare `v` a constant (`Trace::constant` /
    `Record::constant`); answers carry value and (directional) derivative as `v~d`. -/
instance : NatCast (Dual Fp) := ⟨fun n => Dual.constant (n : Fp)⟩

instance : Elem (Dual Fp) where
  parse s :=
    match s.splitOn "~" with
    | [v] => v.toNat?.map fun x => Dual.constant (Fp.ofNat x)
    | [v, d] =>
      match v.toNat?, d.toNat? with
      | some x, some y => some ⟨Fp.ofNat x, Fp.ofNat y⟩
      | _, _ => none
    | _ => none
  render a := s!"{a.number.val}~{a.derivative.val}"

inductive State where
  | base (s : Driver.C03.State)
  | dual (e : Env (Dual Fp))

def init : State := .base .none

def step (s : State) (toks : List String) : State × String :=
  match toks with
  | ["@", "fp"] => (.base (.fp {}), "ok")
  | ["@", "rat"] => (.base (.rat {}), "ok")
  -- automatic-differentiation element types: the same generic model at dual numbers
  | ["@", "trace"] => (.dual {}, "ok")
  | ["@", "record"] => (.dual {}, "ok")
  | "softmax_f64" :: valsS :: _ =>
    -- f64 sanity oracle of the harness (finite, non-negative, sums to one): floats are never
    -- compared with the model, which only knows the length (theorem `softmax_length`)
    (s, s!"sane len={(splitComma valsS).length}")
  | _ =>
    match s with
    | .base (.fp e) =>
      match toks with
      | "softmax" :: valsS :: _ =>
        match (parseVals valsS : Option (List Fp)) with
        | some vals => (s, s!"data={showVals (softmax vals)}")
        | none => (s, "bad-op")
      | _ => let (e', a) := stepStats e toks; (.base (.fp e'), a)
    | .base (.rat e) => let (e', a) := stepStats e toks; (.base (.rat e'), a)
    | .dual e =>
      match toks with
      | "softmax" :: valsS :: _ =>
        match (parseVals valsS : Option (List (Dual Fp))) with
        | some vals => (s, s!"data={showVals (softmax vals)}")
        | none => (s, "bad-op")
      | _ => let (e', a) := stepStats e toks; (.dual e', a)
    | _ => (s, "no-case")

end Driver.C14
