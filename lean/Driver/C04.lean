/-
  Driver.C04 — line protocol for reverse-mode differentiation (records on one tape).

    @ tape fp|rat                 new case: one WengertList, element type Fp or Rat   → ok
    @ tape fp big                 the same for a LARGE case: answered by the array-backed
                                  evaluation of Driver/Fast.lean only (instruction lines, derivs,
                                  tryderivs); on every ordinary case both are run and compared
    <instruction line>            (Driver/Prog.lean)      → v=<value> const=<0|1> ## idx=<index>
    cmp <op> <a> <b>              == != < <= > >= partial_cmp of two records
                                                          → c=… (the comparison of the plain values)
    clone <r> <a>                 Clone                   → v=… const=… ## idx=… (of the copy)
    show <a>                      Display                 → s=<the plain value>
    derivs <r>                    Record::derivatives     → d=<∂r/∂x per input, in creation order>
                                                             ## full=<the whole vector>
                                                          | panic(explicit)      (r is a constant)
    tryderivs <r>                 Record::try_derivatives → some d=… ## full=… | none

  Before `##`: what C04 speaks about, computed from the *specification* (`Prog.eval`,
  `Prog.grad`, `Prog.deps`).  After it: the code-shaped model's tape layout.  The model's own
  value / derivative / constness answers are compared with the specification's on every line
  (`MODEL-SPEC-DISAGREE` is a machinery error: the theorems of Props/C04 say they coincide).
-/
import Driver.Prog
import Driver.Fast

namespace Driver.C04
open EasyMl EasyMl.Spec Driver

structure PState (R : Type) where
  prog : List (Instr R) := []
  envL : List (Nat × R) := []
  vs : List R := []
  deps : List Bool := []
  recs : List (Rec R) := []
  w : World R := World.empty
  names : Names := []
  /-- the array-backed evaluation of Driver/Fast.lean, run alongside and compared on every line
      of an ordinary case (it alone answers the `big` cases) -/
  fast : Fast.FState R := {}

inductive State where
  | none
  | fp (s : PState Fp)
  | rat (s : PState Rat)
  | big (s : Fast.FState Fp)

def init : State := .none

section
variable {R : Type} [Elem R]

def flag (ok : Bool) (s : String) : String := if ok then s else s ++ " MODEL-SPEC-DISAGREE"

def stepInstr (s : PState R) (name : String) (ins : Instr R) (x : Option R) : PState R × String :=
  let pos := s.vs.length
  let envL := match x with
    | some x => (pos, x) :: s.envL
    | none => s.envL
  let env := envOf envL
  let v := ins.val env s.vs
  let dep := ins.dep s.deps
  let (w', out) := ins.exec 0 env s.recs s.w
  match out with
  | .ok r =>
    let agree := r.number == v && r.isConstant == !dep
    ({ prog := s.prog ++ [ins], envL := envL, vs := s.vs ++ [v], deps := s.deps ++ [dep],
       recs := s.recs ++ [r], w := w', names := (name, pos) :: s.names, fast := s.fast },
     flag agree s!"v={Elem.render v} const={if dep then 0 else 1} ## idx={r.index}")
  | .panic k => ({ s with w := w' }, s!"MODEL-SPEC-DISAGREE panic({k})")

/-- the gradient of instruction `k` with respect to every input, from the specification -/
def specGrad (s : PState R) (k : Nat) : List R :=
  (Prog.vars s.prog).map fun i => (Prog.grad (envOf s.envL) s.prog i).getD k 0

def stepDerivs (s : PState R) (k : Nat) (try_ : Bool) : String :=
  let dep := s.deps.getD k false
  let r := getRec s.recs k
  if !dep then
    let modelConst := match r.tryDerivatives s.w with
      | .ok none => true
      | _ => false
    flag modelConst (if try_ then "none" else "panic(explicit)")
  else
    let g := specGrad s k
    match r.derivatives s.w with
    | .ok full =>
      let mine := (Prog.vars s.prog).map fun i => full.getD (getRec s.recs i).index 0
      flag (beqList mine g)
        s!"{if try_ then "some " else ""}d={renderList g} ## full={renderList full}"
    | .panic kind => s!"MODEL-SPEC-DISAGREE panic({kind})"

def stepCmp (s : PState R) (op : String) (a b : Nat) : String :=
  let (x, y) := (s.vs.getD a 0, s.vs.getD b 0)
  let (ra, rb) := (getRec s.recs a, getRec s.recs b)
  match cmpAnswer op (NumOrd.eq x y) (numPartialCmp x y),
        cmpAnswer op (ra.eq rb s.w).1 (ra.partialCmp rb s.w).1 with
  | some spec, some model => flag (spec == model) spec
  | _, _ => "bad-op"

def stepList (s : PState R) (toks : List String) : PState R × String :=
  match toks with
  | "cmp" :: op :: a :: b :: _ =>
    match s.names.find a, s.names.find b with
    | some a, some b => (s, stepCmp s op a b)
    | _, _ => (s, "bad-ref")
  | "clone" :: name :: a :: _ =>
    match s.names.find a with
    | some k =>
      let r := (getRec s.recs k).clone
      let v := s.vs.getD k 0
      let dep := s.deps.getD k false
      ({ s with names := (name, k) :: s.names },
       flag (r.number == v && r.isConstant == !dep)
         s!"v={Elem.render v} const={if dep then 0 else 1} ## idx={r.index}")
    | none => (s, "bad-ref")
  | "show" :: a :: _ =>
    match s.names.find a with
    | some k =>
      let spec := Elem.render (s.vs.getD k 0)
      (s, flag ((getRec s.recs k).display Elem.render == spec) s!"s={spec}")
    | none => (s, "bad-ref")
  | "debug" :: a :: _ =>
    match s.names.find a with
    | some k => (s, "dbg ## " ++ debugRec s.w (getRec s.recs k))
    | none => (s, "bad-ref")
  | "debugd" :: a :: _ =>
    match s.names.find a with
    | some k =>
      match (getRec s.recs k).derivatives s.w with
      | .ok d => (s, "dbg ## " ++ debugDerivs d)
      | .panic kind => (s, s!"panic({kind})")
    | none => (s, "bad-ref")
  | ["derivs", r] | ["derivs", r, _] =>
    match s.names.find r with
    | some k => (s, stepDerivs s k false)
    | none => (s, "bad-ref")
  | ["tryderivs", r] | ["tryderivs", r, _] =>
    match s.names.find r with
    | some k => (s, stepDerivs s k true)
    | none => (s, "bad-ref")
  | _ :: name :: _ =>
    match parseInstr (R := R) s.names toks with
    | some (ins, x) => stepInstr s name ins x
    | none => (s, if knownOp toks then "bad-ref" else "bad-op")
  | _ => (s, "bad-op")

/-- the list-based model and specification answer; the array-backed evaluation must give the
    same answer (and, for instructions, have appended as many tape entries) -/
def stepP (s : PState R) (toks : List String) : PState R × String :=
  let (s', ans) := stepList s toks
  match toks with
  | "cmp" :: _ | "show" :: _ | "debug" :: _ | "debugd" :: _ => (s', ans)
  | "clone" :: name :: a :: _ =>
    let fast := match s.fast.names.get? a with
      | some k => { s.fast with names := s.fast.names.insert name k }
      | none => s.fast
    ({ s' with fast := fast }, ans)
  | _ =>
    let (f', fans) := Fast.step s.fast toks
    let same := fans == ans && f'.tape.size == (s'.w 0).length && f'.recs.size == s'.recs.length
    ({ s' with fast := f' }, if same then ans else ans ++ s!" MODEL-SPEC-DISAGREE fast={fans}")

end

def step (s : State) (toks : List String) : State × String :=
  match toks with
  -- `via=new|default` (WengertList::new / Default) is an API variant: same model
  -- f64 self-checks of the harness (implementation vs documented formula): no model involved
  | "@" :: "f64" :: _ => (.none, "f64=ok")
  -- integer boundary self-checks of the harness (implementation vs the plain operator)
  | "@" :: "int" :: _ => (.none, "int=ok")
  | "@" :: "tape" :: "fp" :: "big" :: _ => (.big {}, "ok")
  | "@" :: "tape" :: "fp" :: _ => (.fp {}, "ok")
  | "@" :: "tape" :: "rat" :: _ => (.rat {}, "ok")
  | _ =>
    match s with
    | .none => (s, "bad-op")
    | .big f => let (f', a) := Fast.step f toks; (.big f', a)
    | .fp p => let (p', a) := stepP p toks; (.fp p', a)
    | .rat p => let (p', a) := stepP p toks; (.rat p', a)

end Driver.C04
