/-
  Driver.C05 — line protocol for forward-mode differentiation (traces).

    @ trace fp|rat                new case                                             → ok
    <instruction line>            (Driver/Prog.lean) executed once per input created so far,
                                  that input being the `Trace::variable`, all others constants
                                                   → v=<value> d=<derivative per input, creation order>
    derivs <r>                    the same program run with records on a tape, `derivatives()` of r
                                  compared with the forward answers   → fwdrev=ok d=<∂r/∂x per input>
                                                                      | fwdrev=ok const

  Everything printed is what C05 speaks about, computed from the *specification* (`Prog.eval`,
  `Prog.grad`); the dual-number model (`Prog.execDual`) and the tape model are compared with it on
  every line (`MODEL-SPEC-DISAGREE` is a machinery error: Props/C05 proves they coincide).
-/
import Driver.C04

namespace Driver.C05
open EasyMl EasyMl.Spec Driver

structure TState (R : Type) where
  /-- specification state, tape model state, names: as in C04 -/
  base : C04.PState R := {}
  /-- per input (position): formal derivatives of all instructions so far -/
  tss : List (Nat × List R) := []
  /-- per input (position): the dual numbers of the run in which it is seeded -/
  dss : List (Nat × List (Dual R)) := []

inductive State where
  | none
  | fp (s : TState Fp)
  | rat (s : TState Rat)

def init : State := .none

section
variable {R : Type} [Elem R]

def stepInstr (s : TState R) (name : String) (ins : Instr R) (x : Option R) : TState R × String :=
  let pos := s.base.vs.length
  let vs := s.base.vs
  let (base', recAns) := C04.stepInstr s.base name ins x
  let env := envOf base'.envL
  let v := ins.val env vs
  -- existing inputs: one more step of the specification and of the dual model
  let tss := s.tss.map fun (i, ts) => (i, ts ++ [ins.tan (unitSeed i) vs ts])
  let dss := s.dss.map fun (i, ds) => (i, ds ++ [ins.execDual i env ds])
  -- a new input: its run starts from the beginning of the program
  let (tss, dss) :=
    if ins.isVar then
      (tss ++ [(pos, Prog.grad env base'.prog pos)], dss ++ [(pos, Prog.execDual pos env base'.prog)])
    else (tss, dss)
  let specD : List R := tss.map fun (_, ts) => ts.getD pos 0
  let agree := (dss.zip specD).all fun ((_, ds), t) =>
    let d := getDual ds pos
    d.number == v && d.derivative == t
  let bad := (recAns.splitOn "MODEL-SPEC-DISAGREE").length > 1
  ({ base := base', tss := tss, dss := dss },
   C04.flag (agree && !bad) s!"v={Elem.render v} d={renderList specD}")

def stepDerivs (s : TState R) (k : Nat) : String :=
  let dep := s.base.deps.getD k false
  let specD : List R := s.tss.map fun (_, ts) => ts.getD k 0
  let r := getRec s.base.recs k
  if !dep then
    let ok := (match r.tryDerivatives s.base.w with | .ok none => true | _ => false)
      && specD.all (fun t => t == (0 : R))
    C04.flag ok "fwdrev=ok const"
  else
    match r.derivatives s.base.w with
    | .ok full =>
      let rev : List R := s.tss.map fun (i, _) => full.getD (getRec s.base.recs i).index 0
      let fwd : List R := s.dss.map fun (_, ds) => (getDual ds k).derivative
      C04.flag (beqList rev specD && beqList fwd specD) s!"fwdrev=ok d={renderList specD}"
    | .panic kind => s!"MODEL-SPEC-DISAGREE panic({kind})"

/-- comparisons / Display of traces: all runs carry the same number, the answer is that of the
    plain values; every run's traces are compared with it -/
def stepCmp (s : TState R) (op : String) (a b : Nat) : String :=
  let (x, y) := (s.base.vs.getD a 0, s.base.vs.getD b 0)
  match cmpAnswer op (NumOrd.eq x y) (numPartialCmp x y) with
  | none => "bad-op"
  | some spec =>
    let ok := s.dss.all fun (_, ds) =>
      let (da, db) := (getDual ds a, getDual ds b)
      cmpAnswer op (da.eq db) (da.partialCmp db) == some spec
    C04.flag ok spec

def stepT (s : TState R) (toks : List String) : TState R × String :=
  match toks with
  | "cmp" :: op :: a :: b :: _ =>
    match s.base.names.find a, s.base.names.find b with
    | some a, some b => (s, stepCmp s op a b)
    | _, _ => (s, "bad-ref")
  | "clone" :: name :: a :: _ =>
    match s.base.names.find a with
    | some k =>
      let v := s.base.vs.getD k 0
      let specD : List R := s.tss.map fun (_, ts) => ts.getD k 0
      let ok := (s.dss.zip specD).all fun ((_, ds), t) =>
        let d := (getDual ds k).clone
        d.number == v && d.derivative == t
      ({ s with base := { s.base with names := (name, k) :: s.base.names } },
       C04.flag ok s!"v={Elem.render v} d={renderList specD}")
    | none => (s, "bad-ref")
  | "debug" :: a :: _ =>
    match s.base.names.find a with
    | some k =>
      -- one text per seeded run, in creation order of the inputs
      (s, "dbg ## " ++ "|".intercalate (s.dss.map fun (_, ds) => debugDual (getDual ds k)))
    | none => (s, "bad-ref")
  | "show" :: a :: _ =>
    match s.base.names.find a with
    | some k =>
      let spec := Elem.render (s.base.vs.getD k 0)
      let ok := s.dss.all fun (_, ds) => (getDual ds k).display Elem.render == spec
      (s, C04.flag ok s!"s={spec}")
    | none => (s, "bad-ref")
  | ["derivs", r] | ["derivs", r, _] | ["tryderivs", r] | ["tryderivs", r, _] =>
    match s.base.names.find r with
    | some k => (s, stepDerivs s k)
    | none => (s, "bad-ref")
  | _ :: name :: _ =>
    match parseInstr (R := R) s.base.names toks with
    | some (ins, x) => stepInstr s name ins x
    | none => (s, if knownOp toks then "bad-ref" else "bad-op")
  | _ => (s, "bad-op")

end

def step (s : State) (toks : List String) : State × String :=
  match toks with
  -- f64 self-checks of the harness (implementation vs documented formula): no model involved
  | "@" :: "f64" :: _ => (.none, "f64=ok")
  -- integer boundary self-checks of the harness (implementation vs the plain operator)
  | "@" :: "int" :: _ => (.none, "int=ok")
  | "@" :: "trace" :: "fp" :: _ => (.fp {}, "ok")
  | "@" :: "trace" :: "rat" :: _ => (.rat {}, "ok")
  | _ =>
    match s with
    | .none => (s, "bad-op")
    | .fp p => let (p', a) := stepT p toks; (.fp p', a)
    | .rat p => let (p', a) := stepT p toks; (.rat p', a)

end Driver.C05
