/-
  Driver.C12 — line protocol for property C12 (matrix views and partitions).

  The answer before `##` is what C12 speaks about and is computed from the *specification*
  (EasyMl/Spec/MatrixView.lean: `MExpr.size`, `MExpr.cell`, `partitionSpec`); the code-shaped
  model (EasyMl/Model/MatrixView.lean) must give the same answer (theorems in Props/C12) — a
  disagreement is reported as MODEL-SPEC-DISAGREE (a machinery error).

    @ matrix <rows> <cols>                  leaf matrix with ids = flat offsets  → ok size=RxC
    @ cmatrix <rows> <cols>                 column-major source (MatrixRefTensor over a TensorAccess
                                            of a <cols>×<rows> tensor), ids = offsets  → ok size=RxC
    @ tmatrix <n1>:<l1>,<n2>:<l2> order=<direct|swapped>
                                            a matrix source made from a 2-dimensional tensor with the
                                            given (arbitrary) dimension names: MatrixRefTensor over it,
                                            Matrix::from(tensor), … (via=); `swapped`: through a
                                            TensorAccess in the order n2,n1                → ok size=RxC
    @ pmatrix <rows> <cols> <rp> <cp> <kr> <kc>
                                            the MatrixPart at grid position (kr, kc) of
                                            Matrix::partition(rp, cp) of a rows×cols matrix holding
                                            its offsets (parts[kr·(|cp|+1)+kc]) as the source of
                                            further views                              → ok size=RxC
    `prep=transpose_mut` on `@ tmatrix`: the tensor is transposed in place after it is filled
    consume <iter|add|sub|mul|tmul|neg|scalar|diag|det>
                                            a consumer of the current view (an iterator flavour / operator /
                                            Display / the tensor side / determinant, chosen by via=) over the same
                                            stack with signed elements: the row-major elements a, 2a, a − index,
                                            a·aᵀ, aᵀ·a, −a, 3a+1 (RxC:<ints>), the diagonal (n:<ints>), the
                                            determinant (some(d) | none for a non-square view)
    (all leaves take fill=<id|zero|const|parity>: the element stored at offset k is k, 0, 7, k mod 2)
    roundtrip [<n1> <n2>]                   … with TensorRefMatrix::with_names(current, [n1, n2])
    layout                                  data_layout()                       → row_major | column_major | other
    eq <same|cell:k|rows|cols> lhs=<self|rm|cm> rhs=<rm|cm>
                                            `==` between the view (or a copy of it in the given
                                            layout) and a copy (modified at the k-th element / one
                                            more row / column) in the given layout    → true | false
    mrange <rs>:<rl> <cs>:<cl>              MatrixRange::from(current, …)       → ok size=RxC
    mreverse <0|1> <0|1>                    MatrixReverse::from                 → ok size=RxC
    mmap                                    MatrixMap::from                     → ok size=RxC
    mswap                                   MatrixRefTensor(TensorAccess(TensorRefMatrix::from(current)?,
                                            [column, row])): the transposed view  → ok size=CxR | err <shape>
    roundtrip                               MatrixRefTensor(TensorRefMatrix::from(current)?)
                                                                                → ok size=RxC | err <shape>
    mget <r> <c>                            checked getters                     → some(<id>) | none
    uget <r> <c>                            unchecked getters (in range only)   → <id>
    scan                                    iterate the view in row-major order → RxC:<ids>
    set <r> <c>                             write through the view, scan the leaf → changed=<offsets> | none
    @ partition <rows> <cols> <rp> <cp>     Matrix::partition / partition_quadrants
                                                                                → ok sizes=RxC;… | panic(<kind>)
    partget <k> <r> <c>                     checked getter of part k            → some(<id>) | none
    partscan                                row-major iteration of every part   → RxC:<ids>;…
    partset <k> <r> <c>                     write through part k, scan the matrix → changed=<offsets> | none

  Views whose source is changed after construction (`source_ref_mut`, `source_ref`, `source`):
    @ live <rows> <cols> <fr>:<fc>,…        MatrixReverse(s) (innermost first) over a matrix holding
                                            1..rows·cols, source kind given by src=owned|mut|boxed
                                                                                → ok size=RxC
    src <C11 operation …>                   `view.source_ref_mut()…` down to the matrix, then the
                                            operation (insert_row, remove_column, retain_mut, set, …)
                                                                                → ok size=RxC | panic(<kind>) size=RxC
    wrap <fr> <fc> | unwrap                 one more MatrixReverse::from / `source(self)`   → ok size=RxC
    lget <r> <c> | luget <r> <c> | lscan    as mget / uget / scan, answering *elements*
    lset <r> <c>                            write through the view, scan the matrix → changed=<offsets> | none
    srcget <k> <r> <c>                      `source_ref()` k times, then the checked getter → some(<element>) | none
-/
import EasyMl.Spec.MatrixView
import Driver.Parse
import Driver.C11

namespace Driver.C12
open EasyMl EasyMl.Fallible EasyMl.MatrixView Driver

structure State where
  expr : Option MExpr := none
  view : Option MViewU := none
  parts : List MatrixPart := []       -- model
  specParts : List MatrixPart := []   -- specification
  live : Option (Live Nat) := none
  fill : String := "id"
  /-- the tensor behind the leaf was transposed in place after it was filled: `(rows, columns)`
      of the tensor as it is now; the element stored at offset `k` is the one filled in at offset
      `(k % columns) * rows + k / columns` -/
  perm : Option (Nat × Nat) := none

def init : State := {}

def A : Arith := Arith.fixed

def both (spec model : String) : String :=
  if spec = model then spec else s!"{spec} ## MODEL-SPEC-DISAGREE {model}"

/-- the element a leaf stores at offset `k` -/
def fillAt (fill : String) (k : Nat) : Nat :=
  if fill = "zero" then 0 else if fill = "const" then 7 else if fill = "parity" then k % 2 else k

/-- the element the leaf of the current case stores at offset `k` -/
def elemOf (s : State) (k : Nat) : Nat :=
  fillAt s.fill (match s.perm with | some (r, c) => (k % c) * r + k / c | none => k)

def parseRange (s : String) : Option IndexRange :=
  match s.splitOn ":" with
  | [a, b] =>
    match a.toNat?, b.toNat? with
    | some x, some y => some ⟨x, y⟩
    | _, _ => none
  | _ => none

def showIds (l : List Nat) : String := if l.isEmpty then "-" else ",".intercalate (l.map toString)

/-- install a new composition: evaluate it with the model, answer with the spec's size -/
def install (s : State) (e : MExpr) (names : String × String := ("row", "column")) : State × String :=
  match e.eval A with
  | .panic k => (s, s!"panic({k})")
  | .ok (.error shape) =>
    -- the wrapper refused an empty view; the current view stays
    let specAns := if e.Buildable then "MODEL-SPEC-DISAGREE buildable" else
      s!"err {showShape (shape.map fun (b, l) => (if b then names.1 else names.2, l))}"
    (s, specAns)
  | .ok (.ok v) =>
    let specAns := s!"ok size={e.size.1}x{e.size.2}"
    let modelAns := s!"ok size={v.view.rows}x{v.view.columns}"
    let ok := if e.Buildable then both specAns modelAns else "MODEL-SPEC-DISAGREE not-buildable"
    ({ s with expr := some e, view := some v }, ok)

/-! ### consumers of a view: what they must answer, as functions of the row-major elements -/

def showInts (l : List Int) : String := if l.isEmpty then "-" else ",".intercalate (l.map toString)

/-- Laplace expansion along the first row -/
def detLaplace : Nat → List (List Int) → Int
  | 0, _ => 1
  | n + 1, m =>
    let first := m.headD []
    (List.range (n + 1)).foldl (fun acc j =>
      let sign : Int := if j % 2 = 0 then 1 else -1
      acc + sign * first.getD j 0 * detLaplace n (m.tail.map fun row => row.eraseIdx j)) 0

def consumeAnswer (kind : String) (rows cols : Nat) (a : List Int) : String :=
  let el := fun (i j : Nat) => a.getD (i * cols + j) 0
  let grid := fun (r c : Nat) (f : Nat → Nat → Int) =>
    s!"{r}x{c}:" ++ showInts ((List.range r).flatMap fun i => (List.range c).map fun j => f i j)
  if kind = "iter" then grid rows cols el
  else if kind = "add" then grid rows cols fun i j => 2 * el i j
  else if kind = "sub" then grid rows cols fun i j => el i j - Int.ofNat (i * cols + j)
  else if kind = "neg" then grid rows cols fun i j => - el i j
  else if kind = "scalar" then grid rows cols fun i j => 3 * el i j + 1
  else if kind = "mul" then
    grid rows rows fun i k => (List.range cols).foldl (fun acc j => acc + el i j * el k j) 0
  else if kind = "tmul" then
    grid cols cols fun i k => (List.range rows).foldl (fun acc j => acc + el j i * el j k) 0
  else if kind = "diag" then
    let n := min rows cols
    s!"{n}:" ++ showInts ((List.range n).map fun k => el k k)
  else if kind = "det" then
    if rows = cols then
      s!"some({detLaplace rows ((List.range rows).map fun i => (List.range cols).map fun j => el i j)})"
    else "none"
  else "bad-op"

def scanSpec (e : MExpr) : List Nat :=
  (List.range e.size.1).flatMap fun i => (List.range e.size.2).filterMap fun j => e.cell i j

def scanModel (v : MViewU) : List (Outcome (Option Nat)) :=
  (List.range v.view.rows).flatMap fun i => (List.range v.view.columns).map fun j => v.view.get i j

def showScanModel (v : MViewU) (f : Nat → Nat) : String :=
  let cells := scanModel v
  if cells.all (fun | .ok (some _) => true | _ => false) then
    s!"{v.view.rows}x{v.view.columns}:" ++
      showIds (cells.filterMap fun | .ok (some i) => some (f i) | _ => none)
  else "MODEL-HOLE"

def partScan (p : MatrixPart) : String := s!"{p.rows}x{p.columns}:{showIds p.cells}"


/-- element stored at an offset of the current data -/
def elemAt (l : Live Nat) (o : Option Nat) : Option Nat := o.bind (l.leaf.data[·]?)

def liveSpec (l : Live Nat) : MExpr := reversalsOver l.leaf.rows l.leaf.columns l.flags

def liveSize (l : Live Nat) : String :=
  both s!"size={(liveSpec l).size.1}x{(liveSpec l).size.2}"
       s!"size={(l.view A).view.rows}x{(l.view A).view.columns}"

def parseFlags (s : String) : Option (List (Bool × Bool)) :=
  (splitComma s).mapM fun part =>
    match part.splitOn ":" with
    | [a, b] => some (a = "1", b = "1")
    | _ => none

def liveStep (s : State) (l : Live Nat) (toks : List String) : State × String :=
  match toks with
  | "src" :: rest =>
    match Driver.C11.parseOp rest with
    | none => (s, "bad-op")
    | some op =>
      let (l', p) := l.mutate op
      ({ s with live := some l' },
        (match p with | none => "ok " | some k => s!"panic({k}) ") ++ liveSize l')
  | "wrap" :: a :: b :: _ =>
    let l' := Live.reverse l (a = "1") (b = "1")
    ({ s with live := some l' }, "ok " ++ liveSize l')
  | "unwrap" :: _ =>
    match l.unwrap with
    | some l' => ({ s with live := some l' }, "ok " ++ liveSize l')
    | none => (s, "bad-op")
  | "lget" :: rS :: cS :: _ =>
    match rS.toNat?, cS.toNat? with
    | some r, some c =>
      (s, both (showOpt (elemAt l ((liveSpec l).cell r c)))
               (showOutcome (fun o => showOpt (elemAt l o)) ((l.view A).view.get r c)))
    | _, _ => (s, "bad-op")
  | "luget" :: rS :: cS :: _ =>
    match rS.toNat?, cS.toNat? with
    | some r, some c =>
      (s, both (match elemAt l ((liveSpec l).cell r c) with
                | some x => toString x | none => "out-of-contract")
               (match (l.view A).uget r c with
                | .ok o => (match elemAt l (some o) with | some x => toString x | none => "hole")
                | .panic k => s!"panic({k})"))
    | _, _ => (s, "bad-op")
  | "lscan" :: _ =>
    let e := liveSpec l
    let v := l.view A
    let specCells := (List.range e.size.1).flatMap fun i =>
      (List.range e.size.2).filterMap fun j => elemAt l (e.cell i j)
    let modelCells := (List.range v.view.rows).flatMap fun i =>
      (List.range v.view.columns).filterMap fun j =>
        match v.view.get i j with
        | .ok o => elemAt l o
        | .panic _ => none
    (s, both s!"{e.size.1}x{e.size.2}:{showIds specCells}"
             s!"{v.view.rows}x{v.view.columns}:{showIds modelCells}")
  | "lset" :: rS :: cS :: _ =>
    match rS.toNat?, cS.toNat? with
    | some r, some c =>
      (s, both (match (liveSpec l).cell r c with | some i => s!"changed={i}" | none => "none")
               (match (l.view A).view.get r c with
                | .ok (some i) => s!"changed={i}"
                | .ok none => "none"
                | .panic k => s!"panic({k})"))
    | _, _ => (s, "bad-op")
  | "srcget" :: kS :: rS :: cS :: _ =>
    match kS.toNat?, rS.toNat?, cS.toNat? with
    | some k, some r, some c =>
      match l.sourceRef k with
      | none => (s, "bad-op")
      | some inner =>
        (s, both (showOpt (elemAt inner ((liveSpec inner).cell r c)))
                 (showOutcome (fun o => showOpt (elemAt inner o)) ((inner.view A).view.get r c)))
    | _, _, _ => (s, "bad-op")
  | _ => (s, "bad-op")

def step (s : State) (toks : List String) : State × String :=
  match toks with
  | "@" :: "live" :: rS :: cS :: flagsS :: _ =>
    match rS.toNat?, cS.toNat?, parseFlags flagsS with
    | some r, some c, some flags =>
      let m : Matrix Nat := ⟨(List.range (r * c)).map (· + 1), r, c⟩
      let l := flags.foldl (fun (l : Live Nat) f => Live.reverse l f.1 f.2) (Live.matrix m)
      ({ live := some l }, "ok " ++ liveSize l)
    | _, _, _ => ({}, "bad-op")
  | "@" :: "matrix" :: rS :: cS :: rest =>
    match rS.toNat?, cS.toNat? with
    | some r, some c => install { fill := (optArg "fill" rest).getD "id" } (.leaf r c)
    | _, _ => ({}, "bad-op")
  | "@" :: "cmatrix" :: rS :: cS :: rest =>
    match rS.toNat?, cS.toNat? with
    | some r, some c => install { fill := (optArg "fill" rest).getD "id" } (.leafCM r c)
    | _, _ => ({}, "bad-op")
  | "@" :: "pmatrix" :: rS :: cS :: rpS :: cpS :: krS :: kcS :: rest =>
    match rS.toNat?, cS.toNat?, parseNatList rpS, parseNatList cpS, krS.toNat?, kcS.toNat? with
    | some r, some c, some rp, some cp, some kr, some kc =>
      install { fill := (optArg "fill" rest).getD "id" } (.part r c rp cp kr kc)
    | _, _, _, _, _, _ => ({}, "bad-op")
  | "@" :: "tmatrix" :: shapeS :: rest =>
    -- the names play no role: rows and columns are the first and the second length of the
    -- tensor (in the order it is accessed)
    match parseShape shapeS with
    | some [(_, l1), (_, l2)] =>
      -- `prep=transpose_mut`: the tensor was transposed in place after it was filled — it now
      -- has the lengths exchanged and its data rearranged
      let tr := (optArg "prep" rest).getD "" = "transpose_mut"
      let (t1, t2) := if tr then (l2, l1) else (l1, l2)
      let st : State := { fill := (optArg "fill" rest).getD "id", perm := if tr then some (t1, t2) else none }
      if (optArg "order" rest).getD "direct" = "swapped" then install st (.leafCM t2 t1)
      else install st (.leaf t1 t2)
    | _ => ({}, "bad-op")
  | "layout" :: _ =>
    match s.expr with
    | some e =>
      let sh : MLayout → String := fun
        | .rowMajor => "row_major" | .columnMajor => "column_major" | .other => "other"
      (s, both (sh e.layoutSpec) (sh e.layout))
    | none => (s, "no-view")
  | "eq" :: kind :: rest =>
    match s.expr with
    | none => (s, "no-view")
    | some e =>
      let cells := (scanSpec e).map (elemOf s)
      let (rows, cols) := e.size
      let lay : String → MLayout := fun t =>
        if t = "cm" then .columnMajor else if t = "rm" then .rowMajor else e.layout
      let left : Grid := ⟨rows, cols, lay ((optArg "lhs" rest).getD "self"),
        fun i j => cells.getD (i * cols + j) 0⟩
      let rl := lay ((optArg "rhs" rest).getD "rm")
      let right : Grid :=
        if kind = "rows" then ⟨rows + 1, cols, rl, fun i j => cells.getD (i * cols + j) 0⟩
        else if kind = "cols" then ⟨rows, cols + 1, rl, fun i j => if j < cols then cells.getD (i * cols + j) 0 else 0⟩
        else
          match (kind.splitOn ":") with
          | ["cell", kS] =>
            let k := kS.toNat?.getD 0
            ⟨rows, cols, rl, fun i j => cells.getD (i * cols + j) 0 + (if i * cols + j = k then 1 else 0)⟩
          | _ => ⟨rows, cols, rl, fun i j => cells.getD (i * cols + j) 0⟩
      let specAns := decide (left.rows = right.rows) && decide (left.columns = right.columns) &&
        ((List.range left.rows).all fun i => (List.range left.columns).all fun j =>
          left.elem i j == right.elem i j)
      (s, both (toString specAns) (toString (matrixEquality left right)))
  | "@" :: "partition" :: rS :: cS :: rpS :: cpS :: _ =>
    match rS.toNat?, cS.toNat?, parseNatList rpS, parseNatList cpS with
    | some r, some c, some rp, some cp =>
      let m : MatrixMeta := ⟨r * c, r, c⟩
      let showParts := fun (ps : List MatrixPart) =>
        "ok sizes=" ++ ";".intercalate (ps.map fun p => s!"{p.rows}x{p.columns}")
      let specO := partitionSpec m rp cp
      let modelO := partition m rp cp
      let st : State :=
        match specO, modelO with
        | .ok sp, .ok mp => { parts := mp, specParts := sp }
        | _, _ => {}
      (st, both (showOutcome showParts specO) (showOutcome showParts modelO))
    | _, _, _, _ => ({}, "bad-op")
  | "mrange" :: rS :: cS :: _ =>
    match s.expr, parseRange rS, parseRange cS with
    | some e, some r, some c => install s (.range e r c)
    | none, _, _ => (s, "no-view")
    | _, _, _ => (s, "bad-op")
  | "mreverse" :: rS :: cS :: _ =>
    match s.expr with
    | some e => install s (.reverse e (rS = "1") (cS = "1"))
    | none => (s, "no-view")
  | "mmap" :: _ =>
    match s.expr with
    | some e => install s (.map e)
    | none => (s, "no-view")
  | "mswap" :: _ =>
    match s.expr with
    | some e => install s (.swapped e)
    | none => (s, "no-view")
  | "roundtrip" :: rest =>
    match s.expr, s.view with
    | some e, some v =>
      match rest.filter (fun t => !(t.startsWith "via=")) with
      | n1 :: n2 :: _ =>
        if n1 = n2 then
          -- equal names: `with_names` answers Err with the shape it was asked for
          match tensorRefMatrixWithNames v.view n1 n2 with
          | .ok (.error sh) =>
            (s, both s!"err {showShape [(n1, e.size.1), (n2, e.size.2)]}" s!"err {showShape sh}")
          | .ok (.ok _) => (s, "MODEL-SPEC-DISAGREE accepted equal names")
          | .panic k => (s, s!"panic({k})")
        else install s (.viaTensor e) (n1, n2)
      | _ => install s (.viaTensor e)
    | _, _ => (s, "no-view")
  | "consume" :: kind :: _ =>
    match s.expr, s.view with
    | some e, some v =>
      let (rows, cols) := e.size
      let specA : List Int := (scanSpec e).map fun k => Int.ofNat (elemOf s k)
      let modelA : List Int := (scanModel v).filterMap fun | .ok (some k) => some (Int.ofNat (elemOf s k)) | _ => none
      (s, both (consumeAnswer kind rows cols specA) (consumeAnswer kind v.view.rows v.view.columns modelA))
    | _, _ => (s, "no-view")
  | "mget" :: rS :: cS :: _ =>
    match s.expr, s.view, rS.toNat?, cS.toNat? with
    | some e, some v, some r, some c =>
      (s, both (showOpt ((e.cell r c).map (elemOf s)))
               (showOutcome (fun o => showOpt (o.map (elemOf s))) (v.view.get r c)))
    | none, _, _, _ => (s, "no-view")
    | _, _, _, _ => (s, "bad-op")
  | "uget" :: rS :: cS :: _ =>
    match s.expr, s.view, rS.toNat?, cS.toNat? with
    | some e, some v, some r, some c =>
      (s, both (match e.cell r c with | some i => toString (elemOf s i) | none => "out-of-contract")
               (showOutcome (fun i => toString (elemOf s i)) (v.uget r c)))
    | none, _, _, _ => (s, "no-view")
    | _, _, _, _ => (s, "bad-op")
  | "scan" :: _ =>
    match s.expr, s.view with
    | some e, some v =>
      (s, both s!"{e.size.1}x{e.size.2}:{showIds ((scanSpec e).map (elemOf s))}"
               (showScanModel v (elemOf s)))
    | _, _ => (s, "no-view")
  | "set" :: rS :: cS :: _ =>
    -- a write through the view changes exactly the designated cell of the leaf
    match s.expr, s.view, rS.toNat?, cS.toNat? with
    | some e, some v, some r, some c =>
      -- specification: `MExpr.write` on the source data `0..n` with a fresh value, then compare
      let n := e.dataLen
      let after := e.write (List.range n) r c n
      let ch := (List.range n).filter fun k => after.getD k 0 != k
      (s, both (if ch.isEmpty then "none" else "changed=" ++ ",".intercalate (ch.map toString))
               (match v.view.get r c with
                | .ok (some i) => s!"changed={i}"
                | .ok none => "none"
                | .panic k => s!"panic({k})"))
    | none, _, _, _ => (s, "no-view")
    | _, _, _, _ => (s, "bad-op")
  | "partget" :: kS :: rS :: cS :: _ =>
    match kS.toNat?, rS.toNat?, cS.toNat? with
    | some k, some r, some c =>
      match s.specParts[k]?, s.parts[k]? with
      | some sp, some mp =>
        (s, both (showOutcome showOpt (sp.get r c)) (showOutcome showOpt (mp.get r c)))
      | _, _ => (s, "no-part")
    | _, _, _ => (s, "bad-op")
  | "partscan" :: _ =>
    (s, both (";".intercalate (s.specParts.map partScan)) (";".intercalate (s.parts.map partScan)))
  | "partset" :: kS :: rS :: cS :: _ =>
    match kS.toNat?, rS.toNat?, cS.toNat? with
    | some k, some r, some c =>
      match s.specParts[k]?, s.parts[k]? with
      | some sp, some mp =>
        let ans := fun (p : MatrixPart) =>
          match p.get r c with
          | .ok (some i) => s!"changed={i}"
          | .ok none => "none"
          | .panic k => s!"panic({k})"
        (s, both (ans sp) (ans mp))
      | _, _ => (s, "no-part")
    | _, _, _ => (s, "bad-op")
  | op :: _ =>
    if ["src", "wrap", "unwrap", "lget", "luget", "lscan", "lset", "srcget"].contains op then
      match s.live with
      | some l => liveStep s l toks
      | none => (s, "no-view")
    else (s, "bad-op")
  | _ => (s, "bad-op")

end Driver.C12
