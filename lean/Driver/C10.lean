/-
  Driver.C10 — line protocol for "calls that are expected to panic, followed by use of the
  surviving object" on tensors and tensor views, and for the access log of the monitor
  (history protocol P2; property C10).

  State: the caller's tensor (none before the first accepted constructor call).

  Constructors (the new tensor REPLACES the caller's object on success; otherwise the object the
  caller already had survives).  The data are `base, base+1, …, base+n-1`:
    @ from <shape> <n> <base>            Tensor::from        (case start: no tensor yet)
    @ try_from <shape> <n> <base>        Tensor::try_from
    from <shape> <n> <base>
    try_from <shape> <n> <base>
  Mutators (on the caller's object; after a panic the same object is used again):
    reshape_mut <shape>
    reshape_owned <shape>                (on a clone; the result replaces the object)
    rename <names>                       via=rename|rename_owned
    transpose_mut <names>                via=mut|alloc
    reorder_mut <names>                  via=mut|alloc
    map_mut <k> <p|->                    x ↦ x + k, the closure panics on its p-th call (0-based)
                                         via=tensor|view|access
    map_div <k>                          x ↦ k / x: panics on a zero element   via=tensor|view|access
    map_mut_with_index <k> <p|->         x at idx ↦ x + k + code(idx)   via=tensor|view|access
    access_map_mut <names> <k> <p|->     TensorAccess::from(&mut t, names).map_mut_with_index
    set <idx> <v>                        *get_reference_mut(idx)? = v    via=tensor|view|access
  Every answer to these:  <ok|err|panic> <state> ## kind=<panic kind>
    <state> ::= none | shape=<shape> len=<stored elements> data=<elements in iteration order>
    (read=<flavour> on the line says which iterator the harness reads the elements with)
  Observations:
    state                                <state>
    get <idx>                            some(v) | none        via=get_reference|access|panicking
    log <flavour>                        flavour ∈ copy|ref|mut|owned, optionally wi=1
    log_access <names> <flavour>         iteration through TensorAccess::from(&t, names)
    log_view <adaptor> <flavour>         iteration through one view adaptor over the tensor:
                                         range:<name>.<start>.<len> | mask:<name>.<start>.<len> |
                                         reverse:<name> | index:<name>.<i>   (TensorRange/TensorMask::
                                         from_all, clipped; TensorReverse::from; TensorIndex::from,
                                         i.e. `select`, which must reject i >= length)
        → accesses=<count> inbounds ## <leaf kind> <imm|mut> len=<stored> offs=<offsets>
        (`rejected` if the access constructor panics)
    log_rename <from> <set> <req> <flavour>   TensorRename::from(&mut t, from); set_names(set) under
                                         catch_unwind; the surviving view indexed by req
                                         (TensorAccess::from) and iterated
        → set=<ok|panic> names=<names of the survivor> <as for log | access=rejected>
  Stack / chain views over several mutable tensors (a case of its own):
    @ zlog <chain|stack> <tuple|array> <along> <action> <shape>;<shape>;…
        along: the chained dimension name | <pos>:<name> of the stacked dimension
        action ∈ copy|ref|mut|owned|map_mut|map_mut_wi (iteration flavour or in-place map on the view)
        → accesses=<n> inbounds ## tensor <imm|mut> lens=<stored per source> offs=<source>:<offset>,…
  Probe sources (leaves written in the harness that refuse out-of-shape unchecked accesses):
    @ piter <rows> <cols> <adaptor|-> <order> <flavour> via=plain|with_index|from_with_index
        every iterator constructor of matrices/iterators.rs (`from`, `from_numeric`, `with_index`,
        `WithIndex::from`) over a probe matrix (zero sizes allowed), bare or behind
        range:<rs>.<rl>.<cs>.<cl> / reverse:<r|c|rc>
    @ pten <shape> <adaptor|-> <flavour> via=…   the same for tensors/indexing.rs over a probe tensor
        → as for `log` with leaf kind `probe`
  Matrix cases (each a case of its own):
    @ mlog <rows> <cols> <order> <flavour>   order ∈ row_major|column_major|row:<r>|column:<c>|diagonal
        → as for `log` (`rejected`: the iterator constructor panics)
    @ mflat <rows> <cols> <n>            Matrix::from_flat_row_major((rows, cols), 1..=n)
    @ mempty <rows> <cols>               Matrix::empty(7, (rows, cols))
    @ mnew <R>x<C>                       Matrix with the elements 1..R*C; then lines
    m map_mut|map_mut_with_index <k> <p|->  via=matrix|view   closure panicking on its p-th call
    m map_div <k>  via=matrix|view        x ↦ k / x (panics on a zero element)
    m <operation of Driver.C11>          insert_row(_with), insert_column(_with), remove_row,
                                         remove_column, retain_mut … with valid or invalid arguments
        → <ok|panic> <R>x<C> len=<stored> use=<items of a walk over the matrix left behind>
    @ pnew <R>x<C>                       the same with an element type whose Clone panics on demand
    p insert_row|insert_column <i> <v> <p|->   the call, `Clone::clone` panicking on its p-th call
        → as for `m`
        → ok <rows>x<cols> len=<stored> use=<items of a row-major walk> | panic

  The part before `##` is what the property speaks about (outcome, and the object being
  consistent and equal to the specification-level value; all accesses in bounds); the part after
  `##` is code-shaped detail (panic kind, the exact offset sequence).
-/
import EasyMl.Model.Survivor
import Driver.Parse
import Driver.C09
import Driver.C11
import EasyMl.Model.View

namespace Driver.C10
open EasyMl EasyMl.Survivor Driver

abbrev T := Tensor String Nat

/-- the caller's tensor and (for the matrix lines) the caller's matrix -/
structure St where
  t : Option T
  m : Option (Matrix Nat)

abbrev State := St

def init : State := ⟨none, none⟩

/-! parsing -/

def parsePanicAt (s : String) : Option (Option Nat) :=
  if s = "-" then some none else s.toNat?.map some

/-- the index code the with-index closures add: base-7 digits of the index tuple -/
def code (idx : List Nat) : Nat := idx.foldl (fun a i => a * 7 + i + 1) 0

def mkData (n base : Nat) : List Nat := (List.range n).map (· + base)

def parseOp (toks : List String) : Option (Op String Nat) :=
  match toks with
  | "from" :: sh :: n :: b :: _ =>
    match parseShape sh, n.toNat?, b.toNat? with
    | some sh, some n, some b => some (.from sh (mkData n b))
    | _, _, _ => none
  | "try_from" :: sh :: n :: b :: _ =>
    match parseShape sh, n.toNat?, b.toNat? with
    | some sh, some n, some b => some (.tryFrom sh (mkData n b))
    | _, _, _ => none
  | "reshape_mut" :: sh :: _ => (parseShape sh).map .reshapeMut
  | "reshape_owned" :: sh :: _ => (parseShape sh).map .reshapeOwned
  | "rename" :: ns :: _ => some (.rename (parseNames ns))
  | "transpose_mut" :: ns :: _ => some (.transposeMut (parseNames ns))
  | "reorder_mut" :: ns :: _ => some (.reorderMut (parseNames ns))
  | "map_mut" :: k :: p :: _ =>
    match k.toNat?, parsePanicAt p with
    | some k, some p => some (.mapMut (· + k) p)
    | _, _ => none
  | "map_mut_with_index" :: k :: p :: _ =>
    match k.toNat?, parsePanicAt p with
    | some k, some p => some (.mapMutWithIndex (fun idx x => x + k + code idx) p)
    | _, _ => none
  | "access_map_mut" :: ns :: k :: p :: _ =>
    match k.toNat?, parsePanicAt p with
    | some k, some p => some (.accessMapMut (parseNames ns) (fun idx x => x + k + code idx) p)
    | _, _ => none
  | "set" :: idx :: v :: _ =>
    match parseNatList idx, v.toNat? with
    | some idx, some v => some (.set idx v)
    | _, _ => none
  | _ => none

/-! printing -/

def showOut : Out → String
  | .ok => "ok" | .err => "err" | .panic .hook => "panic(hook)" | .panic _ => "panic"

def showKind : Out → String
  | .panic k => s!" ## kind={k}"
  | _ => ""

/-- The elements in iteration order, read the way the library's iterators read them (C09 model:
    shape odometer, then the C01 offset of each yielded index, then the stored value). -/
def iterData (t : T) : Option (List Nat) :=
  let src := tensorSource t
  match tensorAccesses src (prod src.shape + 1) with
  | .panic _ => none
  | .ok accs => accs.mapM fun a => a.bind fun o => t.data[o]?

/-- the state as the property sees it: shape, stored element count, row-major elements;
    the iterator-level reading must agree (C09/C01 theorems) -/
def showState : Option T → String
  | none => "none"
  | some t =>
    let spec := s!"shape={showShape t.shape} len={t.data.length} data={showNats t.data}"
    match iterData t with
    | some d => if d = t.data then spec else s!"{spec} ## MODEL-SPEC-DISAGREE iter={showNats d}"
    | none => s!"{spec} ## MODEL-SPEC-DISAGREE iter=UB"

def showAccesses (kind : String) (mutable : Bool) (len : Nat) (r : Outcome (List Survivor.Access)) : String :=
  match r with
  | .panic k => s!"panic ## kind={k}"
  | .ok accs =>
    let inb := accs.all fun a => match a with
      | some o => decide (o < len)
      | none => false
    let offs := accs.map fun a => match a with
      | some o => toString o
      | none => "UB"
    let offsS := if offs.isEmpty then "-" else ",".intercalate offs
    let m := if mutable then "mut" else "imm"
    s!"accesses={accs.length} {if inb then "inbounds" else "OUT-OF-BOUNDS"} ## {kind} {m} len={len} offs={offsS}"

def flavourMutable : String → Option Bool
  | "copy" => some false | "ref" => some false | "mut" => some true | "owned" => some true
  | "owned_numeric" => some true   -- `from_numeric`: the same iterator with `T::zero()` placeholders
  | _ => none

def parseOrder (s : String) : Option MOrder :=
  match s.splitOn ":" with
  | ["row_major"] => some .rowMajor
  | ["column_major"] => some .columnMajor
  | ["diagonal"] => some .diagonal
  | ["row", r] => r.toNat?.map .row
  | ["column", c] => c.toNat?.map .column
  | _ => none

def orderTotal (rows columns : Nat) : MOrder → Nat
  | .rowMajor | .columnMajor => rows * columns
  | .row _ => columns
  | .column _ => rows
  | .diagonal => min rows columns

/-- a constructed matrix: size, stored element count, and the number of items a row-major walk
    over it yields (C09 model; each item is one unchecked leaf access) -/
def showMatrix (m : Matrix Nat) : String :=
  let used := match matrixAccesses (Iter.MSource.ofMatrix m.rows m.columns) .rowMajor
      (m.data.length + 2) with
    | .ok accs => toString accs.length
    | .panic k => s!"panic({k})"
  s!"ok {m.rows}x{m.columns} len={m.data.length} use={used}"

def stepT (s : Option T) (toks : List String) : Option T × String :=
  match toks with
  | ["@", "mlog", r, c, order, fl] =>
    match r.toNat?, c.toNat?, parseOrder order, flavourMutable fl with
    | some r, some c, some order, some m =>
      match Matrix.fromFlatRowMajor r c (List.range (r * c)) with
      | none => (none, "rejected")
      | some _ =>
        let src := Iter.MSource.ofMatrix r c
        match matrixAccesses src order (orderTotal r c order + 1) with
        | .panic _ => (none, "rejected")
        | res => (none, showAccesses "matrix" m (r * c) res)
    | _, _, _, _ => (none, "bad-op")
  | ["@", "mflat", r, c, n] =>
    match r.toNat?, c.toNat?, n.toNat? with
    | some r, some c, some n =>
      match Matrix.fromFlatRowMajor r c (List.range' 1 n) with
      | some m => (none, showMatrix m)
      | none => (none, "panic ## kind=explicit")
    | _, _, _ => (none, "bad-op")
  | ["@", "mempty", r, c] =>
    match r.toNat?, c.toNat? with
    | some r, some c =>
      match matrixEmpty r c 7 with
      | some m => (none, showMatrix m)
      | none => (none, "panic ## kind=explicit")
    | _, _ => (none, "bad-op")
  | "@" :: rest =>
    -- case start with a constructor: there is no object yet
    match parseOp rest with
    | some (.from shape data) =>
      match Tensor.fromOrPanic shape data with
      | .ok t => (some t, s!"ok {showState (some t)}")
      | .panic k => (none, s!"panic none ## kind={k}")
    | some (.tryFrom shape data) =>
      match Tensor.tryFrom shape data with
      | some t => (some t, s!"ok {showState (some t)}")
      | none => (none, "err none")
    | _ => (none, "bad-op")
  | ["state"] => (s, showState s)
  | "state" :: _ => (s, showState s)
  | "get" :: idx :: _ =>
    match s, parseNatList idx with
    | none, some _ => (s, "no-tensor")
    | some t, some idx => (s, showOpt (t.get idx))
    | _, none => (s, "bad-op")
  | "log" :: fl :: _ =>
    match s, flavourMutable fl with
    | none, some _ => (s, "no-tensor")
    | some t, some m =>
      let src := tensorSource t
      (s, showAccesses "tensor" m t.data.length (tensorAccesses src (prod src.shape + 1)))
    | _, none => (s, "bad-op")
  | "log_view" :: ad :: fl :: _ =>
    match s, flavourMutable fl with
    | none, some _ => (s, "no-tensor")
    | some t, some m =>
      -- the adaptor over the tensor as the C09 model builds it (clipping, rejection of empty views);
      -- `index:` (TensorIndex / select) is modelled in Model/Survivor.lean
      let names := t.shape.map (·.1)
      let built : Option (List String × Iter.TSource Nat) :=
        match ad.splitOn ":" with
        | ["index", spec] =>
          match spec.splitOn "." with
          | [n, i] =>
            match i.toNat? with
            | some i =>
              if names.contains n then
                (indexSource (tensorSource t) (names.idxOf n) i).map fun src => (names, src)
              else none
            | none => none
          | _ => none
        | _ => Driver.C09.applyTensorAdaptorT t ad
      match built with
      | none => (s, "rejected")
      | some (_, src) =>
        (s, showAccesses "tensor" m t.data.length (tensorAccesses src (prod src.shape + 1)))
    | _, none => (s, "bad-op")
  | "log_rename" :: fromS :: setS :: reqS :: fl :: _ =>
    match s, flavourMutable fl with
    | none, some _ => (s, "no-tensor")
    | some t, some m =>
      -- TensorRename::from(&mut t, from); set_names(set) under catch_unwind; then the surviving
      -- view is indexed by `req` (TensorAccess::from) and iterated
      let from_ := parseNames fromS
      if from_.length ≠ t.shape.length || hasDuplicates from_ then (s, "rejected")
      else
        let r := renameSetNames from_ (parseNames setS)
        let head := s!"set={if r.2 then "panic" else "ok"} names={if r.1.isEmpty then "-" else ",".intercalate r.1}"
        let src := tensorSource t
        match DimensionMappings.new (List.zip r.1 src.shape) (parseNames reqS) with
        | none => (s, s!"{head} access=rejected")
        | some mp =>
          let asrc := src.access mp
          (s, s!"{head} {showAccesses "tensor" m t.data.length (tensorAccesses asrc (prod asrc.shape + 1))}")
    | _, none => (s, "bad-op")
  | "log_access" :: ns :: fl :: _ =>
    match s, flavourMutable fl with
    | none, some _ => (s, "no-tensor")
    | some t, some m =>
      match accessSource t (parseNames ns) with
      | none => (s, "rejected")
      | some src => (s, showAccesses "tensor" m t.data.length (tensorAccesses src (prod src.shape + 1)))
    | _, none => (s, "bad-op")
  | _ =>
    let parsed : Option (Op String Nat) :=
      match toks, s with
      | "map_div" :: k :: _, some t =>
        -- `|x| k / x`: panics on the first zero element in storage order (access / view forms
        -- in source order visit the elements in the same order)
        k.toNat?.map fun k => .mapMut (fun x => k / x) (t.data.findIdx? (· == 0))
      | "map_div" :: k :: _, none => k.toNat?.map fun k => .mapMut (fun x => k / x) none
      | _, _ => parseOp toks
    match parsed with
    | none => (s, "bad-op")
    | some op =>
      match s with
      | none =>
        -- no object yet: only a constructor can produce one
        match op with
        | .from shape data =>
          match Tensor.fromOrPanic shape data with
          | .ok t => (some t, s!"ok {showState (some t)}")
          | .panic k => (none, s!"panic none ## kind={k}")
        | .tryFrom shape data =>
          match Tensor.tryFrom shape data with
          | some t => (some t, s!"ok {showState (some t)}")
          | none => (none, "err none")
        | _ => (s, "no-tensor")
      | some t =>
        let res := exec t op
        (some res.state, s!"{showOut res.out} {showState (some res.state)}{showKind res.out}")

/-- the matrix left behind: size, stored elements, items of a walk over it -/
def showMatrixState (m : Matrix Nat) : String :=
  let used := match matrixAccesses (Iter.MSource.ofMatrix m.rows m.columns) .rowMajor
      (m.data.length + 2) with
    | .ok accs => toString accs.length
    | .panic k => s!"panic({k})"
  s!"{m.rows}x{m.columns} len={m.data.length} use={used} data={showNats m.data}"

def matrixClosureOp (m : Matrix Nat) (toks : List String) : Option (Matrix.Res Nat) :=
  match toks with
  | "map_mut" :: k :: p :: _ =>
    match k.toNat?, parsePanicAt p with
    | some k, some p => some (matrixMapPanic m (fun x _ _ => x + k) p)
    | _, _ => none
  | "map_mut_with_index" :: k :: p :: _ =>
    match k.toNat?, parsePanicAt p with
    | some k, some p => some (matrixMapPanic m (fun x i j => x + (k * (i + 1) + j)) p)
    | _, _ => none
  | "map_div" :: k :: _ =>
    -- `|x| k / x` on unsigned integers panics on the first zero element
    k.toNat?.map fun k => matrixMapPanic m (fun x _ _ => k / x) (m.data.findIdx? (· == 0))
  | _ => none

def step (s : State) (toks : List String) : State × String :=
  match toks with
  | ["@", "mnew", sz] =>
    match Driver.C11.parseSize sz with
    | some (r, c) =>
      match Matrix.fromFlatRowMajor r c (List.range' 1 (r * c)) with
      | some m => (⟨none, some m⟩, s!"ok {showMatrixState m}")
      | none => (⟨none, none⟩, "panic ## kind=explicit")
    | none => (⟨none, none⟩, "bad-op")
  | ["@", "zlog", kind, _form, along, action, shapesS] =>
    -- TensorChain / TensorStack over several (mutable) tensors, through the C02 view model
    let shapes := (shapesS.splitOn ";").mapM parseShape
    let mutable? : Option Bool := match action with
      | "copy" | "ref" => some false
      | "mut" | "owned" | "map_mut" | "map_mut_wi" => some true
      | _ => none
    match shapes, mutable? with
    | some shapes, some m =>
      let leaves : Option (List (View String Nat)) := (List.zip (List.range shapes.length) shapes).mapM
        fun (i, sh) => View.mkTensor i sh (List.range (elements sh))
      let view : Option (View String Nat) := leaves.bind fun ls =>
        if kind = "chain" then View.mkChain ls along
        else
          match along.splitOn ":" with
          | [pos, name] => pos.toNat?.bind fun p => View.mkStack ls (p, name)
          | _ => none
      match view with
      | none => (⟨none, none⟩, "rejected")
      | some v =>
        let shape := lens v.shape
        let cell : List Nat → Option (Nat × Nat) := fun idx =>
          match v.getUnchecked idx with
          | .ok c => some c
          | .panic _ => none
        match Iter.collect (Iter.refNext Iter.shapeNext cell) (prod shape + 1) (Iter.ShapeIter.new shape) with
        | .panic k => (⟨none, none⟩, s!"panic ## kind={k}")
        | .ok (items, _) =>
          let accs := items.filterMap id
          let lensL := shapes.map elements
          let inb := accs.all fun a => match a with
            | some (i, o) => decide (o < lensL.getD i 0)
            | none => false
          let offs := accs.map fun a => match a with
            | some (i, o) => s!"{i}:{o}"
            | none => "UB"
          (⟨none, none⟩, s!"accesses={accs.length} {if inb then "inbounds" else "OUT-OF-BOUNDS"} ## tensor {if m then "mut" else "imm"} lens={showNats lensL} offs={if offs.isEmpty then "-" else ",".intercalate offs}")
    | _, _ => (⟨none, none⟩, "bad-op")
  | "@" :: "piter" :: r :: c :: ad :: order :: fl :: _ =>
    -- every iterator constructor over a probe matrix (zero sizes allowed), bare or behind one adaptor
    match r.toNat?, c.toNat?, parseOrder order, flavourMutable fl with
    | some r, some c, some order, some m =>
      let leaf := Iter.MSource.ofMatrix r c
      let src? : Option (Iter.MSource Nat) := if ad = "-" then some leaf else Driver.C09.applyMatrixAdaptor leaf ad
      match src? with
      | none => (⟨none, none⟩, "bad-op")
      | some src =>
        match matrixAccesses src order (orderTotal src.rows src.columns order + 1) with
        | .panic _ => (⟨none, none⟩, "rejected")
        | res => (⟨none, none⟩, showAccesses "probe" m (r * c) res)
    | _, _, _, _ => (⟨none, none⟩, "bad-op")
  | "@" :: "pten" :: sh :: ad :: fl :: _ =>
    match parseShape sh, flavourMutable fl with
    | some shape, some m =>
      match Tensor.tryFrom shape (List.range (elements shape)) with
      | none => (⟨none, none⟩, "rejected")
      | some t =>
        let names := shape.map (·.1)
        let src? : Option (Iter.TSource Nat) :=
          if ad = "-" then some (tensorSource t)
          else (Driver.C09.applyTensorAdaptorT t ad).map (·.2)
        match src? with
        | none => (⟨none, none⟩, "rejected")
        | some src =>
          (⟨none, none⟩, showAccesses "probe" m t.data.length (tensorAccesses src (prod src.shape + 1)))
    | _, _ => (⟨none, none⟩, "bad-op")
  | ["@", "pnew", sz] =>
    -- the same matrix with an element type whose `Clone` can be made to panic
    match Driver.C11.parseSize sz with
    | some (r, c) =>
      match Matrix.fromFlatRowMajor r c (List.range' 1 (r * c)) with
      | some m => (⟨none, some m⟩, s!"ok {showMatrixState m}")
      | none => (⟨none, none⟩, "panic ## kind=explicit")
    | none => (⟨none, none⟩, "bad-op")
  | ["p", op, i, v, p] =>
    match s.m, i.toNat?, v.toNat?, parsePanicAt p with
    | none, some _, some _, some _ => (s, "no-matrix")
    | some m, some i, some v, some p =>
      let res? : Option (Matrix.Res Nat) :=
        if op = "insert_row" then some (insertRowCloning m i v p)
        else if op = "insert_column" then some (insertColumnCloning m i v p)
        else none
      match res? with
      | none => (s, "bad-op")
      | some res =>
        let out := if res.panic.isSome then "panic" else "ok"
        let kind := match res.panic with
          | none => ""
          | some k => s!" ## kind={k}"
        ({ s with m := some res.state }, s!"{out} {showMatrixState res.state}{kind}")
    | _, _, _, _ => (s, "bad-op")
  | "m" :: rest =>
    -- the C11 model of the resizing operations: the matrix left behind, also after a panic
    match s.m, ((s.m.bind fun m => matrixClosureOp m rest).map Sum.inl).orElse
        (fun _ => (Driver.C11.parseOp rest).map Sum.inr) with
    | none, some _ => (s, "no-matrix")
    | some m, some opOrRes =>
      let res := match opOrRes with
        | .inl r => r
        | .inr op => Matrix.exec m op
      let out := match res.panic with
        | none => "ok"
        | some .hook => "panic(hook)"
        | some _ => "panic"
      let kind := match res.panic with
        | none => ""
        | some k => s!" ## kind={k}"
      ({ s with m := some res.state }, s!"{out} {showMatrixState res.state}{kind}")
    | _, none => (s, "bad-op")
  | _ =>
    let r := stepT s.t toks
    let m := if toks.head? = some "@" then none else s.m
    (⟨r.1, m⟩, r.2)

end Driver.C10
