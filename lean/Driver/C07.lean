/-
  Driver.C07 — line protocol for determinant and inverse.

    @ <fp|rat> <a>:<rows>,<b>:<cols> <entries>    the logical matrix shown by the input (row-major);
                                                  a, b are the tensor dimension names
    mdet via=…      linear_algebra::determinant / Matrix::determinant       → some(v) | none
    minv via=…      linear_algebra::inverse / Matrix::inverse               → some(RxC;e,…) | none
    tdet via=…      determinant_tensor / Tensor / TensorView ::determinant  → some(v) | none
    tinv via=…      inverse_tensor / Tensor / TensorView ::inverse          → some(a:R,b:C;e,…) | none
    mcheck via=…    A·A⁻¹ and A⁻¹·A for the Matrix inverse                  → none | some(id,id) | some(<p>|<q>)
    tcheck via=…    the same for the tensor inverse

  `via=` (which Rust entry point / ownership form / view adaptor presents the matrix) is ignored:
  every variant must give the model's single answer.  Values are exact field elements
  (`Fp`: representative in [0,p); `Rat`: `n` or `n/d`).
-/
import EasyMl.Model.Det
import Driver.Parse

namespace Driver.C07
open EasyMl EasyMl.Det Driver

inductive Elems where
  | fp (l : List Fp)
  | rat (l : List Rat)

structure State where
  names : String × String := ("", "")
  rows : Nat := 0
  cols : Nat := 0
  elems : Elems := .fp []

def init : State := {}

def parseRat (s : String) : Option Rat :=
  match s.splitOn "/" with
  | [n] => n.toInt?.map fun i => (i : Rat)
  | [n, d] => match n.toInt?, d.toNat? with
    | some i, some k => some (mkRat i k)
    | _, _ => none
  | _ => none

def parseFp (s : String) : Option Fp := s.toInt?.map Fp.ofInt

section Generic
variable {α : Type} [Add α] [Sub α] [Mul α] [Div α] [Zero α] [One α] [NumOrd α]

def showVals (sh : α → String) (l : List α) : String := ",".intercalate (l.map sh)

def matOf (rows cols : Nat) (l : List α) : EasyMl.Matrix α := ⟨l, rows, cols⟩

def viewOf (rows cols : Nat) (l : List α) : View α :=
  ⟨rows, cols, fun r c => l.getD (c + r * cols) 0⟩

/-- plain row-by-column product of two `n × n` row-major buffers (driver only) -/
def matMul (n : Nat) (x y : List α) : List α :=
  (indexPairs n n).map fun (i, j) =>
    (List.range n).foldl (fun acc k => acc + x.getD (k + i * n) 0 * y.getD (j + k * n) 0) 0

def isIdentity (n : Nat) (x : List α) : Bool :=
  x.length == n * n &&
  (indexPairs n n).all fun (i, j) =>
    NumOrd.eq (x.getD (j + i * n) 0) (if i == j then (1 : α) else 0)

def checkStr (sh : α → String) (n : Nat) (a inv : List α) : String :=
  let p := matMul n a inv
  let q := matMul n inv a
  if isIdentity n p && isIdentity n q then "some(id,id)"
  else s!"some({showVals sh p}|{showVals sh q})"

def answer (sh : α → String) (names : String × String) (rows cols : Nat) (l : List α)
    (op : String) : String :=
  match op with
  | "mdet" => match determinant (matOf rows cols l) with
    | some d => s!"some({sh d})" | none => "none"
  | "tdet" => match determinantTensor (viewOf rows cols l) with
    | some d => s!"some({sh d})" | none => "none"
  | "minv" => showOutcome (fun
      | some (m : EasyMl.Matrix α) => s!"some({m.rows}x{m.columns};{showVals sh m.data})"
      | none => "none") (inverse (matOf rows cols l))
  | "tinv" => showOutcome (fun
      | some (t : Tensor String α) => s!"some({showShape t.shape};{showVals sh t.data})"
      | none => "none") (inverseTensor names (viewOf rows cols l))
  | "mcheck" => showOutcome (fun
      | some (m : EasyMl.Matrix α) => checkStr sh rows l m.data
      | none => "none") (inverse (matOf rows cols l))
  | "tcheck" => showOutcome (fun
      | some (t : Tensor String α) => checkStr sh rows l t.data
      | none => "none") (inverseTensor names (viewOf rows cols l))
  | _ => "bad-op"

end Generic

def step (s : State) (toks : List String) : State × String :=
  match toks with
  | ["@", ty, shapeS, entriesS] =>
    match parseShape shapeS with
    | some [(a, r), (b, c)] =>
      let ents := splitComma entriesS
      if ents.length ≠ r * c then (s, "bad-op") else
      if ty = "fp" then
        match ents.mapM parseFp with
        | some l => ({ names := (a, b), rows := r, cols := c, elems := .fp l }, "ok")
        | none => (s, "bad-op")
      else if ty = "rat" then
        match ents.mapM parseRat with
        | some l => ({ names := (a, b), rows := r, cols := c, elems := .rat l }, "ok")
        | none => (s, "bad-op")
      else (s, "bad-op")
    | _ => (s, "bad-op")
  | op :: _ =>
    match s.elems with
    | .fp l => (s, answer (fun (x : Fp) => toString x) s.names s.rows s.cols l op)
    | .rat l => (s, answer showRat s.names s.rows s.cols l op)
  | _ => (s, "bad-op")

end Driver.C07
