/-
  Driver.C07 — line protocol for determinant and inverse.

    @ <fp|rat|i64> <a>:<rows>,<b>:<cols> <entries>   the logical matrix shown by the input (row-major);
                                                  a, b are the tensor dimension names (i64: exact integers,
                                                  answered like rat)
    @ <f64|f32> <shape> <integer entries> [scale10=k] [scale2=k]
                                                  float case: the matrix is base·10^k·2^k.  Floats are never
                                                  compared with model values: the answers below are the
                                                  specification's (presence from the exact base — scaling by a
                                                  non-zero factor keeps the determinant non-zero,
                                                  `C07.scaling_keeps_invertibility` — and "both products are the
                                                  identity to rounding accuracy"):
                                                  mdet/tdet/minv → some | none, tinv → some(<shape>) | none,
                                                  mcheck/tcheck → some(approx-id) | none
    @ f64b <shape> <hex bit patterns>             f64 given bit by bit (±0.0, ±inf, NaN, subnormals …).  The
                                                  questions mdbits/tdbits/mibits/tibits are decided inside the
                                                  harness (implementation against the documented operation order
                                                  evaluated there, to_bits, NaNs identified); the only
                                                  specification-level answer is `agree`, which is what this
                                                  driver says — no float is modelled here
    mdet via=…      linear_algebra::determinant / Matrix::determinant       → some(v) | none
    minv via=…      linear_algebra::inverse / Matrix::inverse               → some(RxC;e,…) | none
    tdet via=…      determinant_tensor / Tensor / TensorView ::determinant  → some(v) | none
    tinv via=…      inverse_tensor / Tensor / TensorView ::inverse          → some(a:R,b:C;e,…) | none
    mcheck via=…    A·A⁻¹ and A⁻¹·A for the Matrix inverse                  → none | some(id,id) | some(<p>|<q>)
    tcheck via=…    the same for the tensor inverse
    tcons use=<consumer> via=…   the tensor inverse passed through another consumer of the library:
                    into_matrix | matrix_from → some(RxC;e,…); elementwise (· with the input) | map_with_index
                    (· (row-major position + 1)) | add_plain | sub_plain (with the input as a plain tensor) |
                    reshape_owned | iter_owned | iter_ref → some(e,…); display | eq_rebuilt (against a tensor built
                    afresh from the Matrix entry point's result) → some(same); none when there is no inverse

  `via=` (which Rust entry point / ownership form / view adaptor presents the matrix) is ignored:
  every variant must give the model's single answer.  Values are exact field elements
  (`Fp`: representative in [0,p); `Rat`: `n` or `n/d`).
-/
import EasyMl.Model.Det
import Driver.Parse

namespace Driver.C07
open EasyMl EasyMl.Det Driver

inductive Elems where
  | fp (l : List Fp)
  | rat (l : List Rat)

structure State where
  names : String × String := ("", "")
  rows : Nat := 0
  cols : Nat := 0
  elems : Elems := .fp []
  /-- float case: `elems` holds the exact integer base, answers are specification-level only -/
  approx : Bool := false
  /-- f64 by bit patterns: questions are decided in the harness -/
  bits : Bool := false

def init : State := {}

def parseRat (s : String) : Option Rat :=
  match s.splitOn "/" with
  | [n] => n.toInt?.map fun i => (i : Rat)
  | [n, d] => match n.toInt?, d.toNat? with
    | some i, some k => some (mkRat i k)
    | _, _ => none
  | _ => none

def parseFp (s : String) : Option Fp := s.toInt?.map Fp.ofInt

section Generic
variable {α : Type} [Add α] [Sub α] [Mul α] [Div α] [Zero α] [One α] [NumOrd α]

def showVals (sh : α → String) (l : List α) : String := ",".intercalate (l.map sh)

def matOf (rows cols : Nat) (l : List α) : EasyMl.Matrix α := ⟨l, rows, cols⟩

def viewOf (rows cols : Nat) (l : List α) : View α :=
  ⟨rows, cols, fun r c => l.getD (c + r * cols) 0⟩

/-- plain row-by-column product of two `n × n` row-major buffers (driver only) -/
def matMul (n : Nat) (x y : List α) : List α :=
  (indexPairs n n).map fun (i, j) =>
    (List.range n).foldl (fun acc k => acc + x.getD (k + i * n) 0 * y.getD (j + k * n) 0) 0

def isIdentity (n : Nat) (x : List α) : Bool :=
  x.length == n * n &&
  (indexPairs n n).all fun (i, j) =>
    NumOrd.eq (x.getD (j + i * n) 0) (if i == j then (1 : α) else 0)

def checkStr (sh : α → String) (n : Nat) (a inv : List α) : String :=
  let p := matMul n a inv
  let q := matMul n inv a
  if isIdentity n p && isIdentity n q then "some(id,id)"
  else s!"some({showVals sh p}|{showVals sh q})"

def answer (sh : α → String) (names : String × String) (rows cols : Nat) (l : List α)
    (op : String) : String :=
  match op with
  | "mdet" => match determinant (matOf rows cols l) with
    | some d => s!"some({sh d})" | none => "none"
  | "tdet" => match determinantTensor (viewOf rows cols l) with
    | some d => s!"some({sh d})" | none => "none"
  | "minv" => showOutcome (fun
      | some (m : EasyMl.Matrix α) => s!"some({m.rows}x{m.columns};{showVals sh m.data})"
      | none => "none") (inverse (matOf rows cols l))
  | "tinv" => showOutcome (fun
      | some (t : Tensor String α) => s!"some({showShape t.shape};{showVals sh t.data})"
      | none => "none") (inverseTensor names (viewOf rows cols l))
  | "mcheck" => showOutcome (fun
      | some (m : EasyMl.Matrix α) => checkStr sh rows l m.data
      | none => "none") (inverse (matOf rows cols l))
  | "tcheck" => showOutcome (fun
      | some (t : Tensor String α) => checkStr sh rows l t.data
      | none => "none") (inverseTensor names (viewOf rows cols l))
  | _ => "bad-op"

end Generic

/-- answers for a float case, from the exact base matrix -/
def answerApprox (names : String × String) (rows cols : Nat) (l : List Rat) (op : String) : String :=
  match op with
  | "mdet" => if (determinant (matOf rows cols l)).isSome then "some" else "none"
  | "tdet" => if (determinantTensor (viewOf rows cols l)).isSome then "some" else "none"
  | "minv" => showOutcome (fun
      | some (_ : EasyMl.Matrix Rat) => "some" | none => "none") (inverse (matOf rows cols l))
  | "tinv" => showOutcome (fun
      | some (t : Tensor String Rat) => s!"some({showShape t.shape})"
      | none => "none") (inverseTensor names (viewOf rows cols l))
  | "mcheck" => showOutcome (fun
      | some (_ : EasyMl.Matrix Rat) => "some(approx-id)" | none => "none") (inverse (matOf rows cols l))
  | "tcheck" => showOutcome (fun
      | some (_ : Tensor String Rat) => "some(approx-id)" | none => "none")
      (inverseTensor names (viewOf rows cols l))
  | _ => "bad-op"

/-- `tcons`: what each consumer must show, from the model's buffer (row-major, shape order) -/
def answerCons {α : Type} [Add α] [Sub α] [Mul α] [Div α] [Zero α] [One α] [NumOrd α] [NatCast α]
    (sh : α → String) (names : String × String) (rows cols : Nat) (l : List α) (use : String) : String :=
  match inverseTensor names (viewOf rows cols l) with
  | .panic k => s!"panic({k})"
  | .ok none => "none"
  | .ok (some t) =>
    let inv := t.data
    match use with
    | "into_matrix" | "matrix_from" => s!"some({rows}x{cols};{showVals sh inv})"
    | "elementwise" => s!"some({showVals sh (List.zipWith (· * ·) inv l)})"
    | "map_with_index" =>
      s!"some({showVals sh (inv.zipIdx.map fun (x : α × Nat) => x.1 * ((x.2 + 1 : Nat) : α))})"
    | "add_plain" => s!"some({showVals sh (List.zipWith (· + ·) inv l)})"
    | "sub_plain" => s!"some({showVals sh (List.zipWith (· - ·) inv l)})"
    | "reshape_owned" | "iter_owned" | "iter_ref" => s!"some({showVals sh inv})"
    | "display" | "eq_rebuilt" => "some(same)"
    | _ => "bad-op"

def step (s : State) (toks : List String) : State × String :=
  match toks with
  | "@" :: ty :: shapeS :: entriesS :: _opts =>
    match parseShape shapeS with
    | some [(a, r), (b, c)] =>
      let ents := splitComma entriesS
      if ents.length ≠ r * c then (s, "bad-op") else
      if ty = "fp" then
        match ents.mapM parseFp with
        | some l => ({ names := (a, b), rows := r, cols := c, elems := .fp l }, "ok")
        | none => (s, "bad-op")
      else if ty = "rat" || ty = "i64" then
        match ents.mapM parseRat with
        | some l => ({ names := (a, b), rows := r, cols := c, elems := .rat l }, "ok")
        | none => (s, "bad-op")
      else if ty = "f64b" then
        ({ names := (a, b), rows := r, cols := c, elems := .rat [], bits := true }, "ok")
      else if ty = "f64" || ty = "f32" then
        match ents.mapM parseRat with
        | some l => ({ names := (a, b), rows := r, cols := c, elems := .rat l, approx := true }, "ok")
        | none => (s, "bad-op")
      else (s, "bad-op")
    | _ => (s, "bad-op")
  | op :: _ =>
    if s.bits then
      (s, if op = "mdbits" || op = "tdbits" || op = "mibits" || op = "tibits" then "agree" else "bad-op")
    else
    match s.elems with
    | .fp l =>
      if op = "tcons" then
        (s, answerCons (fun (x : Fp) => toString x) s.names s.rows s.cols l ((optArg "use" toks).getD ""))
      else (s, answer (fun (x : Fp) => toString x) s.names s.rows s.cols l op)
    | .rat l =>
      if s.approx then (s, answerApprox s.names s.rows s.cols l op)
      else if op = "tcons" then
        (s, answerCons showRat s.names s.rows s.cols l ((optArg "use" toks).getD ""))
      else (s, answer showRat s.names s.rows s.cols l op)
  | _ => (s, "bad-op")

end Driver.C07
