/-
  Driver.Surface — the "API surface" operations shared by C01 and C13 (see harness/src/surface.rs):

    sread  <kind> <names> route=<r>    content of the view (kind a = TensorAccess, x = TensorTranspose,
                                       t = the tensor itself) read through route r
    swrite <kind> <names> route=<r>    (idx, x) ↦ 1000x + code idx (route map_mut: x ↦ 3x+1) written to
                                       every cell through route r, then the view read back

  The answers do not depend on the route.  Before `##`-less `both`: the specification
  (Spec/Transform.lean: value of the lazy view / of the mapped lazy view); the code-shaped model
  (`TView.access`, `TView.transposeView`, `Access.mapMutWithIndex`, `Tensor.mapMutWithIndex`) must
  coincide.
-/
import EasyMl.Model.Transform
import EasyMl.Spec.Transform
import Driver.Parse

namespace Driver.Surface
open EasyMl Driver

abbrev T := Tensor String Nat

def both (spec model : String) : String :=
  if spec = model then spec else s!"{spec} ## MODEL-SPEC-DISAGREE {model}"

def showVal (shape : List (String × Nat)) (data : List Nat) : String :=
  s!"shape={showShape shape} data={showNats data}"

def code (idx : List Nat) : Nat := idx.foldl (fun acc i => acc * 7 + i + 1) 0
def mapiF (idx : List Nat) (x : Nat) : Nat := 1000 * x + code idx
def mapF (x : Nat) : Nat := 3 * x + 1

def specView (t : T) (kind : String) (names : List String) : Option (Spec.LazyView String Nat) :=
  let base := Spec.ofData t.shape t.data
  if kind = "t" then some base
  else if decide (Spec.IsOrdering t.shape names) then
    some (if kind = "a" then Spec.reordered base names else Spec.transposed base names)
  else none

def modelView (t : T) (kind : String) (names : List String) : Option (TView String Nat) :=
  if kind = "t" then some t.view
  else if kind = "a" then t.view.access names
  else t.view.transposeView names

/-- `none`: not a surface operation -/
def step (t : T) (toks : List String) : Option String :=
  match toks with
  | "sread" :: kind :: namesS :: _ =>
    let names := parseNames namesS
    some <|
      match specView t kind names, modelView t kind names with
      | some sv, some mv =>
        let v := Spec.materialise sv
        both (showVal v.shape v.elems) (showVal mv.shape mv.iter)
      | none, none => "panic(explicit)"
      | _, _ => "panic(explicit) ## MODEL-SPEC-DISAGREE view construction"
  | "swrite" :: kind :: namesS :: rest =>
    let names := parseNames namesS
    let plain := optArg "route" rest == some "map_mut"
    let f : List Nat → Nat → Nat := if plain then fun _ x => mapF x else mapiF
    some <|
      match specView t kind names with
      | none => "panic(explicit)"
      | some sv =>
        let v := Spec.materialise (Spec.mappedWithIndex f sv)
        -- the code-shaped model: write through the access into the tensor, then look again
        let after : Option T :=
          if kind = "t" then some (t.mapMutWithIndex f)
          else (t.indexBy names).map fun a => a.mapMutWithIndex f
        match after.bind fun t' => modelView t' kind names with
        | some mv => both (showVal v.shape v.elems) (showVal mv.shape mv.iter)
        | none => "panic(explicit) ## MODEL-SPEC-DISAGREE view construction"
  | _ => none

end Driver.Surface
