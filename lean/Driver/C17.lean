/-
  Driver.C17 — line protocol front end for property C17 (stub: not built yet).
-/
import Driver.Parse

namespace Driver.C17

abbrev State := Unit

def init : State := ()

def step (s : State) (_toks : List String) : State × String := (s, "unimplemented")

end Driver.C17
