/-
  Driver.C17 — line protocol for the Gaussian density and draws.  Every case is one `@` line:

    @ prob <μ> <σ²> <x> f=<μ>,<σ²>,<x> via=probability|map
        → pdf=ok ## p=<Fp value of the code-shaped density formula>
      `<μ> <σ²> <x>` are `Fp` points (the model's formula against the code's formula); `f=` are
      the floats at which the harness compares the implementation with the closed-form normal
      density (relative tolerance) — the model answers what the specification demands.
    @ draw <μ> <σ²> <k> <source>
        → some n=<k> consumed=<c> samples=<…> | none consumed=<c>
    @ drawf <μ> <σ²> <k> <source>    (f64)
        → some n=<k> consumed=<c> samples=ok | none consumed=<c>
      the harness compares the float samples bit for bit with the documented Box–Muller formula of
      the consumed numbers (±inf / NaN included); the model supplies count and consumption
    @ mv <N> <k> mean=<…> cov=<…> src=<…> names=<samples>,<features> via=matrix|tensor [ty=rat] [mname=<mean's name> cnames=<covariance's names>]
        → some shape=<s>:<k>,<f>:<N> consumed=<c> values=<…> | none consumed=<c> | panic(explicit)
    @ api <gaussian|mvmatrix|mvtensor|error>                   → <facts>=ok … (constructors, accessors, trait impls)
    @ approx <fp|rat> <data>                                   → mean=<…> variance=<…> | panic(explicit)
    @ new matrix <meanRows> <meanCols> <covRows> <covCols>     → ok ## accessors=ok | panic(explicit)
    @ new tensor <meanLen> <covRows> <covCols>                 → ok ## accessors=ok | err(<variant>) ## payload=ok display=ok
      (after `##`: `mean()`/`covariance()` return what the constructor was given; the error carries
      the rejected mean and covariance and its `Display` is the documented sentence)

  The answers of `draw` and `mv` are computed from the *specification* (`Spec/Gaussian.lean`) and
  from the code-shaped model (`Model/Gaussian.lean`); the two must coincide (theorems of
  `Props/C17.lean`), otherwise the line carries `MODEL-SPEC-DISAGREE`.
-/
import EasyMl.Model.Gaussian
import EasyMl.Spec.Gaussian
import Driver.Parse
import Driver.C08

namespace Driver.C17
open EasyMl EasyMl.Decomp EasyMl.Gaussian Driver

abbrev State := Unit

def init : State := ()

def parseFp (s : String) : Option Fp := s.toNat?.map Fp.ofNat

def parseFps (s : String) : Option (List Fp) := (splitComma s).mapM parseFp

def showFps (l : List Fp) : String :=
  if l.isEmpty then "-" else ",".intercalate (l.map toString)

def both (spec model : String) : String :=
  if spec = model then spec else s!"{spec} ## MODEL-SPEC-DISAGREE {model}"

def answerDraw (mean variance : Fp) (k : Nat) (source : List Fp) : String :=
  let (r, rest) := draw mean variance source k
  let model := match r with
    | some samples =>
      s!"some n={samples.length} consumed={source.length - rest.length} samples={showFps samples}"
    | none => s!"none consumed={source.length - rest.length}"
  let c := Spec.Gaussian.consumed source.length k
  let spec := match Spec.Gaussian.drawSpec mean variance source k with
    | some samples => s!"some n={k} consumed={c} samples={showFps samples}"
    | none => s!"none consumed={c}"
  both spec model

section
variable {α : Type} [Add α] [Sub α] [Mul α] [Div α] [Neg α] [Zero α] [One α] [RealFns α] [NumOrd α]

def showVals (sh : α → String) (l : List α) : String :=
  if l.isEmpty then "-" else ",".intercalate (l.map sh)

/-- one multivariate draw at the element type `α` (`Fp`, or `Rat` for the singular covariances
    that must be rejected before any transcendental function is needed) -/
def answerMv (sh : α → String) (n k : Nat) (mean cov source : List α) (names own : List String) : String :=
  let covariance : Matrix α := ⟨cov, n, n⟩
  let sameNames := names.getD 0 "" == names.getD 1 ""
  let shape := s!"{names.getD 0 ""}:{k},{names.getD 1 ""}:{n}"
  let (r, rest) := mvDrawTensor mean covariance source k (names.getD 0 "") (names.getD 1 "")
  let used := source.length - rest.length
  -- the name checks of the code, run with the distribution's own names (`mname=`, `cnames=`)
  let nameCheck := mvNameChecks (own.getD 0 "means") (own.getD 1 "u") (own.getD 2 "v")
    (names.getD 0 "") (names.getD 1 "")
  let model := match nameCheck, r with
    | .panic kind, _ => s!"panic({kind}) in the name checks"
    | _, .panic kind => s!"panic({kind})"
    | _, .ok none => s!"none consumed={used}"
    | _, .ok (some m) =>
      s!"some shape={names.getD 0 ""}:{m.rows},{names.getD 1 ""}:{m.columns} consumed={used} " ++
      s!"values={showVals sh m.data}"
  let c := Spec.Gaussian.mvConsumed mean covariance source.length k sameNames
  let spec :=
    -- a tensor cannot have a dimension of length zero: a request for zero samples of a valid
    -- distribution is rejected with a panic (documented tensor invariant)
    if k = 0 ∧ !sameNames ∧ (cholesky covariance).isSome then "panic(explicit)"
    else match Spec.Gaussian.mvSpec mean covariance source k sameNames with
      | some m => s!"some shape={shape} consumed={c} values={showVals sh m.data}"
      | none => s!"none consumed={c}"
  both spec model

end

def step (s : State) (toks : List String) : State × String :=
  match toks with
  | "@" :: "prob" :: muS :: varS :: xS :: _ =>
    match parseFp muS, parseFp varS, parseFp xS with
    | some mu, some var, some x => (s, s!"pdf=ok ## p={probability mu var x}")
    | _, _, _ => (s, "bad-op")
  | "@" :: "draw" :: muS :: varS :: kS :: srcS :: _ =>
    match parseFp muS, parseFp varS, kS.toNat?, parseFps srcS with
    | some mu, some var, some k, some src => (s, answerDraw mu var k src)
    | _, _, _, _ => (s, "bad-op")
  | "@" :: "drawf" :: _ :: _ :: kS :: srcS :: _ =>
    -- f64 line: the model answers what the specification demands (count and consumption); the
    -- harness compares the samples bit for bit with the documented formula
    match kS.toNat? with
    | some k =>
      let len := (splitComma srcS).length
      if len < Spec.Gaussian.needed k then (s, s!"none consumed={Spec.Gaussian.consumed len k}")
      else (s, s!"some n={k} consumed={Spec.Gaussian.consumed len k} samples=ok")
    | none => (s, "bad-op")
  | "@" :: "mv" :: nS :: kS :: rest =>
    let names := parseNames ((optArg "names" rest).getD "samples,features")
    let own := parseNames ((optArg "mname" rest).getD "means") ++ parseNames ((optArg "cnames" rest).getD "u,v")
    if optArg "ty" rest = some "rat" then
      let rats := fun (key : String) => (optArg key rest).bind fun t => (splitComma t).mapM Driver.C08.parseRat
      match nS.toNat?, kS.toNat?, rats "mean", rats "cov", rats "src" with
      | some n, some k, some mean, some cov, some src =>
        if mean.length ≠ n ∨ cov.length ≠ n * n then (s, "bad-op")
        else (s, answerMv showRat n k mean cov src names own)
      | _, _, _, _, _ => (s, "bad-op")
    else
      match nS.toNat?, kS.toNat?, (optArg "mean" rest).bind parseFps, (optArg "cov" rest).bind parseFps,
          (optArg "src" rest).bind parseFps with
      | some n, some k, some mean, some cov, some src =>
        if mean.length ≠ n ∨ cov.length ≠ n * n then (s, "bad-op")
        else (s, answerMv toString n k mean cov src names own)
      | _, _, _, _, _ => (s, "bad-op")
  | ["@", "api", kind] =>
    -- API surface: constructors store their arguments in order, accessors return them, `clone` and
    -- `clone_from` reproduce every field, `Debug` shows each field under its own name, the
    -- deprecated alias `map` is the density; the error type compares, displays and converts
    (s, match kind with
      | "gaussian" => "new=ok clone=ok clone_from=ok debug=ok map=ok"
      | "mvmatrix" => "new+accessors=ok clone=ok clone_from=ok debug=ok"
      | "mvtensor" => "new+accessors=ok clone=ok clone_from=ok debug=ok"
      | "error" => "variants=ok clone=ok clone_from=ok partial_eq=ok debug=ok display=ok source=ok into_box=ok"
      | _ => "bad-op")
  | ["@", "approx", ty, dataS] =>
    if ty = "rat" then
      match (splitComma dataS).mapM Driver.C08.parseRat with
      | some data => (s, match approximating data with
          | .ok (m, v) => s!"mean={showRat m} variance={showRat v}"
          | .panic k => s!"panic({k})")
      | none => (s, "bad-op")
    else
      match parseFps dataS with
      | some data => (s, match approximating data with
          | .ok (m, v) => s!"mean={m} variance={v}"
          | .panic k => s!"panic({k})")
      | none => (s, "bad-op")
  | ["@", "new", "matrix", a, b, c, d] =>
    match a.toNat?, b.toNat?, c.toNat?, d.toNat? with
    | some mr, some mc, some cr, some cc =>
      (s, match mvNewMatrix mr mc cr cc with | .ok _ => "ok ## accessors=ok" | .panic k => s!"panic({k})")
    | _, _, _, _ => (s, "bad-op")
  | ["@", "new", "tensor", a, c, d] =>
    match a.toNat?, c.toNat?, d.toNat? with
    | some ml, some cr, some cc =>
      (s, match mvNewTensor ml cr cc with
        | .ok _ => "ok ## accessors=ok"
        | .error .notCovarianceMatrix => "err(NotCovarianceMatrix) ## payload=ok display=ok"
        | .error .meanVectorWrongLength => "err(MeanVectorWrongLength) ## payload=ok display=ok")
    | _, _, _ => (s, "bad-op")
  | _ => (s, "bad-op")

end Driver.C17
