/-
  Driver.C02 — line protocol for tensor view adaptors and their compositions.

  The state is a stack of views; a case builds leaves, applies adaptors to the top of the stack
  (or to the top `n` views for stack / chain) and asks questions about the top view.

    @ case [data=zeros|equal|pairs]     fresh empty stack (data=: what the leaves hold on the Rust
                                        side — all zeros, one value everywhere, small values equal in
                                        neighbouring pairs; cells are then recognised by the address
                                        of the reference handed out.  Nothing here depends on it.)  → ok
    leaf <id> <shape>                   push Tensor::from(shape, ids)            → ok shape=<shape> | reject
    matrix <id> <rows> <cols> <r>,<c>   push TensorRefMatrix over a Matrix       → ok shape=<shape> | reject
    matrixof <r>,<c> [ops=<op;op;…>]    TensorRefMatrix::from/with_names(<ops>(MatrixRefTensor::from(top))), top 2-dimensional;
                                        ops are matrix-side adaptors applied in order:
                                          range:<row start>:<row len>:<col start>:<col len>   MatrixRange::from
                                          reverse:<rows 0|1>:<columns 0|1>                    MatrixReverse::from
    range  <name:start:len,…> kind=lenient|strict   TensorRange::from / from_all / *_strict
    mask   <name:start:len,…> kind=lenient|strict   TensorMask::…
    index  <name:i,…>                   TensorIndex::from
    expand <pos:name,…>                 TensorExpansion::from
    rename <names>                      TensorRename::from
    reverse <names>                     TensorReverse::from
    access <names>                      TensorAccess::from / try_from
    transpose <names>                   TensorTranspose::from / try_from
    stack <n> <pos:name>                TensorStack::from over the top n views (array / tuple)
    chain <n> <name>                    TensorChain::from over the top n views (array / tuple)
                                        every constructor: → ok shape=<shape> | reject
                                        (on reject the stack is unchanged)
    set_names <names>                   TensorRename::set_names on the top (a TensorRename)      → ok shape=<shape> | reject
                                        (on reject the surviving view is the old one)
    get_names                           TensorRename::get_names                  → names=<names>
    swap_source                         std::mem::swap(top.source_ref_mut(), &mut second): the top
                                        (a TensorRename / TensorReverse) now looks at the second
                                        view, the old source takes its place     → ok shape=<shape>
    tmap                                TensorMap::from(top, f) (crate-private; reached through
                                        `Display for RecordTensor`)              → ok shape=<shape>
    display                             every element in row-major order, as `Display` of a
                                        TensorView / RecordTensor prints them    → shape=<shape> cells=<leaf:offset …>
    first <k>                           TensorView::map / map_mut / map_with_index / map_mut_with_index /
                                        iter with a closure that panics on call k (counted from 0):
                                        the cells it was shown before             → cells=<leaf:offset …>
                                        further via= (no closure that could give up): every iterator of
                                        TensorView / TensorAccess (with and without indexes), first,
                                        elementwise* with a plain tensor on either side, == in every
                                        direction, the tensors map / map_with_index return: the first k
                                        cells of what they see / produce             → cells=<leaf:offset …>
    copy_reorder|copy_transpose <names> TensorView::reorder / transpose (copies into a new tensor): the
                                        TensorAccess / TensorTranspose over the top, materialised
                                                                                → ok shape=<shape> cells=<…> | reject
    api_surface                         (harness: scans the `pub fn` / `impl … for` of the adaptor
                                        source files and compares with what the api_* static cases
                                        drive and the list of items left to other properties)
                                                                                → ok ## unlisted=<items>|-
    sources                             source() / source_ref() / sources() / sources_ref() of the
                                        adaptor on top: every inner view         → shape=<shape> cells=<…> | shape=…
    length_of <name>                    TensorView::length_of / last_index_of    → length=<n>|none last=<n>|none
    shape                               view_shape of the top                    → shape=<shape>
    get <idx>                           get_reference / _mut / _unchecked(_mut)  → some(<leaf>:<offset>) | none
    set <idx>                           write a sentinel, scan the leaves        → changed=<leaf>:<offset> | none
    layout                              data_layout                              → linear=<names> | nonlinear | other
    memorder                            TensorAccess::from_memory_order, walked in its own order
                                                                                → linear=<names> cells=<leaf>:<first>+<n> | none
                                        (cells are listed one by one when they are not consecutive:
                                         a view restricted by a MatrixRange still claims its
                                         source's layout and walks a part of it, upwards)

  `skip` answers an operation that cannot be expressed in Rust's types for the current stack
  (wrong arity, dimensionality above 6, too few views): both sides apply the same rules.

  The answer is the *specification's* (Spec/View.lean); the code-shaped model's answer is
  required to coincide (theorems in Props/C02) and a disagreement is made visible.
-/
import EasyMl.Model.View
import EasyMl.Spec.View
import Driver.Parse

namespace Driver.C02
open EasyMl Driver

abbrev V := View String Nat

structure State where
  stack : List V := []

def init : State := {}

def both (spec model : String) : String :=
  if spec = model then spec else s!"{spec} ## MODEL-SPEC-DISAGREE {model}"

def sentinel : Nat := 999999999999

def leafData (id n : Nat) : List Nat := (List.range n).map fun k => id * 1000000 + k

def showCell (c : Cell) : String := s!"{c.1}:{c.2}"

def showCellOpt : Option Cell → String
  | some c => s!"some({showCell c})"
  | none => "none"

/-- `name:a:b,…` -/
def parseTriples (s : String) : Option (List (String × Nat × Nat)) :=
  (splitComma s).mapM fun part =>
    match part.splitOn ":" with
    | [n, a, b] =>
      match a.toNat?, b.toNat? with
      | some x, some y => some (n, x, y)
      | _, _ => none
    | _ => none

/-- `pos:name,…` -/
def parsePosNames (s : String) : Option (List (Nat × String)) :=
  (splitComma s).mapM fun part =>
    match part.splitOn ":" with
    | [p, n] => p.toNat?.map fun k => (k, n)
    | _ => none

/-- `range:rs:rl:cs:cl;reverse:1:0;…` -/
def parseMatOps (s : String) : Option (List View.MatOp) :=
  if s.isEmpty then some [] else
  (s.splitOn ";").mapM fun part =>
    match part.splitOn ":" with
    | ["range", a, b, c, d] =>
      match a.toNat?, b.toNat?, c.toNat?, d.toNat? with
      | some a, some b, some c, some d => some (View.MatOp.range ⟨a, b⟩ ⟨c, d⟩)
      | _, _, _, _ => none
    | ["reverse", r, c] =>
      if (r = "0" ∨ r = "1") ∧ (c = "0" ∨ c = "1") then some (View.MatOp.reverse (r == "1") (c == "1")) else none
    | _ => none

def okShape (v : V) : String := s!"ok shape={showShape v.shape}"

/-- apply a constructor to the top of the stack -/
def applyTop (s : State) (f : V → Option (Option V)) : State × String :=
  match s.stack with
  | [] => (s, "skip")
  | top :: rest =>
    match f top with
    | none => (s, "skip")
    | some none => (s, "reject")
    | some (some v) => ({ s with stack := v :: rest }, okShape v)

/-- apply a constructor to the top `n` views (sources in push order) -/
def applyTopN (s : State) (n : Nat) (f : List V → Option (Option V)) : State × String :=
  if n = 0 ∨ n > 4 ∨ n > s.stack.length then (s, "skip")
  else
    let sources := (s.stack.take n).reverse
    let rest := s.stack.drop n
    match f sources with
    | none => (s, "skip")
    | some none => (s, "reject")
    | some (some v) => ({ s with stack := v :: rest }, okShape v)

/-- all index tuples of a grid in row-major order -/
def allIndexes : List Nat → List (List Nat)
  | [] => [[]]
  | l :: ls => (List.range l).flatMap fun i => (allIndexes ls).map (i :: ·)

def diffLeaves : List (Nat × List Nat) → List (Nat × List Nat) → List Cell
  | (id, a) :: as, (_, b) :: bs =>
    (((List.range a.length).filter fun k => a[k]? != b[k]?).map fun k => (id, k)) ++ diffLeaves as bs
  | _, _ => []

def showLayout : DataLayout String → String
  | .linear order => s!"linear={showNames order}"
  | .nonLinear => "nonlinear"
  | .other => "other"
where showNames (l : List String) : String := if l.isEmpty then "-" else ",".intercalate l

/-- are the cells `(leaf, first), (leaf, first+1), …`? -/
def consecutive : List Cell → Option (Nat × Nat × Nat)
  | [] => none
  | (l, o) :: rest =>
    if (rest.zipIdx.all fun (c, k) => c.1 == l && c.2 == o + k + 1) then some (l, o, rest.length + 1)
    else none

/-- the shape of a view and its first `limit` elements in row-major order (spec and model) -/
def describe (v : V) (limit : Nat) : String :=
  let idxs := (allIndexes (lens v.shape)).take limit
  let spec := " ".intercalate (idxs.map fun idx => showCellOpt (v.specGet idx))
  let model := " ".intercalate (idxs.map fun idx => showOutcome showCellOpt (v.get idx))
  s!"shape={showShape v.shape} cells=" ++ (if spec = model then spec else s!"{spec} MODEL-SPEC-DISAGREE {model}")

/-- strictly increasing offsets inside one leaf -/
def increasing : List Cell → Bool
  | a :: b :: rest => a.1 == b.1 && a.2 < b.2 && increasing (b :: rest)
  | _ => true

def showWalk (order : List String) (cs : List Cell) : String :=
  match consecutive cs with
  | some (l, o, n) => s!"linear={showLayout.showNames order} cells={l}:{o}+{n}"
  | none => s!"linear={showLayout.showNames order} cells=" ++ " ".intercalate (cs.map showCell)

def memorder (v : V) : String :=
  let spec : String :=
    match v.layout with
    | .ok (.linear order) =>
      -- the cells of the property's mapping, visited in the claimed order (last name fastest):
      -- one leaf, strictly upwards (`layout_linear_increasing`); the whole leaf from its first
      -- to its last element when nothing was cut away
      let names := v.shape.map (·.1)
      let accessLens := order.map fun n => (View.lengthOf v.shape n).getD 0
      let cells := (allIndexes accessLens).map fun idx =>
        v.specGet (names.map fun n => idx.getD (order.idxOf n) 0)
      match cells.mapM id with
      | none => "spec-undefined"
      | some cs =>
        if !increasing cs then "spec-violated"
        else if cs.length == (v.leaves.map (·.2.length)).sum ∧ (consecutive cs).isNone then "spec-violated"
        else showWalk order cs
    | .ok _ => "none"
    | .panic k => s!"panic({k})"
  let model : String :=
    match v.fromMemoryOrder with
    | .panic k => s!"panic({k})"
    | .ok none => "none"
    | .ok (some a) =>
      let order := match v.layout with | .ok (.linear o) => o | _ => []
      let cells := (allIndexes (lens a.shape)).map fun idx => a.get idx
      match cells.mapM (fun c => match c with | .ok (some c) => some c | _ => none) with
      | none => "walk-failed"
      | some cs =>
        showWalk order cs
  both spec model

/-- `TensorView::reorder` / `transpose`: the access / transposition over the top, materialised -/
def copyOp (s : State) (reorder : Bool) (namesS : String) : String :=
  match s.stack with
  | v :: _ =>
    let names := parseNames namesS
    if names.length ≠ v.shape.length ∨ prod (lens v.shape) > 4096 then "skip"
    else
      match (if reorder then v.mkAccess names else v.mkTranspose names) with
      | none => "reject"
      | some a => "ok " ++ describe a (prod (lens a.shape))
  | [] => "skip"

def step (s : State) (toks : List String) : State × String :=
  match toks with
  | "@" :: _ => ({ stack := [] }, "ok")
  | "leaf" :: idS :: shapeS :: _ =>
    match idS.toNat?, parseShape shapeS with
    | some id, some shape =>
      if shape.length > 6 then (s, "skip") else
      match View.mkTensor id shape (leafData id (elements shape)) with
      | some v => ({ s with stack := v :: s.stack }, okShape v)
      | none => (s, "reject")
    | _, _ => (s, "bad-op")
  | "matrix" :: idS :: rowsS :: colsS :: namesS :: _ =>
    match idS.toNat?, rowsS.toNat?, colsS.toNat?, parseNames namesS with
    | some id, some rows, some cols, [r, c] =>
      match View.mkMatrix id rows cols (leafData id (rows * cols)) r c with
      | some v => ({ s with stack := v :: s.stack }, okShape v)
      | none => (s, "reject")
    | _, _, _, _ => (s, "bad-op")
  | "matrixof" :: namesS :: rest =>
    match parseNames namesS with
    | [r, c] =>
      match parseMatOps ((optArg "ops" rest).getD "") with
      | some ops => applyTop s fun v => if v.shape.length ≠ 2 then none else some (v.mkMatrixStack ops r c)
      | none => (s, "bad-op")
    | _ => (s, "bad-op")
  | "range" :: spec :: rest =>
    match parseTriples spec with
    | some ts =>
      let named := ts.map fun (n, a, b) => (n, (⟨a, b⟩ : IndexRange))
      let strict := optArg "kind" rest == some "strict"
      applyTop s fun v => some (if strict then v.mkRangeStrict named else v.mkRange named)
    | none => (s, "bad-op")
  | "mask" :: spec :: rest =>
    match parseTriples spec with
    | some ts =>
      let named := ts.map fun (n, a, b) => (n, (⟨a, b⟩ : IndexRange))
      let strict := optArg "kind" rest == some "strict"
      applyTop s fun v => some (if strict then v.mkMaskStrict named else v.mkMask named)
    | none => (s, "bad-op")
  | "index" :: spec :: _ =>
    match parseShape spec with
    | some provided =>
      applyTop s fun v =>
        if provided.length = 0 ∨ provided.length > v.shape.length then none
        else some (v.mkIndex provided)
    | none => (s, "bad-op")
  | "expand" :: spec :: _ =>
    match parsePosNames spec with
    | some extra =>
      applyTop s fun v =>
        if extra.length = 0 ∨ v.shape.length + extra.length > 6 then none
        else some (v.mkExpansion extra)
    | none => (s, "bad-op")
  | "rename" :: namesS :: _ =>
    let names := parseNames namesS
    applyTop s fun v => if names.length ≠ v.shape.length then none else some (v.mkRename names)
  | "reverse" :: namesS :: _ =>
    let names := parseNames namesS
    applyTop s fun v => some (v.mkReverse names)
  | "access" :: namesS :: _ =>
    let names := parseNames namesS
    applyTop s fun v => if names.length ≠ v.shape.length then none else some (v.mkAccess names)
  | "transpose" :: namesS :: _ =>
    let names := parseNames namesS
    applyTop s fun v => if names.length ≠ v.shape.length then none else some (v.mkTranspose names)
  | "stack" :: nS :: alongS :: _ =>
    match nS.toNat?, parsePosNames alongS with
    | some n, some [along] =>
      applyTopN s n fun sources =>
        match sources with
        | [] => none
        | first :: others =>
          if others.any (fun o => o.shape.length != first.shape.length) then none
          else if first.shape.length + 1 > 6 then none
          else some (View.mkStack sources along)
    | _, _ => (s, "bad-op")
  | "chain" :: nS :: along :: _ =>
    match nS.toNat? with
    | some n =>
      applyTopN s n fun sources =>
        match sources with
        | [] => none
        | first :: others =>
          if others.any (fun o => o.shape.length != first.shape.length) then none
          else some (View.mkChain sources along)
    | none => (s, "bad-op")
  | "set_names" :: namesS :: _ =>
    let names := parseNames namesS
    match s.stack with
    | (.rename src old) :: rest =>
      if names.length ≠ (View.rename src old).shape.length then (s, "skip") else
      match (View.rename src old).setNames names with
      | (v, .ok _) => ({ s with stack := v :: rest }, okShape v)
      | (v, .panic .explicit) => ({ s with stack := v :: rest }, "reject")
      | (v, .panic k) => ({ s with stack := v :: rest }, s!"panic({k})")
    | _ => (s, "skip")
  | "get_names" :: _ =>
    match s.stack with
    | v :: _ =>
      match v.getNames with
      | some names => (s, s!"names={showLayout.showNames names}")
      | none => (s, "skip")
    | [] => (s, "skip")
  | "swap_source" :: _ =>
    match s.stack with
    | top :: second :: rest =>
      match top.sourceOf with
      | some src =>
        if src.shape.length ≠ second.shape.length then (s, "skip")
        else
          let v := top.replaceSource second
          ({ s with stack := v :: src :: rest }, okShape v)
      | none => (s, "skip")
    | _ => (s, "skip")
  | "tmap" :: _ => applyTop s fun v => some (some (.tmap v))
  | "display" :: _ =>
    match s.stack with
    | v :: _ => if prod (lens v.shape) > 64 then (s, "skip") else (s, describe v 64)
    | [] => (s, "skip")
  | "first" :: kS :: _ =>
    match s.stack, kS.toNat? with
    | v :: _, some k =>
      if prod (lens v.shape) > 4096 then (s, "skip") else
      let idxs := (allIndexes (lens v.shape)).take k
      let spec := " ".intercalate (idxs.map fun idx => showCellOpt (v.specGet idx))
      let model := " ".intercalate (idxs.map fun idx => showOutcome showCellOpt (v.get idx))
      (s, "cells=" ++ (if spec = model then spec else s!"{spec} MODEL-SPEC-DISAGREE {model}"))
    | [], _ => (s, "skip")
    | _, none => (s, "bad-op")
  | "api_surface" :: _ => (s, "ok ## unlisted=-")
  | "copy_reorder" :: namesS :: _ => (s, copyOp s true namesS)
  | "copy_transpose" :: namesS :: _ => (s, copyOp s false namesS)
  | "sources" :: _ =>
    match s.stack with
    | v :: _ =>
      match v.sources with
      | [] => (s, "skip")
      | ss => (s, " | ".intercalate (ss.map fun x => describe x 16))
    | [] => (s, "skip")
  | "length_of" :: name :: _ =>
    match s.stack with
    | v :: _ =>
      let showN : Option Nat → String := fun o => match o with | some n => toString n | none => "none"
      (s, s!"length={showN (View.lengthOf v.shape name)} last={showN (View.lastIndexOf v.shape name)}")
    | [] => (s, "skip")
  | "shape" :: _ =>
    match s.stack with
    | v :: _ => (s, s!"shape={showShape v.shape}")
    | [] => (s, "skip")
  | "get" :: idxS :: rest =>
    match s.stack, parseNatList idxS with
    | v :: _, some idx =>
      if idx.length ≠ v.shape.length then (s, "skip") else
      let unchecked := (optArg "via" rest).any fun via => via.startsWith "unchecked"
      -- the unchecked getters are only defined for valid indexes (anything else is undefined
      -- behaviour): outside the shape the property's answer stands alone
      let model :=
        if unchecked then
          if (v.specGet idx).isSome then showOutcome (fun c => showCellOpt (some c)) (v.getUnchecked idx)
          else "none"
        else showOutcome showCellOpt (v.get idx)
      (s, both (showCellOpt (v.specGet idx)) model)
    | [], _ => (s, "skip")
    | _, none => (s, "bad-op")
  | "set" :: idxS :: _ =>
    match s.stack, parseNatList idxS with
    | v :: _, some idx =>
      if idx.length ≠ v.shape.length then (s, "skip") else
      let spec := match v.specGet idx with | some c => s!"changed={showCell c}" | none => "none"
      let model :=
        match v.write idx sentinel with
        | .panic k => s!"panic({k})"
        | .ok none => "none"
        | .ok (some v') =>
          match diffLeaves v.leaves v'.leaves with
          | [c] => s!"changed={showCell c}"
          | cs => "changed-unexpected=" ++ " ".intercalate (cs.map showCell)
      (s, both spec model)
    | [], _ => (s, "skip")
    | _, none => (s, "bad-op")
  | "layout" :: _ =>
    match s.stack with
    | v :: _ => (s, showOutcome showLayout v.layout)
    | [] => (s, "skip")
  | "memorder" :: _ =>
    match s.stack with
    | v :: _ => (s, memorder v)
    | [] => (s, "skip")
  | _ => (s, "bad-op")

end Driver.C02
