/-
  Driver.C02 — line protocol front end for property C02 (stub: not built yet).
-/
import Driver.Parse

namespace Driver.C02

abbrev State := Unit

def init : State := ()

def step (s : State) (_toks : List String) : State × String := (s, "unimplemented")

end Driver.C02
