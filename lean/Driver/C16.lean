/-
  Driver.C16 — line protocol front end for property C16 (stub: not built yet).
-/
import Driver.Parse

namespace Driver.C16

abbrev State := Unit

def init : State := ()

def step (s : State) (_toks : List String) : State × String := (s, "unimplemented")

end Driver.C16
