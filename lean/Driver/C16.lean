/-
  Driver.C16 — line protocol for property C16 (fallible APIs are total).

  Every answer is the outcome the *property* demands (computed with the repaired model,
  `Arith.fixed`); the implementation must give the same outcome kind and payload.  There is no
  `##` part: the pinned code's panics show up as `obs` mismatches (`panic(overflow)` vs the
  demanded `none` / `err …` / clipped value).

  Stateless cases
    @ try_from <shape> <n> [via=…]          Tensor::try_from with n elements → ok | err <shape>
    @ is_valid <shape>                      InvalidShapeError::new(shape).is_valid() → true | false
    @ try_into_scalar <rows> <cols>         → ok(<id>) | err
    @ into_tensor <rows> <cols> <n1> <n2>   → ok shape=<shape> | err <shape>
    @ linalg <fn> <rows> <cols> <singular>  → some[ <r>x<c>…] | none
    @ record_get <shape> <order> <idx> [via=owned|ref|mut]
                                            TensorAccess over a RecordTensor (owned, &, &mut):
                                            try_get_as_record → some(<id>) | none
    @ record_mget <rows> <cols> <r> <c>     RecordMatrix::try_get_as_record → some(<id>) | none
    @ from_usize <type> <n>                 FromUsize::from_usize → some(<n>) | none (floats / records of floats: some(true))
    @ dim_lookup <length_of|last_index_of|position_of> <shape> <name> [via=tensor|view|dims]
                                            → some(<n>) | none
    @ named <range|mask> <shape> <name:start:len,…> [via=tensor|tensor_mut|tensor_owned|view|view_mut|view_owned]
                                            the lenient named methods of Tensor / TensorView
                                            → ok shape=<shape> cells=<ids> | err …
    @ record <tensor|matrix> <shape> <hists>            from_iter
    @ records <tensor|matrix> <shape> <hists>|<hists>   from_iters, N = 2
  Cases with a current tensor view (ids = 1000·leaf + flat offset)
    @ tensor <shape>                        one leaf tensor
    @ stack <shape> <n> <pos>:<name>        TensorStack of n leaves
    @ chain <shape>|<shape>… <name>         TensorChain of the leaves along <name>
    access|transpose <names>                TensorAccess/TensorTranspose::try_from(current, names)
                                            → ok shape=<shape> | err actual=<shape> requested=<names>
    range|mask <mode> <args>                mode ∈ from, from_strict (args name:start:len,…),
                                            from_all, from_all_strict (args start:len|*,…)
                                            → ok shape=<shape> | err invalid_shape <shape>
                                              | err invalid_dimensions provided=<names> valid=<names>
                                              | err outside_shape shape=<shape> ranges=<args>
    reverse <names> | rename <names> | index <name:i,…> | expand <pos:name,…>   → ok shape=<shape>
    tmatrix <n1> <n2>                       TensorRefMatrix::with_names(current matrix view)
    get <idx>                               checked getters → some(<id>) | none
  Cases with a current matrix view (ids = flat offset)
    @ matrix <rows> <cols>
    @ partition <rows> <cols> <rparts> <cparts>   → ok sizes=<r>x<c>;… | panic(<kind>)
    part <k>                                select a part as the current view → ok size=<r>x<c>
    mrange <rs>:<rl> <cs>:<cl> | mreverse <0|1> <0|1> | mmap | mtensor   → ok size=<r>x<c>
    mget <row> <col>                        → some(<id>) | none
-/
import EasyMl.Model.MatrixView
import Driver.Parse

namespace Driver.C16
open EasyMl EasyMl.Fallible EasyMl.MatrixView Driver

structure State where
  tview : Option (TView String) := none
  mview : Option MView := none
  parts : List MatrixPart := []

def init : State := {}

def A : Arith := Arith.fixed

def parseRange (s : String) : Option IndexRange :=
  match s.splitOn ":" with
  | [a, b] =>
    match a.toNat?, b.toNat? with
    | some x, some y => some ⟨x, y⟩
    | _, _ => none
  | _ => none

/-- `name:start:len,…` -/
def parseNamedRanges (s : String) : Option (List (String × IndexRange)) :=
  (splitComma s).mapM fun part =>
    match part.splitOn ":" with
    | [n, a, b] =>
      match a.toNat?, b.toNat? with
      | some x, some y => some (n, ⟨x, y⟩)
      | _, _ => none
    | _ => none

/-- `start:len|*,…` -/
def parseAllRanges (s : String) : Option (List (Option IndexRange)) :=
  (splitComma s).mapM fun part =>
    if part = "*" then some none else (parseRange part).map some

def showAllRanges (l : List (Option IndexRange)) : String :=
  if l.isEmpty then "-" else
    ",".intercalate (l.map fun
      | none => "*"
      | some r => s!"{r.start}:{r.length}")

def showNames (l : List String) : String := if l.isEmpty then "-" else ",".intercalate l

/-- `name:n,…` -/
def parseNamedNats (s : String) : Option (List (String × Nat)) :=
  (splitComma s).mapM fun part =>
    match part.splitOn ":" with
    | [n, a] => a.toNat?.map fun x => (n, x)
    | _ => none

/-- `n:name,…` -/
def parseNatNamed (s : String) : Option (List (Nat × String)) :=
  (splitComma s).mapM fun part =>
    match part.splitOn ":" with
    | [a, n] => a.toNat?.map fun x => (x, n)
    | _ => none

def showRangeError : RangeError String → String
  | .invalidShape sh => s!"err invalid_shape {showShape sh}"
  | .invalidDimensions p v => s!"err invalid_dimensions provided={showNames p} valid={showNames v}"
  | .outsideShape sh r => s!"err outside_shape shape={showShape sh} ranges={showAllRanges r}"

def withBase (v : TView String) (base : Nat) : TView String :=
  { v with get := fun idx =>
      match v.get idx with
      | .ok (some i) => .ok (some (i + base))
      | o => o }

/-- a leaf tensor of the given (valid) shape holding the ids `base + 0..n` -/
def leaf (shape : Shape String) (base : Nat) : Option (TView String) :=
  match tensorTryFrom A shape (elements shape) with
  | .ok (.ok t) => some (withBase (TView.ofTensor t) base)
  | _ => none

def showHist : Option Nat → String
  | none => "c"
  | some k => toString k

def parseHists (s : String) : Option (List (Option Nat)) :=
  (splitComma s).mapM fun h => if h = "c" then some none else h.toNat?.map some

def showRecordError : RecordIterError String → String
  | .shape requested length => s!"err shape requested={showShape requested} length={length}"
  | .empty => "err empty"
  | .inconsistentHistory f l => s!"err inconsistent first={showHist f} later={showHist l}"

def recordOne (kind : String) (shape : Shape String) (hists : List (Option Nat)) : String :=
  if kind = "tensor" then
    showOutcome (fun
      | .ok (h, t) => s!"ok history={showHist h} shape={showShape t.shape}"
      | .error e => showRecordError e) (recordTensorFromIter A shape hists)
  else
    match shape with
    | [(_, r), (_, c)] =>
      showOutcome (fun
        | .ok (h, r, c) => s!"ok history={showHist h} shape=rows:{r},columns:{c}"
        | .error e => showRecordError e) (recordMatrixFromIter A r c "rows" "columns" hists)
    | _ => "bad-op"

/-- every index tuple of a shape (lengths), last coordinate fastest -/
def allIndexes : List Nat → List (List Nat)
  | [] => [[]]
  | l :: ls => (List.range l).flatMap fun i => (allIndexes ls).map fun rest => i :: rest

def sizeStr (v : MView) : String := s!"{v.rows}x{v.columns}"

def setT (s : State) (r : Outcome (Except (RangeError String) (TView String))) : State × String :=
  match r with
  | .panic k => (s, s!"panic({k})")
  | .ok (.error e) => (s, showRangeError e)
  | .ok (.ok v) => ({ s with tview := some v }, s!"ok shape={showShape v.shape}")

def step (s : State) (toks : List String) : State × String :=
  match toks with
  | "@" :: "try_from" :: shapeS :: nS :: _ =>
    match parseShape shapeS, nS.toNat? with
    | some shape, some n =>
      match tensorTryFrom A shape n with
      | .panic k => ({}, s!"panic({k})")
      | .ok (.error sh) => ({}, s!"err {showShape sh}")
      | .ok (.ok t) => ({ tview := some (TView.ofTensor t) }, "ok")
    | _, _ => ({}, "bad-op")
  | "@" :: "to_range" :: sS :: lS :: _ =>
    -- `Range<usize>::from(IndexRange::new(start, length))`.  An end beyond `usize::MAX` is outside
    -- what the properties speak about (an infallible conversion): the answer is neutral there and
    -- the behaviour of the code as written (dev profile) is recorded after `##` only.
    match sS.toNat?, lS.toNat? with
    | some st, some l =>
      let shown := showOutcome (fun (r : Nat × Nat) => s!"ok {r.1}..{r.2}") (IndexRange.toStdRangePre ⟨st, l⟩)
      ({}, if st + l ≤ usizeMax then shown else s!"outside-scope ## {shown}")
    | _, _ => ({}, "bad-op")
  | "@" :: "from_range" :: sS :: eS :: _ =>
    match sS.toNat?, eS.toNat? with
    | some st, some e =>
      let r := IndexRange.ofStdRange st e
      ({}, s!"ok {r.start}:{r.length}")
    | _, _ => ({}, "bad-op")
  | "@" :: "record_get" :: shapeS :: orderS :: idxS :: _ =>
    -- `TensorAccess::from(<RecordTensor of the shape, owned / & / &mut>, order).try_get_as_record(idx)`;
    -- the records hold their flat offsets
    match parseShape shapeS, parseNatList idxS with
    | some shape, some idx =>
      match leaf shape 0 with
      | none => ({}, "bad-op")
      | some t =>
        match accessTryFrom t (parseNames orderS) with
        | .ok (.ok a) => ({}, showOutcome showOpt (a.get idx))
        | _ => ({}, "bad-op")
    | _, _ => ({}, "bad-op")
  | "@" :: "record_mget" :: rS :: cS :: iS :: jS :: _ =>
    match rS.toNat?, cS.toNat?, iS.toNat?, jS.toNat? with
    | some r, some c, some i, some j =>
      ({}, showOutcome showOpt ((MView.ofMatrix ⟨r * c, r, c⟩).get i j))
    | _, _, _, _ => ({}, "bad-op")
  | "@" :: "from_usize" :: ty :: nS :: _ =>
    -- `FromUsize::from_usize(n)`: `Some` exactly when `n` is representable in the type (always
    -- for the floats, which answer whether the value is `n as f..`)
    match nS.toNat? with
    | some n =>
      let intMax : Option Nat :=
        if ty = "u8" ∨ ty = "wrapping_u8" then some 255
        else if ty = "i8" ∨ ty = "record_i8" ∨ ty = "trace_i8" then some 127
        else if ty = "u16" then some 65535
        else if ty = "i16" ∨ ty = "saturating_i16" then some 32767
        else if ty = "u32" then some 4294967295
        else if ty = "i32" then some 2147483647
        else if ty = "i64" ∨ ty = "isize" then some 9223372036854775807
        else if ty = "u64" ∨ ty = "usize" ∨ ty = "u128" ∨ ty = "i128" then some usizeMax
        else none
      match intMax with
      | some m => ({}, if n ≤ m then s!"some({n})" else "none")
      | none => ({}, "some(true)")
    | none => ({}, "bad-op")
  | "@" :: "dim_lookup" :: fn :: shapeS :: name :: _ =>
    match parseShape shapeS with
    | some shape =>
      let name := if name = "_empty_" then "" else name
      ({}, showOpt (if fn = "length_of" then lengthOf shape name
                    else if fn = "last_index_of" then lastIndexOf shape name
                    else positionOf shape name))
    | none => ({}, "bad-op")
  | "@" :: "named" :: kind :: shapeS :: argsS :: _ =>
    -- `Tensor::{range, range_mut, range_owned, mask, mask_mut, mask_owned}` and the same six
    -- methods of `TensorView` (the lenient named constructors), then every element of the result
    match parseShape shapeS, parseNamedRanges argsS with
    | some shape, some args =>
      match leaf shape 0 with
      | none => ({}, "bad-op")
      | some t =>
        match (if kind = "mask" then maskFrom A t args else rangeFrom A t args) with
        | .panic k => ({}, s!"panic({k})")
        | .ok (.error e) => ({}, showRangeError e)
        | .ok (.ok w) =>
          let cells := (allIndexes (w.shape.map (·.2))).map fun idx =>
            match w.get idx with
            | .ok (some i) => toString i
            | .ok none => "none"
            | .panic k => s!"panic({k})"
          ({}, s!"ok shape={showShape w.shape} cells={if cells.isEmpty then "-" else ",".intercalate cells}")
    | _, _ => ({}, "bad-op")
  | "@" :: "is_valid" :: shapeS :: _ =>
    match parseShape shapeS with
    | some shape => ({}, toString (isValidShape shape))
    | none => ({}, "bad-op")
  | "@" :: "try_into_scalar" :: rS :: cS :: _ =>
    match rS.toNat?, cS.toNat? with
    | some r, some c =>
      ({}, showOutcome (fun | some i => s!"ok({i})" | none => "err") (tryIntoScalar ⟨r * c, r, c⟩))
    | _, _ => ({}, "bad-op")
  | "@" :: "into_tensor" :: rS :: cS :: n1 :: n2 :: _ =>
    match rS.toNat?, cS.toNat? with
    | some r, some c =>
      match matrixIntoTensor A ⟨r * c, r, c⟩ n1 n2 with
      | .panic k => ({}, s!"panic({k})")
      | .ok (.error sh) => ({}, s!"err {showShape sh}")
      | .ok (.ok t) => ({ tview := some (TView.ofTensor t) }, s!"ok shape={showShape t.shape}")
    | _, _ => ({}, "bad-op")
  | "@" :: "linalg" :: fn :: rS :: cS :: singS :: _ =>
    match rS.toNat?, cS.toNat? with
    | some r, some c =>
      let sing := singS = "1"
      let pair : Nat × Nat → String := fun (a, b) => s!"{a}x{b}"
      let ans :=
        if fn = "determinant" then
          showOutcome (fun | some () => "some" | none => "none") (determinantShape r c)
        else if fn = "inverse" then
          showOutcome (fun | some p => s!"some {pair p}" | none => "none") (inverseShape r c sing)
        else if fn = "cholesky" then
          showOutcome (fun | some p => s!"some {pair p}" | none => "none") (choleskyShape r c)
        else if fn = "ldlt" then
          showOutcome (fun | some p => s!"some {pair p} {pair p}" | none => "none") (choleskyShape r c)
        else if fn = "qr" then
          showOutcome (fun | some (q, r) => s!"some {pair q} {pair r}" | none => "none") (qrShape r c)
        else "bad-op"
      ({}, ans)
    | _, _ => ({}, "bad-op")
  | "@" :: "record" :: kind :: shapeS :: histS :: _ =>
    match parseShape shapeS, parseHists histS with
    | some shape, some hists => ({}, recordOne kind shape hists)
    | _, _ => ({}, "bad-op")
  | "@" :: "records" :: kind :: shapeS :: histS :: _ =>
    match parseShape shapeS, histS.splitOn "|" with
    | some shape, [h0, h1] =>
      match parseHists h0, parseHists h1 with
      | some l0, some l1 => ({}, recordOne kind shape l0 ++ " | " ++ recordOne kind shape l1)
      | _, _ => ({}, "bad-op")
    | _, _ => ({}, "bad-op")
  | "@" :: "tensor" :: shapeS :: _ =>
    match (parseShape shapeS).bind (leaf · 0) with
    | some v => ({ tview := some v }, "ok")
    | none => ({}, "bad-op")
  | "@" :: "stack" :: shapeS :: nS :: alongS :: _ =>
    match parseShape shapeS, nS.toNat?, parseNatNamed alongS with
    | some shape, some n, some [along] =>
      match (List.range n).mapM fun k => leaf shape (1000 * k) with
      | some leaves =>
        let v := TView.stack leaves along
        ({ tview := some v }, s!"ok shape={showShape v.shape}")
      | none => ({}, "bad-op")
    | _, _, _ => ({}, "bad-op")
  | "@" :: "chain" :: shapesS :: name :: _ =>
    match (shapesS.splitOn "|").mapM parseShape with
    | some (first :: rest) =>
      let shapes := first :: rest
      match (shapes.zipIdx).mapM (fun (sh, k) => leaf sh (1000 * k)), positionOf first name with
      | some leaves, some along =>
        match TView.chain leaves along with
        | .ok v => ({ tview := some v }, s!"ok shape={showShape v.shape}")
        | .panic k => ({}, s!"panic({k})")
      | _, _ => ({}, "bad-op")
    | _ => ({}, "bad-op")
  | "@" :: "matrix" :: rS :: cS :: _ =>
    match rS.toNat?, cS.toNat? with
    | some r, some c => ({ mview := some (MView.ofMatrix ⟨r * c, r, c⟩) }, "ok")
    | _, _ => ({}, "bad-op")
  | "@" :: "partition" :: rS :: cS :: rpS :: cpS :: _ =>
    match rS.toNat?, cS.toNat?, parseNatList rpS, parseNatList cpS with
    | some r, some c, some rp, some cp =>
      match partition ⟨r * c, r, c⟩ rp cp with
      | .panic k => ({}, s!"panic({k})")
      | .ok parts =>
        ({ parts := parts },
          "ok sizes=" ++ ";".intercalate (parts.map fun p => s!"{p.rows}x{p.columns}"))
    | _, _, _, _ => ({}, "bad-op")
  | "part" :: kS :: _ =>
    match kS.toNat?.bind (s.parts[·]?) with
    | some p =>
      let v := MView.ofPart p
      ({ s with mview := some v }, s!"ok size={sizeStr v}")
    | none => (s, "no-part")
  | "mmap" :: _ =>
    match s.mview with
    | some m => ({ s with mview := some m.map }, s!"ok size={sizeStr m}")
    | none => (s, "no-view")
  | "mtensor" :: _ =>
    match s.tview with
    | some v =>
      match MView.ofTensor v with
      | .ok w => ({ s with mview := some w }, s!"ok size={sizeStr w}")
      | .panic k => (s, s!"panic({k})")
    | none => (s, "no-view")
  | op :: namesS :: _ =>
    if op = "access" ∨ op = "transpose" then
      match s.tview with
      | none => (s, "no-view")
      | some v =>
        let names := parseNames namesS
        match (if op = "access" then accessTryFrom v names else transposeTryFrom v names) with
        | .panic k => (s, s!"panic({k})")
        | .ok (.error e) =>
          (s, s!"err actual={showShape e.actual} requested={showNames e.requested}")
        | .ok (.ok w) => ({ s with tview := some w }, s!"ok shape={showShape w.shape}")
    else if op = "range" ∨ op = "mask" then
      match s.tview, toks with
      | some v, _ :: mode :: argsS :: _ =>
        if mode = "from" ∨ mode = "from_strict" then
          match parseNamedRanges argsS with
          | none => (s, "bad-op")
          | some args =>
            setT s (match op, mode with
              | "range", "from" => rangeFrom A v args
              | "range", _ => rangeFromStrict A v args
              | _, "from" => maskFrom A v args
              | _, _ => maskFromStrict A v args)
        else
          match parseAllRanges argsS with
          | none => (s, "bad-op")
          | some args =>
            setT s (match op, mode with
              | "range", "from_all" => rangeFromAll A v args
              | "range", _ => rangeFromAllStrict A v args
              | _, "from_all" => maskFromAll A v args
              | _, _ => maskFromAllStrict A v args)
      | none, _ => (s, "no-view")
      | _, _ => (s, "bad-op")
    else if op = "reverse" then
      match s.tview with
      | none => (s, "no-view")
      | some v =>
        let w := v.reverse A (parseNames namesS)
        ({ s with tview := some w }, s!"ok shape={showShape w.shape}")
    else if op = "rename" then
      match s.tview with
      | none => (s, "no-view")
      | some v =>
        let w := v.rename (parseNames namesS)
        ({ s with tview := some w }, s!"ok shape={showShape w.shape}")
    else if op = "index" then
      match s.tview, parseNamedNats namesS with
      | some v, some provided =>
        let w := v.index provided
        ({ s with tview := some w }, s!"ok shape={showShape w.shape}")
      | none, _ => (s, "no-view")
      | _, _ => (s, "bad-op")
    else if op = "expand" then
      match s.tview, parseNatNamed namesS with
      | some v, some extra =>
        match v.expansion extra with
        | .ok w => ({ s with tview := some w }, s!"ok shape={showShape w.shape}")
        | .panic k => (s, s!"panic({k})")
      | none, _ => (s, "no-view")
      | _, _ => (s, "bad-op")
    else if op = "get" then
      match s.tview, parseNatList namesS with
      | some v, some idx => (s, showOutcome showOpt (v.get idx))
      | none, _ => (s, "no-view")
      | _, _ => (s, "bad-op")
    else if op = "tmatrix" then
      match s.mview, toks with
      | some m, _ :: n1 :: n2 :: _ =>
        match tensorRefMatrixWithNames m n1 n2 with
        | .panic k => (s, s!"panic({k})")
        | .ok (.error sh) => (s, s!"err {showShape sh}")
        | .ok (.ok w) => ({ s with tview := some w }, s!"ok shape={showShape w.shape}")
      | none, _ => (s, "no-view")
      | _, _ => (s, "bad-op")
    else if op = "mrange" then
      match s.mview, toks with
      | some m, _ :: rS :: cS :: _ =>
        match parseRange rS, parseRange cS with
        | some r, some c =>
          match m.range A r c with
          | .ok w => ({ s with mview := some w }, s!"ok size={sizeStr w}")
          | .panic k => (s, s!"panic({k})")
        | _, _ => (s, "bad-op")
      | none, _ => (s, "no-view")
      | _, _ => (s, "bad-op")
    else if op = "mreverse" then
      match s.mview, toks with
      | some m, _ :: rS :: cS :: _ =>
        let w := m.reverse A (rS = "1") (cS = "1")
        ({ s with mview := some w }, s!"ok size={sizeStr w}")
      | none, _ => (s, "no-view")
      | _, _ => (s, "bad-op")
    else if op = "mget" then
      match s.mview, toks with
      | some m, _ :: rS :: cS :: _ =>
        match rS.toNat?, cS.toNat? with
        | some r, some c => (s, showOutcome showOpt (m.get r c))
        | _, _ => (s, "bad-op")
      | none, _ => (s, "no-view")
      | _, _ => (s, "bad-op")
    else (s, "bad-op")
  | _ => (s, "bad-op")

end Driver.C16
