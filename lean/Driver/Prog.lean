/-
  Driver.Prog — shared front end of the differentiation drivers (C04, C05, C15): parsing of
  instruction lines into `Spec.Instr`, the table of named user functions, element types.

  Instruction lines (the second token names the result; operands are names of earlier results;
  a line with an unknown operand name is answered `bad-ref` and ignored — this only happens in
  shrunk replays):

    const c3 <num>                       Record::constant / zero / one / from_usize / pi
    var x4 <num>                         Record::variable / WengertList::variable
    add|sub|mul|div r5 <a> <b>           record ∘ record
    addn|subn|muln|divn r5 <a> <num>     record ∘ number
    subsw|divsw r5 <a> <num>             number ∘ record   (sub_swapped, div_swapped)
    neg r5 <a>
    sum r5 <a,b,c|->
    sin|cos|exp|ln|sqrt r5 <a>
    pow r5 <a> <b>    pown r5 <a> <num>    npow r5 <num> <a>
    unary r5 <a> fn=<cube|aff|odd>
    binary r5 <a> <b> fn=<axy|wsum|psq>

  Lines that create no instruction (handled by the drivers):

    cmp <eq|ne|lt|le|gt|ge|pcmp> <a> <b>     PartialEq / PartialOrd of records or traces
                                              → c=true|false   (pcmp: c=less|equal|greater|none)
    clone r6 <a> via=clone|clone_from        Clone: r6 names a copy of <a>
    show <a>                                 Display → s=<the number>
    debug <a>                                Debug (`{:?}`) of the record / trace → dbg ## <text>
    debugd <a>                               Debug of `derivatives()` of a record → dbg ## <text>

  Core Lean only.
-/
import EasyMl.Model.TapeExec
import Driver.Parse

namespace Driver
open EasyMl EasyMl.Spec

/-- what the drivers need of an element type -/
class Elem (R : Type) extends Add R, Sub R, Mul R, Div R, Neg R, Zero R, One R, RealFns R, BEq R,
    NumOrd R where
  parse : String → Option R
  render : R → String
  /-- `{:?}` of the element type in the harness (`Fp(5)`, `Rat { n: 3, d: 2 }`) -/
  debug : R → String

instance : Elem Fp where
  parse s := s.toNat?.map Fp.ofNat
  render a := toString a.val
  debug a := s!"Fp({a.val})"

/-- `Rat` is not a `Real` type of the Rust harness: rational cases never contain real-function
    lines, this instance only makes the generic driver typecheck. -/
instance : RealFns Rat where
  sqrt _ := 0
  exp _ := 0
  ln _ := 0
  sin _ := 0
  cos _ := 0
  pow _ _ := 0
  pi := 0

def parseRat (s : String) : Option Rat :=
  match s.splitOn "/" with
  | [n] => n.toInt?.map fun i => (i : Rat)
  | [n, d] =>
    match n.toInt?, d.toNat? with
    | some i, some k => some ((i : Rat) / (k : Rat))
    | _, _ => none
  | _ => none

instance : Elem Rat where
  parse := parseRat
  render := showRat
  debug q := "Rat { n: " ++ toString q.num ++ ", d: " ++ toString q.den ++ " }"

section
variable {R : Type} [Elem R]

def two : R := 1 + 1
def three : R := 1 + 1 + 1

/-- named user functions for `Record::unary` / `Trace::unary`: `(f, f')` as handed to the call.
    `odd` deliberately passes a function that is not the derivative: the code must use what it
    is given. -/
def unaryFn : String → Option ((R → R) × (R → R))
  | "cube" => some (fun x => x * x * x, fun x => three * (x * x))
  | "aff" => some (fun x => two * x + 1, fun _ => two)
  | "odd" => some (fun x => x * x, fun x => x)
  | _ => none

/-- named user functions for `Record::binary` / `Trace::binary`: `(f, f_x, f_y)` -/
def binaryFn : String → Option ((R → R → R) × (R → R → R) × (R → R → R))
  | "axy" => some (fun x y => x * y + x, fun _ y => y + 1, fun x _ => x)
  | "wsum" => some (fun x y => two * x + three * y, fun _ _ => two, fun _ _ => three)
  | "psq" => some (fun x y => x * x * y, fun x y => two * x * y, fun x _ => x * x)
  | _ => none

/-- result names seen so far in a case, with the position of the instruction that made them -/
abbrev Names := List (String × Nat)

def Names.find (names : Names) (s : String) : Option Nat := names.lookup s

def arithOf : String → Option Arith
  | "add" => some .add | "sub" => some .sub | "mul" => some .mul | "div" => some .div
  | _ => none

def arithNumOf : String → Option Arith
  | "addn" => some .add | "subn" => some .sub | "muln" => some .mul | "divn" => some .div
  | _ => none

def swappedOf : String → Option Swapped
  | "subsw" => some .sub | "divsw" => some .div
  | _ => none

def realOf : String → Option RealFn
  | "sin" => some .sin | "cos" => some .cos | "exp" => some .exp | "ln" => some .ln
  | "sqrt" => some .sqrt
  | _ => none

/-- Parses an instruction line.  For `var` the value is returned separately (it belongs to the
    input point, not to the program). -/
def parseInstrWith (nameIdx : String → Option Nat) (toks : List String) :
    Option (Instr R × Option R) :=
  let parseRefs := fun (s : String) => (splitComma s).mapM nameIdx
  match toks with
  | "const" :: _ :: v :: _ => (Elem.parse v).map fun c => (.const c, none)
  | "var" :: _ :: v :: _ => (Elem.parse v).map fun x => (.var, some x)
  | "neg" :: _ :: a :: _ => (nameIdx a).map fun a => (.neg a, none)
  | "sum" :: _ :: as :: _ => (parseRefs as).map fun as => (.sum as, none)
  | "pow" :: _ :: a :: b :: _ =>
    match nameIdx a, nameIdx b with
    | some a, some b => some (.pow a b, none)
    | _, _ => none
  | "pown" :: _ :: a :: c :: _ =>
    match nameIdx a, Elem.parse c with
    | some a, some c => some (.powNum a c, none)
    | _, _ => none
  | "npow" :: _ :: c :: a :: _ =>
    match Elem.parse c, nameIdx a with
    | some c, some a => some (.numPow c a, none)
    | _, _ => none
  | "unary" :: _ :: a :: rest =>
    match nameIdx a, (optArg "fn" rest).bind (unaryFn (R := R)) with
    | some a, some (f, df) => some (.unary f df a, none)
    | _, _ => none
  | "binary" :: _ :: a :: b :: rest =>
    match nameIdx a, nameIdx b, (optArg "fn" rest).bind (binaryFn (R := R)) with
    | some a, some b, some (f, dfx, dfy) => some (.binary f dfx dfy a b, none)
    | _, _, _ => none
  | op :: _ :: a :: b :: _ =>
    match arithOf op, arithNumOf op, swappedOf op, realOf op with
    | some o, _, _, _ =>
      match nameIdx a, nameIdx b with
      | some a, some b => some (.arith o a b, none)
      | _, _ => none
    | _, some o, _, _ =>
      match nameIdx a, Elem.parse b with
      | some a, some c => some (.arithNum o a c, none)
      | _, _ => none
    | _, _, some o, _ =>
      match nameIdx a, Elem.parse b with
      | some a, some c => some (.swapped o c a, none)
      | _, _ => none
    | _, _, _, some f => (nameIdx a).map fun a => (.real f a, none)
    | _, _, _, _ => none
  | [op, _, a] => match realOf op with
    | some f => (nameIdx a).map fun a => (.real f a, none)
    | none => none
  | _ => none

def parseInstr (names : Names) (toks : List String) : Option (Instr R × Option R) :=
  parseInstrWith names.find toks

/-- is the first token an instruction keyword (then a parse failure is a dangling operand) -/
def knownOp (toks : List String) : Bool :=
  match toks with
  | op :: _ =>
    ["const", "var", "neg", "sum", "pow", "pown", "npow", "unary", "binary"].contains op
      || (arithOf op).isSome || (arithNumOf op).isSome || (swappedOf op).isSome || (realOf op).isSome
  | [] => false

/-- `#[derive(Debug)]` of `Operation`, `WengertList` (a `RefCell<Vec<_>>`), `Record`, `Trace`,
    `Derivatives`, as `{:?}` prints them -/
def debugOp (op : Op R) : String :=
  "Operation { left_parent: " ++ toString op.leftParent ++ ", right_parent: " ++
    toString op.rightParent ++ ", left_derivative: " ++ Elem.debug op.leftDerivative ++
    ", right_derivative: " ++ Elem.debug op.rightDerivative ++ " }"

def debugRec (w : World R) (r : Rec R) : String :=
  let hist := match r.history with
    | none => "None"
    | some h => "Some(WengertList { operations: RefCell { value: [" ++
        ", ".intercalate ((w h).map debugOp) ++ "] } })"
  "Record { number: " ++ Elem.debug r.number ++ ", history: " ++ hist ++ ", index: " ++
    toString r.index ++ " }"

def debugDual (d : Dual R) : String :=
  "Trace { number: " ++ Elem.debug d.number ++ ", derivative: " ++ Elem.debug d.derivative ++ " }"

def debugDerivs (d : List R) : String :=
  "Derivatives { derivatives: [" ++ ", ".intercalate (d.map Elem.debug) ++ "] }"

/-- answer of a comparison line from the two results `==` and `partial_cmp` gave -/
def cmpAnswer (op : String) (eqv : Bool) (pc : Option Ordering) : Option String :=
  let b := fun (x : Bool) => some (if x then "c=true" else "c=false")
  match op with
  | "eq" => b eqv
  | "ne" => b (!eqv)
  | "lt" => b (ordLt pc)
  | "le" => b (ordLe pc)
  | "gt" => b (ordGt pc)
  | "ge" => b (ordGe pc)
  | "pcmp" => some (match pc with
    | some .lt => "c=less" | some .eq => "c=equal" | some .gt => "c=greater" | none => "c=none")
  | _ => none

def renderList (l : List R) : String :=
  if l.isEmpty then "-" else ",".intercalate (l.map Elem.render)

def envOf (envL : List (Nat × R)) : Nat → R := fun j => (envL.lookup j).getD 0

def beqList (a b : List R) : Bool := a.length == b.length && (a.zip b).all fun (x, y) => x == y

end

end Driver
