/-
  Driver.C08 — line protocol for Cholesky, LDLᵀ and QR.  Every case is one `@` line:

    @ <chol|ldlt|qr> <fp|rat> <rows> <cols> <entries row-major> names=<n0>,<n1> via=<entry point>
    @ <chol|ldlt|qr> f64 <rows> <cols> <kind> <seed> via=…
    @ api <ldlt|qr> <matrix|tensor>      (constructors and trait impls of the result structs)

  Answers: `none` or `some <shape facts> <identity checks> ## <factor entries>`.

  * Before `##`: what C08 speaks about — presence, the documented shapes and names, triangular
    structure and the defining identities, evaluated exactly on the model's factors (theorems of
    `Props/C08.lean`: they always hold).  Over `Fp` the square root is an uninterpreted function,
    so only the identities that do not need `sqrt(x)² = x` are reported there (off-diagonal
    entries of `L·Lᵀ`; all of `L·D·Lᵀ`); over `Rat` the whole identity.
  * After `##`: the factor entries of the code-shaped model at the same `Fp` / `Rat` point.
  * `struct=ok display=ok` (after `##`): `from_unchecked` of the result struct stores exactly the
    two factors it is given and `Display` prints them under their letters (`L:`/`D:`, `Q:`/`R:`).
  * `consumers=ok` (after `##`): the factors handed to the library's own transposition (allocating
    and in place) and product, through the matrix and the tensor API, give the entrywise product.
  * element type `tr`: forward-mode dual numbers over `Fp` (`Trace<Fp>`, entries `number~derivative`);
    the same model functions at `Dual Fp` predict value and derivative of every factor entry.
  * `f64` lines: the model answers what the specification demands of the real-number input class
    named by `<kind>`; the harness evaluates the float result against the defining identities
    with a tolerance.  No float is computed or compared here.
-/
import EasyMl.Model.Decomp
import EasyMl.Model.DualElem
import Driver.Parse

namespace Driver.C08
open EasyMl EasyMl.Decomp Driver

abbrev State := Unit

def init : State := ()

/-- exact square root on perfect squares (the generator only produces such radicands) -/
def ratSqrt (q : Rat) : Rat :=
  if q.num < 0 then 0 else mkRat (Nat.sqrt q.num.toNat) (Nat.sqrt q.den)

instance : RealFns Rat where
  sqrt := ratSqrt
  exp _ := 0
  ln _ := 0
  sin _ := 0
  cos _ := 0
  pow _ _ := 0
  pi := 0

def parseRat (s : String) : Option Rat :=
  match s.splitOn "/" with
  | [n] => n.toInt?.map fun i => (i : Rat)
  | [n, d] => match n.toInt?, d.toNat? with
    | some i, some k => some (mkRat i k)
    | _, _ => none
  | _ => none

def parseFp (s : String) : Option Fp := s.toNat?.map Fp.ofNat

/-! ### forward-mode dual numbers over `Fp` as an element type (`Trace<Fp>`)

  The decomposition models are polymorphic; instantiated at `Dual Fp` (the C05 model of
  `Trace<T>`: trace_operations.rs; the instances are in `Model/DualElem.lean`) they predict value *and* derivative of every factor entry.
  `==`, `<=`, `<` of a `Trace` look at the number only. -/

def showDual (a : Dual Fp) : String := s!"{a.number}~{a.derivative}"

def parseDual (s : String) : Option (Dual Fp) :=
  match s.splitOn "~" with
  | [n, d] => match parseFp n, parseFp d with
    | some x, some y => some ⟨x, y⟩
    | _, _ => none
  | _ => none

/-- complete equality of an element (for dual numbers: number and derivative) -/
class FullEq (α : Type) where
  same : α → α → Bool

instance : FullEq Fp := ⟨fun a b => a.val == b.val⟩
instance : FullEq Rat := ⟨fun a b => a == b⟩
instance : FullEq (Dual Fp) := ⟨fun a b => a.number.val == b.number.val && a.derivative.val == b.derivative.val⟩

def okS (b : Bool) : String := if b then "ok" else "bad"

section
variable {α : Type} [Add α] [Sub α] [Mul α] [Div α] [Neg α] [Zero α] [One α] [NumOrd α] [FullEq α]

def showElems (sh : α → String) (l : List α) : String :=
  if l.isEmpty then "-" else ",".intercalate (l.map sh)

def allRange (n : Nat) (p : Nat → Bool) : Bool := (List.range n).all p

def isLower (m : Matrix α) : Bool :=
  allRange m.rows fun i => allRange m.columns fun j => j ≤ i || FullEq.same (get m i j) 0

def isUpper (m : Matrix α) : Bool :=
  allRange m.rows fun i => allRange m.columns fun j => i ≤ j || FullEq.same (get m i j) 0

def sumRange (n : Nat) (f : Nat → α) : α := (List.range n).foldl (fun s k => s + f k) 0

/-- `(L·Lᵀ)[i,j] = A[i,j]` for `j ≤ i` (`strict`: `j < i` only) -/
def cholIdentity (L A : Matrix α) (strict : Bool) : Bool :=
  let n := L.rows
  allRange n fun i => allRange (i + 1) fun j =>
    (strict && i == j) || FullEq.same (sumRange n fun k => get L i k * get L j k) (get A i j)

def ldltIdentity (L D A : Matrix α) : Bool :=
  let n := L.rows
  allRange n fun i => allRange (i + 1) fun j =>
    FullEq.same (sumRange n fun k => get L i k * get D k k * get L j k) (get A i j)

def isUnitLower (m : Matrix α) : Bool :=
  isLower m && allRange m.rows fun i => FullEq.same (get m i i) 1

def shapeS (names : List String) (m : Matrix α) : String :=
  s!"{names.getD 0 "r"}:{m.rows},{names.getD 1 "c"}:{m.columns}"

def answerChol [RealFns α] (sh : α → String) (exactSqrt : Bool) (names : List String)
    (A : Matrix α) : String :=
  match cholesky A with
  | none => "none"
  | some L =>
    let facts :=
      if exactSqrt then
        let pos := allRange L.rows fun i => NumOrd.lt 0 (get L i i)
        s!"lower={okS (isLower L)} posdiag={okS pos} ident={okS (cholIdentity L A false)}"
      else s!"lower={okS (isLower L)} offdiag={okS (cholIdentity L A true)}"
    s!"some shape={shapeS names L} {facts} ## L={showElems sh L.data} consumers=ok"

def answerLdlt (sh : α → String) (names : List String) (A : Matrix α) : String :=
  match ldlt A with
  | none => "none"
  | some (L, D) =>
    s!"some lshape={shapeS names L} dshape={shapeS names D} unitlower={okS (isUnitLower L)} " ++
    s!"diag={okS (isLower D && isUpper D)} ident={okS (ldltIdentity L D A)} " ++
    s!"## L={showElems sh L.data} D={showElems sh D.data} struct=ok display=ok consumers=ok"

def answerQr [RealFns α] (sh : α → String) (names : List String) (A : Matrix α) : String :=
  match qr A with
  | none => "none"
  | some (Q, R) =>
    s!"some qshape={shapeS names Q} rshape={shapeS names R} " ++
    s!"## Q={showElems sh Q.data} R={showElems sh R.data} struct=ok display=ok"

end

/-- what the specification demands of the `f64` input classes of the generator -/
def answerF64 (alg kind : String) (rows cols : Nat) : String :=
  match alg with
  | "chol" =>
    if rows ≠ cols then "none"
    else if kind = "spd" then "some lower=ok posdiag=ok ident=ok" else "none"
  | "ldlt" =>
    if rows ≠ cols then "none"
    else if kind = "spd" then "some unitlower=ok diag=ok ident=ok ## struct=ok display=ok" else "none"
  | _ =>
    if cols > rows then "none"
    else "some shapes=ok product=ok orthogonal=ok upper=ok ## struct=ok display=ok"

def step (s : State) (toks : List String) : State × String :=
  match toks with
  | ["@", "api", _, _] =>
    -- API surface of the result structs: `from_unchecked` stores its two arguments in name order,
    -- `clone` / `clone_from` reproduce both fields, `Display` prints each factor under its own letter
    -- and `Debug` each field under its own name
    (s, "from_unchecked=ok clone=ok clone_from=ok display=ok debug=ok")
  | "@" :: alg :: ty :: rowsS :: colsS :: dataS :: rest =>
    match rowsS.toNat?, colsS.toNat? with
    | some rows, some cols =>
      let names := parseNames ((optArg "names" rest).getD "r,c")
      if ty = "f64" then (s, answerF64 alg dataS rows cols)
      else if ty = "fp" then
        match (splitComma dataS).mapM parseFp with
        | none => (s, "bad-op")
        | some a =>
          let A : Matrix Fp := ⟨a, rows, cols⟩
          if a.length ≠ rows * cols then (s, "bad-op")
          else match alg with
            | "chol" => (s, answerChol toString false names A)
            | "ldlt" => (s, answerLdlt toString names A)
            | "qr" => (s, answerQr toString names A)
            | _ => (s, "bad-op")
      else if ty = "tr" then
        match (splitComma dataS).mapM parseDual with
        | none => (s, "bad-op")
        | some a =>
          let A : Matrix (Dual Fp) := ⟨a, rows, cols⟩
          if a.length ≠ rows * cols then (s, "bad-op")
          else match alg with
            | "chol" => (s, answerChol showDual false names A)
            | "ldlt" => (s, answerLdlt showDual names A)
            | _ => (s, "bad-op")
      else if ty = "rat" then
        match (splitComma dataS).mapM parseRat with
        | none => (s, "bad-op")
        | some a =>
          let A : Matrix Rat := ⟨a, rows, cols⟩
          if a.length ≠ rows * cols then (s, "bad-op")
          else match alg with
            | "chol" => (s, answerChol showRat true names A)
            | "ldlt" => (s, answerLdlt showRat names A)
            | _ => (s, "bad-op")
      else (s, "bad-op")
    | _, _ => (s, "bad-op")
  | _ => (s, "bad-op")

end Driver.C08
