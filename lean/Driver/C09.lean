/-
  Driver.C09 — line protocol for the iterators.

  Cases (fresh state):
    @ shape <lens>                         bare ShapeIterator (zero lengths allowed)   → ok
    @ tensor <shape> <adaptor>*            Tensor with ids 0..n-1 (id = storage offset), then
         range:<name>.<start>.<len>,…       TensorRange::from            (clipped; rejected if empty)
         mask:<name>.<start>.<len>,…        TensorMask::from             (clipped; rejected if nothing is left)
         rename:<names>                     TensorRename::from
         reverse:<name>,…                   TensorReverse::from
         access:<names>                     TensorAccess::from
         transpose:<names>                  TensorTranspose::from
                                                              → ok shape=<view shape> | reject
         prep:<op>                          what ran on the container first: cap:<k>,
                                            reshape_mut:<n>/<l>,…, transpose_mut:<names>,
                                            reorder_mut:<names> (matrices: cap, remove_row:<r>,
                                            remove_column:<c>, insert_row:<r>, insert_column:<c>,
                                            transpose_mut); the cells keep the ids they were born with
    @ stack <pos>.<name> <tuple|array> <N> <shape> [pre:<adaptor>]* <adaptor>*
                                           TensorStack of N tensors of that shape (leaf j holds ids
                                           j*100000 + offset), each under the `pre:` adaptors, the
                                           result under the remaining adaptors
    @ chain <name> <tuple|array> <shape>|<shape>|… [pre:<adaptor>]* <adaptor>*
                                           TensorChain of tensors of these shapes along <name>
    @ matrix <rows> <cols> <adaptor>*      Matrix with ids 0..n-1
         range:<rs>.<rl>.<cs>.<cl>          MatrixRange::from (may be empty)
         reverse:<r|c|rc|->                 MatrixReverse::from
                                                              → ok size=<rows>x<cols>

  Operations:
    iter [k=<rowmajor|colmajor|row|col|diag>] [a=<i>] f=<copy|ref|mut|owned> wi=<0|1> n=<calls>
         [conv=<k>]    the first k calls on the plain iterator, then it is converted into its
                       with-index form (`with_index()`; `wvia=into`: `WithIndex::from(it)`;
                       `wvia=dotinto`: `it.into()`), which serves the remaining calls
         [clone=<k>]   (bare ShapeIterator) after k calls `clone()`; the copy, then the original
         [split=<k>]   the first k calls on the with-index iterator, then `WithIndex::source()`
                       and the remaining calls on the wrapped iterator
         (`via=`: API form; `wvia=into`: with-index iterator made by `From`/`into()`;
          `via=…_numeric`: owned iterators made by `from_numeric`, placeholder = `zero()`)
        one record per call, `;`-separated:  <lower>/<upper>/<len()>:<item>[@<index>]
        taken as: size_hint(), len(), then next().  `-` = None; items are storage cells (= ids),
        `P` a placeholder, `UB` an unchecked access outside the source.
        f=mut appends ` distinct=ok|ALIAS` (all handed out cells pairwise different),
        f=owned appends ` drops=ok`.
    consume m=<count|last|fold|nth.<j>|panic.<p>> after=<k> [k=…] f=… wi=… n=<calls>
        `after` plain calls, then std's consumer on top of `next` (`Iterator::count`, `last`, `fold`,
        `nth(j)`, or `by_ref().for_each` with a closure that panics at its p-th element), then — for
        `nth` and `panic` — the records of `n` further calls on the surviving iterator, and for
        `panic` the values a fresh iterator over the same source yields afterwards
    probe m=<checked|checked_mut|unchecked|unchecked_mut> via=boxed
        every index of a tensor source through that getter (and, for the checked ones, one index
        just outside the shape): the read paths the iterators do and do not use
    left [k=…] n=<calls>
        owned iteration for n calls, iterator dropped, leaf contents (`P` = placeholder)

  The answer before `##` is computed from the *specification* (Spec/Iter.lean); the code-shaped
  model's answer follows only if it differs (Props/C09 proves it never does).
-/
import EasyMl.Model.IterView
import EasyMl.Model.Transform
import EasyMl.Model.MatrixResize
import EasyMl.Spec.Iter
import Driver.Parse

namespace Driver.C09
open EasyMl EasyMl.Iter EasyMl.View Driver

inductive Src where
  | none
  | shape (lens : List Nat)
  | tensor (names : List String) (src : TSource Nat) (leafIds : List Nat) (mem : Nat → Option Nat)
  | matrix (src : MSource Nat) (leafIds : List Nat) (mem : Nat → Option Nat)

abbrev State := Src

def init : State := .none

def both (spec model : String) : String :=
  if spec = model then spec else s!"{spec} ## MODEL-SPEC-DISAGREE {model}"

def showIdx (l : List Nat) : String :=
  if l.isEmpty then "*" else ".".intercalate (l.map toString)

def showPos (p : Nat × Nat) : String := s!"{p.1}.{p.2}"

def showHint : Outcome (Nat × Option Nat) → String
  | .panic k => s!"panic({k})"
  | .ok (lo, hi) =>
    let his := match hi with
      | some h => toString h
      | none => "n"
    let len := match lenOfHint (.ok (lo, hi)) with
      | .ok n => toString n
      | .panic k => s!"panic({k})"
    s!"{lo}/{his}/{len}"

/-- memory of the leaf: `some id` an original value, `none` a placeholder -/
abbrev Mem := Nat → Option Nat

/-- the value stored in the cell with this id (`d=<mode>` of the case header) -/
def valOf (mode : String) (id : Nat) : Nat :=
  match mode with
  | "zero" => 0
  | "same" => 7
  | "dup" => id / 2
  | "mod3" => id % 3
  | _ => id

def memOf (mode : String) : Mem := fun c => some (valOf mode c)

def showVal : Option (Option Nat) → String
  | none => "UB"
  | some none => "P"
  | some (some v) => toString v

inductive Flavour where
  | copy | ref | mut | owned
  deriving DecidableEq

def parseFlavour : String → Option Flavour
  | "copy" => some .copy | "ref" => some .ref | "mut" => some .mut | "owned" => some .owned
  | _ => none

section Generic
variable {σ π : Type}

/-- one call of `next` of the chosen flavour; the item is shown as a string, the resolved cell
    is returned as well (for the distinctness check of `f=mut`) -/
def flavourNext (f : Flavour) (next : σ → Outcome (Option π × σ)) (cell : π → Option Nat)
    (st : σ × Mem) : Outcome (Option (Option (Option Nat)) × (σ × Mem)) :=
  match f with
  | .copy =>
    match copyNext next cell st.2 st.1 with
    | .panic k => .panic k
    | .ok (x, s') => .ok (x, (s', st.2))
  | .ref | .mut =>
    match refNext next cell st.1 with
    | .panic k => .panic k
    -- a reference is shown by the cell it points to (the harness locates it by address)
    | .ok (x, s') => .ok (x.map fun c => c.map fun c => some c, (s', st.2))
  | .owned => ownedNext next cell none st

/-- the records of `n` calls by the code-shaped model -/
def modelRecords (f : Flavour) (wi : Bool) (next : σ → Outcome (Option π × σ))
    (hint : σ → Outcome (Nat × Option Nat)) (counter : σ → π) (cell : π → Option Nat)
    (showP : π → String) : Nat → σ × Mem → List String × List (Option (Option Nat)) × (σ × Mem)
  | 0, st => ([], [], st)
  | n + 1, st =>
    let h := showHint (hint st.1)
    let stepped : Outcome (Option (String × Option (Option Nat)) × (σ × Mem)) :=
      if wi then
        match withIndexNext (fun (s : σ × Mem) => counter s.1) (flavourNext f next cell) st with
        | .panic k => .panic k
        | .ok (none, st') => .ok (none, st')
        | .ok (some (i, v), st') => .ok (some (s!"{showVal v}@{showP i}", v), st')
      else
        match flavourNext f next cell st with
        | .panic k => .panic k
        | .ok (none, st') => .ok (none, st')
        | .ok (some v, st') => .ok (some (showVal v, v), st')
    match stepped with
    | .panic k => ([s!"{h}:panic({k})"], [], st)
    | .ok (none, st') =>
      let r := modelRecords f wi next hint counter cell showP n st'
      (s!"{h}:-" :: r.1, r.2.1, r.2.2)
    | .ok (some (item, v), st') =>
      let r := modelRecords f wi next hint counter cell showP n st'
      (s!"{h}:{item}" :: r.1, v :: r.2.1, r.2.2)

/-- the records demanded by the specification: `item k` is the `k`-th position -/
def specRecords (f : Flavour) (m0 : Mem) (wi : Bool) (total : Nat) (item : Nat → Option π)
    (cell : π → Option Nat) (showP : π → String) (n : Nat) : List String :=
  (List.range n).map fun k =>
    let rem := Spec.remaining total k
    let it := match item k with
      | none => "-"
      | some p =>
        let v := match cell p with
          | some c =>
            -- references are shown by their cell, copies and moved-out values by their value
            if f = Flavour.ref || f = Flavour.mut then toString c else showVal (some (m0 c))
          | none => "UB"
        if wi then s!"{v}@{showP p}" else v
    s!"{rem}/{rem}/{rem}:{it}"

def nodup : List (Option (Option Nat)) → Bool
  | [] => true
  | x :: xs => !(xs.contains x) && nodup xs

def showLeft (mem : Mem) (leafIds : List Nat) : String :=
  "left=" ++ showNats' (leafIds.map fun o => match mem o with
    | some v => toString v
    | none => "P")
where showNats' (l : List String) : String := if l.isEmpty then "-" else ",".intercalate l

/-- the item part of a record `<lower>/<upper>/<len>:<item>` -/
def itemOf (rec : String) : String := ":".intercalate ((rec.splitOn ":").drop 1)

/-- number of `next` calls std's consumer `m` makes on an iterator with `r` items left
    (`count`, `last`, `fold` run to the first `None`; `nth(j)` stops after `j + 1` items;
    the panicking closure of `panic.p` stops `for_each` after `p + 1` items) -/
def consumerCalls (m : String) (r : Nat) : Nat :=
  match m.splitOn "." with
  | ["nth", j] => min (j.toNat! + 1) (r + 1)
  | ["panic", p] => min (p.toNat! + 1) (r + 1)
  | _ => r + 1

/-- The answer of a `consume` operation, computed from the records of plain `next` calls:
    `after` calls, then std's consumer (built on `next`), then `n` more calls on the survivor. -/
def consumeAnswer (m : String) (after n : Nat) (recs : List String) (fresh : String) : String :=
  let items := recs.map itemOf
  let rest := (items.drop after).takeWhile (· ≠ "-")
  let calls := consumerCalls m rest.length
  let survivor := ";".intercalate ((recs.drop (after + calls)).take n)
  let showL (l : List String) : String := if l.isEmpty then "-" else ",".intercalate l
  match m.splitOn "." with
  | ["count"] => s!"count={rest.length}"
  | ["last"] => s!"last={rest.getLast?.getD "-"}"
  | ["fold"] => s!"fold={showL rest}"
  | ["nth", j] => s!"nth={(rest[j.toNat!]?).getD "-"} | {survivor}"
  | ["panic", p] =>
    let how := if p.toNat! < rest.length then "panicked" else "finished"
    s!"seen={showL (rest.take (p.toNat! + 1))} {how} | {survivor} | fresh={fresh}"
  | _ => "bad-op"

/-- answer of an `iter` / `left` operation for any position iterator -/
def answer (op : String) (f : Flavour) (wi : Bool) (split : Option Nat) (n : Nat) (leafIds : List Nat) (total : Nat)
    (next : σ → Outcome (Option π × σ)) (hint : σ → Outcome (Nat × Option Nat))
    (counter : σ → π) (cell : π → Option Nat) (item : Nat → Option π) (showP : π → String)
    (mem0 : Mem) (s0 : σ) : String :=
  if op.startsWith "consume" then
    -- op = "consume <m> <after>" (packed by the callers)
    match op.splitOn " " with
    | [_, cm, afterS] =>
      let after := afterS.toNat!
      -- specification: from the records of plain calls
      let long := after + (total + 1) + n
      let srecs := specRecords f mem0 wi total item cell showP long
      let restLen (recs : List String) := (((recs.map itemOf).drop after).takeWhile (· ≠ "-")).length
      let callsS := after + consumerCalls cm (restLen srecs) + n
      let visited := (List.range callsS).filterMap fun k => (item k).bind cell
      let specMem : Mem := fun o => if f = Flavour.owned && visited.contains o then none else mem0 o
      let freshOf (mem : Mem) : String :=
        let vals := (List.range total).filterMap fun k =>
          (item k).map fun p => match cell p with
            | some c => showVal (some (mem c))
            | none => "UB"
        if vals.isEmpty then "-" else ",".intercalate vals
      let t := if f = Flavour.owned then " drops=ok" else ""
      -- model: `after` calls, then std's loops `drain` / `nthOf` (Model/Iter.lean) over the
      -- flavour's step function, then the survivor
      let stepStr : σ × Mem → Outcome (Option String × (σ × Mem)) := fun st =>
        if wi then
          match withIndexNext (fun (s : σ × Mem) => counter s.1) (flavourNext f next cell) st with
          | .panic k => .panic k
          | .ok (x, st') => .ok (x.map fun (i, v) => s!"{showVal v}@{showP i}", st')
        else
          match flavourNext f next cell st with
          | .panic k => .panic k
          | .ok (x, st') => .ok (x.map showVal, st')
      let showL (l : List String) : String := if l.isEmpty then "-" else ",".intercalate l
      let model : String :=
        match collect stepStr after (s0, mem0) with
        | .panic k => s!"panic({k})"
        | .ok (_, st1) =>
          match cm.splitOn "." with
          | ["nth", j] =>
            match nthOf stepStr j.toNat! st1 with
            | .panic k => s!"panic({k})"
            | .ok (x, st2) =>
              let r := modelRecords f wi next hint counter cell showP n st2
              s!"nth={x.getD "-"} | {";".intercalate r.1}"
          | ["panic", p] =>
            -- `for_each` stops when the closure panics at its p-th element: p + 1 items
            match drain stepStr (p.toNat! + 1) st1 with
            | .panic k => s!"panic({k})"
            | .ok (xs, st2) =>
              let how := if xs.length = p.toNat! + 1 then "panicked" else "finished"
              let r := modelRecords f wi next hint counter cell showP n st2
              s!"seen={showL xs} {how} | {";".intercalate r.1} | fresh={freshOf r.2.2.2}"
          | [c] =>
            match drain stepStr (total + 1) st1 with
            | .panic k => s!"panic({k})"
            | .ok (xs, _) =>
              if c = "count" then s!"count={xs.length}"
              else if c = "last" then s!"last={xs.getLast?.getD "-"}"
              else s!"fold={showL xs}"
          | _ => "bad-op"
      both (consumeAnswer cm after n srecs (freshOf specMem) ++ t) (model ++ t)
    | _ => "bad-op"
  else
  let m := modelRecords f wi next hint counter cell showP n (s0, mem0)
  if op = "left" then
    let visited := (List.range n).filterMap fun k => (item k).bind cell
    let specMem : Mem := fun o => if visited.contains o then none else mem0 o
    both (showLeft specMem leafIds) (showLeft m.2.2.2 leafIds)
  else
    let tail (distinct : Bool) : String :=
      match f with
      | .mut => if distinct then " distinct=ok" else " distinct=ALIAS"
      | .owned => " drops=ok"
      | _ => ""
    match split with
    | none =>
      let spec := ";".intercalate (specRecords f mem0 wi total item cell showP n) ++ tail true
      let model := ";".intercalate m.1 ++ tail (nodup m.2.1)
      both spec model
    | some k =>
      if op = "iter-conv" then
        -- `k` calls on the plain iterator, then `with_index()` / `WithIndex::from` / `.into()`:
        -- the conversion is the identity on the iterator's state (`withIndex_of_advanced`)
        let m0 := modelRecords f false next hint counter cell showP n (s0, mem0)
        let m1 := modelRecords f true next hint counter cell showP n (s0, mem0)
        let spec := ";".intercalate ((specRecords f mem0 false total item cell showP n).take k ++
          (specRecords f mem0 true total item cell showP n).drop k) ++ tail true
        let model := ";".intercalate (m0.1.take k ++ m1.1.drop k) ++ tail (nodup m0.2.1)
        both spec model
      else
      -- `k` calls on the with-index iterator, `WithIndex::source()`, then the wrapped iterator:
      -- the wrapper has no state of its own, so the records are those of the with-index run
      -- up to `k` and of the plain run from `k` on
      let m0 := modelRecords f false next hint counter cell showP n (s0, mem0)
      let m1 := modelRecords f true next hint counter cell showP n (s0, mem0)
      let spec := ";".intercalate ((specRecords f mem0 true total item cell showP n).take k ++
        (specRecords f mem0 false total item cell showP n).drop k) ++ tail true
      let model := ";".intercalate (m1.1.take k ++ m0.1.drop k) ++ tail (nodup m0.2.1)
      both spec model

end Generic

/-! ### building sources -/

def parseDotted (s : String) : List String := s.splitOn "."

def parseNamedRanges (spec : String) : Option (List (String × IndexRange)) :=
  (splitComma spec).mapM fun part =>
    match parseDotted part with
    | [n, s, l] => match s.toNat?, l.toNat? with
      | some s, some l => some (n, ⟨s, l⟩)
      | _, _ => none
    | _ => none

/-- the adaptors are the constructors of the C02 view model (Model/View.lean) -/
def applyTensorAdaptor (v : View String Nat) (tok : String) : Option (View String Nat) :=
  match tok.splitOn ":" with
  | ["range", spec] => (parseNamedRanges spec).bind fun rs => mkRange v rs
  | ["mask", spec] => (parseNamedRanges spec).bind fun ms => mkMask v ms
  | ["rename", spec] => mkRename v (splitComma spec)
  | ["reverse", spec] => mkReverse v (splitComma spec)
  | ["access", spec] => mkAccess v (splitComma spec)
  | ["transpose", spec] => mkTranspose v (splitComma spec)
  | _ => none

/-- ids of leaf `j` are `j * leafStride + offset` (leaf 0: the plain offset) -/
def leafStride : Nat := 100000

/-- the view as an iterator source; a cell `(leaf, offset)` is shown as its id -/
def viewSource (v : View String Nat) : TSource Nat :=
  let src := TSource.ofView v
  { shape := src.shape, cell := fun idx => (src.cell idx).map fun c => c.1 * leafStride + c.2 }

/-- all ids of the leaves of a view, leaf by leaf -/
def viewLeafIds (v : View String Nat) : List Nat :=
  v.leaves.flatMap fun (id, data) => (List.range data.length).map fun o => id * leafStride + o

/-- leaf `j` of the given shape, then the `pre:` adaptors -/
def zipSource (j : Nat) (shape : List (String × Nat)) (pre : List String) : Option (View String Nat) :=
  pre.foldl (fun acc tok => acc.bind fun v => applyTensorAdaptor v tok)
    (mkTensor j shape (List.range (elements shape)))

/-- the tokens carrying a prefix (stripped), and the others -/
def splitPrefixed (pre : String) (toks : List String) : List String × List String :=
  (toks.filterMap fun t => if t.startsWith pre then some (t.drop pre.length).toString else none,
   toks.filter fun t => !t.startsWith pre)

/-- `prep:<op>` on a tensor leaf: `cap:<k>` (spare capacity: not visible), `reshape_mut:<n>/<l>,…`,
    `transpose_mut:<names>`, `reorder_mut:<names>`; `none` = the operation panics -/
def applyTensorPrep (t : Tensor String Nat) (tok : String) : Option (Tensor String Nat) :=
  let ok (o : Outcome (Tensor String Nat)) : Option (Tensor String Nat) :=
    match o with
    | .ok r => some r
    | .panic _ => none
  match tok.splitOn ":" with
  | ["cap", _] => some t
  | ["reshape_mut", spec] => (parseShape (spec.replace "/" ":")).bind fun sh => ok (t.reshapeMut sh)
  | ["transpose_mut", spec] => ok (t.transposeMut (splitComma spec))
  | ["reorder_mut", spec] => ok (t.reorderMut (splitComma spec))
  | _ => none

/-- `prep:<op>` on a matrix leaf; inserted cells get the ids 50000, 50001, … -/
def applyMatrixPrep (m : Matrix Nat) (tok : String) : Option (Matrix Nat) :=
  let ok (r : Matrix.Res Nat) : Option (Matrix Nat) :=
    match r.panic with
    | none => some r.state
    | some _ => none
  match tok.splitOn ":" with
  | ["cap", _] => some m
  | ["remove_row", a] => a.toNat?.bind fun a => ok (m.removeRow a)
  | ["remove_column", a] => a.toNat?.bind fun a => ok (m.removeColumn a)
  | ["insert_row", a] =>
    a.toNat?.bind fun a => ok (m.insertRowWith a ((List.range m.columns).map (50000 + ·)))
  | ["insert_column", a] =>
    a.toNat?.bind fun a => ok (m.insertColumnWith a ((List.range m.rows).map (50000 + ·)))
  | ["transpose_mut"] => ok m.transposeMut
  | _ => none

/-- split the adaptor tokens of a `@ stack` / `@ chain` header into `pre:` ones and the rest -/
def splitPre (toks : List String) : List String × List String :=
  (toks.filterMap fun t => if t.startsWith "pre:" then some (t.drop 4).toString else none,
   toks.filter fun t => !t.startsWith "pre:")

def finishTensor (mem : Nat → Option Nat) (root : Option (View String Nat)) (post : List String) :
    State × String :=
  match post.foldl (fun acc tok => acc.bind fun v => applyTensorAdaptor v tok) root with
  | none => (.none, "reject")
  | some v =>
    (.tensor (v.shape.map (·.1)) (viewSource v) (viewLeafIds v) mem,
      s!"ok shape={showShape v.shape}")

def applyMatrixAdaptor (src : MSource Nat) (tok : String) : Option (MSource Nat) :=
  match tok.splitOn ":" with
  | ["range", spec] =>
    match (parseDotted spec).mapM String.toNat? with
    | some [rs, rl, cs, cl] => some (src.range rs rl cs cl)
    | _ => none
  | ["reverse", spec] => some (src.reverse (spec.contains 'r') (spec.contains 'c'))
  | _ => none

/-- one adaptor over a plain tensor, as names and iterator source (used by Driver/C10.lean) -/
def applyTensorAdaptorT (t : Tensor String Nat) (tok : String) :
    Option (List String × TSource Nat) :=
  (applyTensorAdaptor (.tensor 0 t) tok).map fun v => (v.shape.map (·.1), viewSource v)

/-! ### operations -/

def natArg (key : String) (toks : List String) (dflt : Nat) : Nat :=
  ((optArg key toks).bind String.toNat?).getD dflt

def shapeIterAnswer (lens : List Nat) (n : Nat) (cloneAt : Option Nat) : String :=
  -- bare ShapeIterator: the item is the index itself
  let rec modelRecs : Nat → Iter.ShapeIter → Iter.ShapeIter → List String
    | 0, _, _ => []
    | k + 1, it, itL =>
      let h := showHint it.sizeHint
      let r := it.next
      let rL := itL.nextLoop
      let agree := if r.1 == rL.1 && r.2 == rL.2 then "" else "!LOOP-MODEL-DISAGREE"
      s!"{h}:{(r.1.map showIdx).getD "-"}{agree}" :: modelRecs k r.2 rL.2
  -- a product beyond usize cannot be reported as a length: the specification only speaks
  -- about shapes whose element count fits (see Props/C09 `shapeIter_len`)
  let total := prod lens
  let specRecs := (List.range n).map fun k =>
    let rem := Spec.remaining total k
    s!"{rem}/{rem}/{rem}:{((Spec.shapeItem lens k).map showIdx).getD "-"}"
  -- `clone=<k>`: the iterator is a value; after `k` calls the copy and the original both go on
  -- from item `k`
  let arrange (recs : List String) : String :=
    match cloneAt with
    | none => ";".intercalate recs
    | some k =>
      let rest := ";".intercalate (recs.drop k)
      s!"{";".intercalate (recs.take k)} | clone:{rest} | original:{rest}"
  let model := arrange (modelRecs n (Iter.ShapeIter.new lens) (Iter.ShapeIter.new lens))
  if total ≤ usizeMax then both (arrange specRecs) model
  else s!"unrepresentable-length ## {model}"

def matrixAnswer (op0 : String) (src : MSource Nat) (leafIds : List Nat) (m0 : Mem)
    (toks : List String) : String :=
  let op := if op0 = "consume" then
      s!"consume {(optArg "m" toks).getD "count"} {((optArg "after" toks).bind String.toNat?).getD 0}"
    else op0
  let kind := (optArg "k" toks).getD "rowmajor"
  let a := natArg "a" toks 0
  let n := natArg "n" toks 0
  let wi := (optArg "wi" toks) == some "1"
  let conv := (optArg "conv" toks).bind String.toNat?
  let split := if conv.isSome then conv else (optArg "split" toks).bind String.toNat?
  let op := if conv.isSome && op = "iter" then "iter-conv" else op
  match parseFlavour ((optArg "f" toks).getD (if op = "left" then "owned" else "copy")) with
  | none => "bad-op"
  | some f =>
    let counterM (it : MatIter) : Nat × Nat := (it.rowCounter, it.columnCounter)
    let counterL (it : LineIter) : Nat × Nat := it.line.position it.range.start
    match kind with
    | "rowmajor" =>
      answer op f wi split n leafIds (src.rows * src.columns) rowMajorNext rowMajorSizeHint counterM
        src.cell (Spec.rowMajorItem src.rows src.columns) showPos m0 (MatIter.new src.rows src.columns)
    | "colmajor" =>
      answer op f wi split n leafIds (src.rows * src.columns) colMajorNext colMajorSizeHint counterM
        src.cell (Spec.colMajorItem src.rows src.columns) showPos m0 (MatIter.new src.rows src.columns)
    | "row" =>
      match LineIter.newRow src.rows src.columns a with
      | .panic k => s!"panic({k})"
      | .ok it =>
        answer op f false none n leafIds src.columns lineNext (fun it => .ok it.sizeHint) counterL
          src.cell (Spec.rowItem src.columns a) showPos m0 it
    | "col" =>
      match LineIter.newColumn src.rows src.columns a with
      | .panic k => s!"panic({k})"
      | .ok it =>
        answer op f false none n leafIds src.rows lineNext (fun it => .ok it.sizeHint) counterL
          src.cell (Spec.columnItem src.rows a) showPos m0 it
    | "diag" =>
      answer op f false none n leafIds (min src.rows src.columns) lineNext (fun it => .ok it.sizeHint)
        counterL src.cell (Spec.diagonalItem src.rows src.columns) showPos m0
        (LineIter.newDiagonal src.rows src.columns)
    | _ => "bad-op"

def tensorAnswer (op0 : String) (src : TSource Nat) (leafIds : List Nat) (m0 : Mem)
    (toks : List String) : String :=
  let op := if op0 = "consume" then
      s!"consume {(optArg "m" toks).getD "count"} {((optArg "after" toks).bind String.toNat?).getD 0}"
    else op0
  let n := natArg "n" toks 0
  let wi := (optArg "wi" toks) == some "1"
  let conv := (optArg "conv" toks).bind String.toNat?
  let split := if conv.isSome then conv else (optArg "split" toks).bind String.toNat?
  let op := if conv.isSome && op = "iter" then "iter-conv" else op
  match parseFlavour ((optArg "f" toks).getD (if op = "left" then "owned" else "copy")) with
  | none => "bad-op"
  | some f =>
    answer op f wi split n leafIds (prod src.shape) shapeNext (fun it => it.sizeHint) (·.indexes)
      src.cell (Spec.shapeItem src.shape) showIdx m0 (Iter.ShapeIter.new src.shape)

/-- `probe m=<getter>`: every index of the view through a getter, then (checked getters, D > 0)
    an index just outside the shape -/
def probeAnswer (src : TSource Nat) (toks : List String) : String :=
  let m := (optArg "m" toks).getD "checked"
  let total := prod src.shape
  let cells := (List.range total).map fun k =>
    match src.cell (Spec.unravel src.shape k) with
    | some c => toString c
    | none => "UB"
  let out := "cells=" ++ (if cells.isEmpty then "-" else ",".intercalate cells)
  if m.startsWith "checked" && !src.shape.isEmpty then out ++ " outside=-" else out

def step (s : State) (toks : List String) : State × String :=
  -- `d=<mode>` on a case header: the data stored in the leaves
  let mode := (optArg "d" toks).getD "ids"
  let toks := if toks.head? = some "@" then toks.filter (fun t => !t.startsWith "d=") else toks
  match toks with
  | ["@", "shape", lensS] =>
    match parseNatList lensS with
    | some lens => (.shape lens, "ok")
    | none => (.none, "bad-op")
  | "@" :: "tensor" :: shapeS :: adaptors =>
    match parseShape shapeS with
    | none => (.none, "bad-op")
    | some shape =>
      let n := elements shape
      let (preps, adaptors) := splitPrefixed "prep:" adaptors
      -- the producers that ran on the container before it is iterated (Model/Transform.lean)
      let leaf : Option (Tensor String Nat) :=
        preps.foldl (fun acc p => acc.bind fun t => applyTensorPrep t p)
          (Tensor.tryFrom shape (List.range n))
      match leaf with
      | none => (.none, "reject")
      | some t =>
        let mem : Nat → Option Nat := fun c => (t.data[c]?).map (valOf mode)
        finishTensor mem (some (.tensor 0 t)) adaptors
  | "@" :: "stack" :: alongS :: _form :: countS :: shapeS :: rest =>
    match alongS.splitOn ".", countS.toNat?, parseShape shapeS with
    | [posS, name], some count, some shape =>
      match posS.toNat? with
      | none => (.none, "bad-op")
      | some pos =>
        let (pre, post) := splitPre rest
        match (List.range count).mapM fun j => zipSource j shape pre with
        | none => (.none, "reject")
        | some srcs => finishTensor (memOf mode) (mkStack srcs (pos, name)) post
    | _, _, _ => (.none, "bad-op")
  | "@" :: "chain" :: name :: _form :: shapesS :: rest =>
    match (shapesS.splitOn "|").mapM parseShape with
    | none => (.none, "bad-op")
    | some shapes =>
      let (pre, post) := splitPre rest
      -- `pre:rename` changes the name of the chained dimension along with the others
      match (List.zip (List.range shapes.length) shapes).mapM fun (j, shape) => zipSource j shape pre with
      | none => (.none, "reject")
      | some srcs => finishTensor (memOf mode) (mkChain srcs name) post
  | "@" :: "matrix" :: rowsS :: colsS :: adaptors =>
    match rowsS.toNat?, colsS.toNat? with
    | some rows, some cols =>
      let (preps, adaptors) := splitPrefixed "prep:" adaptors
      -- the producers that ran on the matrix before it is iterated (Model/MatrixResize.lean)
      let leaf : Option (Matrix Nat) :=
        preps.foldl (fun acc p => acc.bind fun m => applyMatrixPrep m p)
          (some ⟨List.range (rows * cols), rows, cols⟩)
      match leaf with
      | none => (.none, "reject")
      | some m =>
        let start : Option (MSource Nat) := some (MSource.ofMatrix m.rows m.columns)
        let mem : Nat → Option Nat := fun c => (m.data[c]?).map (valOf mode)
        match adaptors.foldl (fun acc tok => acc.bind fun src => applyMatrixAdaptor src tok) start with
        | none => (.none, "bad-op")
        | some src =>
          (.matrix src (List.range m.data.length) mem, s!"ok size={src.rows}x{src.columns}")
    | _, _ => (.none, "bad-op")
  | op :: rest =>
    if op = "probe" then
      match s with
      | .tensor _ src _ _ => (s, probeAnswer src rest)
      | _ => (s, "no-source")
    else if op = "iter" || op = "left" || op = "consume" then
      match s with
      | .none => (s, "no-source")
      | .shape lens =>
        (s, shapeIterAnswer lens (natArg "n" rest 0) ((optArg "clone" rest).bind String.toNat?))
      | .tensor _ src leafIds mem => (s, tensorAnswer op src leafIds mem rest)
      | .matrix src leafIds mem => (s, matrixAnswer op src leafIds mem rest)
    else (s, "bad-op")
  | _ => (s, "bad-op")

end Driver.C09
