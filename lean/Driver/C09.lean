/-
  Driver.C09 — line protocol front end for property C09 (stub: not built yet).
-/
import Driver.Parse

namespace Driver.C09

abbrev State := Unit

def init : State := ()

def step (s : State) (_toks : List String) : State × String := (s, "unimplemented")

end Driver.C09
