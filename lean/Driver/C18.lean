/-
  Driver.C18 — C18 has no model-vs-code line protocol of its own (floats are never compared with
  a model); the one family of its workload that *is* tied to a model is the text of `Display`
  for integer tensors:

    @ fmtint <shape> <base> <plain|prec|access:<names>>
        the tensor holds base, -(base+1), base+2, … in row-major order; `prec` formats with
        `{:.3}` (integers ignore the precision); `access:<names>` formats `index_by(names)`
        → the full text, newlines written as `\n`

  Every other line is answered `n/a` (props/c18_extra.py only sends the `fmtint` lines).
-/
import EasyMl.Model.Display
import Driver.Parse

namespace Driver.C18
open EasyMl Driver

abbrev State := Unit

def init : State := ()

def esc (s : String) : String := (s.replace "\\" "\\\\").replace "\n" "\\n"

def step (s : State) (toks : List String) : State × String :=
  match toks with
  | ["@", "fmtint", sh, base, mode] =>
    match parseShape sh, base.toInt? with
    | some shape, some b =>
      let n := elements shape
      let data : List Int := (List.range n).map fun (i : Nat) =>
        if i % 2 == 1 then -(b + Int.ofNat i) else b + Int.ofNat i
      match Tensor.tryFrom shape data with
      | none => (s, "rejected")
      | some t =>
        let text := match mode.splitOn ":" with
          | ["access", names] => Display.formatAccess t (parseNames names)
          | _ => Display.formatTensor t
        (s, match text with
          | some x => esc x
          | none => "panic")
    | _, _ => (s, "bad-op")
  | _ => (s, "n/a")

end Driver.C18
