/-
  Driver.Fast — array-backed evaluation of the C04 line protocol for LARGE cases (tapes of tens of
  thousands of entries), where the list-based model of EasyMl/Model/Tape.lean — the one the
  theorems are about — is quadratic (`t ++ [op]`, `List.set`, `getD`).

  This is a re-implementation for speed, not a second model: it computes the same functions
    `Instr.val`, `Instr.tan`, `Instr.dep`   (Spec/Prog.lean)
    `Instr.exec` on one tape                 (Model/TapeExec.lean, through the two operator shapes
                                             `Rec.unary` / `Rec.binary` and the `Sum` loop that
                                             Lemmas/TapeProg.lean proves every operator to have)
    `reverseSweep`                           (Model/Tape.lean)
  on `Array`s.  Its agreement with the list-based definitions is **tested, not proved**: on every
  ordinary (small) case the C04 driver runs both and compares every value, record, appended tape
  entry count, gradient and derivative vector (`MODEL-SPEC-DISAGREE fast` otherwise, a machinery
  error).  Cases opened with `@ tape fp big` are answered by this file alone.

  Core Lean / Std only.
-/
import Driver.Prog
import Std.Data.HashMap

namespace Driver.Fast
open EasyMl EasyMl.Spec Driver

structure FState (R : Type) where
  prog : Array (Instr R) := #[]
  envL : List (Nat × R) := []
  vs : Array R := #[]
  deps : Array Bool := #[]
  recs : Array (Rec R) := #[]
  /-- the one tape of a C04 case (id 0) -/
  tape : Array (Op R) := #[]
  names : Std.HashMap String Nat := {}

section
variable {R : Type} [Elem R]

def gv (vs : Array R) (a : Nat) : R := vs.getD a 0

/-- `Instr.val` on arrays -/
def fval (env : Nat → R) (vs : Array R) : Instr R → R
  | .const c => c
  | .var => env vs.size
  | .arith o a b => o.app (gv vs a) (gv vs b)
  | .arithNum o a c => o.app (gv vs a) c
  | .swapped o c a => o.toArith.app c (gv vs a)
  | .neg a => -(gv vs a)
  | .sum as => sumList (as.map (gv vs))
  | .real f a => f.app (gv vs a)
  | .pow a b => RealFns.pow (gv vs a) (gv vs b)
  | .powNum a c => RealFns.pow (gv vs a) c
  | .numPow c a => RealFns.pow c (gv vs a)
  | .unary f _ a => f (gv vs a)
  | .binary f _ _ a b => f (gv vs a) (gv vs b)

/-- `Instr.tan` on arrays -/
def ftan (seed : Nat → R) (vs ts : Array R) : Instr R → R
  | .const _ => 0
  | .var => seed vs.size
  | .arith o a b => o.tan (gv vs a) (gv ts a) (gv vs b) (gv ts b)
  | .arithNum o a c => o.tan (gv vs a) (gv ts a) c 0
  | .swapped o c a => o.toArith.tan c 0 (gv vs a) (gv ts a)
  | .neg a => -(gv ts a)
  | .sum as => sumList (as.map (gv ts))
  | .real f a => f.deriv (gv vs a) * gv ts a
  | .pow a b => powDx (gv vs a) (gv vs b) * gv ts a + powDy (gv vs a) (gv vs b) * gv ts b
  | .powNum a c => powDx (gv vs a) c * gv ts a
  | .numPow c a => powDy c (gv vs a) * gv ts a
  | .unary _ df a => df (gv vs a) * gv ts a
  | .binary _ dfx dfy a b =>
    dfx (gv vs a) (gv vs b) * gv ts a + dfy (gv vs a) (gv vs b) * gv ts b

def fdep (ds : Array Bool) (ins : Instr R) : Bool :=
  ins.isVar || ins.operands.any (ds.getD · false)

def gr (recs : Array (Rec R)) (a : Nat) : Rec R := recs.getD a (Rec.constant 0)

/-- `Rec.unary` on an array tape -/
def fUnary (tape : Array (Op R)) (a : Rec R) (F D : R → R) : Array (Op R) × Rec R :=
  match a.history with
  | none => (tape, Rec.constant (F a.number))
  | some h => (tape.push ⟨a.index, tape.size, D a.number, 0⟩, ⟨F a.number, some h, tape.size⟩)

/-- `Rec.binary` on an array tape (all records of a C04 case are on the one tape, the
    `same_list` test is kept) -/
def fBinary (tape : Array (Op R)) (a b : Rec R) (F DX DY : R → R → R) :
    Array (Op R) × Outcome (Rec R) :=
  if !Rec.sameList a b then (tape, .panic .explicit) else
  let n := F a.number b.number
  match a.history, b.history with
  | none, none => (tape, .ok (Rec.constant n))
  | some h, none =>
    (tape.push ⟨a.index, tape.size, DX a.number b.number, 0⟩, .ok ⟨n, some h, tape.size⟩)
  | none, some h =>
    (tape.push ⟨b.index, tape.size, DY a.number b.number, 0⟩, .ok ⟨n, some h, tape.size⟩)
  | some h, some _ =>
    (tape.push ⟨a.index, b.index, DX a.number b.number, DY a.number b.number⟩,
      .ok ⟨n, some h, tape.size⟩)

/-- the loop of `Sum for Record` on an array tape -/
def fSum (tape : Array (Op R)) (items : List (Rec R)) : Array (Op R) × Outcome (Rec R) :=
  let rec go : List (Rec R) → Rec R → Array (Op R) → Array (Op R) × Outcome (Rec R)
    | [], total, tape => (tape, .ok total)
    | next :: rest, total, tape =>
      let n := total.number + next.number
      match total.history, next.history with
      | none, none => go rest (Rec.constant n) tape
      | some h, none => go rest ⟨n, some h, tape.size⟩ (tape.push ⟨total.index, tape.size, 1, 0⟩)
      | none, some h => go rest ⟨n, some h, tape.size⟩ (tape.push ⟨next.index, tape.size, 1, 0⟩)
      | some h, some _ =>
        if !Rec.sameList total next then (tape, .panic .explicit)
        else go rest ⟨n, some h, tape.size⟩ (tape.push ⟨total.index, next.index, 1, 1⟩)
  go items (Rec.constant 0) tape

open Fn in
/-- `Instr.exec 0` on an array tape: every operator through its shape
    (`Rec.addNum_eq … Rec.pow_eq` of Lemmas/TapeProg.lean) -/
def fexec (env : Nat → R) (recs : Array (Rec R)) (tape : Array (Op R)) :
    Instr R → Array (Op R) × Outcome (Rec R)
  | .const c => (tape, .ok (Rec.constant c))
  | .var => (tape.push ⟨tape.size, tape.size, 0, 0⟩, .ok ⟨env recs.size, some 0, tape.size⟩)
  | .arith .add a b => fBinary tape (gr recs a) (gr recs b) Addition.function Addition.dx Addition.dy
  | .arith .sub a b =>
    fBinary tape (gr recs a) (gr recs b) Subtraction.function Subtraction.dx Subtraction.dy
  | .arith .mul a b =>
    fBinary tape (gr recs a) (gr recs b) Multiplication.function Multiplication.dx Multiplication.dy
  | .arith .div a b => fBinary tape (gr recs a) (gr recs b) Division.function Division.dx Division.dy
  | .arithNum .add a c => ok (fUnary tape (gr recs a) (Addition.function · c) (Addition.dx · c))
  | .arithNum .sub a c => ok (fUnary tape (gr recs a) (Subtraction.function · c) (Subtraction.dx · c))
  | .arithNum .mul a c =>
    ok (fUnary tape (gr recs a) (Multiplication.function · c) (Multiplication.dx · c))
  | .arithNum .div a c => ok (fUnary tape (gr recs a) (Division.function · c) (Division.dx · c))
  | .swapped .sub c a => ok (fUnary tape (gr recs a) (Subtraction.function c) (Subtraction.dy c))
  | .swapped .div c a => ok (fUnary tape (gr recs a) (Division.function c) (Division.dy c))
  | .neg a =>
    -- a constant is negated directly, a variable is `0 - x`
    match (gr recs a).history with
    | none => (tape, .ok (Rec.constant (-(gr recs a).number)))
    | some _ => ok (fUnary tape (gr recs a) (Subtraction.function 0) (Subtraction.dy 0))
  | .sum as => fSum tape (as.map (gr recs))
  | .real .sin a => ok (fUnary tape (gr recs a) Sine.function Sine.dx)
  | .real .cos a => ok (fUnary tape (gr recs a) Cosine.function Cosine.dx)
  | .real .exp a => ok (fUnary tape (gr recs a) Exponential.function Exponential.dx)
  | .real .ln a => ok (fUnary tape (gr recs a) NaturalLogarithm.function NaturalLogarithm.dx)
  | .real .sqrt a => ok (fUnary tape (gr recs a) SquareRoot.function SquareRoot.dx)
  | .pow a b => fBinary tape (gr recs a) (gr recs b) Power.function Power.dx Power.dy
  | .powNum a c => ok (fUnary tape (gr recs a) (Power.function · c) (Power.dx · c))
  | .numPow c a => ok (fUnary tape (gr recs a) (Power.function c) (Power.dy c))
  | .unary f df a => ok (fUnary tape (gr recs a) f df)
  | .binary f dfx dfy a b => fBinary tape (gr recs a) (gr recs b) f dfx dfy
where
  ok (x : Array (Op R) × Rec R) : Array (Op R) × Outcome (Rec R) := (x.1, .ok x.2)

/-- `reverseSweep` on arrays: the same loop, the same bounds checks -/
def fsweep (tape : Array (Op R)) (index : Nat) : Outcome (Array R) := Id.run do
  let n := tape.size
  if index ≥ n then return .panic .index
  let mut d : Array R := (Array.replicate n (0 : R)).set! index 1
  for k in [0:n] do
    let i := n - 1 - k
    let op := tape.getD i ⟨0, 0, 0, 0⟩
    let derivative := d.getD i 0
    -- a parent that is the entry itself is skipped (F-19)
    if op.leftParent ≠ i then
      if op.leftParent ≥ n then return .panic .index
      d := d.set! op.leftParent (d.getD op.leftParent 0 + derivative * op.leftDerivative)
    if op.rightParent ≠ i then
      if op.rightParent ≥ n then return .panic .index
      d := d.set! op.rightParent (d.getD op.rightParent 0 + derivative * op.rightDerivative)
  return .ok d

/-- `Prog.grad env prog i` on arrays: one forward pass -/
def fgrad (env : Nat → R) (prog : Array (Instr R)) (i : Nat) : Array R := Id.run do
  let mut vs : Array R := Array.mkEmpty prog.size
  let mut ts : Array R := Array.mkEmpty prog.size
  for ins in prog do
    let v := fval env vs ins
    let t := ftan (unitSeed i) vs ts ins
    vs := vs.push v
    ts := ts.push t
  return ts

def fvars (prog : Array (Instr R)) : List Nat :=
  (List.range prog.size).filter fun j => (prog.getD j (.const 0)).isVar

def renderArr (l : Array R) : String :=
  if l.isEmpty then "-" else ",".intercalate (l.toList.map Elem.render)

/-- one instruction; answer in the format of `Driver.C04.stepInstr` -/
def stepInstr (s : FState R) (name : String) (ins : Instr R) (x : Option R) : FState R × String :=
  let pos := s.vs.size
  let envL := match x with
    | some x => (pos, x) :: s.envL
    | none => s.envL
  let env := envOf envL
  let v := fval env s.vs ins
  let dep := fdep s.deps ins
  let (tape', out) := fexec env s.recs s.tape ins
  match out with
  | .ok r =>
    let agree := r.number == v && r.isConstant == !dep
    ({ prog := s.prog.push ins, envL := envL, vs := s.vs.push v, deps := s.deps.push dep,
       recs := s.recs.push r, tape := tape', names := s.names.insert name pos },
     (if agree then "" else "MODEL-SPEC-DISAGREE ") ++
       s!"v={Elem.render v} const={if dep then 0 else 1} ## idx={r.index}")
  | .panic k => ({ s with tape := tape' }, s!"MODEL-SPEC-DISAGREE panic({k})")

/-- gradient from the specification and derivative vector from the sweep, as
    `Driver.C04.stepDerivs` prints them -/
def derivsParts (s : FState R) (k : Nat) : Option (List R × Outcome (Array R)) :=
  if !(s.deps.getD k false) then none
  else
    let env := envOf s.envL
    let g := (fvars s.prog).map fun i => (fgrad env s.prog i).getD k 0
    some (g, fsweep s.tape (gr s.recs k).index)

def stepDerivs (s : FState R) (k : Nat) (try_ : Bool) : String :=
  match derivsParts s k with
  | none => if try_ then "none" else "panic(explicit)"
  | some (g, .ok full) =>
    let mine := (fvars s.prog).map fun i => full.getD (gr s.recs i).index 0
    (if beqList mine g then "" else "MODEL-SPEC-DISAGREE ") ++
      s!"{if try_ then "some " else ""}d={renderList g} ## full={renderArr full}"
  | some (_, .panic kind) => s!"MODEL-SPEC-DISAGREE panic({kind})"

def step (s : FState R) (toks : List String) : FState R × String :=
  let find := fun (n : String) => s.names.get? n
  match toks with
  | ["derivs", r] | ["derivs", r, _] =>
    match find r with
    | some k => (s, stepDerivs s k false)
    | none => (s, "bad-ref")
  | ["tryderivs", r] | ["tryderivs", r, _] =>
    match find r with
    | some k => (s, stepDerivs s k true)
    | none => (s, "bad-ref")
  | _ :: name :: _ =>
    match parseInstrWith (R := R) find toks with
    | some (ins, x) => stepInstr s name ins x
    | none => (s, if knownOp toks then "bad-ref" else "bad-op")
  | _ => (s, "bad-op")

end

end Driver.Fast
