/-
  Driver.Fast — the C04 line protocol for LARGE cases (tapes of tens of thousands of entries),
  answered with the array-backed functions of EasyMl/Model/TapeFast.lean, because the list-based
  model of EasyMl/Model/Tape.lean is quadratic (`t ++ [op]`, `List.set`, `getD`).

  Those functions are proved to be the list-based ones (`C04.fast_path_agrees`,
  Lemmas/TapeFast.lean: `fval/ftan/fdep`, `fgrad`, `freverseSweep`, `fexec`); what remains
  unproved here is the same glue every driver has (name table, state threading, rendering).  In
  addition the C04 driver runs both evaluations on every ordinary (small) case and compares every
  answer line and the number of tape entries and records (`MODEL-SPEC-DISAGREE fast=…`).  Cases
  opened with `@ tape fp big` are answered by this file alone.

  Core Lean / Std only.
-/
import Driver.Prog
import EasyMl.Model.TapeFast
import Std.Data.HashMap

namespace Driver.Fast
open EasyMl EasyMl.Spec EasyMl.Fast Driver

structure FState (R : Type) where
  prog : Array (Instr R) := #[]
  envL : List (Nat × R) := []
  vs : Array R := #[]
  deps : Array Bool := #[]
  recs : Array (Rec R) := #[]
  /-- the one tape of a C04 case (id 0) -/
  tape : Array (Op R) := #[]
  names : Std.HashMap String Nat := {}

section
variable {R : Type} [Elem R]

def fvars (prog : Array (Instr R)) : List Nat :=
  (List.range prog.size).filter fun j => (prog.getD j (.const 0)).isVar

def renderArr (l : Array R) : String :=
  if l.isEmpty then "-" else ",".intercalate (l.toList.map Elem.render)

/-- one instruction; answer in the format of `Driver.C04.stepInstr` -/
def stepInstr (s : FState R) (name : String) (ins : Instr R) (x : Option R) : FState R × String :=
  let pos := s.vs.size
  let envL := match x with
    | some x => (pos, x) :: s.envL
    | none => s.envL
  let env := envOf envL
  let v := fval env s.vs ins
  let dep := fdep s.deps ins
  let (tape', out) := fexec env s.recs s.tape ins
  match out with
  | .ok r =>
    let agree := r.number == v && r.isConstant == !dep
    ({ prog := s.prog.push ins, envL := envL, vs := s.vs.push v, deps := s.deps.push dep,
       recs := s.recs.push r, tape := tape', names := s.names.insert name pos },
     (if agree then "" else "MODEL-SPEC-DISAGREE ") ++
       s!"v={Elem.render v} const={if dep then 0 else 1} ## idx={r.index}")
  | .panic k => ({ s with tape := tape' }, s!"MODEL-SPEC-DISAGREE panic({k})")

/-- gradient from the specification and derivative vector from the sweep, as
    `Driver.C04.stepDerivs` prints them -/
def derivsParts (s : FState R) (k : Nat) : Option (List R × Outcome (Array R)) :=
  if !(s.deps.getD k false) then none
  else
    let env := envOf s.envL
    let g := (fvars s.prog).map fun i => (fgrad env s.prog i).getD k 0
    some (g, freverseSweep s.tape (gr s.recs k).index)

def stepDerivs (s : FState R) (k : Nat) (try_ : Bool) : String :=
  match derivsParts s k with
  | none => if try_ then "none" else "panic(explicit)"
  | some (g, .ok full) =>
    let mine := (fvars s.prog).map fun i => full.getD (gr s.recs i).index 0
    (if beqList mine g then "" else "MODEL-SPEC-DISAGREE ") ++
      s!"{if try_ then "some " else ""}d={renderList g} ## full={renderArr full}"
  | some (_, .panic kind) => s!"MODEL-SPEC-DISAGREE panic({kind})"

def step (s : FState R) (toks : List String) : FState R × String :=
  let find := fun (n : String) => s.names.get? n
  match toks with
  | ["derivs", r] | ["derivs", r, _] =>
    match find r with
    | some k => (s, stepDerivs s k false)
    | none => (s, "bad-ref")
  | ["tryderivs", r] | ["tryderivs", r, _] =>
    match find r with
    | some k => (s, stepDerivs s k true)
    | none => (s, "bad-ref")
  | _ :: name :: _ =>
    match parseInstrWith (R := R) find toks with
    | some (ins, x) => stepInstr s name ins x
    | none => (s, if knownOp toks then "bad-ref" else "bad-op")
  | _ => (s, "bad-op")

end

end Driver.Fast
