/-
  Driver.C03 — line protocol for tensor and matrix arithmetic.

    @ <fp|rat|i64|f64>                              new case, element type        → ok
                                                    (f64: integer-valued data, answered by the integer model)
    t <name> <shape> <values>                       Tensor::from                  → ok | panic(explicit)
    v <name> <src> access|transpose|reverse|rename <names>
    v <name> <src> range|mask <start:len,…>         view over a tensor/view       → ok shape=<shape> | none
    m <name> <rows> <cols> <values>                 Matrix::from_flat_row_major   → ok | panic(explicit)
    w <name> <src> range <start:len> <start:len>    MatrixRange over a matrix/view → ok size=RxC | none
    w <name> <src> reverse <0|1><0|1>               MatrixReverse
    w <name> <tensor operand> oftensor              MatrixRefTensor over a 2-D tensor / tensor view → ok size=RxC | none
    mmap <A> via=<form>                             Matrix::map / MatrixView::map with x*x-x
    add|sub|mul|ewise <A> <B> via=<form>            operators / elementwise(x*y-y) → shape=… data=… | size=RxC data=… | panic(k)
    sadd|ssub|smul|sdiv <A> <scalar> via=<form>     scalar broadcasts
    k <name> stack <srcs> <pos>:<dim> via=<arity>   TensorStack over tensor operands (C02 View model) → ok shape=… | none
    k <name> chain <srcs> <dim> via=<arity>         TensorChain
    elen <A> via=…                                  euclidean_length of a vector Tensor / Matrix (fp only) → value=… | panic(k)
    fdeg <op> …                                     f64 degenerate-data oracle (harness side only) → agree
    ibv <type> <op> …                               integer boundary-value oracle (harness side only) → agree
    neg <A> via=<form>                              matrices only
    dot <A> <B> via=<form>                          scalar_product (1-D tensors)   → value=… | panic(k)

  `via=` names the owned/borrowed × container/view form the harness uses; the model has one answer.
-/
import EasyMl.Model.Arith
import EasyMl.Model.ArithViews
import Driver.Parse

namespace Driver.C03
open EasyMl EasyMl.Arith Driver

/-- `i64` of the integer runs (values are kept far from overflow by the generator);
    `/` truncates towards zero like Rust's. -/
structure I64 where
  v : Int
  deriving DecidableEq

instance : Add I64 := ⟨fun a b => ⟨a.v + b.v⟩⟩
instance : Sub I64 := ⟨fun a b => ⟨a.v - b.v⟩⟩
instance : Mul I64 := ⟨fun a b => ⟨a.v * b.v⟩⟩
instance : Div I64 := ⟨fun a b => ⟨Int.tdiv a.v b.v⟩⟩
instance : Neg I64 := ⟨fun a => ⟨-a.v⟩⟩
instance : Zero I64 := ⟨⟨0⟩⟩

class Elem (α : Type) where
  parse : String → Option α
  render : α → String

instance : Elem Fp := ⟨fun s => s.toNat?.map Fp.ofNat, fun a => toString a.val⟩
instance : Elem I64 := ⟨fun s => s.toInt?.map I64.mk, fun a => toString a.v⟩

def parseRat (s : String) : Option Rat :=
  match s.splitOn "/" with
  | [n] => n.toInt?.map fun i => (i : Rat)
  | [n, d] =>
    match n.toInt?, d.toInt? with
    | some i, some j => some ((i : Rat) / (j : Rat))
    | _, _ => none
  | _ => none

instance : Elem Rat := ⟨parseRat, showRat⟩

section Generic
variable {α : Type} [Add α] [Sub α] [Mul α] [Div α] [Neg α] [Zero α] [Elem α]

structure Env (α : Type) where
  tens : List (String × Operand String α) := []
  mats : List (String × MOperand α) := []
  /-- the same tensor operands as C02 `View`s (sources of `TensorStack` / `TensorChain`) -/
  views : List (String × View String α) := []

def parseVals (s : String) : Option (List α) := (splitComma s).mapM Elem.parse

def showVals (l : List α) : String :=
  if l.isEmpty then "-" else ",".intercalate (l.map Elem.render)

def showTensor (o : Outcome (Tensor String α)) : String :=
  showOutcome (fun t => s!"shape={showShape t.shape} data={showVals t.data}") o

def showMatrix (o : Outcome (Matrix α)) : String :=
  showOutcome (fun m => s!"size={m.rows}x{m.columns} data={showVals m.data}") o

def parsePairs (s : String) : Option (List (Nat × Nat)) :=
  (splitComma s).mapM fun part =>
    match part.splitOn ":" with
    | [a, b] => match a.toNat?, b.toNat? with
      | some x, some y => some (x, y)
      | _, _ => none
    | _ => none

def lookupT (e : Env α) (n : String) : Option (Operand String α) := (e.tens.find? (·.1 = n)).map (·.2)
def lookupM (e : Env α) (n : String) : Option (MOperand α) := (e.mats.find? (·.1 = n)).map (·.2)

def binop (name : String) : Option (α → α → α) :=
  match name with
  | "add" => some (· + ·)
  | "sub" => some (· - ·)
  | "ewise" => some (fun x y => x * y - y)
  | "sadd" => some (· + ·)
  | "ssub" => some (· - ·)
  | "smul" => some (· * ·)
  | "sdiv" => some (· / ·)
  | _ => none

def stepEnv (e : Env α) (toks : List String) : Env α × String :=
  match toks with
  | ["t", name, shapeS, valsS] =>
    match parseShape shapeS, (parseVals valsS : Option (List α)) with
    | some shape, some vals =>
      match tensorFrom shape vals with
      | .ok t => ({ e with tens := (name, .tensor t) :: e.tens,
                           views := (name, View.tensor e.views.length t) :: e.views }, "ok")
      | .panic k => (e, s!"panic({k})")
    | _, _ => (e, "bad-op")
  | "k" :: name :: kind :: srcsS :: alongS :: _ =>
    -- TensorStack::from / TensorChain::from over C02 views (tuple arity / array: `via=`)
    match (splitComma srcsS).mapM (fun n => (e.views.find? (·.1 = n)).map (·.2)) with
    | none => (e, "no-operand")
    | some srcs =>
      let w : Option (View String α) :=
        match kind with
        | "stack" =>
          match alongS.splitOn ":" with
          | [p, n] => p.toNat?.bind fun pos => View.mkStack srcs (pos, n)
          | _ => none
        | "chain" => View.mkChain srcs alongS
        | _ => none
      match w with
      | some w =>
        ({ e with tens := (name, .view (TView.ofView w)) :: e.tens, views := (name, w) :: e.views },
          s!"ok shape={showShape w.shape}")
      | none => (e, "none")
  | ["v", name, src, kind, argS] =>
    match lookupT e src with
    | none => (e, "no-operand")
    | some o =>
      let sv := o.asView
      let r : Option (TView String α) :=
        match kind with
        | "access" => sv.access (parseNames argS)
        | "transpose" => sv.transpose (parseNames argS)
        | "reverse" => sv.reverse (parseNames argS)
        | "rename" => sv.rename (parseNames argS)
        | "range" => (parsePairs argS).bind sv.range
        | "mask" => (parsePairs argS).bind sv.mask
        | _ => none
      -- the same adaptor in C02's model, when the source has a `View`
      let w : Option (View String α) :=
        match e.views.find? (·.1 = src) with
        | none => none
        | some (_, sw) =>
          match kind with
          | "access" => View.mkAccess sw (parseNames argS)
          | "transpose" => View.mkTranspose sw (parseNames argS)
          | "reverse" => View.mkReverse sw (parseNames argS)
          | "rename" => View.mkRename sw (parseNames argS)
          | "range" => (parsePairs argS).bind fun rs =>
              View.mkRangeAll sw (rs.map fun (st, len) => some ⟨st, len⟩)
          | "mask" => (parsePairs argS).bind fun ms =>
              View.mkMaskAll sw (ms.map fun (st, len) => some ⟨st, len⟩)
          | _ => none
      match r with
      | some v =>
        ({ e with tens := (name, .view v) :: e.tens,
                  views := match w with
                    | some w => (name, w) :: e.views
                    | none => e.views },
          s!"ok shape={showShape v.shape}")
      | none => (e, "none")
  | ["m", name, rowsS, colsS, valsS] =>
    match rowsS.toNat?, colsS.toNat?, (parseVals valsS : Option (List α)) with
    | some r, some c, some vals =>
      match matrixFromFlat (r, c) vals with
      | .ok m => ({ e with mats := (name, .matrix m) :: e.mats }, "ok")
      | .panic k => (e, s!"panic({k})")
    | _, _, _ => (e, "bad-op")
  | ["w", name, src, "oftensor"] =>
    match lookupT e src with
    | none => (e, "no-operand")
    | some o =>
      match MView.ofTView o.asView with
      | some v => ({ e with mats := (name, .view v) :: e.mats }, s!"ok size={v.rows}x{v.columns}")
      | none => (e, "none")
  | "w" :: name :: src :: kind :: args =>
    match lookupM e src with
    | none => (e, "no-operand")
    | some o =>
      let sv := o.asView
      let r : Option (MView α) :=
        match kind, args with
        | "range", [rs, cs] =>
          match parsePairs rs, parsePairs cs with
          | some [a], some [b] => sv.range a b
          | _, _ => none
        | "reverse", [flags] => some (sv.reverse (flags.startsWith "1") (flags.endsWith "1"))
        | _, _ => none
      match r with
      | some v => ({ e with mats := (name, .view v) :: e.mats }, s!"ok size={v.rows}x{v.columns}")
      | none => (e, "none")
  | op :: a :: b :: _ =>
    if op = "add" ∨ op = "sub" ∨ op = "ewise" then
      match lookupT e a, lookupT e b, (binop op : Option (α → α → α)) with
      | some x, some y, some f => (e, showTensor (elementwise f x y))
      | _, _, _ =>
        match lookupM e a, lookupM e b, (binop op : Option (α → α → α)) with
        | some x, some y, some f => (e, showMatrix (mElementwise f x y))
        | _, _, _ => (e, "no-operand")
    else if op = "mul" then
      match lookupT e a, lookupT e b with
      | some x, some y => (e, showTensor (matMul x.asView y.asView))
      | _, _ =>
        match lookupM e a, lookupM e b with
        | some x, some y => (e, showMatrix (mMatMul x.asView y.asView))
        | _, _ => (e, "no-operand")
    else if op = "dot" then
      match lookupT e a, lookupT e b with
      | some x, some y => (e, showOutcome (fun (x : α) => s!"value={Elem.render x}") (vectorProduct x y))
      | _, _ => (e, "no-operand")
    else if op = "sadd" ∨ op = "ssub" ∨ op = "smul" ∨ op = "sdiv" then
      match (Elem.parse b : Option α), (binop op : Option (α → α → α)) with
      | some s, some f =>
        match lookupT e a with
        | some x => (e, showTensor (scalarOp f x s))
        | none =>
          match lookupM e a with
          | some x => (e, showMatrix (mScalarOp f x s))
          | none => (e, "no-operand")
      | _, _ => (e, "bad-op")
    else if op = "neg" then
      match lookupM e a with
      | some x => (e, showMatrix (mNeg x))
      | none => (e, "no-operand")
    else if op = "mmap" then
      match lookupM e a with
      | some x => (e, showMatrix (mMap (fun v => v * v - v) x))
      | none => (e, "no-operand")
    else (e, "bad-op")
  | ["neg", a] =>
    match lookupM e a with
    | some x => (e, showMatrix (mNeg x))
    | none => (e, "no-operand")
  | _ => (e, "bad-op")

end Generic

inductive State where
  | none
  | fp (e : Env Fp)
  | rat (e : Env Rat)
  | int (e : Env I64)

def init : State := .none

def step (s : State) (toks : List String) : State × String :=
  match toks with
  -- degenerate float data (zeros of both signs, infinities, NaN, subnormals): the harness compares
  -- the tensor API, the matrix API and a direct left fold bit for bit and says `agree`; floats are
  -- never compared with this model (its statement about them is the exact-arithmetic theorems)
  | "fdeg" :: _ => (s, "agree")
  -- integer boundary values (MIN … MAX of i8 / i32 / i64, a saturating user type): the harness
  -- compares every API with the element type's own operator applied cell by cell (value or the
  -- same kind of panic) and says `agree`; the model's integers are unbounded
  | "ibv" :: _ => (s, "agree")
  | ["@", "fp"] => (.fp {}, "ok")
  | ["@", "rat"] => (.rat {}, "ok")
  | ["@", "i64"] => (.int {}, "ok")
  -- f64 runs carry integer-valued data only (exact in binary floating point): the integer model
  | ["@", "f64"] => (.int {}, "ok")
  | _ =>
    match s with
    | .none => (s, "no-case")
    | .fp e =>
      match toks with
      | "elen" :: a :: _ =>
        -- euclidean_length needs `sqrt` (`Real`): prime-field runs only
        match lookupT e a, lookupM e a with
        | some (.tensor t), _ => (s, s!"value={Elem.render (tensorEuclideanLength t)}")
        | _, some (.matrix m) =>
          (s, showOutcome (fun (x : Fp) => s!"value={Elem.render x}") (matrixEuclideanLength m))
        | _, _ => (s, "no-operand")
      | _ => let (e', a) := stepEnv e toks; (.fp e', a)
    | .rat e => let (e', a) := stepEnv e toks; (.rat e', a)
    | .int e => let (e', a) := stepEnv e toks; (.int e', a)

end Driver.C03
