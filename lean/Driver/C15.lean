/-
  Driver.C15 — line protocol front end for property C15 (stub: not built yet).
-/
import Driver.Parse

namespace Driver.C15

abbrev State := Unit

def init : State := ()

def step (s : State) (_toks : List String) : State × String := (s, "unimplemented")

end Driver.C15
