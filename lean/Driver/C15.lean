/-
  Driver.C15 — line protocol for tape clear/reset cycles and cross-tape misuse (scalar records,
  element type Fp, one or two WengertLists).

    @ tapes <n>                       new case with n tapes                              → ok
    var a3 <num> t=<tape>             Record::variable on that tape
    const c4 <num>   and every instruction line of Driver/Prog.lean
                                      → v=<value> const=<0|1> idx=<index>
                                      | panic(explicit)          (operands of two different tapes)
    derivs <r>                        → len=<entries> full=<vector> fresh=ok|skip  | panic(<kind>)
    clear t=<tape>                    WengertList::clear                                 → ok
    reset <r>                         Record::reset / do_reset   → idx=<index> const=<0|1>
    clone <r> <a>                     Clone for Record           → v=… const=… idx=…  (nothing appended)
    cmp <op> <a> <b>                  == != < <= > >= partial_cmp → c=…  (also across tapes: no
                                      same_list test, no panic, nothing appended)
    show <a>                          Display                    → s=<number>
    clonetape src=<tape>              Clone for WengertList: a new tape (id = number of tapes so
                                      far) with a copy of the entries                    → ok
    rehome <r> <a> t=<tape>|none      Record::from_existing((a.number, a.index), list)
                                                                 → v=… const=… idx=…

  `idx` is checked against "the number of entries on the tape before the operation" (the next
  unused position), `len` against the tape length.  `fresh`: beside the tapes of the case the
  driver (like the harness) keeps *shadow* tapes — a brand-new tape for every clear — on which
  the live records are re-created in reset order and every operation is repeated; the derivative
  vector must equal the shadow's.  `skip` when the computation involves a record that was not
  reset after a clear (misuse: the shadow has no counterpart), see `Info`.
-/
import Driver.Prog

namespace Driver.C15
open EasyMl EasyMl.Spec Driver

structure Info where
  /-- epoch (number of clears) of the record's tape when it was created / last reset -/
  epoch : Nat
  /-- the record descends from a record used after a clear without reset -/
  tainted : Bool

structure State where
  ntapes : Nat := 0
  w : World Fp := World.empty
  sw : World Fp := World.empty
  recs : List (Rec Fp) := []
  shadow : List (Rec Fp) := []
  info : List Info := []
  names : Names := []
  epoch : List Nat := []
  tainted : List Bool := []

def init : State := {}

/-- id of the shadow tape of tape `t` in epoch `e` -/
def shadowId (t e : Nat) : Nat := (e + 1) * 16 + t

def State.epochOf (s : State) (t : Nat) : Nat := s.epoch.getD t 0
def State.taintedTape (s : State) (t : Nat) : Bool := s.tainted.getD t false

def State.stale (s : State) (k : Nat) : Bool :=
  match (getRec s.recs k).history with
  | none => false
  | some t => (s.info.getD k ⟨0, false⟩).epoch != s.epochOf t

/-- may slot `k` not be mirrored on the shadow tapes -/
def State.bad (s : State) (k : Nat) : Bool :=
  s.stale k || (s.info.getD k ⟨0, false⟩).tainted ||
    match (getRec s.recs k).history with
    | none => false
    | some t => s.taintedTape t

def State.taint (s : State) (ts : List Nat) : State :=
  { s with tainted := (List.range s.ntapes).map fun t => s.taintedTape t || ts.contains t }

def tapesOf (s : State) (ks : List Nat) : List Nat :=
  (ks.filterMap fun k => (getRec s.recs k).history).eraseDups

def showRec (r : Rec Fp) : String :=
  s!"v={r.number.val} const={if r.isConstant then 1 else 0} idx={r.index}"

def isSum : Instr Fp → Bool
  | .sum _ => true
  | _ => false

def stepInstr (s : State) (name : String) (ins : Instr Fp) (x : Option Fp) (h : Nat) : State × String :=
  let env : Nat → Fp := fun _ => x.getD 0
  let ops := ins.operands
  let opTapes := tapesOf s ops
  let cross := opTapes.length > 1
  let bad := ops.any s.bad || (ins.isVar && s.taintedTape h)
  let lenBefore := fun (w : World Fp) (r : Rec Fp) => match r.history with
    | some t => (w t).length
    | none => 0
  let (w', out) := ins.exec h env s.recs s.w
  match out with
  | .panic k =>
    -- only `Sum` can have appended entries before it panicked
    let s := if isSum ins then s.taint opTapes else s
    ({ s with w := w' }, s!"panic({k})")
  | .ok r =>
    let pos := s.recs.length
    -- the next unused position: tape length before the operation (a sum appends one entry per
    -- term from its first variable on, its result sits in the last one)
    let expectIdx := if isSum ins then lenBefore w' r - 1 else lenBefore s.w r
    let idxOk := r.isConstant || r.index == expectIdx
    let epochR := match r.history with
      | some t => s.epochOf t
      | none => 0
    if cross || bad then
      let s := s.taint (opTapes ++ (if ins.isVar then [h] else []))
      ({ s with w := w', recs := s.recs ++ [r], shadow := s.shadow ++ [Rec.constant 0],
                info := s.info ++ [⟨epochR, true⟩], names := (name, pos) :: s.names },
       C04Flag idxOk (showRec r))
    else
      let (sw', sout) := ins.exec (shadowId h (s.epochOf h)) env s.shadow s.sw
      let sr := match sout with
        | .ok sr => sr
        | .panic _ => Rec.constant 0
      let same := sr.number == r.number && sr.index == r.index && sr.isConstant == r.isConstant
      ({ s with w := w', sw := sw', recs := s.recs ++ [r], shadow := s.shadow ++ [sr],
                info := s.info ++ [⟨epochR, false⟩], names := (name, pos) :: s.names },
       C04Flag (idxOk && same) (showRec r))
where
  C04Flag (ok : Bool) (s : String) : String := if ok then s else s ++ " MODEL-SPEC-DISAGREE"

def stepDerivs (s : State) (k : Nat) : String :=
  let r := getRec s.recs k
  match r.derivatives s.w with
  | .panic kind => s!"panic({kind})"
  | .ok full =>
    let lenOk := match r.history with
      | some t => full.length == (s.w t).length
      | none => false
    let fresh :=
      if s.bad k then "skip"
      else match (getRec s.shadow k).derivatives s.sw with
        | .ok sfull => if beqList sfull full then "ok" else "DIFF MODEL-SPEC-DISAGREE"
        | .panic _ => "DIFF MODEL-SPEC-DISAGREE"
    s!"len={full.length} full={renderList full} fresh={fresh}" ++
      (if lenOk then "" else " MODEL-SPEC-DISAGREE")

def stepReset (s : State) (k : Nat) : State × String :=
  let r := getRec s.recs k
  match r.history with
  | none => (s, s!"idx={r.index} const=1")
  | some t =>
    let lenBefore := (s.w t).length
    let (r', w') := r.reset s.w
    let inf := s.info.getD k ⟨0, false⟩
    let e := s.epochOf t
    let (sr, sw', tainted) :=
      if s.taintedTape t then (Rec.constant 0, s.sw, true)
      else if inf.epoch == e && !inf.tainted then
        let (sr, sw') := (getRec s.shadow k).reset s.sw
        (sr, sw', false)
      else
        let (sr, sw') := Rec.mkVar r.number (shadowId t e) s.sw
        (sr, sw', false)
    let ok := r'.index == lenBefore && (tainted || sr.index == r'.index)
    ({ s with w := w', sw := sw', recs := s.recs.set k r', shadow := s.shadow.set k sr,
              info := s.info.set k ⟨e, tainted⟩ },
     s!"idx={r'.index} const=0" ++ (if ok then "" else " MODEL-SPEC-DISAGREE"))

/-- a new slot whose record is not mirrored on the shadow tapes -/
def State.pushUnmirrored (s : State) (name : String) (r : Rec Fp) : State :=
  let e := match r.history with
    | some t => s.epochOf t
    | none => 0
  { s with recs := s.recs ++ [r], shadow := s.shadow ++ [Rec.constant 0],
           info := s.info ++ [⟨e, true⟩], names := (name, s.recs.length) :: s.names }

def stepClone (s : State) (name : String) (k : Nat) : State × String :=
  let r := (getRec s.recs k).clone
  if s.bad k then
    let s := s.taint (tapesOf s [k])
    (s.pushUnmirrored name r, showRec r)
  else
    let e := match r.history with
      | some t => s.epochOf t
      | none => 0
    ({ s with recs := s.recs ++ [r], shadow := s.shadow ++ [(getRec s.shadow k).clone],
              info := s.info ++ [⟨e, false⟩], names := (name, s.recs.length) :: s.names },
     showRec r)

def step (s : State) (toks : List String) : State × String :=
  match toks with
  | "cmp" :: op :: a :: b :: _ =>
    match s.names.find a, s.names.find b with
    | some a, some b =>
      let (ra, rb) := (getRec s.recs a, getRec s.recs b)
      (s, (cmpAnswer op (ra.eq rb s.w).1 (ra.partialCmp rb s.w).1).getD "bad-op")
    | _, _ => (s, "bad-ref")
  | "show" :: a :: _ =>
    match s.names.find a with
    | some k => (s, s!"s={(getRec s.recs k).display (fun x => toString x.val)}")
    | none => (s, "bad-ref")
  | "debug" :: a :: _ =>
    match s.names.find a with
    | some k => (s, "dbg ## " ++ debugRec s.w (getRec s.recs k))
    | none => (s, "bad-ref")
  | "clone" :: name :: a :: _ =>
    match s.names.find a with
    | some k => stepClone s name k
    | none => (s, "bad-ref")
  | "clonetape" :: rest =>
    match (optArg "src" rest).bind String.toNat? with
    | some src =>
      -- the copy is never mirrored on a shadow tape (until it is cleared)
      ({ s with w := s.w.cloneTape src s.ntapes, ntapes := s.ntapes + 1, epoch := s.epoch ++ [0],
                tainted := s.tainted ++ [true] }, "ok")
    | none => (s, "bad-op")
  | "rehome" :: name :: a :: rest =>
    match s.names.find a with
    | some k =>
      let src := getRec s.recs k
      let hist := (optArg "t" rest).bind String.toNat?
      let r := Rec.fromExisting (src.number, src.index) hist
      (s.pushUnmirrored name r, showRec r)
    | none => (s, "bad-ref")
  | "@" :: "tapes" :: n :: _ =>
    match n.toNat? with
    | some n => ({ ntapes := n, epoch := List.replicate n 0, tainted := List.replicate n false }, "ok")
    | none => (s, "bad-op")
  | "clear" :: rest =>
    match (optArg "t" rest).bind String.toNat? with
    | some t =>
      ({ s with w := s.w.clear t, epoch := s.epoch.set t (s.epochOf t + 1),
                tainted := s.tainted.set t false }, "ok")
    | none => (s, "bad-op")
  | "derivs" :: r :: _ =>
    match s.names.find r with
    | some k => (s, stepDerivs s k)
    | none => (s, "bad-ref")
  | "reset" :: r :: _ =>
    match s.names.find r with
    | some k => stepReset s k
    | none => (s, "bad-ref")
  | _ :: name :: rest =>
    match parseInstr (R := Fp) s.names toks with
    | some (ins, x) =>
      let h := ((optArg "t" rest).bind String.toNat?).getD 0
      stepInstr s name ins x h
    | none => (s, if knownOp toks then "bad-ref" else "bad-op")
  | _ => (s, "bad-op")

end Driver.C15
