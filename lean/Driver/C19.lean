/-
  Driver.C19 — line protocol front end for property C19 (numeric trait contracts).

  Every line is an independent case (starts with `@`):

    @ from_usize <ty> <wrap> <n>            some(<v>) [der=0 | hist=none idx=0] | none
    @ from_usize_range <ty> <wrap> <lo> <hi>  run-length encoding of the answers for lo..=hi
    @ zero_one <ty> <wrap>                  zero=<v> one=<v> […]
    @ op <ty> <wrap> <add|sub|mul|div|neg> <a> <b>   <v> | panic(<kind>)   (all operand forms)
    @ ident <ty> <wrap> <a>                 0+a,a+0,1*a,a*1
    @ fop <f32|f64> <op> <abits> <bbits>    agree       (floats: forms compared with each other only)
    @ fident <f32|f64> <abits>              ident-ok
    @ user …                                see Driver.C19User
    @ trop|trsc|trneg|trpow|recop|recsc|recneg|recpow …   Trace / Record operators, see Driver.C19Wrap

  <ty> is one of the 12 integer types or f32/f64; <wrap> one of plain, wrapping, saturating,
  trace, record, trace_wrapping, record_wrapping, trace_saturating, record_saturating.
  Float values are written as `bits:<decimal of to_bits()>`.
-/
import Driver.Parse
import EasyMl.Model.Numeric
import Driver.C19User
import Driver.C19Wrap
import EasyMl.Model.TraitReq

namespace Driver.C19
open EasyMl EasyMl.Num

abbrev State := Unit

def init : State := ()

inductive Kind where
  | plain | wrapping | saturating
  deriving DecidableEq

/-- outer container of a wrapper name, and the arithmetic of the element inside -/
inductive Outer where
  | none | trace | record
  deriving DecidableEq

def parseWrap (s : String) : Option (Outer × Kind) :=
  match s with
  | "plain" => some (.none, .plain)
  | "wrapping" => some (.none, .wrapping)
  | "saturating" => some (.none, .saturating)
  | "trace" => some (.trace, .plain)
  | "record" => some (.record, .plain)
  | "trace_wrapping" => some (.trace, .wrapping)
  | "record_wrapping" => some (.record, .wrapping)
  | "trace_saturating" => some (.trace, .saturating)
  | "record_saturating" => some (.record, .saturating)
  | _ => none

def showVal (t : IntTy) (v : Val t) : String := toString (toInt t v)

def showOut (t : IntTy) (o : Outcome (Val t)) : String := showOutcome (showVal t) o

/-- `from_usize` through the wrapper stack, as (number, extra text) -/
def fromUsizeVia (t : IntTy) (o : Outer) (k : Kind) (n : BitVec 64) : Option (Val t × String) :=
  let inner : Option (Val t) := match k with
    | .plain => fromUsize t n
    | _ => wrapFromUsize t n
  match o with
  | .none => inner.map fun v => (v, "")
  | .trace =>
    -- Trace::constant(T::from_usize(n)?) with T the (possibly wrapped) element type
    match inner with
    | some v => let tr := Trace.constant (zero t) v; some (tr.number, s!" der={showVal t tr.derivative}")
    | none => none
  | .record =>
    match inner with
    | some v =>
      let r := Record.constant v
      some (r.number, s!" hist={if r.hasHistory then "some" else "none"} idx={r.index}")
    | none => none

/-- `none` = not a float type; `some none` cannot happen (`from_usize_float!` always succeeds) -/
def floatFromUsize (ty : String) (n : Nat) : Option (Option Nat) :=
  if ty = "f32" then some (f32FromUsize n) else if ty = "f64" then some (f64FromUsize n) else none

/-- the driver cross-checks the explicit rounding function against the Lean runtime's own
    conversion (`Float.ofNat` / `Float32.ofNat`); a difference is a machinery error -/
def floatRuntime (ty : String) (n : Nat) : Nat :=
  if ty = "f32" then (Float32.ofNat n).toBits.toNat else (Float.ofNat n).toBits.toNat

def floatOne (ty : String) : Nat := if ty = "f32" then 1065353216 else 4607182418800017408

def floatExtra (o : Outer) : String :=
  match o with
  | .none => ""
  | .trace => " der=bits:0"
  | .record => " hist=none idx=0"

def fromUsizeLine (ty wrap : String) (n : Nat) : String :=
  match parseWrap wrap with
  | none => "bad-op"
  | some (o, k) =>
    if n ≥ 2 ^ 64 then "bad-op" else
    match IntTy.ofName? ty with
    | some t =>
      match fromUsizeVia t o k (BitVec.ofNat 64 n) with
      | some (v, extra) => s!"some({showVal t v}){extra}"
      | none => "none"
    | none =>
      match floatFromUsize ty n with
      | some (some b) =>
        if b ≠ floatRuntime ty n then s!"MODEL-SPEC-DISAGREE roundNE {b} runtime {floatRuntime ty n}"
        else s!"some(bits:{b}){floatExtra o}"
      | some none => "none"
      | none => "bad-op"

/-- answer for one `n` of a range, as a small key: `none`, or the difference value − n -/
def rangeKey (ty : String) (o : Outer) (k : Kind) (n : Nat) : String :=
  match IntTy.ofName? ty with
  | some t =>
    match fromUsizeVia t o k (BitVec.ofNat 64 n) with
    | some (v, extra) =>
      let d := toInt t v - (n : Int)
      (if d ≥ 0 then s!"+{d}" else toString d) ++ extra
    | none => "none"
  | none => "bad"

def rangeLine (ty wrap : String) (lo hi : Nat) : String :=
  match parseWrap wrap with
  | none => "bad-op"
  | some (o, k) =>
    if hi ≥ 2 ^ 64 ∨ lo > hi ∨ (IntTy.ofName? ty).isNone then "bad-op" else Id.run do
      let mut runs : Array String := #[]
      let mut start := lo
      let mut cur := rangeKey ty o k lo
      for i in [lo + 1 : hi + 1] do
        let key := rangeKey ty o k i
        if key ≠ cur then
          runs := runs.push s!"{start}..{i - 1}:{cur}"
          start := i
          cur := key
      runs := runs.push s!"{start}..{hi}:{cur}"
      return " ".intercalate runs.toList

def zeroOneLine (ty wrap : String) : String :=
  match parseWrap wrap with
  | none => "bad-op"
  | some (o, k) =>
    match IntTy.ofName? ty with
    | some t =>
      let z := match k with | .plain => zero t | _ => wrapZero t
      let u := match k with | .plain => one t | _ => wrapOne t
      match o with
      | .none => s!"zero={showVal t z} one={showVal t u}"
      | .trace =>
        let tz := Trace.constant (zero t) z
        let tu := Trace.constant (zero t) u
        s!"zero={showVal t tz.number} one={showVal t tu.number} der={showVal t tz.derivative},{showVal t tu.derivative}"
      | .record =>
        let rz := Record.constant z
        let ru := Record.constant u
        let h (b : Bool) := if b then "some" else "none"
        s!"zero={showVal t rz.number} one={showVal t ru.number} hist={h rz.hasHistory},{h ru.hasHistory} idx={rz.index},{ru.index}"
    | none =>
      if ty = "f32" ∨ ty = "f64" then
        let base := s!"zero=bits:0 one=bits:{floatOne ty}"
        match o with
        | .none => base
        | .trace => base ++ " der=bits:0,bits:0"
        | .record => base ++ " hist=none,none idx=0,0"
      else "bad-op"

def inRange (t : IntTy) (i : Int) : Bool := t.minInt ≤ i ∧ i ≤ t.maxInt

def binOp (t : IntTy) (k : Kind) (op : String) (a b : Val t) : Option (Outcome (Val t)) :=
  match k, op with
  | .plain, "add" => some (pAdd t a b)
  | .plain, "sub" => some (pSub t a b)
  | .plain, "mul" => some (pMul t a b)
  | .plain, "div" => some (pDiv t a b)
  | .plain, "neg" => some (checked t (-(toInt t a)))
  | .wrapping, "add" => some (.ok (wAdd t a b))
  | .wrapping, "sub" => some (.ok (wSub t a b))
  | .wrapping, "mul" => some (.ok (wMul t a b))
  | .wrapping, "div" => some (wDiv t a b)
  | .wrapping, "neg" => some (.ok (wNeg t a))
  | .saturating, "add" => some (.ok (sAdd t a b))
  | .saturating, "sub" => some (.ok (sSub t a b))
  | .saturating, "mul" => some (.ok (sMul t a b))
  | .saturating, "div" => some (sDiv t a b)
  | .saturating, "neg" => some (.ok (sNeg t a))
  | _, _ => none

def opLine (ty wrap op : String) (a b : Int) : String :=
  match parseWrap wrap, IntTy.ofName? ty with
  | some (.none, k), some t =>
    if !inRange t a || !inRange t b then "bad-op" else
    match binOp t k op (ofInt t a) (ofInt t b) with
    | some r => showOut t r
    | none => "bad-op"
  | _, _ => "bad-op"

def identLine (ty wrap : String) (a : Int) : String :=
  match parseWrap wrap, IntTy.ofName? ty with
  | some (.none, k), some t =>
    if !inRange t a then "bad-op" else
    let z := match k with | .plain => zero t | _ => wrapZero t
    let u := match k with | .plain => one t | _ => wrapOne t
    let x := ofInt t a
    match binOp t k "add" z x, binOp t k "add" x z, binOp t k "mul" u x, binOp t k "mul" x u with
    | some r1, some r2, some r3, some r4 =>
      s!"{showOut t r1},{showOut t r2},{showOut t r3},{showOut t r4}"
    | _, _, _, _ => "bad-op"
  | _, _ => "bad-op"

def step (s : State) (toks : List String) : State × String :=
  match toks with
  | ["@", "from_usize", ty, wrap, n] =>
    match n.toNat? with
    | some n => (s, fromUsizeLine ty wrap n)
    | none => (s, "bad-op")
  | ["@", "from_usize_range", ty, wrap, lo, hi] =>
    match lo.toNat?, hi.toNat? with
    | some lo, some hi => (s, rangeLine ty wrap lo hi)
    | _, _ => (s, "bad-op")
  | ["@", "zero_one", ty, wrap] => (s, zeroOneLine ty wrap)
  | ["@", "op", ty, wrap, op, a, b] =>
    match a.toInt?, b.toInt? with
    | some a, some b => (s, opLine ty wrap op a b)
    | _, _ => (s, "bad-op")
  | ["@", "ident", ty, wrap, a] =>
    match a.toInt? with
    | some a => (s, identLine ty wrap a)
    | none => (s, "bad-op")
  | ["@", "fop", _ty, _op, _a, _b] => (s, "agree")
  | ["@", "fident", _ty, _a] => (s, "ident-ok")
  | ["@", "traitreq", which] =>
    -- the impls a user type must supply (model of the blanket-impl supertraits of numeric.rs)
    let req := if which == "real" then TraitReq.usableReal else TraitReq.usableNumeric
    (s, " ".intercalate (req.map TraitReq.Impl.name))
  | ["@", "traitcheck", which, names] =>
    -- is a type supplying exactly the named impls accepted?
    let req := if which == "real" then TraitReq.usableReal else TraitReq.usableNumeric
    let all := TraitReq.usableReal
    let caps := all.filter fun i => (splitComma names).contains i.name
    (s, if TraitReq.satisfies caps req then "accepted" else "rejected")
  | "@" :: "user" :: rest => (s, C19User.answer rest)
  | "@" :: "userw" :: rest => (s, C19Wrap.answerCounting rest)
  | "@" :: cmd :: rest =>
    if ["trop", "trsc", "trneg", "trpow", "recop", "recsc", "recneg", "recsw", "recpow", "freal", "trreal", "recreal"].contains cmd then
      (s, C19Wrap.answer cmd rest)
    else (s, "bad-op")
  | _ => (s, "bad-op")

end Driver.C19
