/-
  Driver.Parse — tiny parsing helpers for the line protocol.  Core Lean only.

  Conventions: tokens are separated by single spaces; lists are comma separated with `-` for
  the empty list; a shape is `name:len,name:len`; `key=value` tokens carry options.
-/
import EasyMl.Model.Basic

namespace Driver
open EasyMl

def splitTokens (line : String) : List String :=
  (line.trimAscii.toString.splitOn " ").filter (· ≠ "")

def splitComma (s : String) : List String :=
  if s = "-" || s = "" then [] else s.splitOn ","

def parseNatList (s : String) : Option (List Nat) :=
  (splitComma s).mapM String.toNat?

def parseIntList (s : String) : Option (List Int) :=
  (splitComma s).mapM String.toInt?

def parseNames (s : String) : List String := splitComma s

def parseShape (s : String) : Option (List (String × Nat)) :=
  (splitComma s).mapM fun part =>
    match part.splitOn ":" with
    | [n, l] => l.toNat?.map fun k => (n, k)
    | _ => none

def showShape (sh : List (String × Nat)) : String :=
  if sh.isEmpty then "-" else ",".intercalate (sh.map fun (n, l) => s!"{n}:{l}")

def showNats (l : List Nat) : String :=
  if l.isEmpty then "-" else ",".intercalate (l.map toString)

/-- look up `key=` among option tokens -/
def optArg (key : String) (toks : List String) : Option String :=
  toks.findSome? fun t =>
    if t.startsWith (key ++ "=") then some ((t.drop (key.length + 1)).toString) else none

/-- Generic read-eval-print loop: one output line per input line. -/
partial def runLoop {σ : Type} (step : σ → List String → σ × String) (s : σ) : IO Unit := do
  let stdin ← IO.getStdin
  let stdout ← IO.getStdout
  let rec go (s : σ) : IO Unit := do
    let line ← stdin.getLine
    if line.isEmpty then
      stdout.flush
      return ()
    let (s', out) := step s (splitTokens line)
    stdout.putStrLn out
    go s'
  go s

end Driver
