/-
  Driver.C20 — the auto-trait model as an executable: answers `τ : Send` / `τ : Sync` queries over
  the generated struct table (lean/EasyMl/Generated/Structs.lean, regenerated from the checkout
  under test before this executable is built).

    @ send <type>      true | false | unknown
    @ sync <type>      true | false | unknown
    @ table            number of definitions and a digest of their names

  <type> is an S-expression:  prim | fnPtr | (leaf s y) | (dyn s y) | (ref τ) | (mutRef τ) |
  (slice τ) | (array τ) | (vec τ) | (option τ) | (box τ) | (range τ) | (phantom τ) | (refCell τ) |
  (cell τ) | (rawPtr τ) | (rc τ) | (arc τ) | (mutex τ) | (tuple τ…) | (adt <qualified name> τ…)
  with s, y ∈ {0, 1}.  Core Lean only.
-/
import Driver.Parse
import EasyMl.Generated.Structs

namespace Driver.C20
open EasyMl.Auto EasyMl.Generated

abbrev State := Unit

def init : State := ()

/-- split into `(`, `)` and atoms -/
def tokenize (s : String) : List String :=
  let spaced := (s.replace "(" " ( ").replace ")" " ) "
  (spaced.splitOn " ").filter (· ≠ "")

def flag (s : String) : Option Bool :=
  if s = "1" then some true else if s = "0" then some false else none

mutual
  /-- parses one type; returns it and the remaining tokens -/
  partial def parseTy (toks : List String) : Option (Ty × List String) :=
    match toks with
    | "prim" :: rest => some (.prim, rest)
    | "fnPtr" :: rest => some (.fnPtr, rest)
    | "unknown" :: rest => some (.unknown, rest)
    | "(" :: "leaf" :: s :: y :: ")" :: rest =>
      match flag s, flag y with
      | some s, some y => some (.leaf s y, rest)
      | _, _ => none
    | "(" :: "dyn" :: s :: y :: ")" :: rest =>
      match flag s, flag y with
      | some s, some y => some (.dyn s y, rest)
      | _, _ => none
    | "(" :: "tuple" :: rest =>
      (parseTys rest).map fun (ts, rest) => (.tuple ts, rest)
    | "(" :: "adt" :: name :: rest =>
      match structs.idOf name, parseTys rest with
      | some id, some (ts, rest) => some (.adt id ts, rest)
      | _, _ => none
    | "(" :: ctor :: rest =>
      match parseTy rest with
      | some (t, ")" :: rest) =>
        let mk : Option (Ty → Ty) := match ctor with
          | "ref" => some .ref | "mutRef" => some .mutRef | "slice" => some .slice
          | "array" => some .array | "vec" => some .vec | "option" => some .option
          | "box" => some .box | "range" => some .range | "phantom" => some .phantom
          | "refCell" => some .refCell | "cell" => some .cell | "rawPtr" => some .rawPtr
          | "rc" => some .rc | "arc" => some .arc | "mutex" => some .mutex
          | _ => none
        mk.map fun f => (f t, rest)
      | _ => none
    | _ => none

  /-- parses types up to the closing parenthesis (consumed) -/
  partial def parseTys (toks : List String) : Option (List Ty × List String) :=
    match toks with
    | ")" :: rest => some ([], rest)
    | _ =>
      match parseTy toks with
      | some (t, rest) => (parseTys rest).map fun (ts, rest) => (t :: ts, rest)
      | none => none
end

def showVerdict : Option Bool → String
  | some true => "true"
  | some false => "false"
  | none => "unknown"

def step (s : State) (toks : List String) : State × String :=
  match toks with
  | "@" :: "send" :: rest =>
    match parseTy (tokenize (" ".intercalate rest)) with
    | some (t, []) => (s, showVerdict (isSend structs t))
    | _ => (s, "bad-op")
  | "@" :: "sync" :: rest =>
    match parseTy (tokenize (" ".intercalate rest)) with
    | some (t, []) => (s, showVerdict (isSync structs t))
    | _ => (s, "bad-op")
  | ["@", "table"] =>
    (s, s!"definitions={structs.length} public={publicIds.length}")
  | _ => (s, "bad-op")

end Driver.C20
