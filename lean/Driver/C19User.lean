/-
  Driver.C19User — the "any user type works everywhere" clause of C19.

  The harness instantiates the user-defined exact types `Fp` (prime field) and `Rat` at the
  generic routines of easy-ml and prints the library's result; this module evaluates the
  *documented formula* of each routine directly at the same type (`EasyMl.Fp` / core `Rat`,
  bit-identical twins of harness/src/exact.rs).  The formulas are the textbook ones (Laplace
  expansion, adjugate / determinant, Σ/n, …), not the library's operation order: both types are
  exact fields, so any algebraically equal formula gives the identical element, while a different
  function differs at random points.

    @ user <routine> <Fp|Rat> <arg> …          matrices are `RxC:v,v,…` (row major), lists `v,v,…`

  Core Lean only.
-/
import Driver.Parse
import EasyMl.Model.Fp

namespace Driver.C19User
open EasyMl

/-- everything the formulas need from an element type -/
class Elem (α : Type) extends Add α, Sub α, Mul α, Div α, Neg α where
  zero : α
  one : α
  ofNat : Nat → α
  parse : String → Option α
  render : α → String
  isZero : α → Bool
  /-- `a <= b` as the type's `PartialOrd` decides it -/
  le : α → α → Bool
  sqrt : α → α
  exp : α → α

def ratSqrt (q : Rat) : Rat :=
  if q.num < 0 then 0 else mkRat (Nat.sqrt q.num.toNat) (Nat.sqrt q.den)

def parseRat (s : String) : Option Rat :=
  match s.splitOn "/" with
  | [n] => n.toInt?.map fun i => (i : Rat)
  | [n, d] => match n.toInt?, d.toNat? with
    | some i, some k => some (mkRat i k)
    | _, _ => none
  | _ => none

instance : Elem Fp where
  zero := 0
  one := 1
  ofNat := Fp.ofNat
  parse s := s.toNat?.map Fp.ofNat
  render a := toString a.val
  isZero a := a.val == 0
  le a b := NumOrd.le a b
  sqrt := RealFns.sqrt
  exp := RealFns.exp

instance : Elem Rat where
  zero := 0
  one := 1
  ofNat n := (n : Rat)
  parse := parseRat
  render := showRat
  isZero a := a == 0
  le a b := decide (a ≤ b)
  sqrt := ratSqrt
  exp a := a   -- `Rat` is not `Real`; never used

instance {α : Type} [Elem α] : Inhabited α := ⟨Elem.zero⟩

/-! ### dual numbers: element types whose equality is coarser than identity

`Trace<T>`, `Record<T>` and user-defined dual-number types compare (`PartialEq`, `PartialOrd`) by
their *value* only, while they carry a derivative part.  The documented formulas evaluated over the
ring of dual numbers `v + d·ε` (`ε² = 0`) give value and derivative of every routine; comparisons
(`isZero`, `le`) look at the value only, exactly like the Rust types. -/

structure Dual (β : Type) where
  v : β
  d : β

instance {β : Type} [Elem β] : Elem (Dual β) where
  add a b := ⟨a.v + b.v, a.d + b.d⟩
  sub a b := ⟨a.v - b.v, a.d - b.d⟩
  mul a b := ⟨a.v * b.v, a.d * b.v + a.v * b.d⟩
  div a b := ⟨a.v / b.v, (a.d * b.v - a.v * b.d) / (b.v * b.v)⟩
  neg a := ⟨-a.v, -a.d⟩
  zero := ⟨Elem.zero, Elem.zero⟩
  one := ⟨Elem.one, Elem.zero⟩
  ofNat n := ⟨Elem.ofNat n, Elem.zero⟩
  parse s := match s.splitOn "~" with
    | [v, d] => match (Elem.parse v : Option β), (Elem.parse d : Option β) with
      | some v, some d => some ⟨v, d⟩
      | _, _ => none
    | [v] => (Elem.parse v : Option β).map fun v => ⟨v, Elem.zero⟩
    | _ => none
  render a := Elem.render a.v ++ "~" ++ Elem.render a.d
  isZero a := Elem.isZero a.v
  le a b := Elem.le a.v b.v
  sqrt a := ⟨Elem.sqrt a.v, a.d / (Elem.ofNat 2 * Elem.sqrt a.v)⟩
  exp a := ⟨Elem.exp a.v, a.d * Elem.exp a.v⟩

section formulas
variable {α : Type} [Elem α]

abbrev Mat (α : Type) := List (List α)

def sum (l : List α) : α := l.foldl (· + ·) Elem.zero

def dot (a b : List α) : α := sum (List.zipWith (· * ·) a b)

def transpose (m : Mat α) : Mat α :=
  match m with
  | [] => []
  | r :: _ => (List.range r.length).map fun j => m.filterMap fun row => row[j]?

def matZip (f : α → α → α) (a b : Mat α) : Mat α := List.zipWith (List.zipWith f) a b

def matMap (f : α → α) (a : Mat α) : Mat α := a.map (·.map f)

def matMul (a b : Mat α) : Mat α :=
  let bt := transpose b
  a.map fun row => bt.map fun col => dot row col

def dropIdx (l : List β) (i : Nat) : List β := l.take i ++ l.drop (i + 1)

def minor (m : Mat α) (i j : Nat) : Mat α := (dropIdx m i).map fun row => dropIdx row j

def signed (k : Nat) (x : α) : α := if k % 2 == 0 then x else -x

/-- Laplace expansion along the first row (`fuel` = size) -/
def detAux : Nat → Mat α → α
  | 0, _ => Elem.one
  | fuel + 1, m =>
    match m with
    | [] => Elem.one
    | row :: _ =>
      sum ((List.range row.length).map fun j =>
        signed j ((row.getD j Elem.zero) * detAux fuel (minor m 0 j)))

def det (m : Mat α) : α := detAux m.length m

/-- adjugate / determinant; `none` when the determinant is zero -/
def inverse (m : Mat α) : Option (Mat α) :=
  let d := det m
  if Elem.isZero d then none
  else
    let n := m.length
    some ((List.range n).map fun i => (List.range n).map fun j =>
      (signed (i + j) (det (minor m j i))) / d)

def mean (l : List α) : α := sum l / Elem.ofNat l.length

def variance (l : List α) : α :=
  let mu := mean l
  mean (l.map fun x => (x - mu) * (x - mu))

/-- covariance of the feature vectors (each a list of samples), no Bessel correction -/
def covariance (features : List (List α)) : Mat α :=
  features.map fun fi => features.map fun fj =>
    let mi := mean fi
    let mj := mean fj
    sum (List.zipWith (fun x y => (x - mi) * (y - mj)) fi fj) / Elem.ofNat fi.length

def f1 (p r : α) : α := (Elem.ofNat 2 * (p * r)) / (p + r)

/-- Cholesky–Banachiewicz; `none` when a pivot is `≤ 0` -/
def cholesky (a : Mat α) : Option (Mat α) := Id.run do
  let n := a.length
  let mut l : Array (Array α) := Array.replicate n (Array.replicate n Elem.zero)
  for i in [0:n] do
    for j in [0:i + 1] do
      let mut s : α := Elem.zero
      for k in [0:j] do
        s := s + (l[i]!)[k]! * (l[j]!)[k]!
      let aij := (a.getD i []).getD j Elem.zero
      if i == j then
        let e := aij - s
        if Elem.le e Elem.zero then return none
        l := l.set! i ((l[i]!).set! j (Elem.sqrt e))
      else
        l := l.set! i ((l[i]!).set! j ((aij - s) / (l[j]!)[j]!))
  return some (l.toList.map (·.toList))

/-- `A = L D Lᵀ`, `L` unit lower triangular, `D` diagonal; `none` when a pivot is zero -/
def ldlt (a : Mat α) : Option (Mat α × Mat α) := Id.run do
  let n := a.length
  let mut l : Array (Array α) := Array.replicate n (Array.replicate n Elem.zero)
  let mut d : Array α := Array.replicate n Elem.zero
  for j in [0:n] do
    let mut s : α := Elem.zero
    for k in [0:j] do
      s := s + (l[j]!)[k]! * (l[j]!)[k]! * d[k]!
    let e := (a.getD j []).getD j Elem.zero - s
    if Elem.isZero e then return none
    d := d.set! j e
    for i in [j:n] do
      if i == j then
        l := l.set! i ((l[i]!).set! j Elem.one)
      else
        let mut s2 : α := Elem.zero
        for k in [0:j] do
          s2 := s2 + (l[i]!)[k]! * (l[j]!)[k]! * d[k]!
        l := l.set! i ((l[i]!).set! j (((a.getD i []).getD j Elem.zero - s2) / e))
  let dm := (List.range n).map fun i => (List.range n).map fun j =>
    if i == j then d[i]! else Elem.zero
  return some (l.toList.map (·.toList), dm)

/-- softmax(z)ᵢ = e^(zᵢ - max z) / Σⱼ e^(zⱼ - max z)  (the documented, shifted form) -/
def softmax (z : List α) : List α :=
  match z with
  | [] => []
  | z0 :: rest =>
    let mx := rest.foldl (fun m x => if Elem.le m x then x else m) z0
    let es := z.map fun x => Elem.exp (x - mx)
    let den := sum es
    es.map (· / den)

/-- f(x) = (x·x + c) / (x − d) + x·c and its derivative -/
def traceFn (x c d : α) : α × α :=
  let v := x - d
  ((x * x + c) / v + x * c,
   ((Elem.ofNat 2 * x) * v - (x * x + c)) / (v * v) + c)

/-- g(x, y) = x·y + x / y − y and its gradient -/
def recordFn (x y : α) : α × α × α :=
  (x * y + x / y - y, y + Elem.one / y, x - x / (y * y) - Elem.one)

end formulas

/-! ### parsing / printing -/

def parseList (α : Type) [Elem α] (s : String) : Option (List α) := (splitComma s).mapM Elem.parse

def chunks (l : List β) (c : Nat) : List (List β) :=
  if c = 0 then [] else
  (List.range (l.length / c)).map fun i => (l.drop (i * c)).take c

def parseMat (α : Type) [Elem α] (s : String) : Option (Mat α) :=
  match s.splitOn ":" with
  | [dims, vals] =>
    match dims.splitOn "x" with
    | [r, c] =>
      match r.toNat?, c.toNat?, parseList α vals with
      | some r, some c, some vs => if vs.length = r * c then some (chunks vs c) else none
      | _, _, _ => none
    | _ => none
  | _ => none

def showListE {α : Type} [Elem α] (l : List α) : String :=
  if l.isEmpty then "-" else ",".intercalate (l.map Elem.render)

def showMat {α : Type} [Elem α] (m : Mat α) : String :=
  let c := match m with | [] => 0 | r :: _ => r.length
  s!"{m.length}x{c}:{showListE m.flatten}"

def showOptMat {α : Type} [Elem α] : Option (Mat α) → String
  | some m => s!"some({showMat m})"
  | none => "none"

def answerAt (α : Type) [Elem α] (routine : String) (args : List String) : String :=
  let m1 := fun (k : Mat α → String) => match args with
    | [a] => match parseMat α a with
      | some a => k a
      | none => "bad-op"
    | _ => "bad-op"
  let m2 := fun (k : Mat α → Mat α → String) => match args with
    | [a, b] => match parseMat α a, parseMat α b with
      | some a, some b => k a b
      | _, _ => "bad-op"
    | _ => "bad-op"
  let ms := fun (k : Mat α → α → String) => match args with
    | [a, b] => match parseMat α a, (Elem.parse b : Option α) with
      | some a, some b => k a b
      | _, _ => "bad-op"
    | _ => "bad-op"
  let l1 := fun (k : List α → String) => match args with
    | [a] => match parseList α a with
      | some a => k a
      | none => "bad-op"
    | _ => "bad-op"
  match routine with
  | "matrix_add" | "tensor_add" => m2 fun a b => showMat (matZip (· + ·) a b)
  | "matrix_sub" | "tensor_sub" => m2 fun a b => showMat (matZip (· - ·) a b)
  | "matrix_mul" | "tensor_matmul" => m2 fun a b => showMat (matMul a b)
  | "matrix_neg" | "tensor_neg" => m1 fun a => showMat (matMap (fun x => -x) a)
  | "matrix_scalar_add" | "tensor_scalar_add" => ms fun a s => showMat (matMap (· + s) a)
  | "matrix_scalar_mul" | "tensor_scalar_mul" => ms fun a s => showMat (matMap (· * s) a)
  | "matrix_scalar_sub" | "tensor_scalar_sub" => ms fun a s => showMat (matMap (· - s) a)
  | "matrix_scalar_div" | "tensor_scalar_div" => ms fun a s => showMat (matMap (· / s) a)
  | "tensor_elementwise_multiply" => m2 fun a b => showMat (matZip (· * ·) a b)
  | "tensor_elementwise_divide" => m2 fun a b => showMat (matZip (· / ·) a b)
  | "tensor_scalar_product" => match args with
    | [a, b] => match parseList α a, parseList α b with
      | some a, some b => Elem.render (dot a b)
      | _, _ => "bad-op"
    | _ => "bad-op"
  | "determinant" | "determinant_tensor" | "matrix_determinant" | "tensor_determinant" =>
    m1 fun a => s!"some({Elem.render (det a)})"
  | "inverse" | "inverse_tensor" | "matrix_inverse" | "tensor_inverse" => m1 fun a => showOptMat (inverse a)
  | "mean" => l1 fun l => Elem.render (mean l)
  | "variance" => l1 fun l => Elem.render (variance l)
  | "f1_score" => match args with
    | [p, r] => match (Elem.parse p : Option α), (Elem.parse r : Option α) with
      | some p, some r => Elem.render (f1 p r)
      | _, _ => "bad-op"
    | _ => "bad-op"
  | "covariance_column_features" | "matrix_covariance_column_features" | "covariance_tensor_columns" =>
    m1 fun a => showMat (covariance (transpose a))
  | "covariance_row_features" | "matrix_covariance_row_features" | "covariance_tensor_rows" =>
    m1 fun a => showMat (covariance a)
  | "cholesky_decomposition" | "cholesky_decomposition_tensor" => m1 fun a => showOptMat (cholesky a)
  | "ldlt_decomposition" | "ldlt_decomposition_tensor" => m1 fun a =>
    match ldlt a with
    | some (l, d) => s!"some(l={showMat l} d={showMat d})"
    | none => "none"
  | "softmax" => l1 fun l => showListE (softmax l)
  | "trace_derivative" => match args.mapM (fun s => (Elem.parse s : Option α)) with
    | some [x, c, d] => let (v, dv) := traceFn x c d; s!"value={Elem.render v} derivative={Elem.render dv}"
    | _ => "bad-op"
  | "record_derivatives" | "record_container_derivatives" =>
    match args.mapM (fun s => (Elem.parse s : Option α)) with
    | some [x, y] =>
      let (v, dx, dy) := recordFn x y
      s!"value={Elem.render v} dx={Elem.render dx} dy={Elem.render dy}"
    | _ => "bad-op"
  -- routines that are instantiated and executed only (their formulas involve uninterpreted
  -- real functions in an algorithm-specific way; decided by C08 / C17)
  | "qr_decomposition" | "qr_decomposition_tensor" | "gaussian_probability" | "gaussian_draw"
  | "multivariate_gaussian_draw" => "ran"
  | _ => "bad-op"

def answer (toks : List String) : String :=
  match toks with
  | routine :: "Fp" :: args => answerAt Fp routine args
  | routine :: "Rat" :: args => answerAt Rat routine args
  -- value + derivative part: a user-defined dual type, Trace<Fp> (forward mode) and Record<Fp>
  -- (reverse mode, the directional derivative along the given parts) must all give the dual-number answer
  | routine :: "DualFp" :: args => answerAt (Dual Fp) routine args
  | routine :: "TraceFp" :: args => answerAt (Dual Fp) routine args
  | routine :: "RecordFp" :: args => answerAt (Dual Fp) routine args
  | routine :: "DualRat" :: args => answerAt (Dual Rat) routine args
  | _ => "bad-op"

end Driver.C19User
