/-
  Driver.C19User — "any user type works everywhere": the documented formulas evaluated directly
  at the exact user-defined element types (`Fp`, `Rat`).  (stub, filled in below)
-/
import Driver.Parse
import EasyMl.Model.Fp

namespace Driver.C19User
open EasyMl

def answer (_toks : List String) : String := "bad-op"

end Driver.C19User
