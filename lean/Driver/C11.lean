/-
  Driver.C11 — line protocol front end for property C11 (stub: not built yet).
-/
import Driver.Parse

namespace Driver.C11

abbrev State := Unit

def init : State := ()

def step (s : State) (_toks : List String) : State × String := (s, "unimplemented")

end Driver.C11
