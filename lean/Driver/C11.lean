/-
  Driver.C11 — line protocol for matrix resizing histories (history protocol P2).

    @ new <R>x<C> via=from|flat|from_fn      matrix with the elements 1..R*C in row-major order
    @ from <rows>                            Matrix::from(vec![vec![…], …]); rows `1,2;3,4`,
                                             `-` an empty row, `none` no rows at all (may be jagged)
    @ flat <R> <C> <values>                  Matrix::from_flat_row_major((R, C), values)
    @ row <values> | @ column <values>       Matrix::row / Matrix::column
    @ scalar <v> via=from_scalar|unit        Matrix::from_scalar / Matrix::unit
    @ empty <R> <C> <v>                      Matrix::empty(v, (R, C))
    @ diagonal <R> <C> <v>                   Matrix::diagonal(v, (R, C))      (T::zero() = 0)
    @ from_diagonal <values>                 Matrix::from_diagonal(values)
    insert_row <row> <value>
    insert_row_with <row> <values>
    insert_column <column> <value>
    insert_column_with <column> <values>
    remove_row <row>
    remove_column <column>
    retain_mut rows=<slice> cols=<slice>     slice ::= all | none | single(i) | range(a,b) |
    retain rows=<slice> cols=<slice>                   not(s) | and(s,t) | or(s,t)
    transpose                                (allocating; the result replaces the matrix)
    transpose_mut
    set <row> <column> <value> via=set|get_reference_mut
    map_mut <k>                              x ↦ x + k
    map_mut_with_index <k>                   x at (i, j) ↦ x + k·(i+1) + j
    map <k> | map_with_index <k>             the allocating forms (the result replaces the matrix)
    … panic_at=<j>                           on map_mut / map_mut_with_index / map / map_with_index:
                                             the closure panics on its j-th call (0-based); on
                                             insert_row_with / insert_column_with: the iterator's
                                             `next` panics on its j-th call
                                             An in-place map whose closure panics answers
                                             `panic RxC storage=consistent cells=old-or-mapped ## len= kind= pattern=<o|m|=…>`:
                                             obs is what the property demands of the survivor,
                                             the pattern of mapped cells is aux
    renumber <b> | fill <v>                  cell (i, j) := b + 100·i + j | every cell := v
                                             (map_mut_with_index / map_mut ignoring the old value:
                                             re-synchronises a case after a panicking in-place map)
    … cap=<k>                                on `@ flat/row/column`: the Vec is built with k spare
                                             capacity (allocation history; ignored by the model)
    shared <values> via=<kind> row:<p> col:<p> …
                                             one iterator lent (`by_ref`) to the insertions in turn
                                             → `<ok|panic> <state> steps=ok,panic,… rest=<left|?> ## len= rest=<left>`
    accepts <slice> <n>                      → set=<accepted indexes below n>
    accepts2d rows=<slice> cols=<slice> <R> <C>  → grid=<rows of 0/1>
    api display                              `format!("{}")` / `{:.3}` with `\n` → `|`, ` ` → `_`
    api clone_from                           `Matrix::from_scalar(0).clone_from(&m)` → size and rows
    api into_tensor <rname> <cname>          into_tensor / TryFrom<(Matrix, [Dimension; 2])> → shape, data | err
    api matrix_ref <r> <c>                   MatrixRef on Matrix, Box<dyn MatrixRef>, Box<dyn MatrixMut>,
                                             MatrixView: try_get_reference, view size, layout
    api iter <entry point> [index]           every iterator entry point → vals=… | panic
    try_set <r> <c> <v> via=trait|box_dyn    MatrixMut::try_get_reference_mut: write or `none`, no panic
    eq_after <op …>                          (also Matrix == MatrixView, MatrixView == Matrix, view == view)                          the operation on a clone, then `matrix == clone` and
                                             `clone == matrix` → eq=true|false (read-only)
    scalar                                   → val=<v> | panic         (read-only, &self)
    try_into_scalar                          → ok(<v>) | err           (on a clone)
    row_iter <r> | column_iter <c> | diagonal_iter via=iter|reference_iter
                                             → vals=<list> | panic     (read-only)
    try <op …>                               the operation on a clone; the matrix itself is kept

  Answer: `<ok|panic> <R>x<C> <rows> rm=<row_major_iter> cm=<column_major_iter> ## len=<data.len()> kind=<panic kind>`
  — outcome, size and elements of the matrix **as it is after the operation** (after a panic: the
  matrix that survived).  The part before `##` is computed from the list-of-rows specification
  (`EasyMl.Rows`), the code-shaped model (`EasyMl.Matrix.exec`) is run beside it and must agree
  (theorems of Props/C11); the part after `##` is code-shaped detail of the model.
-/
import EasyMl.Model.MatrixResize
import EasyMl.Spec.MatrixResize
import Driver.Parse

namespace Driver.C11
open EasyMl Driver

structure St where
  m : Matrix Nat
  rs : Rows Nat

abbrev State := Option St

def init : State := none

/-! parsing -/

/-- split at top-level commas (not inside parentheses) -/
def splitTop (s : List Char) : List (List Char) :=
  let rec go (cs : List Char) (depth : Nat) (cur : List Char) (acc : List (List Char)) :
      List (List Char) :=
    match cs with
    | [] => (cur.reverse :: acc).reverse
    | c :: rest =>
      if c = '(' then go rest (depth + 1) (c :: cur) acc
      else if c = ')' then go rest (depth - 1) (c :: cur) acc
      else if c = ',' && depth = 0 then go rest depth [] (cur.reverse :: acc)
      else go rest depth (c :: cur) acc
  go s 0 [] []

/-- `name(args)` → (name, args) ; `name` → (name, "") -/
def splitCall (s : List Char) : List Char × List Char :=
  let name := s.takeWhile (· ≠ '(')
  let rest := s.drop (name.length + 1)
  (name, rest.dropLast)

partial def parseSlice (s : List Char) : Option Slice :=
  let (name, args) := splitCall s
  let nm := String.ofList name
  let parts := if args.isEmpty then [] else splitTop args
  match nm, parts with
  | "all", [] => some .all
  | "none", [] => some .none
  | "single", [a] => (String.ofList a).toNat?.map .single
  | "range", [a, b] =>
    match (String.ofList a).toNat?, (String.ofList b).toNat? with
    | some x, some y => some (.range x y)
    | _, _ => none
  | "not", [a] => (parseSlice a).map .not
  | "and", [a, b] =>
    match parseSlice a, parseSlice b with
    | some x, some y => some (.and x y)
    | _, _ => none
  | "or", [a, b] =>
    match parseSlice a, parseSlice b with
    | some x, some y => some (.or x y)
    | _, _ => none
  | _, _ => none

def parseRows (s : String) : Option (List (List Nat)) :=
  if s = "none" then some [] else (s.splitOn ";").mapM parseNatList

def parseSize (s : String) : Option (Nat × Nat) :=
  match s.splitOn "x" with
  | [a, b] =>
    match a.toNat?, b.toNat? with
    | some r, some c => some (r, c)
    | _, _ => none
  | _ => none

def parseOp (toks : List String) : Option (Matrix.Op Nat) :=
  match toks with
  | "insert_row" :: p :: v :: _ =>
    match p.toNat?, v.toNat? with
    | some p, some v => some (.insertRow p v)
    | _, _ => none
  | "insert_row_with" :: p :: vs :: _ =>
    match p.toNat?, parseNatList vs with
    | some p, some vs => some (.insertRowWith p vs)
    | _, _ => none
  | "insert_column" :: p :: v :: _ =>
    match p.toNat?, v.toNat? with
    | some p, some v => some (.insertColumn p v)
    | _, _ => none
  | "insert_column_with" :: p :: vs :: _ =>
    match p.toNat?, parseNatList vs with
    | some p, some vs => some (.insertColumnWith p vs)
    | _, _ => none
  | "remove_row" :: p :: _ => p.toNat?.map .removeRow
  | "remove_column" :: p :: _ => p.toNat?.map .removeColumn
  | "retain_mut" :: rest =>
    match (optArg "rows" rest).bind (parseSlice ·.toList), (optArg "cols" rest).bind (parseSlice ·.toList) with
    | some r, some c => some (.retainMut r c)
    | _, _ => none
  | "retain" :: rest =>
    match (optArg "rows" rest).bind (parseSlice ·.toList), (optArg "cols" rest).bind (parseSlice ·.toList) with
    | some r, some c => some (.retain r c)
    | _, _ => none
  | "transpose" :: _ => some .transpose
  | "transpose_mut" :: _ => some .transposeMut
  | "set" :: r :: c :: v :: _ =>
    match r.toNat?, c.toNat?, v.toNat? with
    | some r, some c, some v => some (.set r c v)
    | _, _, _ => none
  | "map_mut" :: k :: _ => k.toNat?.map fun k => .mapMut (· + k)
  | "map_mut_with_index" :: k :: _ =>
    k.toNat?.map fun k => .mapMutWithIndex fun x i j => x + k * (i + 1) + j
  | "renumber" :: b :: _ => b.toNat?.map fun b => .mapMutWithIndex fun _ i j => b + 100 * i + j
  | "fill" :: v :: _ => v.toNat?.map fun v => .mapMut fun _ => v
  | "map" :: k :: _ => k.toNat?.map fun k => .map (· + k)
  | "map_with_index" :: k :: _ =>
    k.toNat?.map fun k => .mapWithIndex fun x i j => x + k * (i + 1) + j
  | _ => none

/-- operations including the `panic_at=` variants (user code panicking on its j-th call) -/
def parseXOp (toks : List String) : Option (Matrix.XOp Nat) :=
  match (optArg "panic_at" toks).bind (·.toNat?) with
  | none => (parseOp toks).map .op
  | some j =>
    match toks with
    | "map_mut" :: k :: _ => k.toNat?.map fun k => .mapMutPanic (· + k) j
    | "map_mut_with_index" :: k :: _ =>
      k.toNat?.map fun k => .mapMutWithIndexPanic (fun x i j' => x + k * (i + 1) + j') j
    | "map" :: k :: _ => k.toNat?.map fun k => .mapPanic (· + k) j
    | "map_with_index" :: k :: _ =>
      k.toNat?.map fun k => .mapWithIndexPanic (fun x i j' => x + k * (i + 1) + j') j
    | "insert_row_with" :: p :: vs :: _ =>
      match p.toNat?, parseNatList vs with
      | some p, some vs => some (.insertRowWithPanic p vs j)
      | _, _ => none
    | "insert_column_with" :: p :: vs :: _ =>
      match p.toNat?, parseNatList vs with
      | some p, some vs => some (.insertColumnWithPanic p vs j)
      | _, _ => none
    | _ => none

/-! printing -/

def showRow (r : List Nat) : String := showNats r

def showRowsList (rs : List (List Nat)) : String := ";".intercalate (rs.map showRow)

/-- the specification-level observation of a list-of-rows state -/
def showSpec (rs : Rows Nat) : String :=
  s!"{Rows.nrows rs}x{Rows.ncols rs} {showRowsList rs} rm={showNats rs.flatten} cm={showNats (Rows.transpose rs).flatten}"

/-- the same observation read off the model matrix: size fields, `toRows`, flat data walked
    row-major and column-major -/
def showModel (m : Matrix Nat) : String :=
  let rs := m.toRows
  s!"{m.rows}x{m.columns} {showRowsList rs} rm={showNats rs.flatten} cm={showNats (Rows.transpose rs).flatten}"

def answer (panicked : Bool) (rs : Rows Nat) (res : Matrix.Res Nat) : String :=
  let o := if panicked then "panic" else "ok"
  let om := if res.panic.isSome then "panic" else "ok"
  let spec := s!"{o} {showSpec rs}"
  let model := s!"{om} {showModel res.state}"
  let kind := match res.panic with
    | some k => s!" kind={k}"
    | none => ""
  if spec = model then s!"{spec} ## len={res.state.data.length}{kind}"
  else s!"{spec} ## MODEL-SPEC-DISAGREE {model}"

/-- the answer of a read-only list getter: specification first, the model must agree -/
def showListQuery (spec model : Outcome (List Nat)) : String :=
  let sp := match spec with
    | .ok l => s!"vals={showNats l}"
    | .panic _ => "panic"
  let md := match model with
    | .ok l => s!"vals={showNats l}"
    | .panic k => s!"panic ## kind={k}"
  if (md.splitOn " ## ").head! = sp then md else s!"{sp} ## MODEL-SPEC-DISAGREE {md}"

/-- The answer to an in-place map whose closure panicked.  `obs`: the survivor has the old size,
    a storage of rows·columns elements, and every cell holds its old or its mapped value
    (`inplace_map_panic_obs`); `aux`: which cells were mapped (`xstep_refines`). -/
def inplacePanicAnswer (old : Rows Nat) (f : Nat → Nat → Nat → Nat) (res : Matrix.Res Nat) : String :=
  let r := Rows.nrows old
  let c := Rows.ncols old
  let spec := s!"panic {r}x{c} storage=consistent cells=old-or-mapped"
  let new := res.state.toRows
  let mark (i j : Nat) : Char :=
    match Rows.cell old i j, Rows.cell new i j with
    | some o, some n =>
      if n = o && n = f o i j then '=' else if n = o then 'o' else if n = f o i j then 'm' else '?'
    | _, _ => '?'
  let pattern := ";".intercalate ((List.range r).map fun i =>
    String.ofList ((List.range c).map fun j => mark i j))
  let modelOk := res.state.rows = r && res.state.columns = c &&
    res.state.data.length = r * c && !(pattern.toList.contains '?') && res.panic.isSome
  let kind := match res.panic with
    | some k => s!" kind={k}"
    | none => ""
  if modelOk then s!"{spec} ## len={res.state.data.length}{kind} pattern={pattern}"
  else s!"{spec} ## MODEL-SPEC-DISAGREE {showModel res.state} pattern={pattern}"

/-- the mapping function of an in-place map with a panicking closure, if the operation is one -/
def inplaceFn : Matrix.XOp Nat → Option (Nat → Nat → Nat → Nat)
  | .mapMutPanic f _ => some fun x _ _ => f x
  | .mapMutWithIndexPanic f _ => some f
  | _ => none

/-- the answer line of an (extended) operation -/
def xanswer (st : St) (x : Matrix.XOp Nat) (res : Matrix.Res Nat) : String :=
  match inplaceFn x, Rows.xpanics st.rs x with
  | some f, true => inplacePanicAnswer st.rs f res
  | _, p => answer p (Rows.xnext st.rs x) res

/-- Run a constructor through the code-shaped model (`Ctor.build`) and the specification
    (`Rows.ctorPre`, `Rows.ctorRows`; the rows are only materialised when the precondition holds). -/
def construct (c : Matrix.Ctor Nat) : State × String :=
  let pre := Rows.ctorPre c
  match c.build with
  | .ok m =>
    if pre then
      let rs := Rows.ctorRows c
      (some ⟨m, rs⟩, answer false rs ⟨m, none⟩)
    else (none, s!"panic ## MODEL-SPEC-DISAGREE ok {showModel m}")
  | .panic k =>
    if pre then (none, s!"ok ## MODEL-SPEC-DISAGREE panic({k})")
    else (none, s!"panic ## kind={k}")

def parseCtor (toks : List String) : Option (Matrix.Ctor Nat) :=
  match toks with
  | "new" :: sz :: rest =>
    match parseSize sz with
    | some (r, c) =>
      let via := (optArg "via" rest).getD "from"
      -- the elements 1..r*c in row-major order
      if via = "from" then
        some (.fromRows ((List.range r).map fun i => (List.range c).map fun j => i * c + j + 1))
      else if via = "flat" then some (.fromFlatRowMajor r c (List.range' 1 (r * c)))
      else some (.fromFn r c fun i j => i * c + j + 1)
    | none => none
  | "from" :: rowsS :: _ => (parseRows rowsS).map .fromRows
  | "flat" :: rS :: cS :: valsS :: _ =>
    match rS.toNat?, cS.toNat?, parseNatList valsS with
    | some r, some c, some vals => some (.fromFlatRowMajor r c vals)
    | _, _, _ => none
  | "row" :: valsS :: _ => (parseNatList valsS).map .row
  | "column" :: valsS :: _ => (parseNatList valsS).map .column
  | "scalar" :: v :: _ => v.toNat?.map .fromScalar
  | "empty" :: rS :: cS :: vS :: _ =>
    match rS.toNat?, cS.toNat?, vS.toNat? with
    | some r, some c, some v => some (.empty v r c)
    | _, _, _ => none
  | "diagonal" :: rS :: cS :: vS :: _ =>
    match rS.toNat?, cS.toNat?, vS.toNat? with
    | some r, some c, some v => some (.diagonal 0 v r c)
    | _, _, _ => none
  | "from_diagonal" :: valsS :: _ => (parseNatList valsS).map (.fromDiagonal 0)
  | _ => none

def step (s : State) (toks : List String) : State × String :=
  match toks with
  | "@" :: rest =>
    match parseCtor rest with
    | some c => construct c
    | none => (s, "bad-op")
  | ["scalar"] =>
    match s with
    | none => (s, "no-matrix")
    | some st =>
      let spec := match Rows.scalar st.rs with
        | .ok v => s!"val={v}"
        | .panic _ => "panic"
      let model := match st.m.scalarP with
        | .ok v => s!"val={v}"
        | .panic k => s!"panic ## kind={k}"
      (s, if (model.splitOn " ## ").head! = spec then model else s!"{spec} ## MODEL-SPEC-DISAGREE {model}")
  | "row_iter" :: r :: _ =>
    match s, r.toNat? with
    | none, some _ => (s, "no-matrix")
    | some st, some r => (s, showListQuery (Rows.rowAt st.rs r) (st.m.rowIter r))
    | _, none => (s, "bad-op")
  | "column_iter" :: c :: _ =>
    match s, c.toNat? with
    | none, some _ => (s, "no-matrix")
    | some st, some c => (s, showListQuery (Rows.columnAt st.rs c) (st.m.columnIter c))
    | _, none => (s, "bad-op")
  | "diagonal_iter" :: _ =>
    match s with
    | none => (s, "no-matrix")
    | some st => (s, showListQuery (.ok (Rows.diagonal st.rs)) st.m.diagonalIter)
  | ["try_into_scalar"] =>
    match s with
    | none => (s, "no-matrix")
    | some st =>
      let spec := match Rows.tryIntoScalar st.rs with
        | some v => s!"ok({v})"
        | none => "err"
      let model := match st.m.tryIntoScalar with
        | .ok (some v) => s!"ok({v})"
        | .ok none => "err"
        | .panic k => s!"panic ## kind={k}"
      (s, if model = spec then model else s!"{spec} ## MODEL-SPEC-DISAGREE {model}")
  | "api" :: what :: rest =>
    match s with
    | none => (s, "no-matrix")
    | some st =>
      let rs := st.rs
      let okRows := decide (st.m.toRows = rs)
      let guard (a : String) := if okRows then a else s!"{a} ## MODEL-SPEC-DISAGREE {showModel st.m}"
      match what, rest with
      | "display", _ =>
        let body := "|__".intercalate (rs.map fun r => ",_".intercalate (r.map toString))
        (s, guard s!"text=[_{body}_]")
      | "clone_from", _ => (s, guard (showSpec rs))
      | "into_tensor", rn :: cn :: _ =>
        let spec := if rn = cn then "err"
          else s!"shape={rn}:{Rows.nrows rs},{cn}:{Rows.ncols rs} data={showNats rs.flatten}"
        let model := match st.m.intoTensorRows rn cn with
          | .ok (some t) => s!"shape={showShape t.shape} data={showNats t.data}"
          | .ok none => "err"
          | .panic k => s!"panic({k})"
        (s, if spec = model then guard spec else s!"{spec} ## MODEL-SPEC-DISAGREE {model}")
      | "matrix_ref", r :: c :: _ =>
        match r.toNat?, c.toNat? with
        | some r, some c =>
          let cellS := match Rows.cell rs r c with
            | some v => s!"some({v})"
            | none => "none"
          let modelS := match st.m.tryGet r c with
            | some v => s!"some({v})"
            | none => "none"
          let a := s!"get={cellS} size={Rows.nrows rs}x{Rows.ncols rs} layout=row_major"
          (s, if cellS = modelS then guard a else s!"{a} ## MODEL-SPEC-DISAGREE get={modelS}")
        | _, _ => (s, "bad-op")
      | "iter", name :: args =>
        let idx := (args.head?.bind String.toNat?).getD 0
        let rowMajor : Outcome (List Nat) := .ok rs.flatten
        let colMajor : Outcome (List Nat) := .ok (Rows.transpose rs).flatten
        let (spec, model) : Outcome (List Nat) × Outcome (List Nat) :=
          if name.startsWith "row_major" then (rowMajor, .ok st.m.toRows.flatten)
          else if name.startsWith "column_major" then (colMajor, .ok (Rows.transpose st.m.toRows).flatten)
          else if name.startsWith "diagonal" then (.ok (Rows.diagonal rs), st.m.diagonalIter)
          else if name.startsWith "row_" then (Rows.rowAt rs idx, st.m.rowIter idx)
          else (Rows.columnAt rs idx, st.m.columnIter idx)
        (s, showListQuery spec model)
      | _, _ => (s, "bad-op")
  | "try_set" :: r :: c :: v :: _ =>
    match s, r.toNat?, c.toNat?, v.toNat? with
    | none, _, _, _ => (s, "no-matrix")
    | some st, some r, some c, some v =>
      let op : Matrix.Op Nat := .set r c v
      -- model: `Matrix.trySet` (MatrixMut::try_get_reference_mut); spec: a write inside, `none` outside
      match Matrix.trySet st.m r c v, Rows.pre st.rs op with
      | some m', true =>
        let rs' := Rows.next st.rs op
        (some ⟨m', rs'⟩, "some " ++ answer false rs' ⟨m', none⟩)
      | none, false => (s, "none " ++ answer false st.rs ⟨st.m, none⟩)
      | some m', false => (s, s!"none ## MODEL-SPEC-DISAGREE some {showModel m'}")
      | none, true => (s, "some ## MODEL-SPEC-DISAGREE none")
    | _, _, _, _ => (s, "bad-op")
  | "accepts" :: sl :: nS :: _ =>
    match parseSlice sl.toList, nS.toNat? with
    | some sl, some n =>
      let spec := sl.members n
      let model := (List.range n).filter sl.accepts
      (s, if spec = model then s!"set={showNats spec}"
          else s!"set={showNats spec} ## MODEL-SPEC-DISAGREE set={showNats model}")
    | _, _ => (s, "bad-op")
  | "accepts2d" :: rest =>
    match (optArg "rows" rest).bind (parseSlice ·.toList), (optArg "cols" rest).bind (parseSlice ·.toList),
        rest.reverse with
    | some rsl, some csl, cS :: rS :: _ =>
      match rS.toNat?, cS.toNat? with
      | some r, some c =>
        let rowSet := rsl.members r
        let colSet := csl.members c
        let grid (f : Nat → Nat → Bool) : String :=
          ";".intercalate ((List.range r).map fun i =>
            String.ofList ((List.range c).map fun j => if f i j then '1' else '0'))
        let spec := grid fun i j => rowSet.contains i && colSet.contains j
        let model := grid fun i j => Slice.accepts2D rsl csl i j
        (s, if spec = model then s!"grid={spec}" else s!"grid={spec} ## MODEL-SPEC-DISAGREE grid={model}")
      | _, _ => (s, "bad-op")
    | _, _, _ => (s, "bad-op")
  | "shared" :: valsS :: rest =>
    match s, parseNatList valsS with
    | none, some _ => (s, "no-matrix")
    | some st, some vals =>
      let steps := rest.filterMap fun t =>
        match t.splitOn ":" with
        | ["row", p] => p.toNat?.map fun p => (true, p)
        | ["col", p] => p.toNat?.map fun p => (false, p)
        | _ => none
      let sp := Rows.sharedInserts st.rs steps vals
      let md := Matrix.sharedInserts st.m steps vals
      let showSteps (l : List Bool) := ",".intercalate (l.map fun b => if b then "panic" else "ok")
      let anyPanic := sp.2.1.any id
      let restObs := if anyPanic then "?" else showNats sp.2.2
      let head := if anyPanic then "panic" else "ok"
      let spec := s!"{head} {showSpec sp.1} steps={showSteps sp.2.1} rest={restObs}"
      let model := s!"{head} {showModel md.1} steps={showSteps md.2.1} rest={if anyPanic then "?" else showNats md.2.2}"
      let st' : St := ⟨md.1, sp.1⟩
      if spec = model && sp.2.2 = md.2.2 then
        (some st', s!"{spec} ## len={md.1.data.length} rest={showNats md.2.2}")
      else (some st', s!"{spec} ## MODEL-SPEC-DISAGREE {model} rest={showNats md.2.2}")
    | _, none => (s, "bad-op")
  | "eq_after" :: rest =>
    match s, parseXOp rest with
    | none, some _ => (s, "no-matrix")
    | some st, some x =>
      let res := Matrix.xexec st.m x
      let spec := decide (st.rs = Rows.xnext st.rs x)
      let model := Matrix.eqP st.m res.state && Matrix.eqP res.state st.m
      (s, if spec = model then s!"eq={spec}" else s!"eq={spec} ## MODEL-SPEC-DISAGREE eq={model}")
    | _, none => (s, "bad-op")
  | "try" :: rest =>
    match s, parseXOp rest with
    | none, some _ => (s, "no-matrix")
    | some st, some x =>
      (s, xanswer st x (Matrix.xexec st.m x))
    | _, none => (s, "bad-op")
  | _ =>
    match s, parseXOp toks with
    | none, some _ => (s, "no-matrix")
    | some st, some x =>
      let res := Matrix.xexec st.m x
      let rs' := Rows.xnext st.rs x
      (some ⟨res.state, rs'⟩, xanswer st x res)
    | _, none => (s, "bad-op")

end Driver.C11
