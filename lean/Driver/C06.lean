/-
  Driver.C06 — line protocol for record containers (`RecordTensor`, `RecordMatrix`), element
  types Fp and Rat, one or two WengertLists.  Also carries the container part of C15 (cross-tape
  pairings of every container binary operation, container `reset` / tape `clear` cycles).

    @ tapes <n> fp|rat                                 new case                              → ok
    vars <c> T|M <shape> <values> t=<tape>             RecordTensor/RecordMatrix::variables
    consts <c> T|M <shape> <values>                    …::constants
    addn|subn|muln|divn|subsw|divsw|pown <c> <a> <num> container ∘ number, number ∘ container
    npow <c> <num> <a>
    neg|sin|cos|exp|ln|sqrt <c> <a>
    unary <c> <a> fn=cube|aff|odd
    add|sub|emul|ediv|matmul <c> <a> <b>
    binary <c> <a> <b> fn=axy|wsum|psq
    uassign <a> fn=…                                   unary_assign / do_unary_assign
    lassign <a> <b> fn=add|sub|mul|div|axy|wsum|psq    binary_left_assign  (overwrites a)
    rassign <a> <b> fn=…                               binary_right_assign (overwrites b)
    map <c> <a> fn=<recfn>                             map / map_with_index
    mapmut <a> fn=<recfn>                              map_mut / map_mut_with_index
    fromiter <c> <a> to=T|M shape=<shape> [order=rm|cm|rev] [fn=<recfn>] [chain=<b>] [take=<n>]
    fromiters <c>,<d> <a> to=T|M shape=<shape> fn=<recfn>,<recfn>
    reset <a>                                          reset / do_reset
    clear t=<tape>                                     WengertList::clear
    derivs <a> wrt=<b>,<c>                             derivatives / derivatives_for + at_tensor…
    elem <z> <a> <i,j,…> via=<access>.<get|try>.<val|ref>   one element as a `Record`
                                                       (`index_by`/`index`/owned/`&mut` TensorAccess,
                                                       matrix `get_as_record`), kept as the
                                                       0-dimensional container `From<Record>` makes
    scalar <y> <z> via=<val|ref>.<val|ref>             0-dimensional tensor → `Record` → tensor
    swap <a> <i,j,…> <k,l,…>                           two elements exchanged through
                                                       `get_reference_mut` / `try_get_reference_mut`
    layout <a>                                         `data_layout` of the container as a source
    api-report <route> …                               which of these call sites of the harness were
                                                       never reached during the run (aux; none)

  An operand is `name` (the owned container itself) or `name/<view>`: `ref` (borrowed),
  `acc.<perm>` (`TensorAccess`, dimension `perm[k]` of the source becomes dimension `k`),
  `tr.<perm>` (`TensorTranspose`), `rg.<start>+<len>.…` (`TensorRange` / `MatrixRange`), `rn.<names>` (`rename_view`),
  `rev.<0|1>.…` (`TensorReverse` / `MatrixReverse`).  Assigning operations write through the view.
  `<recfn>`: id | sq | aff | konst | lift.<tape> | half | alt | scale  (the last two use the
  element's row-major position and exist for the `with_index` variants only).

  Answers.  A container: `shape=<shape> const=<0|1> v=<numbers> scalar=ok idx=<positions>`
  (`scalar=` is the harness's own comparison with the same computation on scalar `Record`s).
  `derivs`: `d=<per output element, per input container: the derivatives> scalar=ok` or `none`.
  A panic: `panic(<kind>)`.  `map`/`mapmut`/`fromiter`: `err(<what>)` for an `Err`.

  `derivs` also reports `len=` (the number of entries of the output's tape: the length of every
  derivative vector).  Everything before `##` is what C06 (and C15's container part) speaks about —
  values, constness, tape positions, tape length, derivatives — computed from the *specification* (scalar records,
  Spec/RecordContainer.lean); the code-shaped container model's answer is compared with it on
  every line (`MODEL-SPEC-DISAGREE` is a machinery error: the theorems of Props/C06 say they
  coincide).  After `##`: `layout` only.
-/
import Driver.Prog
import EasyMl.Spec.RecordContainer

namespace Driver.C06
open EasyMl Driver

/-! ### views -/

inductive ViewSpec where
  | own
  | ref
  | acc (perm : List Nat)
  | tr (perm : List Nat)
  | rg (ranges : List (Nat × Nat))
  | rev (flags : List Bool)
  | rn (names : List String)

def parseView (s : String) : Option ViewSpec :=
  match s.splitOn "." with
  | ["ref"] => some .ref
  | "acc" :: ps => (ps.mapM String.toNat?).map .acc
  | "tr" :: ps => (ps.mapM String.toNat?).map .tr
  | "rg" :: rs =>
    (rs.mapM fun (r : String) =>
      match r.splitOn "+" with
      | [a, b] =>
        match a.toNat?, b.toNat? with
        | some a, some b => some (a, b)
        | _, _ => none
      | _ => none).map .rg
  | "rn" :: ns => some (.rn ns)
  | "rev" :: fs =>
    (fs.mapM fun (f : String) => if f = "1" then some true else if f = "0" then some false else none).map .rev
  | _ => none

def parseOperand (tok : String) : Option (String × ViewSpec) :=
  match tok.splitOn "/" with
  | [n] => some (n, .own)
  | [n, v] => (parseView v).map fun v => (n, v)
  | _ => none

/-- all indexes of a shape in row-major order (`ShapeIterator`) -/
def allIndexes : List Nat → List (List Nat)
  | [] => [[]]
  | l :: ls => (List.range l).flatMap fun i => (allIndexes ls).map fun rest => i :: rest

def dot (a b : List Nat) : Nat := (a.zip b).foldl (fun acc p => acc + p.1 * p.2) 0

def isPerm (perm : List Nat) (d : Nat) : Bool :=
  perm.length == d && (List.range d).all fun k => perm.contains k

/-- the shape a view shows and, per view element in row-major order, the offset of the element
    in the (row-major) owned container -/
def viewOf (shape : Shape String) : ViewSpec → Option (Shape String × List Nat)
  | .own | .ref => some (shape, List.range (elements shape))
  | .acc perm =>
    if !isPerm perm shape.length then none else
    let strides := computeStrides shape
    let vshape := perm.map fun p => shape.getD p ("", 0)
    let pstrides := perm.map fun p => strides.getD p 0
    some (vshape, (allIndexes (vshape.map (·.2))).map fun idx => dot idx pstrides)
  | .tr perm =>
    if !isPerm perm shape.length then none else
    let strides := computeStrides shape
    let lens := perm.map fun p => (shape.getD p ("", 0)).2
    let vshape := (shape.zip lens).map fun (d, l) => (d.1, l)
    let pstrides := perm.map fun p => strides.getD p 0
    some (vshape, (allIndexes lens).map fun idx => dot idx pstrides)
  | .rg ranges =>
    if ranges.length != shape.length then none else
    if !((shape.zip ranges).all fun (d, r) => r.2 ≥ 1 && r.1 + r.2 ≤ d.2) then none else
    let strides := computeStrides shape
    let vshape := (shape.zip ranges).map fun (d, r) => (d.1, r.2)
    let base := dot (ranges.map (·.1)) strides
    some (vshape, (allIndexes (vshape.map (·.2))).map fun idx => base + dot idx strides)
  | .rn names =>
    if names.length != shape.length then none else
    some ((shape.zip names).map fun (d, n) => (n, d.2), List.range (elements shape))
  | .rev flags =>
    if flags.length != shape.length then none else
    let strides := computeStrides shape
    let lens := shape.map (·.2)
    some (shape, (allIndexes lens).map fun idx =>
      dot (((idx.zip lens).zip flags).map fun ((i, l), f) => if f then l - 1 - i else i) strides)

def writeBack {α : Type} (base : List α) (offsets : List Nat) (new : List α) : List α :=
  (offsets.zip new).foldl (fun acc (o, x) => acc.set o x) base

/-! ### state -/

structure Entry (R : Type) where
  isMatrix : Bool
  /-- the code-shaped model's container (owned, row-major) -/
  cont : Cont R
  /-- the specification's scalar records, same order -/
  recs : List (Rec R)
  /-- a write through a view changed the tape of part of the container (misuse of
      `from_existing`: the container's single `history` no longer describes its elements) -/
  corrupt : Bool := false

structure CState (R : Type) where
  ntapes : Nat := 0
  w : World R := World.empty
  sw : World R := World.empty
  env : List (String × Entry R) := []

inductive State where
  | none
  | fp (s : CState Fp)
  | rat (s : CState Rat)
  /-- an `f64` case: the harness compares the numbers (container against scalar records) itself;
      the model is run at arbitrary `Fp` values and answers what does not depend on the numbers —
      shapes, constness, panics, errors, tape positions -/
  | f64 (s : CState Fp)

def init : State := .none

section
variable {R : Type} [Elem R] [NumOrd R] [NatCast R]

def flag (ok : Bool) (s : String) : String := if ok then s else s ++ " MODEL-SPEC-DISAGREE"

def histEq (a b : Option Nat) : Bool :=
  match a, b with
  | none, none => true
  | some x, some y => x == y
  | _, _ => false

/-- does the container model agree with the scalar records of the specification -/
def agree (c : Cont R) (recs : List (Rec R)) (histories : Bool := true) : Bool :=
  c.elems.length == recs.length &&
  (c.elems.zip recs).all fun (e, r) =>
    e.1 == r.number && e.2 == r.index && (!histories || histEq c.history r.history)

def showHist : Option Nat → String
  | none => "none"
  | some t => toString t

def showObs (shape : Shape String) (recs : List (Rec R)) : String :=
  let const := recs.all fun r => r.history.isNone
  s!"shape={showShape shape} const={if const then 1 else 0} v={renderList (recs.map (·.number))}"

def showAux (c : Cont R) : String := s!"idx={showNats c.indexes}"

/-- the answer for a container: observable part from the specification's records -/
def answer (c : Cont R) (recs : List (Rec R)) (ok : Bool := true) (histories : Bool := true) : String :=
  flag (ok && agree c recs histories) (showObs c.shape recs ++ " scalar=ok " ++ showAux c)

structure Operand (R : Type) where
  name : String
  entry : Entry R
  spec : ViewSpec
  vshape : Shape String
  offsets : List Nat

def Operand.cont (o : Operand R) : Cont R :=
  ⟨o.vshape, o.offsets.filterMap fun k => o.entry.cont.elems[k]?, o.entry.cont.history⟩

def Operand.recs (o : Operand R) : List (Rec R) := o.offsets.filterMap fun k => o.entry.recs[k]?

def Operand.isOwn (o : Operand R) : Bool :=
  match o.spec with
  | .own => true
  | _ => false

def resolve (s : CState R) (tok : String) : Option (Operand R) :=
  match parseOperand tok with
  | none => none
  | some (n, spec) =>
    match s.env.lookup n with
    | none => none
    | some e =>
      match viewOf e.cont.shape spec with
      | none => none
      | some (vs, offs) => some ⟨n, e, spec, vs, offs⟩

def bind (s : CState R) (n : String) (e : Entry R) : CState R := { s with env := (n, e) :: s.env }

/-- store the outcome of an assigning operation on `o`: through a view only the elements are
    written (the owned container keeps its `history` field) -/
def storeAssigned (s : CState R) (o : Operand R) (c' : Cont R) (recs' : List (Rec R)) : CState R × Entry R :=
  let base := o.entry
  let elems := writeBack base.cont.elems o.offsets c'.elems
  let recs := writeBack base.recs o.offsets recs'
  let e : Entry R :=
    if o.isOwn then { base with cont := { base.cont with elems := elems, history := c'.history }, recs := recs }
    else { base with cont := { base.cont with elems := elems }, recs := recs,
                     corrupt := base.corrupt || !histEq base.cont.history c'.history }
  (bind s o.name e, e)

def answerEntry (e : Entry R) (ok : Bool := true) : String :=
  answer e.cont e.recs ok (!e.corrupt)

/-- do the positions of a new result start at the next unused position and run contiguously -/
def contiguousFrom (c : Cont R) (lenBefore : Nat) : Bool :=
  c.history.isNone || c.indexes == incrementingIndexes lenBefore c.elems.length

def tapeLen (w : World R) : Option Nat → Nat
  | some h => (w h).length
  | none => 0

/-! ### functions on records (`map`, `map_mut`, `from_iter`) -/

/-- named functions `Record → Record` (the harness has the same table); `k` is the element's
    row-major position -/
def recFn (name : String) : Option (Nat → Rec R → World R → Rec R × World R) :=
  match name.splitOn "." with
  | ["id"] => some fun _ r w => (r, w)
  | ["sq"] => some fun _ r w =>
      match r.mul r w with
      | .ok x => x
      | .panic _ => (r, w)
  | ["aff"] => some fun _ r w =>
      let (m, w1) := r.mulNum two w
      m.addNum 1 w1
  | ["konst"] => some fun _ r w => (Rec.constant r.number, w)
  | ["lift", t] => t.toNat?.map fun t => fun _ r w => Rec.mkVar r.number t w
  | ["half"] => some fun _ r w => if NumOrd.lt r.number 0 then (Rec.constant r.number, w) else (r, w)
  | ["alt"] => some fun k r w => if k % 2 == 0 then (r, w) else (Rec.constant r.number, w)
  | ["scale"] => some fun k r w => r.mulNum ((k + 1 : Nat) : R) w
  | _ => none

/-- A named function together with what the caller does before the call: `cap.<t>` creates a
    variable on tape `t` (on the model's and on the specification's tapes) which the closure
    captures and multiplies its argument with. -/
def recFnS (s : CState R) (name : String) :
    Option (CState R × (Nat → Rec R → World R → Rec R × World R)) :=
  match name.splitOn "." with
  | ["cap", t] => t.toNat?.map fun t =>
      let (cap, w1) := Rec.mkVar three t s.w
      let (_, sw1) := Rec.mkVar three t s.sw
      ({ s with w := w1, sw := sw1 },
       fun _ r w =>
        match r.mul cap w with
        | .ok x => x
        | .panic _ => (r, w))
  | _ => (recFn name).map fun f => (s, f)

/-- `fn=boom.<k>`: the closure panics at its `k`-th call (counted from 0) -/
def boomOf (rest : List String) : Option Nat :=
  match ((optArg "fn" rest).getD "").splitOn "." with
  | ["boom", k] => k.toNat?
  | _ => none

/-- the function a `boom` closure computes until it panics -/
def sqFn : Nat → Rec R → World R → Rec R × World R := fun _ r w =>
  match r.mul r w with
  | .ok x => x
  | .panic _ => (r, w)

/-- only the `with_index` variants hand the element's position to the function -/
def withIndex (rest : List String) (f : Nat → Rec R → World R → Rec R × World R) :
    Nat → Rec R → World R → Rec R × World R :=
  if (optArg "via" rest) == some "with_index" then f else fun _ => f 0

def showIterError : Cont.IterError → String
  | .shape => "err(shape)"
  | .empty => "err(empty)"
  | .inconsistent f l => s!"err(inconsistent first={showHist f} later={showHist l})"

/-- column-major order of a row-major list of a two dimensional shape -/
def columnMajor {α : Type} (shape : Shape String) (l : List α) : List α :=
  match shape with
  | [(_, r), (_, c)] => (List.range c).flatMap fun j => (List.range r).filterMap fun i => l[i * c + j]?
  | _ => l

/-! ### steps -/

def parseValues (s : String) : Option (List R) := (splitComma s).mapM Elem.parse

def stepCreate (s : CState R) (isVar : Bool) (name kind shapeS valsS : String) (rest : List String) :
    CState R × String :=
  match parseShape shapeS, parseValues (R := R) valsS with
  | some shape, some vals =>
    let isMatrix := kind == "M"
    if isVar then
      let h := ((optArg "t" rest).bind String.toNat?).getD 0
      let lenBefore := (s.w h).length
      let (c, w') := Cont.variables h shape vals s.w
      let (recs, sw') := variablesRecs h vals s.sw
      let e : Entry R := { isMatrix := isMatrix, cont := c, recs := recs }
      ({ bind s name e with w := w', sw := sw' }, answerEntry e (contiguousFrom c lenBefore))
    else
      let c := Cont.constants shape vals
      let e : Entry R := { isMatrix := isMatrix, cont := c, recs := vals.map Rec.constant }
      (bind s name e, answerEntry e)
  | _, _ => (s, "bad-op")

def parseUOp (op : String) (num : Option R) (rest : List String) : Option (UOp R) :=
  match op, num with
  | "addn", some k => some (.addN k)
  | "subn", some k => some (.subN k)
  | "muln", some k => some (.mulN k)
  | "divn", some k => some (.divN k)
  | "subsw", some k => some (.subSw k)
  | "divsw", some k => some (.divSw k)
  | "pown", some k => some (.powN k)
  | "npow", some k => some (.nPow k)
  | "neg", _ => some .neg
  | "sin", _ => some .sin
  | "cos", _ => some .cos
  | "exp", _ => some .exp
  | "ln", _ => some .ln
  | "sqrt", _ => some .sqrt
  | "unary", _ => ((optArg "fn" rest).bind (unaryFn (R := R))).map fun (f, df) => .fn f df
  | _, _ => none

def stepUnary (s : CState R) (name : String) (o : Operand R) (op : UOp R) : CState R × String :=
  let c := o.cont
  let lenBefore := tapeLen s.w c.history
  let (c', w') := op.container c s.w
  let (recs', sw') := Cont.mapRecs op.scalar o.recs s.sw
  let e : Entry R := { isMatrix := o.entry.isMatrix, cont := c', recs := recs' }
  ({ bind s name e with w := w', sw := sw' }, answerEntry e (contiguousFrom c' lenBefore))

def bopFn (name : String) : Option (BOp R) :=
  match name with
  | "add" => some (.fn Fn.Addition.function Fn.Addition.dx Fn.Addition.dy)
  | "sub" => some (.fn Fn.Subtraction.function Fn.Subtraction.dx Fn.Subtraction.dy)
  | "mul" => some (.fn Fn.Multiplication.function Fn.Multiplication.dx Fn.Multiplication.dy)
  | "div" => some (.fn Fn.Division.function Fn.Division.dx Fn.Division.dy)
  | other => (binaryFn (R := R) other).map fun (f, dfx, dfy) => .fn f dfx dfy

def parseBOp (op : String) (rest : List String) : Option (BOp R) :=
  match op with
  | "add" => some .add
  | "sub" => some .sub
  | "emul" => some .mul
  | "ediv" => some .div
  | "binary" => (optArg "fn" rest).bind (bopFn (R := R))
  | _ => none

def stepBinary (s : CState R) (name : String) (a b : Operand R) (op : BOp R) : CState R × String :=
  let (ca, cb) := (a.cont, b.cont)
  let lenBefore := tapeLen s.w (Cont.pickHistory ca.history cb.history)
  match op.container ca cb s.w with
  | .panic k => (s, s!"panic({k})")
  | .ok (c', w') =>
    match zipRecs op.scalar a.recs b.recs s.sw with
    | .panic k => (s, s!"MODEL-SPEC-DISAGREE spec panic({k})")
    | .ok (recs', sw') =>
      let e : Entry R := { isMatrix := a.entry.isMatrix, cont := c', recs := recs' }
      ({ bind s name e with w := w', sw := sw' }, answerEntry e (contiguousFrom c' lenBefore))

def stepMatmul (s : CState R) (name : String) (a b : Operand R) : CState R × String :=
  let (ca, cb) := (a.cont, b.cont)
  let res := if a.entry.isMatrix then ca.matmulMatrix cb s.w else ca.matmulTensor cb s.w
  match res with
  | .panic k => (s, s!"panic({k})")
  | .ok (c', w') =>
    match Cont.dims2 ca.shape, Cont.dims2 cb.shape with
    | some (l0, l1), some (_, r1) =>
      match matmulRecs a.recs b.recs l0.2 l1.2 r1.2 s.sw with
      | .panic k => (s, s!"MODEL-SPEC-DISAGREE spec panic({k})")
      | .ok (recs', sw') =>
        let e : Entry R := { isMatrix := a.entry.isMatrix, cont := c', recs := recs' }
        ({ bind s name e with w := w', sw := sw' }, answerEntry e)
    | _, _ => (s, "MODEL-SPEC-DISAGREE dims")

def stepUAssign (s : CState R) (o : Operand R) (op : UOp R) : CState R × String :=
  let c := o.cont
  let (fx, dfx) := op.fns
  let (c', w') := c.unaryAssign fx dfx s.w
  let (recs', sw') := Cont.mapRecs op.scalar o.recs s.sw
  let (s', e) := storeAssigned s o c' recs'
  ({ s' with w := w', sw := sw' }, answerEntry e)

/-- `left`: `a.binary_left_assign(b)` overwrites `a`; otherwise `a.binary_right_assign(b)`
    overwrites `b`.  The specification is the allocating scalar computation in both cases. -/
def stepBAssign (s : CState R) (left : Bool) (a b : Operand R) (op : BOp R) : CState R × String :=
  let (ca, cb) := (a.cont, b.cont)
  let (f, dfx, dfy) := op.fns
  let res := if left then ca.binaryLeftAssign cb f dfx dfy s.w else ca.binaryRightAssign cb f dfx dfy s.w
  match res with
  | .panic k => (s, s!"panic({k})")
  | .ok (c', w') =>
    match zipRecs op.scalar a.recs b.recs s.sw with
    | .panic k => (s, s!"MODEL-SPEC-DISAGREE spec panic({k})")
    | .ok (recs', sw') =>
      let (s', e) := storeAssigned s (if left then a else b) c' recs'
      ({ s' with w := w', sw := sw' }, answerEntry e)

def stepMap (s : CState R) (name : String) (o : Operand R)
    (f : Nat → Rec R → World R → Rec R × World R) : CState R × String :=
  let c := o.cont
  let (w', res) := Cont.map o.entry.isMatrix c f s.w
  let (recs', sw') := Cont.mapRecsIdx f 0 o.recs s.sw
  let s := { s with w := w', sw := sw' }
  match res with
  | .panic k => (s, s!"panic({k})")
  | .ok (.error (first, later)) => (s, s!"err(inconsistent first={showHist first} later={showHist later})")
  | .ok (.ok c') =>
    let e : Entry R := { isMatrix := o.entry.isMatrix, cont := c', recs := recs' }
    (bind s name e, answerEntry e)

def stepMapMut (s : CState R) (o : Operand R)
    (f : Nat → Rec R → World R → Rec R × World R) : CState R × String :=
  let c := o.cont
  let (w', res) := Cont.mapMut c f s.w
  match res with
  | .panic k => ({ s with w := w' }, s!"panic({k})")
  | .ok (c', err) =>
    let (recs', sw') := Cont.mapRecsIdx f 0 o.recs s.sw
    let (s', e) := storeAssigned { s with w := w', sw := sw' } o c' recs'
    match err with
    | none => (s', answerEntry e)
    | some (first, later) =>
      -- the container is left with mixed histories: only numbers and positions are compared
      let e' := { e with corrupt := true }
      (bind s' o.name e',
       s!"err(inconsistent first={showHist first} later={showHist later}) " ++ answerEntry e')

/-- `map` / `map_mut` with a closure that panics at element `k` -/
def stepMapBoom (s : CState R) (mutate : Bool) (o : Operand R) (k : Nat) : CState R × String :=
  let c := o.cont
  let (srecs', sw') := Cont.mapRecsIdx sqFn 0 (o.recs.take k) s.sw
  if !mutate then
    ({ s with w := c.mapPanicAt sqFn k s.w, sw := sw' }, "panic(explicit)")
  else
    let (c', w') := c.mapMutPanicAt sqFn k s.w
    let s := { s with w := w', sw := sw' }
    -- an owned operand is handed over by value: the harness keeps its own copy untouched;
    -- through a view the elements processed so far have been overwritten
    if o.isOwn then (s, "panic(explicit)")
    else
      let (s', _) := storeAssigned s o c' (srecs' ++ o.recs.drop k)
      ({ s' with sw := sw' }, "panic(explicit)")

/-- `unary` / `unary_assign` with `fx` panicking at element `k` -/
def stepUnaryBoom (s : CState R) (o : Operand R) (k : Nat) : CState R × String :=
  match unaryFn (R := R) "cube" with
  | none => (s, "bad-op")
  | some (f, df) =>
    let (_, sw') := Cont.mapRecs (fun r => r.unary f df) (o.recs.take k) s.sw
    ({ s with w := o.cont.unaryPanicAt f df k s.w, sw := sw' }, "panic(explicit)")

/-- `binary` and its assigning forms with `fxy` panicking at pair `k` -/
def stepBinaryBoom (s : CState R) (a b : Operand R) (k : Nat) (right : Bool := false) :
    CState R × String :=
  match binaryFn (R := R) "psq" with
  | none => (s, "bad-op")
  | some (f, dfx, dfy) =>
    let (ca, cb) := (a.cont, b.cont)
    let sw' :=
      if ca.shape != cb.shape then s.sw
      else match zipRecs (fun x y => x.binary y f dfx dfy) (a.recs.take k) (b.recs.take k) s.sw with
        | .ok (_, sw') => sw'
        | .panic _ => s.sw
    let w' :=
      if right then
        cb.binaryPanicAt ca (fun y x => f x y) (fun y x => dfy x y) (fun y x => dfx x y) k s.w
      else ca.binaryPanicAt cb f dfx dfy k s.w
    ({ s with w := w', sw := sw' }, "panic(explicit)")

def orderRecs (order : String) (shape : Shape String) (recs : List (Rec R)) : List (Rec R) :=
  match order with
  | "cm" => columnMajor shape recs
  | "rev" => recs.reverse
  | _ => recs

def fromIter (toMatrix : Bool) (shape : Shape String) (recs : List (Rec R)) : Except Cont.IterError (Cont R) :=
  if toMatrix then
    match shape with
    | [(rn, r), (cn, c)] => Cont.fromIterMatrix rn cn r c recs
    | _ => .error .shape
  else Cont.fromIterTensor shape recs

def stepFromIter (s : CState R) (name : String) (o : Operand R) (rest : List String) : CState R × String :=
  let toMatrix := (optArg "to" rest) == some "M"
  match (optArg "shape" rest).bind parseShape with
  | none => (s, "bad-op")
  | some shape =>
    let order := (optArg "order" rest).getD "rm"
    let (s, f0) := (((optArg "fn" rest).bind (recFnS s))).getD (s, fun _ r w => (r, w))
    -- `with_index`, `.into()`, `from_with_index`: the element's position is handed to the function
    let indexed := ["with_index", "into", "from_with_index"].contains ((optArg "via" rest).getD "plain")
    let f : Nat → Rec R → World R → Rec R × World R := if indexed then f0 else fun _ => f0 0
    let chained : Option (Operand R) := (optArg "chain" rest).bind (resolve s)
    if (optArg "chain" rest).isSome && chained.isNone then (s, "bad-ref") else
    let take := (optArg "take" rest).bind String.toNat?
    let src (model : Bool) : List (Rec R) :=
      let a := orderRecs order o.vshape (if model then o.cont.toRecs else o.recs)
      let b := match chained with
        | some b => if model then b.cont.toRecs else b.recs
        | none => []
      let all := a ++ b
      match take with
      | some n => all.take n
      | none => all
    let (mrecs, w') := Cont.mapRecsIdx f 0 (src true) s.w
    let (srecs, sw') := Cont.mapRecsIdx f 0 (src false) s.sw
    let s := { s with w := w', sw := sw' }
    match fromIter toMatrix shape mrecs with
    | .error e => (s, showIterError e)
    | .ok c' =>
      let e : Entry R := { isMatrix := toMatrix, cont := c', recs := srecs }
      (bind s name e, "ok " ++ answerEntry e)

def stepFromIters (s : CState R) (names : List String) (o : Operand R) (rest : List String) : CState R × String :=
  let toMatrix := (optArg "to" rest) == some "M"
  match (optArg "shape" rest).bind parseShape, ((optArg "fn" rest).map (·.splitOn ",")).bind (·.mapM (recFn (R := R))) with
  | some shape, some [f1, f2] =>
    match names with
    | [n1, n2] =>
      -- the array `[f1(x), f2(x)]` is built per element: the two functions' tape effects interleave
      let both (recs : List (Rec R)) (w : World R) : List (Rec R) × List (Rec R) × World R :=
        recs.foldl (fun (acc : List (Rec R) × List (Rec R) × World R) r =>
          let (l1, l2, w) := acc
          let (y1, w1) := f1 0 r w
          let (y2, w2) := f2 0 r w1
          (l1 ++ [y1], l2 ++ [y2], w2)) ([], [], w)
      let (m1, m2, w') := both o.cont.toRecs s.w
      let (s1, s2, sw') := both o.recs s.sw
      let s := { s with w := w', sw := sw' }
      let results := if toMatrix then
          match shape with
          | [(rn, r), (cn, c)] => Cont.fromItersMatrix rn cn r c [m1, m2]
          | _ => [.error .shape, .error .shape]
        else Cont.fromItersTensor shape [m1, m2]
      let one (s : CState R) (n : String) (res : Except Cont.IterError (Cont R)) (srecs : List (Rec R)) :
          CState R × String :=
        match res with
        | .error e => (s, showIterError e)
        | .ok c' =>
          let e : Entry R := { isMatrix := toMatrix, cont := c', recs := srecs }
          (bind s n e, "ok " ++ answerEntry e)
      match results with
      | [r1, r2] =>
        let (s, a1) := one s n1 r1 s1
        let (s, a2) := one s n2 r2 s2
        (s, s!"{a1} | {a2}")
      | _ => (s, "bad-op")
    | _ => (s, "bad-op")
  | _, _ => (s, "bad-op")

def stepReset (s : CState R) (o : Operand R) : CState R × String :=
  let c := o.cont
  let lenBefore := tapeLen s.w c.history
  let (c', w') := c.reset s.w
  let (recs', sw') := resetRecs o.recs s.sw
  let (s', e) := storeAssigned s o c' recs'
  ({ s' with w := w', sw := sw' }, answerEntry e (contiguousFrom c' lenBefore))

def showDerivs (ds : List (List (List R))) : String :=
  "|".intercalate (ds.map fun perOut => ";".intercalate (perOut.map renderList))

def stepDerivs (s : CState R) (out : Operand R) (wrt : List (Operand R)) (via : String) : String :=
  let c := out.cont
  -- the code-shaped model
  let model : Outcome (Option (List (List (List R)))) :=
    let ds : Outcome (Option (List (List R))) :=
      if via == "for" then
        match Cont.collectOutcomes ((List.range c.elems.length).map fun k => c.derivativesFor k s.w) with
        | .panic k => .panic k
        | .ok l => .ok (l.mapM id)
      else c.derivatives s.w
    match ds with
    | .panic k => .panic k
    | .ok none => .ok none
    | .ok (some ds) =>
      match Cont.collectOutcomes (ds.map fun d =>
        Cont.collectOutcomes (wrt.map fun i => Cont.derivativesAt d i.cont)) with
      | .panic k => .panic k
      | .ok l => .ok (some l)
  -- the specification: scalar records
  let spec : Outcome (Option (List (List (List R)))) :=
    if out.recs.all fun r => r.history.isNone then .ok none else
    match Cont.collectOutcomes (out.recs.map fun r => r.derivatives s.sw) with
    | .panic k => .panic k
    | .ok ds =>
      match Cont.collectOutcomes (ds.map fun d =>
        Cont.collectOutcomes (wrt.map fun i =>
          Cont.collectOutcomes (i.recs.map fun x => derivativeAt d x))) with
      | .panic k => .panic k
      | .ok l => .ok (some l)
  let same (a b : List (List (List R))) : Bool :=
    a.length == b.length && (a.zip b).all fun (x, y) =>
      x.length == y.length && (x.zip y).all fun (p, q) => beqList p q
  match spec, model with
  | .ok none, .ok none => "none"
  | .ok (some a), .ok (some b) =>
    flag (same a b) s!"len={tapeLen s.w c.history} d={showDerivs a} scalar=ok"
  | .panic k, .panic k' => flag (k == k') s!"panic({k})"
  | .panic k, _ => s!"panic({k}) MODEL-SPEC-DISAGREE"
  | _, _ => "MODEL-SPEC-DISAGREE"

def showRec (r : Rec R) : String :=
  s!"v={Elem.render r.number} const={if r.history.isNone then 1 else 0}"

/-- `elem`: one element as a record, kept as a 0-dimensional container -/
def stepElem (s : CState R) (name : String) (o : Operand R) (idx : List Nat) (via : String) :
    CState R × String :=
  let c := o.cont
  let pos := Cont.position o.vshape idx
  let tryForm := (via.splitOn ".").contains "try"
  let specRec : Option (Rec R) := pos.bind fun k => o.recs[k]?
  match c.tryGetAsRecord pos, specRec with
  | none, none => (s, if tryForm then "none" else "panic(explicit)")
  | some r, some sr =>
    let ok := r.number == sr.number && r.index == sr.index && histEq r.history sr.history
    let z := Cont.ofRecord r
    let e : Entry R := { isMatrix := false, cont := z, recs := [sr] }
    (bind s name e, flag ok (showRec sr ++ s!" scalar=ok idx={r.index}"))
  | _, _ => (s, "MODEL-SPEC-DISAGREE")

/-- `scalar`: 0-dimensional tensor → record → 0-dimensional tensor -/
def stepScalar (s : CState R) (name : String) (o : Operand R) : CState R × String :=
  match o.cont.toRecord, o.recs with
  | .ok r, [sr] =>
    let e : Entry R := { isMatrix := false, cont := Cont.ofRecord r, recs := [sr] }
    (bind s name e, answerEntry e)
  | .panic k, _ => (s, s!"panic({k})")
  | _, _ => (s, "MODEL-SPEC-DISAGREE")

def stepSwap (s : CState R) (o : Operand R) (i j : List Nat) : CState R × String :=
  match Cont.position o.vshape i, Cont.position o.vshape j with
  | some pi, some pj =>
    let c' := o.cont.swapElems pi pj
    let recs' := listSwap o.recs pi pj
    let (s', e) := storeAssigned s o c' recs'
    (s', answerEntry e)
  | _, _ => (s, "none")

def stepLayout (o : Operand R) : String :=
  if o.entry.isMatrix then "ok ## layout=row_major"
  else s!"ok ## layout=linear:{",".intercalate (o.entry.cont.shape.map (·.1))}"

/-- a `boom` closure that is never called often enough to panic computes `cube` / `psq` -/
def unboom (fn : String) (toks : List String) : List String :=
  toks.map fun t => if t.startsWith "fn=boom." then "fn=" ++ fn else t

def stepC (s : CState R) (toks0 : List String) : CState R × String :=
  let get (tok : String) := resolve s tok
  -- panicking closures first
  let boomed : Option (CState R × String) :=
    match boomOf toks0, toks0 with
    | some k, "unary" :: _ :: a :: _ | some k, "uassign" :: a :: _ =>
      (get a).bind fun o => if k < o.offsets.length then some (stepUnaryBoom s o k) else none
    | some k, "binary" :: _ :: a :: b :: _ | some k, "lassign" :: a :: b :: _ =>
      match get a, get b with
      | some a, some b => if k < min a.offsets.length b.offsets.length then some (stepBinaryBoom s a b k) else none
      | _, _ => none
    | some k, "rassign" :: a :: b :: _ =>
      match get a, get b with
      | some a, some b => if k < min a.offsets.length b.offsets.length then some (stepBinaryBoom s a b k true) else none
      | _, _ => none
    | _, _ => none
  if let some r := boomed then r else
  let toks :=
    match toks0 with
    | "unary" :: _ | "uassign" :: _ => unboom "cube" toks0
    | "binary" :: _ | "lassign" :: _ | "rassign" :: _ => unboom "psq" toks0
    | _ => toks0
  match toks with
  | "vars" :: name :: kind :: shape :: vals :: rest => stepCreate s true name kind shape vals rest
  | "consts" :: name :: kind :: shape :: vals :: rest => stepCreate s false name kind shape vals rest
  | "clear" :: rest =>
    match (optArg "t" rest).bind String.toNat? with
    | some t => ({ s with w := s.w.clear t, sw := s.sw.clear t }, "ok")
    | none => (s, "bad-op")
  | "reset" :: a :: _ =>
    match get a with
    | some o => stepReset s o
    | none => (s, "bad-ref")
  | "derivs" :: a :: rest =>
    match get a, ((optArg "wrt" rest).map splitComma).getD [] |>.mapM get with
    | some o, some wrt => (s, stepDerivs s o wrt ((optArg "via" rest).getD "all"))
    | _, _ => (s, "bad-ref")
  | "elem" :: name :: a :: idx :: rest =>
    match get a, parseNatList idx with
    | some o, some idx => stepElem s name o idx ((optArg "via" rest).getD "index_by.get.val")
    | none, _ => (s, "bad-ref")
    | _, none => (s, "bad-op")
  | "scalar" :: name :: a :: _ =>
    match get a with
    | some o => stepScalar s name o
    | none => (s, "bad-ref")
  | "swap" :: a :: i :: j :: _ =>
    match get a, parseNatList i, parseNatList j with
    | some o, some i, some j => stepSwap s o i j
    | none, _, _ => (s, "bad-ref")
    | _, _, _ => (s, "bad-op")
  | "layout" :: a :: _ =>
    match get a with
    | some o => (s, stepLayout o)
    | none => (s, "bad-ref")
  | "uassign" :: a :: rest =>
    match get a, parseUOp (R := R) "unary" none rest with
    | some o, some op => stepUAssign s o op
    | none, _ => (s, "bad-ref")
    | _, none => (s, "bad-op")
  | "lassign" :: a :: b :: rest | "rassign" :: a :: b :: rest =>
    match get a, get b, (optArg "fn" rest).bind (bopFn (R := R)) with
    | some a, some b, some op => stepBAssign s (toks.head? == some "lassign") a b op
    | _, _, none => (s, "bad-op")
    | _, _, _ => (s, "bad-ref")
  | "map" :: name :: a :: rest =>
    match get a, boomOf rest with
    | none, _ => (s, "bad-ref")
    | some o, some k =>
      if k < o.offsets.length then stepMapBoom s false o k else stepMap s name o sqFn
    | some o, none =>
      match (optArg "fn" rest).bind (recFnS s) with
      | some (s1, f) => stepMap s1 name o (withIndex rest f)
      | none => (s, "bad-op")
  | "mapmut" :: a :: rest =>
    match get a, boomOf rest with
    | none, _ => (s, "bad-ref")
    | some o, some k =>
      if k < o.offsets.length then stepMapBoom s true o k else stepMapMut s o sqFn
    | some o, none =>
      match (optArg "fn" rest).bind (recFnS s) with
      | some (s1, f) => stepMapMut s1 o (withIndex rest f)
      | none => (s, "bad-op")
  | "fromiter" :: name :: a :: rest =>
    match get a with
    | some o => stepFromIter s name o rest
    | none => (s, "bad-ref")
  | "fromiters" :: names :: a :: rest =>
    match get a with
    | some o => stepFromIters s (splitComma names) o rest
    | none => (s, "bad-ref")
  | "npow" :: name :: num :: a :: rest =>
    match get a, parseUOp (R := R) "npow" (Elem.parse num) rest with
    | some o, some op => stepUnary s name o op
    | none, _ => (s, "bad-ref")
    | _, none => (s, "bad-op")
  | "matmul" :: name :: a :: b :: _ =>
    match get a, get b with
    | some a, some b => stepMatmul s name a b
    | _, _ => (s, "bad-ref")
  | op :: name :: a :: rest =>
    if ["add", "sub", "emul", "ediv", "binary"].contains op then
      match rest with
      | b :: rest' =>
        match get a, get b, parseBOp (R := R) op rest' with
        | some a, some b, some bop => stepBinary s name a b bop
        | _, _, none => (s, "bad-op")
        | _, _, _ => (s, "bad-ref")
      | [] => (s, "bad-op")
    else
      let num : Option R := rest.head?.bind Elem.parse
      match get a, parseUOp (R := R) op num rest with
      | some o, some uop => stepUnary s name o uop
      | _, none => (s, "bad-op")
      | none, _ => (s, "bad-ref")
  | _ => (s, "bad-op")

end

/-- is the piece a decimal literal such as `-2.5` -/
def isDecimal (p : String) : Bool :=
  let q := if p.startsWith "-" then (p.drop 1).toString else p
  if q == "inf" || q == "NaN" then true else
  match q.splitOn "." with
  | [a, b] => a.length > 0 && b.length > 0 && a.all Char.isDigit && b.all Char.isDigit
  | _ => false

/-- `f64` cases: every decimal literal is replaced by some natural number (the model's numbers
    are not compared for these cases) -/
def encodeFloats (tok : String) : String :=
  let pieces := tok.splitOn ","
  if pieces.all isDecimal then
    ",".intercalate (pieces.map fun p =>
      toString ((p.foldl (fun acc c => (acc * 131 + c.toNat) % 1000000007) 7) + 2))
  else tok

/-- `f64` cases: the numbers are left out of the answer -/
def withoutNumbers (answer : String) : String :=
  " ".intercalate (((answer.splitOn " ").filter fun t => !t.startsWith "v=").map fun t =>
    if t.startsWith "d=" then "d=*" else t)

def step (s : State) (toks : List String) : State × String :=
  match toks with
  | "@" :: "tapes" :: n :: "f64" :: _ => (.f64 { ntapes := n.toNat?.getD 1 }, "ok")
  | "@" :: "tapes" :: n :: "rat" :: _ => (.rat { ntapes := n.toNat?.getD 1 }, "ok")
  | "@" :: "tapes" :: n :: _ => (.fp { ntapes := n.toNat?.getD 1 }, "ok")
  -- the harness's account of which API items its run reached (scan of the source tree against
  -- the table of harness/src/c06_api.rs): nothing may be missing
  | "api-report" :: routes => (s, s!"api-report n={routes.length} ## missing=")
  | _ =>
    match s with
    | .none => (s, "bad-op")
    | .fp p => let (p', a) := stepC p toks; (.fp p', a)
    | .rat p => let (p', a) := stepC p toks; (.rat p', a)
    | .f64 p => let (p', a) := stepC p (toks.map encodeFloats); (.f64 p', withoutNumbers a)

end Driver.C06
