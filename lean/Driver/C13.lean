/-
  Driver.C13 — line protocol for tensor transformations, equality and similarity.

    @ t <shape> <data>                         Tensor::from                 → ok | panic(explicit)
    reorder <names> src=<S> form=alloc|mut|lazy                             → shape=… data=… | panic(explicit)
    transpose <names> src=<S> form=alloc|mut|lazy
    reshape <shape> form=mut|owned
    rename <names> src=<S> form=mut|owned|view
    map src=<S> form=alloc|mut                 x ↦ 3x+1
    mapi src=<S> form=alloc|mut                (idx, x) ↦ 1000x + code idx
    zip <shape2> <data2> src=<S> rsrc=<S> idx=0|1
    first src=<S>      scalar src=<S>                                       → <value>
    into_matrix                                                             → rows=… cols=… data=…
    from_matrix <rows> <cols> <data> <rowname> <colname>                    → shape=… data=… | err | panic(..)
    eq <shape2> <data2> src=<S> rsrc=<S> via=tt|tv|vt|vv                    → true | false
    similar <shape2> <data2> src=<S> rsrc=<S> via=…                         → true | false

  <S> (which source the operation is applied to):  t  the Tensor itself (Tensor::… methods),
  v  TensorView<&Tensor>,  a:<names>  TensorView<TensorAccess>,  x:<names>  TensorView<TensorTranspose>,
  r:<names>  TensorView<TensorRename>.  <data> is a comma list or `i<start>x<count>`.

  The answer before `##` is the *specification's* (Spec/Transform.lean: value of the lazy view,
  equality of values, ∃ ordering); the code-shaped model's answer (Model/Transform.lean) must be
  the same, otherwise the line says MODEL-SPEC-DISAGREE.  For in-place mapping through a view the
  `aux` part carries the underlying tensor's data afterwards.
-/
import EasyMl.Model.Transform
import EasyMl.Spec.Transform
import Driver.Parse
import Driver.Surface

namespace Driver.C13
open EasyMl Driver

abbrev T := Tensor String Nat
abbrev V := TView String Nat
abbrev LV := Spec.LazyView String Nat

/-- an `f64` element of the degenerate-data section, as far as `==` can tell: NaN or a key
    (`-0` and `0` share a key) -/
structure FTok where
  isNan : Bool
  key : String
  deriving Repr

/-- the element type's own `==` (IEEE: NaN differs from everything incl. itself, 0 == -0) -/
def FTok.feq (a b : FTok) : Bool := !a.isNan && !b.isNan && a.key == b.key

def parseFTok (s : String) : FTok :=
  if s = "nan" then ⟨true, "nan"⟩ else if s = "-0" then ⟨false, "0"⟩ else ⟨false, s⟩

structure State where
  tensor : Option T := none
  /-- base tensor of the `f64` degenerate-data section -/
  ftensor : Option (Tensor String FTok) := none

def init : State := {}

def both (spec model : String) : String :=
  if spec = model then spec else s!"{spec} ## MODEL-SPEC-DISAGREE {model}"

def parseData (s : String) : Option (List Nat) :=
  if s.startsWith "i" then
    match (s.drop 1).toString.splitOn "x" with
    | [a, n] =>
      match a.toNat?, n.toNat? with
      | some a, some n => some ((List.range n).map (· + a))
      | _, _ => none
    | _ => none
  else parseNatList s

def showVal (shape : List (String × Nat)) (data : List Nat) : String :=
  s!"shape={showShape shape} data={showNats data}"

def showTVal (v : Spec.TVal String Nat) : String := showVal v.shape v.elems

def showT (t : T) : String := showVal t.shape t.data

def showOut (o : Outcome T) : String := showOutcome showT o

/-! element functions used by map / mapi / zip (the harness uses the same) -/
def mapF (x : Nat) : Nat := 3 * x + 1
def code (idx : List Nat) : Nat := idx.foldl (fun acc i => acc * 7 + i + 1) 0
def mapiF (idx : List Nat) (x : Nat) : Nat := 1000 * x + code idx
def zipF (x y : Nat) : Nat := 1000 * x + y
def zipiF (idx : List Nat) (x y : Nat) : Nat := (1000 * x + y) * 10000000 + code idx

/-! sources -/

inductive Src where
  | tensor | view
  | access (names : List String)
  | transpose (names : List String)
  | rename (names : List String)

def parseSrc (s : String) : Option Src :=
  if s = "t" then some .tensor
  else if s = "v" then some .view
  else if s.startsWith "a:" then some (.access (parseNames (s.drop 2).toString))
  else if s.startsWith "x:" then some (.transpose (parseNames (s.drop 2).toString))
  else if s.startsWith "r:" then some (.rename (parseNames (s.drop 2).toString))
  else none

def srcArg (key : String) (toks : List String) : Option Src :=
  match optArg key toks with
  | some s => parseSrc s
  | none => some .tensor

/-- the code-shaped source (`none` = constructing it panics) -/
def modelSrc (t : T) : Src → Option V
  | .tensor | .view => some t.view
  | .access names => t.view.access names
  | .transpose names => t.view.transposeView names
  | .rename names =>
    match t.view.renameView names with
    | .ok v => some v
    | .panic _ => none

/-- the specification-level view -/
def specSrc (t : T) : Src → Option LV
  | .tensor | .view => some (Spec.ofData t.shape t.data)
  | .access names =>
    if decide (Spec.IsOrdering t.shape names) then some (Spec.reordered (Spec.ofData t.shape t.data) names)
    else none
  | .transpose names =>
    if decide (Spec.IsOrdering t.shape names) then some (Spec.transposed (Spec.ofData t.shape t.data) names)
    else none
  | .rename names =>
    if decide (names.Nodup) then some (Spec.renamed (Spec.ofData t.shape t.data) names) else none

def isTensor : Src → Bool
  | .tensor => true
  | _ => false

def panicS : String := "panic(explicit)"

def specOr (o : Option (Spec.TVal String Nat)) : String :=
  match o with
  | some v => showTVal v
  | none => panicS

/-- the source tensor after an in-place map through a view of it -/
def mapMutModel (t : T) (src : Src) (f : List Nat → Nat → Nat) : Option T :=
  match src with
  | .tensor | .view => some (t.mapMutWithIndex f)
  | .access names | .transpose names =>
    match t.indexBy names with
    | some a => some (a.mapMutWithIndex f)
    | none => none
  | .rename names => if hasDuplicates names then none else some (t.mapMutWithIndex f)

def viewOf (t : T) (src : Src) : Option V := modelSrc t src

def stepOp (t : T) (toks : List String) : String :=
  match toks with
  | "reorder" :: namesS :: rest =>
    let names := parseNames namesS
    match srcArg "src" rest, optArg "form" rest with
    | some src, form =>
      let spec := match specSrc t src with
        | none => panicS
        | some sv =>
          if decide (Spec.IsOrdering sv.shape names) then showTVal (Spec.materialise (Spec.reordered sv names))
          else panicS
      let model := match modelSrc t src with
        | none => panicS
        | some v =>
          match form with
          | some "mut" => if isTensor src then showOut (t.reorderMut names) else "bad-op"
          | some "lazy" =>
            match v.access names with
            | some a => showVal a.shape a.iter
            | none => panicS
          | _ => if isTensor src then showOut (t.reorder names) else showOut (v.reorder names)
      both spec model
    | none, _ => "bad-op"
  | "transpose" :: namesS :: rest =>
    let names := parseNames namesS
    match srcArg "src" rest, optArg "form" rest with
    | some src, form =>
      let spec := match specSrc t src with
        | none => panicS
        | some sv =>
          if decide (Spec.IsOrdering sv.shape names) then showTVal (Spec.materialise (Spec.transposed sv names))
          else panicS
      let model := match modelSrc t src with
        | none => panicS
        | some v =>
          match form with
          | some "mut" => if isTensor src then showOut (t.transposeMut names) else "bad-op"
          | some "lazy" =>
            match v.transposeView names with
            | some a => showVal a.shape a.iter
            | none => panicS
          | _ => if isTensor src then showOut (t.transpose names) else showOut (v.transpose names)
      both spec model
    | none, _ => "bad-op"
  | "reshape" :: shapeS :: rest =>
    match parseShape shapeS with
    | some shape =>
      let spec := if decide (Spec.Accepts shape t.data.length) then showVal shape t.data else panicS
      let model := match optArg "form" rest with
        | some "mut" => showOut (t.reshapeMut shape)
        | _ => showOut (t.reshapeOwned shape)
      both spec model
    | none => "bad-op"
  | "rename" :: namesS :: rest =>
    let names := parseNames namesS
    match srcArg "src" rest, optArg "form" rest with
    | some src, form =>
      let spec := match specSrc t src with
        | none => panicS
        | some sv =>
          if decide names.Nodup then showTVal (Spec.materialise (Spec.renamed sv names)) else panicS
      let model := match modelSrc t src with
        | none => panicS
        | some v =>
          match form with
          | some "view" =>
            match v.renameView names with
            | .ok r => showVal r.shape r.iter
            | .panic k => s!"panic({k})"
          | _ => if isTensor src then showOut (t.rename names) else "bad-op"
      both spec model
    | none, _ => "bad-op"
  | "map" :: rest =>
    match srcArg "src" rest, optArg "form" rest with
    | some src, form =>
      let spec := match specSrc t src with
        | none => panicS
        | some sv => showTVal (Spec.materialise (Spec.mapped mapF sv))
      match modelSrc t src with
      | none => both spec panicS
      | some v =>
        match form with
        | some "mut" =>
          match mapMutModel t src (fun _ x => mapF x) with
          | none => both spec panicS
          | some t' =>
            -- the view of the mutated tensor, and (aux) the underlying data
            match modelSrc t' src with
            | some v' =>
              let direct := if isTensor src then showNats (t.mapMut mapF).data else showNats t'.data
              both spec (showVal v'.shape v'.iter) ++ s!" ## under={showNats t'.data} direct={direct}"
            | none => both spec panicS
        | _ => both spec (if isTensor src then showT (t.map mapF) else showOut (v.map mapF))
    | none, _ => "bad-op"
  | "mapi" :: rest =>
    match srcArg "src" rest, optArg "form" rest with
    | some src, form =>
      let spec := match specSrc t src with
        | none => panicS
        | some sv => showTVal (Spec.materialise (Spec.mappedWithIndex mapiF sv))
      match modelSrc t src with
      | none => both spec panicS
      | some v =>
        match form with
        | some "mut" =>
          match mapMutModel t src mapiF with
          | none => both spec panicS
          | some t' =>
            match modelSrc t' src with
            | some v' => both spec (showVal v'.shape v'.iter) ++ s!" ## under={showNats t'.data}"
            | none => both spec panicS
        | _ => both spec (if isTensor src then showT (t.mapWithIndex mapiF) else showOut (v.mapWithIndex mapiF))
    | none, _ => "bad-op"
  | "zip" :: shapeS :: dataS :: rest =>
    match parseShape shapeS, parseData dataS, srcArg "src" rest, srcArg "rsrc" rest with
    | some shape2, some data2, some src, some rsrc =>
      match Tensor.tryFrom shape2 data2 with
      | none => "bad-op"
      | some t2 =>
        let withIdx := optArg "idx" rest == some "1"
        let spec := match specSrc t src, specSrc t2 rsrc with
          | some l, some r =>
            if l.shape = r.shape then
              showTVal (Spec.materialise
                (Spec.zipped (if withIdx then zipiF else fun _ => zipF) l r))
            else panicS
          | _, _ => panicS
        let model := match modelSrc t src, modelSrc t2 rsrc with
          | some l, some r =>
            if isTensor src then
              showOut (if withIdx then t.elementwiseWithIndex zipiF r else t.elementwise zipF r)
            else
              showOut (if withIdx then l.elementwiseWithIndex zipiF r else l.elementwise zipF r)
          | _, _ => panicS
        both spec model
    | _, _, _, _ => "bad-op"
  | "first" :: rest =>
    match srcArg "src" rest with
    | some src =>
      let spec := match specSrc t src with
        | none => panicS
        | some sv => match (Spec.materialise sv).elems.head? with
          | some x => toString x
          | none => panicS
      let model := match modelSrc t src with
        | none => panicS
        | some v => showOutcome toString (if isTensor src then t.first else v.first)
      both spec model
    | none => "bad-op"
  | "scalar" :: rest =>
    match srcArg "src" rest with
    | some src =>
      let spec := match specSrc t src with
        | none => panicS
        | some sv => match (Spec.materialise sv).elems.head? with
          | some x => toString x
          | none => panicS
      let model := match modelSrc t src with
        | none => panicS
        | some v =>
          showOutcome toString
            (if isTensor src then t.first
             else if optArg "form" rest == some "into" then v.intoScalar else v.scalar)
      both spec model
    | none => "bad-op"
  | "source" :: rest =>
    -- building a view over the tensor and taking the source back out gives the tensor back
    match srcArg "src" rest with
    | some src =>
      match specSrc t src, modelSrc t src with
      | some _, some _ => showT t
      | none, none => panicS
      | _, _ => "MODEL-SPEC-DISAGREE source"
    | none => "bad-op"
  | "is_square" :: _ =>
    let lens := t.shape.map (·.2)
    both (toString (decide (∀ a ∈ lens, ∀ b ∈ lens, a = b))) (toString (isSquare t.shape))
  | "into_matrix" :: _ =>
    let spec := match t.shape with
      | [r, c] => s!"rows={r.2} cols={c.2} data={showNats t.data}"
      | _ => "bad-op"
    let model := match t.intoMatrix with
      | .ok m => s!"rows={m.rows} cols={m.columns} data={showNats m.data}"
      | .panic k => s!"panic({k})"
    both spec model
  | ["from_matrix", rowsS, colsS, dataS, rname, cname] =>
    match rowsS.toNat?, colsS.toNat?, parseData dataS with
    | some rows, some cols, some data =>
      match Matrix.fromFlatRowMajor rows cols data with
      | none => "bad-op"
      | some m =>
        let shape := [(rname, rows), (cname, cols)]
        let spec := if rname ≠ cname then showVal shape data else "err"
        let model := match m.intoTensor rname cname with
          | .ok (some t') => showT t'
          | .ok none => "err"
          | .panic k => s!"panic({k})"
        both spec model
    | _, _, _ => "bad-op"
  | "roundtrip" :: _ =>
    -- tensor -> matrix -> tensor with the same names gives the tensor back
    match t.shape with
    | [r, c] =>
      let model := match t.intoMatrix with
        | .ok m =>
          match m.intoTensor r.1 c.1 with
          | .ok (some t') => showT t'
          | .ok none => "err"
          | .panic k => s!"panic({k})"
        | .panic k => s!"panic({k})"
      both (showT t) model
    | _ => "bad-op"
  | kind :: shapeS :: dataS :: rest =>
    if kind = "eq" || kind = "similar" then
      match parseShape shapeS, parseData dataS, srcArg "src" rest, srcArg "rsrc" rest with
      | some shape2, some data2, some src, some rsrc =>
        match Tensor.tryFrom shape2 data2 with
        | none => "bad-op"
        | some t2 =>
          match specSrc t src, specSrc t2 rsrc, modelSrc t src, modelSrc t2 rsrc with
          | some sl, some sr, some ml, some mr =>
            if kind = "eq" then
              both (toString (decide (Spec.materialise sl = Spec.materialise sr)))
                   (toString (tensorEquality ml mr))
            else
              both (toString (Spec.similarB sl sr)) (toString (tensorSimilarity ml mr))
          | _, _, _, _ => panicS
      | _, _, _, _ => "bad-op"
    else "bad-op"
  | _ => "bad-op"

/-- cell by cell `==` of two element lists of equal length -/
def allFeq (a b : List FTok) : Bool :=
  a.length == b.length && (a.zip b).all fun p => p.1.feq p.2

/-- Equality and similarity of `f64` tensors under the element type's own (non-reflexive) `==`:
    the specification evaluated with that relation (same shape and every cell `==`; some
    ordering of the right operand's names with that property).  There is no code-shaped model
    The code-shaped model answers with `tensorEqualityBy` / `tensorSimilarityBy` at the same
    relation (theorems `eqBy_iff`, `eqBy_self_iff`, `similarBy_iff` are for any relation). -/
def fcmp (l r : Tensor String FTok) : String :=
  let sl := Spec.materialise (Spec.ofData l.shape l.data)
  let lr := Spec.ofData r.shape r.data
  let sr := Spec.materialise lr
  let eq := decide (sl.shape = sr.shape) && allFeq sl.elems sr.elems
  let sim := (Spec.perms (r.shape.map (·.1))).any fun names =>
    decide (Spec.shapeFor r.shape names = l.shape) &&
      allFeq (Spec.materialise (Spec.reordered lr names)).elems sl.elems
  both s!"eq={eq} sim={sim}"
       s!"eq={tensorEqualityBy FTok.feq l.view r.view} sim={tensorSimilarityBy FTok.feq l.view r.view}"

/-! ### "transformation then consumer" (`chain`) -/

def parseStepTok (tok : String) : Option (InPlace String Nat) :=
  match tok.splitOn ":" with
  | [] => none
  | op :: args =>
    let arg := ":".intercalate args
    if op = "reorder" then some (.reorder (parseNames arg))
    else if op = "transpose" then some (.transpose (parseNames arg))
    else if op = "rename" then some (.rename (parseNames arg))
    else if op = "reshape" then (parseShape arg).map .reshape
    else if op = "map" then some (.map mapF)
    else if op = "mapi" then some (.mapi mapiF)
    else none

def parseSteps (s : String) : Option (List (InPlace String Nat)) :=
  if s = "-" then some [] else (s.splitOn "/").mapM parseStepTok

/-- the specification of one in-place step on a tensor value -/
def specStep (v : Spec.TVal String Nat) : InPlace String Nat → Option (Spec.TVal String Nat)
  | .reorder names =>
    if decide (Spec.IsOrdering v.shape names) then
      some (Spec.materialise (Spec.reordered (Spec.ofData v.shape v.elems) names)) else none
  | .transpose names =>
    if decide (Spec.IsOrdering v.shape names) then
      some (Spec.materialise (Spec.transposed (Spec.ofData v.shape v.elems) names)) else none
  | .reshape s => if decide (Spec.Accepts s v.elems.length) then some ⟨s, v.elems⟩ else none
  | .rename names =>
    if decide names.Nodup then
      some (Spec.materialise (Spec.renamed (Spec.ofData v.shape v.elems) names)) else none
  | .map f => some ⟨v.shape, v.elems.map f⟩
  | .mapi f => some (Spec.materialise (Spec.mappedWithIndex f (Spec.ofData v.shape v.elems)))

def specSteps (v : Spec.TVal String Nat) : List (InPlace String Nat) → Option (Spec.TVal String Nat)
  | [] => some v
  | st :: rest => match specStep v st with
    | some v' => specSteps v' rest
    | none => none

/-- a consumer applied to the result of a history: the specification on the value `v`, the
    code-shaped model on the tensor `t` -/
def consumer (cons : String) (v : Spec.TVal String Nat) (t : T) : String :=
  let lv := Spec.ofData v.shape v.elems
  let n := v.elems.length
  let other : List Nat := (List.range n).map (· + 500)
  let lo := Spec.ofData v.shape other
  let otherT : T := { data := other, shape := t.shape, strides := t.strides }
  let withShape := fun (name : String) (k : String → Option String) =>
    if cons.startsWith (name ++ ":") then k ((cons.drop (name.length + 1)).toString) else none
  if cons = "zipl" then
    both (showTVal (Spec.materialise (Spec.zipped (fun _ => zipF) lv lo))) (showOut (t.elementwise zipF otherT.view))
  else if cons = "zipli" then
    both (showTVal (Spec.materialise (Spec.zipped zipiF lv lo))) (showOut (t.elementwiseWithIndex zipiF otherT.view))
  else if cons = "zipr" then
    both (showTVal (Spec.materialise (Spec.zipped (fun _ => zipF) lo lv))) (showOut (otherT.elementwise zipF t.view))
  else if cons = "zipri" then
    both (showTVal (Spec.materialise (Spec.zipped zipiF lo lv))) (showOut (otherT.elementwiseWithIndex zipiF t.view))
  else if cons = "map" then
    both (showTVal (Spec.materialise (Spec.mapped mapF lv))) (showT (t.map mapF))
  else if cons = "mapi" then
    both (showTVal (Spec.materialise (Spec.mappedWithIndex mapiF lv))) (showT (t.mapWithIndex mapiF))
  else if cons = "matrix" then
    both (match v.shape with
          | [r, c] => s!"rows={r.2} cols={c.2} data={showNats v.elems}"
          | _ => "bad-op")
         (match t.intoMatrix with
          | .ok m => s!"rows={m.rows} cols={m.columns} data={showNats m.data}"
          | .panic k => s!"panic({k})")
  else if cons = "iter" then both s!"data={showNats v.elems}" s!"data={showNats t.view.iter}"
  else if cons = "add" || cons = "add_r" || cons = "add_v" || cons = "add_vr" then
    both (showVal v.shape (List.zipWith (· + ·) v.elems other))
         (showOut (t.elementwise (· + ·) otherT.view))
  else if cons = "display" then "display-ok"
  else if cons = "eq" then both "true" (toString (tensorEquality t.view
      ({ data := v.elems, shape := v.shape, strides := computeStrides v.shape } : T).view))
  else if cons = "first" then
    both (match v.elems.head? with | some x => toString x | none => panicS) (showOutcome toString t.first)
  else
    match withShape "reshape_owned" (fun a => (parseShape a).map fun sh =>
            both (if decide (Spec.Accepts sh n) then showVal sh v.elems else panicS) (showOut (t.reshapeOwned sh))) with
    | some r => r
    | none =>
      match withShape "reshape_mut" (fun a => (parseShape a).map fun sh =>
              both (if decide (Spec.Accepts sh n) then showVal sh v.elems else panicS) (showOut (t.reshapeMut sh))) with
      | some r => r
      | none => "bad-op"

def chain (t : T) (stepsS : String) (toks : List String) : String :=
  match parseSteps stepsS, optArg "cons" toks with
  | some steps, some cons =>
    match specSteps ⟨t.shape, t.data⟩ steps, t.applyAll steps with
    | some v, .ok t' => consumer cons v t'
    | none, .panic _ => panicS
    | some _, .panic k => s!"{panicS} ## MODEL-SPEC-DISAGREE model panics ({k})"
    | none, .ok _ => s!"{panicS} ## MODEL-SPEC-DISAGREE model succeeds"
  | _, _ => "bad-op"

def step (s : State) (toks : List String) : State × String :=
  match toks with
  | ["@", "f", shapeS, dataS] =>
    match parseShape shapeS with
    | some shape =>
      let t := Tensor.tryFrom shape ((splitComma dataS).map parseFTok)
      ({ ftensor := t }, if t.isSome then "ok" else panicS)
    | none => (s, "bad-op")
  | "fcmp" :: shapeS :: dataS :: _ =>
    match s.ftensor, parseShape shapeS with
    | some l, some shape2 =>
      match Tensor.tryFrom shape2 ((splitComma dataS).map parseFTok) with
      | some r => (s, fcmp l r)
      | none => (s, "bad-op")
    | _, _ => (s, "no-tensor")
  | ["@", "t", shapeS, dataS] =>
    match parseShape shapeS, parseData dataS with
    | some shape, some data =>
      let t := Tensor.tryFrom shape data
      ({ tensor := t },
        both (if decide (Spec.Accepts shape data.length) then "ok" else panicS)
             (if t.isSome then "ok" else panicS))
    | _, _ => (s, "bad-op")
  | "chain" :: stepsS :: rest =>
    match s.tensor with
    | none => (s, "no-tensor")
    | some t => (s, chain t stepsS rest)
  | _ =>
    match s.tensor with
    | none => (s, "no-tensor")
    | some t =>
      match Driver.Surface.step t toks with
      | some ans => (s, ans)
      | none => (s, stepOp t toks)

end Driver.C13
