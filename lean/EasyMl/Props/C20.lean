/-
  EasyMl.Props.C20 — property C20: tape thread-safety contracts, the part a theorem can carry.

  What is proved here: the `Send`/`Sync` decision table of every public struct / enum of the
  crate, as decided by the auto-trait model (`EasyMl.Model.AutoTraits`) over the struct table
  `EasyMl.Generated.structs`, which is REGENERATED from the checkout under test on every run.
  Every statement is universally quantified over the auto traits of the element / source type
  parameters (`.leaf s y` is an arbitrary type with `Send = s`, `Sync = y`) and is discharged
  by kernel evaluation (`decide`) of the model on the generated table.

  What is not and cannot be proved here (rests on the compiler probes of props/c20_extra.py):
  that rustc's auto-trait inference is the modelled one (checked by compiling `assert_send` /
  `assert_sync` probes for every row of this table at four kinds of element type), lifetimes
  (records cannot outlive their tape), borrow checking (no mutation while an iterator or view
  is alive), trait sealing, and the `unsafe impl` requirement of the reference traits.
-/
import EasyMl.Spec.SendSync

namespace EasyMl.C20
open EasyMl.Auto EasyMl.Generated EasyMl.SendSync

/-! ### the tape family: never shareable, records never sendable -/

/-- `&WengertList<T>` can never be shared between threads: `WengertList<T>` is not `Sync`,
    whatever `T` is -/
theorem wengertList_not_sync (s y : Bool) :
    isSync structs (.adt Id.WengertList [.leaf s y]) = some false := by
  cases s <;> cases y <;> decide

/-- a tape itself may move to another thread exactly when its element type may -/
theorem wengertList_send_iff (s y : Bool) :
    isSend structs (.adt Id.WengertList [.leaf s y]) = some s := by
  cases s <;> cases y <;> decide

theorem record_not_send (s y : Bool) :
    isSend structs (.adt Id.Record [.leaf s y]) = some false := by
  cases s <;> cases y <;> decide

theorem record_not_sync (s y : Bool) :
    isSync structs (.adt Id.Record [.leaf s y]) = some false := by
  cases s <;> cases y <;> decide

/-- `RecordContainer<'a, T, S, D>` for every element type `T` and every source `S` -/
theorem recordContainer_not_send (s y s' y' : Bool) :
    isSend structs (.adt Id.RecordContainer [.leaf s y, .leaf s' y']) = some false := by
  cases s <;> cases y <;> cases s' <;> cases y' <;> decide

theorem recordContainer_not_sync (s y s' y' : Bool) :
    isSync structs (.adt Id.RecordContainer [.leaf s y, .leaf s' y']) = some false := by
  cases s <;> cases y <;> cases s' <;> cases y' <;> decide

/-- the aliases `RecordTensor<'a, T, S, D>` / `RecordMatrix<'a, T, S>` (expanded by the
    generator), for every `T` and `S`, and at their documented sources `Tensor<(T, Index), D>` /
    `Matrix<(T, Index)>` -/
theorem recordTensor_recordMatrix_not_send_sync (s y s' y' : Bool) :
    isSend structs (Alias.RecordTensor (.leaf s y) (.leaf s' y')) = some false ∧
    isSync structs (Alias.RecordTensor (.leaf s y) (.leaf s' y')) = some false ∧
    isSend structs (Alias.RecordMatrix (.leaf s y) (.leaf s' y')) = some false ∧
    isSync structs (Alias.RecordMatrix (.leaf s y) (.leaf s' y')) = some false ∧
    isSend structs (Alias.RecordTensor (.leaf s y) (.adt Id.Tensor [.tuple [.leaf s y, .prim]])) = some false ∧
    isSync structs (Alias.RecordMatrix (.leaf s y) (.adt Id.Matrix [.tuple [.leaf s y, .prim]])) = some false := by
  cases s <;> cases y <;> cases s' <;> cases y' <;> decide

/-- everything else that carries a tape reference (`AsRecords`, and the error types
    `InconsistentHistory` / `InvalidRecordIteratorError` of the record iterators) is neither -/
theorem tape_referencing_not_send_sync (s y s' y' : Bool) :
    isSend structs (.adt Id.AsRecords [.leaf s' y', .leaf s y]) = some false ∧
    isSync structs (.adt Id.AsRecords [.leaf s' y', .leaf s y]) = some false ∧
    isSend structs (.adt Id.InconsistentHistory [.leaf s y]) = some false ∧
    isSync structs (.adt Id.InconsistentHistory [.leaf s y]) = some false ∧
    isSend structs (.adt Id.InvalidRecordIteratorError [.leaf s y]) = some false ∧
    isSync structs (.adt Id.InvalidRecordIteratorError [.leaf s y]) = some false := by
  cases s <;> cases y <;> cases s' <;> cases y' <;> decide

/-! ### quantified over the table: whatever holds a tape reference is neither `Send` nor `Sync`

Not an enumeration: for EVERY struct / enum of the regenerated table that (transitively, through
containers, references, tuples and other structs of the table) holds a `&WengertList<_>` in a field,
and for EVERY assignment of `Send`/`Sync` flags to its type parameters, the type is neither `Send`
nor `Sync`.  A new iterator / adaptor / error type that stores a `Record` or a tape reference is
covered the moment it appears in the sources. -/

theorem tape_holders_never_send_sync :
    ∀ id ∈ List.range structs.length, structHoldsRefTo structs Id.WengertList id = true →
      ∀ fl ∈ allFlags ((structs[id]?).map (·.nparams) |>.getD 0),
        isSend structs (instantiate id fl) = some false ∧ isSync structs (instantiate id fl) = some false := by
  decide +kernel

-- non-vacuity: the structs this speaks about on the pinned tree (public and private ones)
example : (List.range structs.length).filter (structHoldsRefTo structs Id.WengertList) =
    [Id.Record, Id.RecordContainer, Id.AsRecords, Id.InconsistentHistory, Id.InvalidRecordIteratorError,
     Id.RecordContainerComponents] := by decide +kernel
-- … and a struct that merely has a *parameter* which may be instantiated with a record is not one of them
example : structHoldsRefTo structs Id.WengertList Id.TensorView = false := by decide +kernel

/-- … and auto traits are monotone in the parameters, for every struct of the table: giving one type
    parameter one more auto trait (`raiseOne`: one `false` flag becomes `true`) never loses one of
    the struct's; by transitivity more auto traits on the parameters never lose any.  (So the
    all-`Send + Sync` instantiation is the best case, and a parameter instantiated with a record —
    neither — can only take traits away.) -/
theorem send_sync_monotone_in_params :
    ∀ id ∈ List.range structs.length,
      ∀ fl ∈ allFlags ((structs[id]?).map (·.nparams) |>.getD 0), ∀ fl' ∈ raiseOne fl,
        verdictLe (isSend structs (instantiate id fl)) (isSend structs (instantiate id fl')) = true ∧
        verdictLe (isSync structs (instantiate id fl)) (isSync structs (instantiate id fl')) = true := by
  decide +kernel

example : raiseOne [(true, false), (false, false)] =
    [[(true, true), (false, false)], [(true, false), (true, false)], [(true, false), (false, true)]] := by decide

/-- containers, views and iterators *of records* inherit the tape's restriction: with the element
    type `Record<'a, T>` (and the documented source over it) none of them is `Send` or `Sync` -/
theorem containers_of_records_not_send_sync (s y : Bool) :
    (∀ id ∈ [Id.Tensor, Id.Matrix, Id.MatrixPart, Id.MatrixQuadrants, Id.WithIndex],
      isSend structs (.adt id [.adt Id.Record [.leaf s y]]) = some false ∧
      isSync structs (.adt id [.adt Id.Record [.leaf s y]]) = some false) ∧
    (∀ id ∈ [Id.TensorView, Id.TensorAccess, Id.TensorTranspose, Id.TensorIndex, Id.TensorExpansion,
        Id.TensorRange, Id.TensorMask, Id.TensorRename, Id.TensorReverse, Id.TensorIterator,
        Id.TensorReferenceIterator, Id.TensorReferenceMutIterator, Id.TensorOwnedIterator],
      isSend structs (.adt id [.adt Id.Record [.leaf s y], .adt Id.Tensor [.adt Id.Record [.leaf s y]]]) = some false ∧
      isSync structs (.adt id [.adt Id.Record [.leaf s y], .adt Id.Tensor [.adt Id.Record [.leaf s y]]]) = some false) ∧
    (∀ id ∈ [Id.MatrixView, Id.MatrixRange, Id.MatrixReverse] ++ sharedBorrowIterators.tail ++
        mutBorrowIterators.tail ++ [Id.ColumnMajorOwnedIterator, Id.RowMajorOwnedIterator],
      isSend structs (.adt id [.adt Id.Record [.leaf s y], .adt Id.Matrix [.adt Id.Record [.leaf s y]]]) = some false ∧
      isSync structs (.adt id [.adt Id.Record [.leaf s y], .adt Id.Matrix [.adt Id.Record [.leaf s y]]]) = some false) := by
  cases s <;> cases y <;> decide

/-! ### containers, traces, derivative sets: exactly as their element type -/


theorem send_iff_params_send_owners (s y : Bool) :
    ∀ id ∈ ownersOfT, isSend structs (.adt id [.leaf s y]) = some s := by
  cases s <;> cases y <;> decide

theorem sync_iff_params_sync_owners (s y : Bool) :
    ∀ id ∈ ownersOfT, isSync structs (.adt id [.leaf s y]) = some y := by
  cases s <;> cases y <;> decide

/-! ### error types and plain value types without type parameters: always both -/


theorem plain_send_sync :
    ∀ id ∈ plainTypes, isSend structs (.adt id []) = some true ∧ isSync structs (.adt id []) = some true := by
  decide

/-! ### view adaptors `V<T, S, …>` owning their source `S`: exactly as `T` and `S` together -/


theorem send_iff_params_send_views (s y s' y' : Bool) :
    ∀ id ∈ viewAdaptors, isSend structs (.adt id [.leaf s y, .leaf s' y']) = some (s && s') := by
  cases s <;> cases y <;> cases s' <;> cases y' <;> decide

theorem sync_iff_params_sync_views (s y s' y' : Bool) :
    ∀ id ∈ viewAdaptors, isSync structs (.adt id [.leaf s y, .leaf s' y']) = some (y && y') := by
  cases s <;> cases y <;> cases s' <;> cases y' <;> decide


/-- `TensorRefMatrix<T, S, N>` additionally carries its dimension-name provider `N` -/
theorem tensorRefMatrix_send_sync (s y s' y' s'' y'' : Bool) :
    isSend structs (.adt Id.TensorRefMatrix [.leaf s y, .leaf s' y', .leaf s'' y'']) = some (s && s' && s'') ∧
    isSync structs (.adt Id.TensorRefMatrix [.leaf s y, .leaf s' y', .leaf s'' y'']) = some (y && y' && y'') := by
  cases s <;> cases y <;> cases s' <;> cases y' <;> cases s'' <;> cases y'' <;> decide

/-! ### iterators -/

/-- `TensorIterator` holds `&'a S` but yields owned `T` (marker `PhantomData<T>`) -/
theorem tensorIterator_send_sync (s y s' y' : Bool) :
    isSend structs (.adt Id.TensorIterator [.leaf s y, .leaf s' y']) = some (s && y') ∧
    isSync structs (.adt Id.TensorIterator [.leaf s y, .leaf s' y']) = some (y && y') := by
  cases s <;> cases y <;> cases s' <;> cases y' <;> decide

/-- iterators holding `&'a S` and a `PhantomData<&'a T>` marker: a shared borrow crosses a thread
    boundary exactly when the borrowed things are `Sync` -/
theorem shared_iterators_send_sync (s y s' y' : Bool) :
    ∀ id ∈ sharedBorrowIterators,
      isSend structs (.adt id [.leaf s y, .leaf s' y']) = some (y && y') ∧
      isSync structs (.adt id [.leaf s y, .leaf s' y']) = some (y && y') := by
  cases s <;> cases y <;> cases s' <;> cases y' <;> decide


/-- iterators holding `&'a mut S` and a `PhantomData<&'a mut T>` marker -/
theorem mut_iterators_send_sync (s y s' y' : Bool) :
    ∀ id ∈ mutBorrowIterators,
      isSend structs (.adt id [.leaf s y, .leaf s' y']) = some (s && s') ∧
      isSync structs (.adt id [.leaf s y, .leaf s' y']) = some (y && y') := by
  cases s <;> cases y <;> cases s' <;> cases y' <;> decide


/-- owning iterators hold the source `S` and a `fn() -> T` producer: as their source -/
theorem owned_iterators_send_sync (s y s' y' : Bool) :
    ∀ id ∈ ownedIterators,
      isSend structs (.adt id [.leaf s y, .leaf s' y']) = some s' ∧
      isSync structs (.adt id [.leaf s y, .leaf s' y']) = some y' := by
  cases s <;> cases y <;> cases s' <;> cases y' <;> decide

/-! ### at the documented sources: exactly as the element type

With the source the library itself hands out (`Tensor<T, D>` / `Matrix<T>`), every view and every
owning or mutably borrowing iterator is `Send` iff `T : Send` and `Sync` iff `T : Sync`; a
sharing iterator is both exactly when `T : Sync` (a `&T` is handed to the other thread). -/

theorem views_at_documented_source (s y : Bool) :
    (∀ id ∈ [Id.TensorView, Id.TensorAccess, Id.TensorTranspose, Id.TensorIndex, Id.TensorExpansion,
        Id.TensorRange, Id.TensorMask, Id.TensorRename, Id.TensorReverse],
      isSend structs (.adt id [.leaf s y, .adt Id.Tensor [.leaf s y]]) = some s ∧
      isSync structs (.adt id [.leaf s y, .adt Id.Tensor [.leaf s y]]) = some y) ∧
    (∀ id ∈ [Id.MatrixView, Id.MatrixRange, Id.MatrixReverse],
      isSend structs (.adt id [.leaf s y, .adt Id.Matrix [.leaf s y]]) = some s ∧
      isSync structs (.adt id [.leaf s y, .adt Id.Matrix [.leaf s y]]) = some y) ∧
    -- a view of a borrowed tensor: a shared borrow needs `Sync`
    isSend structs (.adt Id.TensorView [.leaf s y, .ref (.adt Id.Tensor [.leaf s y])]) = some (s && y) ∧
    isSend structs (.adt Id.TensorView [.leaf s y, .mutRef (.adt Id.Tensor [.leaf s y])]) = some s := by
  cases s <;> cases y <;> decide

/-- every tensor / matrix view adaptor over a *borrowed* container: through a shared reference the
    container itself crosses the thread boundary (`&Tensor<T> : Send ⇔ T : Sync`) while the adaptor's
    own `PhantomData<T>` marker still needs `T : Send`; through a mutable reference it is as `T` -/
theorem views_at_reference_sources (s y : Bool) :
    (∀ id ∈ [Id.TensorView, Id.TensorAccess, Id.TensorTranspose, Id.TensorIndex, Id.TensorExpansion,
        Id.TensorRange, Id.TensorMask, Id.TensorRename, Id.TensorReverse],
      isSend structs (.adt id [.leaf s y, .ref (.adt Id.Tensor [.leaf s y])]) = some (s && y) ∧
      isSync structs (.adt id [.leaf s y, .ref (.adt Id.Tensor [.leaf s y])]) = some y ∧
      isSend structs (.adt id [.leaf s y, .mutRef (.adt Id.Tensor [.leaf s y])]) = some s ∧
      isSync structs (.adt id [.leaf s y, .mutRef (.adt Id.Tensor [.leaf s y])]) = some y) ∧
    (∀ id ∈ [Id.MatrixView, Id.MatrixRange, Id.MatrixReverse],
      isSend structs (.adt id [.leaf s y, .ref (.adt Id.Matrix [.leaf s y])]) = some (s && y) ∧
      isSync structs (.adt id [.leaf s y, .ref (.adt Id.Matrix [.leaf s y])]) = some y ∧
      isSend structs (.adt id [.leaf s y, .mutRef (.adt Id.Matrix [.leaf s y])]) = some s ∧
      isSync structs (.adt id [.leaf s y, .mutRef (.adt Id.Matrix [.leaf s y])]) = some y) := by
  cases s <;> cases y <;> decide

theorem iterators_at_documented_source (s y : Bool) :
    (∀ id ∈ [Id.TensorOwnedIterator, Id.TensorReferenceMutIterator],
      isSend structs (.adt id [.leaf s y, .adt Id.Tensor [.leaf s y]]) = some s ∧
      isSync structs (.adt id [.leaf s y, .adt Id.Tensor [.leaf s y]]) = some y) ∧
    (∀ id ∈ [Id.ColumnMajorOwnedIterator, Id.RowMajorOwnedIterator] ++ mutBorrowIterators.tail,
      isSend structs (.adt id [.leaf s y, .adt Id.Matrix [.leaf s y]]) = some s ∧
      isSync structs (.adt id [.leaf s y, .adt Id.Matrix [.leaf s y]]) = some y) ∧
    (∀ id ∈ sharedBorrowIterators.tail,
      isSend structs (.adt id [.leaf s y, .adt Id.Matrix [.leaf s y]]) = some y ∧
      isSync structs (.adt id [.leaf s y, .adt Id.Matrix [.leaf s y]]) = some y) ∧
    isSend structs (.adt Id.TensorReferenceIterator [.leaf s y, .adt Id.Tensor [.leaf s y]]) = some y ∧
    isSend structs (.adt Id.TensorIterator [.leaf s y, .adt Id.Tensor [.leaf s y]]) = some (s && y) := by
  cases s <;> cases y <;> decide

/-! ### the lifetime probes cover every lifetime-carrying type of the table

Lifetimes are outside this model (the probe programs decide them).  What can be stated — and is
re-checked against the regenerated table — is the completeness of the probe catalogue: every public
struct / enum that carries a lifetime (a non-`'static` borrow somewhere inside it, `structCarriesLifetime`)
is one of the types the lifetime probes are written for, so a new lifetime-carrying type cannot be
silently unprobed. -/

theorem lifetime_structs_all_probed :
    ∀ id ∈ publicIds, structCarriesLifetime structs id = true →
      id ∈ lifetimeProbedDirectly ++ lifetimeProbedByFamily := by
  decide +kernel

/-- … and conversely the catalogue lists nothing that does not carry a lifetime; the only other
    lifetime-carrying structs of the table are the two private helpers -/
theorem lifetime_probe_lists_exact :
    (∀ id ∈ lifetimeProbedDirectly ++ lifetimeProbedByFamily, structCarriesLifetime structs id = true) ∧
    (List.range structs.length).filter (fun id => structCarriesLifetime structs id && !publicIds.contains id)
      = [Id.BorrowedWengertList, Id.RecordContainerComponents] := by
  decide +kernel

-- non-vacuity: owning containers and adaptors over a type parameter carry no lifetime of their own
example : structCarriesLifetime structs Id.Tensor = false ∧ structCarriesLifetime structs Id.TensorView = false ∧
    structCarriesLifetime structs Id.InvalidShapeError = false ∧ structCarriesLifetime structs Id.MatrixQuadrants = true := by
  decide +kernel

/-! ### the table is covered -/

/-- every public struct / enum of the regenerated table is classified by one of the theorems
    above (a new public type makes this fail until it is classified) -/
theorem catalogue_complete :
    ∀ id ∈ publicIds,
      id ∈ singled ++ ownersOfT ++
        plainTypes ++ viewAdaptors ++ sharedBorrowIterators ++ mutBorrowIterators ++ ownedIterators := by
  decide

/-- no definition of the table contains a type the translator could not express, and no
    evaluation runs out of fuel: every definition has a verdict for both traits at the
    all-`Send + Sync` instantiation of its parameters -/
theorem table_fully_translated :
    (List.range structs.length).all (fun id =>
      let args := List.replicate ((structs[id]?).map (·.nparams) |>.getD 0) (Ty.leaf true true)
      (isSend structs (.adt id args)).isSome && (isSync structs (.adt id args)).isSome) = true := by
  decide +kernel

end EasyMl.C20
