/-
  EasyMl.Props.C04 — property theorems for C04 (reverse-mode differentiation returns the true
  partial derivative for every input).

  Only property statements (and their non-vacuity examples) live here; the lemmas are in
  EasyMl/Lemmas/{Tape,TapeProg,Prog}.lean.  Every theorem is about the very definitions the
  `emlmodel` driver executes against the implementation: the tape/record model
  (EasyMl/Model/Tape.lean), its glue to programs (Model/TapeExec.lean) and the specification
  (EasyMl/Spec/Prog.lean).

  Reading guide.  `p : Prog R` is any straight-line program (any size, any fan-out, any mix of
  constant/variable leaves and of record/plain-number operands); `env` the input point; `h` the
  tape the variables are created on; `w0` the tapes before the run (`w0 h` any well-formed tape,
  e.g. empty or holding earlier computations).  `R` is any **commutative ring** with uninterpreted
  `sqrt exp ln sin cos pow` and some `Div` instance; `hd : DivOK p` says: the program never
  divides (`Prog.usesDiv p = false`: no `÷`, `ln`, `sqrt` — then `R` may be ℤ, `Wrapping<i64>` =
  ℤ/2⁶⁴, …, and the `Div` instance is arbitrary), **or** `/` satisfies `DivLaws R`, which holds in
  every field (`DivOK.ofField`: `Fp`, the rationals, ℝ).  Division needs no non-zero side
  condition *here* because the formal quotient rule and the code's two local rules agree in
  every field, also at a zero divisor (where all of them are the field's `x/0 = 0`); that the
  formal derivative is the analytic one needs the divisor to be non-zero (`grad_hasDerivAt`).

  The real code cannot reject any of these inputs: on one tape no operator panics
  (`reverse_eq_grad` includes "`exec` returns `.ok`"); `derivatives()` panics exactly for a
  constant result, which is the `none` branch below.
-/
import EasyMl.Lemmas.TapeProg
import EasyMl.Lemmas.TapeNode
import EasyMl.Lemmas.TapeFast
import EasyMl.Lemmas.Prog
import EasyMl.Lemmas.RealBridge
import EasyMl.Lemmas.TapeChecked
import EasyMl.Lemmas.TapeChain

namespace EasyMl.C04
open EasyMl EasyMl.Spec

set_option linter.unusedSectionVars false

variable {R : Type} [CommRing R] [Div R] [RealFns R]

/-- Every appender hands out the current length as the new index and extends the tape by exactly
    its entries. -/
theorem append_index (t : Tape R) (p q : Nat) (d e : R) (n : Nat) :
    (t.appendNullary.1 = t.length ∧ t.appendNullary.2.length = t.length + 1) ∧
    ((t.appendUnary p d).1 = t.length ∧ (t.appendUnary p d).2.length = t.length + 1) ∧
    ((t.appendBinary p d q e).1 = t.length ∧ (t.appendBinary p d q e).2.length = t.length + 1) ∧
    ((t.appendNullaryRepeating n).1 = t.length ∧
      (t.appendNullaryRepeating n).2.length = t.length + n) :=
  ⟨by simp [Tape.appendNullary], by simp [Tape.appendUnary], by simp [Tape.appendBinary], rfl,
    appendNullaryRepeating_length t n⟩

/-- **The tape stays well formed**: after any program, every entry's parents are at or before the
    entry itself (strictly before, or the entry itself with weight zero), and every record with a
    tape is on tape `h` at a position inside the tape. -/
theorem tape_wf (p : Prog R) (hp : p.WellScoped) (hd : DivOK p) (h : Nat) (env : Nat → R) (w0 : World R)
    (hw0 : Tape.WF (w0 h)) :
    ∃ w recs, Prog.exec h env p w0 = (w, .ok recs) ∧ Tape.WF (w h) ∧
      (∀ j (hj : j < (w h).length), (w h)[j].leftParent ≤ j ∧ (w h)[j].rightParent ≤ j) ∧
      ∀ k, k < p.length → ∀ h', (getRec recs k).history = some h' →
        h' = h ∧ (getRec recs k).index < (w h).length := by
  obtain ⟨w, recs, hrun, hlen, hall⟩ := run_facts (h := h) (env := env) p hp hd w0 hw0
  obtain ⟨tseed, hinv, _⟩ := hall 0
  refine ⟨w, recs, hrun, hinv.wf, ?_, ?_⟩
  · intro j hj
    have := hinv.wf j hj
    constructor
    · rcases this.1 with h1 | h1 <;> omega
    · rcases this.2 with h1 | h1 <;> omega
  · intro k hk h' hh
    have hg := (hinv.good k (by omega)).2
    simp only [hh] at hg
    exact ⟨hg.1, hg.2.1⟩

example : Prog.WellScoped ([.var, .var, .arith .div 0 1, .sum [2, 0, 2], .real .sin 3] : Prog R) := rfl
example : Tape.WF ([] : Tape R) := Tape.WF_nil
-- a program without division: any commutative ring; with division: any field
example : DivOK ([.var, .const 3, .arith .mul 0 1, .real .sin 2, .pow 3 0] : Prog R) := Or.inl rfl
example {F : Type} [Field F] [RealFns F] :
    DivOK ([.var, .var, .arith .div 0 1, .real .ln 2] : Prog F) := DivOK.ofField _

/-- **Reverse mode returns the formal partial derivative for every input.**  For every program,
    input point, choice of constant/variable leaves and fan-out: the run does not panic; for a
    result `k` without a tape (a constant) `derivatives()` panics (the documented rejection) and
    every partial derivative is zero; for a result with a
    tape `derivatives()` succeeds, has one entry per tape entry, and its entry at the position of
    every input variable `i` is `∂(result k)/∂(input i)` as defined by the chain rule
    (`Prog.grad`). -/
theorem reverse_eq_grad (p : Prog R) (hp : p.WellScoped) (hd : DivOK p) (h : Nat) (env : Nat → R) (w0 : World R)
    (hw0 : Tape.WF (w0 h)) :
    ∃ w recs, Prog.exec h env p w0 = (w, .ok recs) ∧ recs.length = p.length ∧
      ∀ k, k < p.length →
        match (getRec recs k).history with
        | none => (getRec recs k).derivatives w = .panic .explicit ∧
            ∀ i, (Prog.grad env p i).getD k 0 = 0
        | some _ =>
          ∃ adj, (getRec recs k).derivatives w = .ok adj ∧ adj.length = (w h).length ∧
            ∀ i, p.isInput i = true →
              adj.getD (getRec recs i).index 0 = (Prog.grad env p i).getD k 0 := by
  obtain ⟨w, recs, hrun, hlen, hall⟩ := run_facts (h := h) (env := env) p hp hd w0 hw0
  refine ⟨w, recs, hrun, hlen, ?_⟩
  intro k hk
  cases hh : (getRec recs k).history with
  | none =>
    refine ⟨by simp [Rec.derivatives, Rec.tryDerivatives, hh], fun i => ?_⟩
    obtain ⟨tseed, hinv, _⟩ := hall i
    exact (hinv.good k (by omega)).tan_zero hh
  | some h' =>
    obtain ⟨tseed0, hinv0, _⟩ := hall 0
    have hg0 := (hinv0.good k (by omega)).2
    simp only [hh] at hg0
    obtain ⟨rfl, hidx, _⟩ := hg0
    obtain ⟨adj, hsweep, hadjlen, hdot⟩ := sweep_correct (w h') hinv0.wf _ hidx
    refine ⟨adj, by rw [Rec.derivatives_some _ _ _ hh]; exact hsweep, hadjlen, ?_⟩
    intro i hi
    obtain ⟨tseed, hinv, hgu⟩ := hall i
    have hg := (hinv.good k (by omega)).2
    simp only [hh] at hg
    rw [← hg.2.2, ← hdot tseed]
    -- the ghost seed of direction `i` is the indicator of the position of input `i`
    have hchar : ∀ j, tseed j = if j = (getRec recs i).index then 1 else 0 := by
      intro j
      rw [hgu.char j]
      have hi' : (List.map Instr.isVar p).getD i false = true := hi
      by_cases hj : j = (getRec recs i).index
      · rw [if_pos hj, if_pos ⟨hi', hj.symm⟩]
      · rw [if_neg hj, if_neg]
        rintro ⟨_, h2⟩
        exact hj h2.symm
    rw [dotF_congr adj tseed _ (fun j _ => hchar j), dotF_indicator]

example : Prog.WellScoped ([.const 2, .var, .swapped .sub 3 1, .sum [0, 2, 1, 2], .numPow 5 3,
    .binary (fun x y => x * y) (fun _ y => y) (fun x _ => x) 4 0] : Prog R) := rfl
example : Prog.isInput ([.const 2, .var, .swapped .sub 3 1] : Prog R) 1 = true := rfl

-- the theorem instantiates at ℤ (integer `/`, not a field) for division-free programs
example [RealFns ℤ] (p : Prog ℤ) (hp : p.WellScoped) (hnd : p.usesDiv = false) (env : Nat → ℤ) :
    ∃ w recs, Prog.exec 0 env p World.empty = (w, .ok recs) ∧ recs.length = p.length := by
  obtain ⟨w, recs, h1, h2, _⟩ :=
    reverse_eq_grad p hp (Or.inl hnd) 0 env World.empty Tape.WF_nil
  exact ⟨w, recs, h1, h2⟩

/-- **Indexing `Derivatives` with a record** (`Derivatives::at`, `Index<&Record>`): plain
    indexing by the record's position — an index panic exactly when the position is outside the
    vector — and in a run indexing the `derivatives()` of any result with any input record never
    panics and yields `∂(result k)/∂(input i)`. -/
theorem derivatives_indexing (p : Prog R) (hp : p.WellScoped) (hd : DivOK p) (h : Nat)
    (env : Nat → R) (w0 : World R) (hw0 : Tape.WF (w0 h)) :
    (∀ (d : List R) (x : Rec R),
      (x.index < d.length → derivativeAt d x = .ok (d.getD x.index 0)) ∧
      (d.length ≤ x.index → derivativeAt d x = .panic .index)) ∧
    ∃ w recs, Prog.exec h env p w0 = (w, .ok recs) ∧
      ∀ k i, k < p.length → p.isInput i = true →
        ∀ adj, (getRec recs k).derivatives w = .ok adj →
          derivativeAt adj (getRec recs i) = .ok ((Prog.grad env p i).getD k 0) := by
  have hidx : ∀ (d : List R) (x : Rec R),
      (x.index < d.length → derivativeAt d x = .ok (d.getD x.index 0)) ∧
      (d.length ≤ x.index → derivativeAt d x = .panic .index) := by
    intro d x
    constructor
    · intro hlt
      simp [derivativeAt, hlt, List.getD_eq_getElem?_getD]
    · intro hge
      have : ¬ x.index < d.length := by omega
      simp [derivativeAt, this]
  refine ⟨hidx, ?_⟩
  obtain ⟨w, recs, hrun, hlen, hall⟩ := run_facts (h := h) (env := env) p hp hd w0 hw0
  obtain ⟨w', recs', hrun', _, hrev⟩ := reverse_eq_grad p hp hd h env w0 hw0
  rw [hrun] at hrun'
  cases hrun'
  refine ⟨w, recs, hrun, fun k i hk hi adj hadj => ?_⟩
  have hk' := hrev k hk
  cases hh : (getRec recs k).history with
  | none => simp [Rec.derivatives, Rec.tryDerivatives, hh] at hadj
  | some h' =>
    simp only [hh] at hk'
    obtain ⟨adj', h1, hl, h3⟩ := hk'
    rw [hadj] at h1
    have e : adj = adj' := Outcome.ok.inj h1
    subst e
    -- the input's record sits inside the tape, hence inside the vector
    obtain ⟨tseed, hinv, hgu⟩ := hall i
    have hi' : (List.map Instr.isVar p).getD i false = true := hi
    have hilt : i < recs.length := by
      by_contra hc
      rw [getD_of_le _ _ (by simp; omega)] at hi'
      cases hi'
    have hhist := hgu.varHist i hilt hi'
    have hg := (hinv.good i hilt).2
    simp only [hhist] at hg
    rw [(hidx adj (getRec recs i)).1 (by rw [hl]; exact hg.2.1), h3 i hi]

/-- **The whole derivative vector: every intermediate step, not only the inputs.**
    (`WengertList` docs: "compute all the gradients of the inputs and every intermediate step
    with respect to an output".)  For every result `k` and every instruction `m` whose record has
    a tape — an input *or an intermediate result* — the entry of `derivatives()` of `k` at the
    position of `m`'s record is `∂(result k)/∂(node m)`: the derivative of `k` when the value of
    node `m` is varied on its own (`Prog.gradNode`, the chain rule with the perturbation injected
    at `m`).  For an input this is `Prog.grad` (second part), so `reverse_eq_grad` is the special
    case. -/
theorem reverse_every_node (p : Prog R) (hp : p.WellScoped) (hd : DivOK p) (h : Nat)
    (env : Nat → R) (w0 : World R) (hw0 : Tape.WF (w0 h)) :
    (∃ w recs, Prog.exec h env p w0 = (w, .ok recs) ∧
      ∀ k m, k < p.length → m < p.length → (getRec recs m).isConstant = false →
        ∀ adj, (getRec recs k).derivatives w = .ok adj →
          adj.getD (getRec recs m).index 0 = (Prog.gradNode env p m).getD k 0) ∧
    ∀ i, p.isInput i = true → Prog.gradNode env p i = Prog.grad env p i := by
  refine ⟨?_, fun i hi => gradNode_eq_grad env p i hi⟩
  obtain ⟨w, recs, hrun, hlen, hall⟩ := run_facts (h := h) (env := env) p hp hd w0 hw0
  refine ⟨w, recs, hrun, ?_⟩
  intro k m hk hm hmc adj hadj
  obtain ⟨tseed0, hinv0, _⟩ := hall 0
  have hms : (getRec recs m).history.isSome = true := by
    unfold Rec.isConstant at hmc
    cases hh : (getRec recs m).history <;> simp [hh] at hmc ⊢
  have hdm : (Prog.deps p).getD m false = true := by
    rw [← hinv0.dep m (by omega)]; exact hms
  obtain ⟨w', recs', tseed, hrun', hlen', hinv, hgn⟩ :=
    run_facts_node (h := h) (env := env) p hp hd w0 hw0 m hdm
  rw [hrun] at hrun'
  cases hrun'
  cases hh : (getRec recs k).history with
  | none => simp [Rec.derivatives, Rec.tryDerivatives, hh] at hadj
  | some h' =>
    have hg := (hinv.good k (by omega)).2
    simp only [hh] at hg
    obtain ⟨rfl, hidx, htan⟩ := hg
    obtain ⟨adj', hsweep, _, hdot⟩ := sweep_correct (w h') hinv.wf _ hidx
    rw [Rec.derivatives_some _ _ _ hh, hsweep] at hadj
    have e : adj' = adj := Outcome.ok.inj hadj
    subst e
    rw [← htan, ← hdot tseed]
    have hchar : ∀ j, tseed j = if j = (getRec recs m).index then 1 else 0 := by
      intro j
      rw [hgn.char j]
      by_cases hj : j = (getRec recs m).index
      · rw [if_pos hj, if_pos ⟨by omega, hms, hj.symm⟩]
      · rw [if_neg hj, if_neg]
        rintro ⟨_, _, h2⟩
        exact hj h2.symm
    rw [dotF_congr adj' tseed _ (fun j _ => hchar j), dotF_indicator]

example : (Prog.deps ([.var, .const 3, .arith .mul 0 1, .real .sin 2] : Prog R)).getD 2 false = true := rfl

/-- **The value carried by every result is the computation on plain numbers.** -/
theorem value_eq_plain (p : Prog R) (hp : p.WellScoped) (hd : DivOK p) (h : Nat) (env : Nat → R) (w0 : World R)
    (hw0 : Tape.WF (w0 h)) :
    ∃ w recs, Prog.exec h env p w0 = (w, .ok recs) ∧
      ∀ k, k < p.length → (getRec recs k).number = (Prog.eval env p).getD k 0 := by
  obtain ⟨w, recs, hrun, hlen, hall⟩ := run_facts (h := h) (env := env) p hp hd w0 hw0
  obtain ⟨tseed, hinv, _⟩ := hall 0
  exact ⟨w, recs, hrun, fun k hk => (hinv.good k (by omega)).1⟩

/-- **Comparing records is comparing the plain numbers.**  `==`/`!=` (`PartialEq`) and
    `partial_cmp` — hence `< <= > >=`, the trait's default methods — of any two results of a run,
    in every variable/constant pairing, give what the same comparison gives on the values of the
    plain computation.  (Generic library code such as `softmax`'s maximum or a pivot test takes its
    branches by these when the element type is `Record`.) -/
theorem compare_eq_plain [NumOrd R] (p : Prog R) (hp : p.WellScoped) (hd : DivOK p) (h : Nat)
    (env : Nat → R) (w0 : World R) (hw0 : Tape.WF (w0 h)) :
    ∃ w recs, Prog.exec h env p w0 = (w, .ok recs) ∧
      ∀ a b, a < p.length → b < p.length →
        ((getRec recs a).eq (getRec recs b) w).1
          = NumOrd.eq ((Prog.eval env p).getD a 0) ((Prog.eval env p).getD b 0) ∧
        ((getRec recs a).partialCmp (getRec recs b) w).1
          = numPartialCmp ((Prog.eval env p).getD a 0) ((Prog.eval env p).getD b 0) := by
  obtain ⟨w, recs, hrun, hv⟩ := value_eq_plain p hp hd h env w0 hw0
  refine ⟨w, recs, hrun, fun a b ha hb => ?_⟩
  simp only [Rec.eq, Rec.partialCmp, hv a ha, hv b hb, and_self]

/-- **Comparisons and `clone` have no tape effect.**  For *any* two records — constants,
    variables, stale records, records of two different tapes (there is no `same_list` test, so no
    panic either) — `==` and `partial_cmp` return the world unchanged; a `clone` is the same
    number at the same position of the same tape (it is a value, no world is involved), and
    `Display` shows the number. -/
theorem compare_no_tape_effect [NumOrd R] (a b : Rec R) (w : World R) (render : R → String) :
    (a.eq b w).2 = w ∧ (a.partialCmp b w).2 = w ∧ a.clone = a ∧
    a.display render = render a.number :=
  ⟨rfl, rfl, rfl, rfl⟩

/-- **A result is a constant exactly when no variable contributed** (syntactic dependency,
    `Prog.deps`). -/
theorem constant_iff_no_variable (p : Prog R) (hp : p.WellScoped) (hd : DivOK p) (h : Nat) (env : Nat → R)
    (w0 : World R) (hw0 : Tape.WF (w0 h)) :
    ∃ w recs, Prog.exec h env p w0 = (w, .ok recs) ∧
      ∀ k, k < p.length → ((getRec recs k).isConstant = true ↔ (Prog.deps p).getD k false = false) := by
  obtain ⟨w, recs, hrun, hlen, hall⟩ := run_facts (h := h) (env := env) p hp hd w0 hw0
  obtain ⟨tseed, hinv, _⟩ := hall 0
  refine ⟨w, recs, hrun, fun k hk => ?_⟩
  have := hinv.dep k (by omega)
  unfold Rec.isConstant
  rw [← this]
  cases (getRec recs k).history <;> simp

/-- **Constants neither receive nor perturb derivative mass.**
    (a) An instruction all of whose operands are constants — in *any* state, on any tapes —
    changes no tape and returns a record without a tape at index 0: a constant never gets a tape
    slot, so nothing can be accumulated for it.
    (b) In a run, a constant result has formal derivative zero with respect to every input.
    That constants do not *perturb* the mass of the variables is `reverse_eq_grad`: the entry of
    `derivatives()` at the position of every input is the partial derivative of the whole
    computation, in which constant and plain-number operands have derivative zero — so no tape
    position (position 0 included) collects anything on behalf of a constant operand. -/
theorem constants_no_mass :
    (∀ (ins : Instr R) (h : Nat) (env : Nat → R) (recs : List (Rec R)) (w : World R),
      ins.isVar = false → (∀ a ∈ ins.operands, (getRec recs a).history = none) →
      ∃ r, ins.exec h env recs w = (w, .ok r) ∧ r.history = none ∧ r.index = 0) ∧
    (∀ (p : Prog R), p.WellScoped → DivOK p → ∀ (h : Nat) (env : Nat → R) (w0 : World R),
      Tape.WF (w0 h) →
      ∃ w recs, Prog.exec h env p w0 = (w, .ok recs) ∧
        ∀ k, k < p.length → (getRec recs k).isConstant = true →
          ∀ i, (Prog.grad env p i).getD k 0 = 0) := by
  refine ⟨fun ins h env recs w hnv hops => ?_, ?_⟩
  · obtain ⟨x, hx⟩ := exec_const_operands ins h env recs w hnv hops
    exact ⟨_, hx, rfl, rfl⟩
  intro p hp hd h env w0 hw0
  obtain ⟨w, recs, hrun, hlen, hall⟩ := run_facts (h := h) (env := env) p hp hd w0 hw0
  refine ⟨w, recs, hrun, fun k hk hc i => ?_⟩
  obtain ⟨tseed, hinv, _⟩ := hall i
  apply (hinv.good k (by omega)).tan_zero
  unfold Rec.isConstant at hc
  cases hh : (getRec recs k).history <;> simp [hh] at hc ⊢

/-- **Inputs the result does not depend on get exactly zero.**  If input `i` does not reach
    result `k` (syntactically, `Prog.reach`) then the entry of `derivatives()` of `k` at the
    position of `i` is `0` (and so is the formal partial derivative). -/
theorem independent_inputs_zero (p : Prog R) (hp : p.WellScoped) (hd : DivOK p) (h : Nat) (env : Nat → R)
    (w0 : World R) (hw0 : Tape.WF (w0 h)) :
    ∃ w recs, Prog.exec h env p w0 = (w, .ok recs) ∧
      ∀ k i, k < p.length → p.isInput i = true → (Prog.reach p i).getD k false = false →
        (Prog.grad env p i).getD k 0 = 0 ∧
        ∀ adj, (getRec recs k).derivatives w = .ok adj → adj.getD (getRec recs i).index 0 = 0 := by
  obtain ⟨w, recs, hrun, _, hall⟩ := reverse_eq_grad p hp hd h env w0 hw0
  refine ⟨w, recs, hrun, fun k i hk hi hr => ?_⟩
  have hz := grad_zero_of_not_reach env p hd i k hr
  refine ⟨hz, fun adj hadj => ?_⟩
  have := hall k hk
  cases hh : (getRec recs k).history with
  | none =>
    -- a constant has no derivatives at all
    simp [Rec.derivatives, Rec.tryDerivatives, hh] at hadj
  | some h' =>
    simp only [hh] at this
    obtain ⟨adj', h1, _, h3⟩ := this
    rw [hadj] at h1
    cases h1
    rw [h3 i hi, hz]

example : Prog.isInput ([.var, .const 3, .var, .arith .mul 0 1] : Prog R) 2 = true := rfl
example : (Prog.reach ([.var, .const 3, .var, .arith .mul 0 1] : Prog R) 2).getD 3 false = false := rfl

/-- **`Sum` is "the same as adding a bunch of Record types together"** (its documentation): in any
    state, for any items (constants, variables, several tapes), summing is adding the items one
    after another with `+` to a running total that starts as the constant zero — same numbers,
    same tape entries, same panic and same entries left behind when an item of another tape
    arrives. -/
theorem sum_is_repeated_addition (items : List (Rec R)) (w : World R) :
    Rec.sum items w = addLoop items (Rec.constant 0) w :=
  sumLoop_eq_addLoop items _ w

/-- **The array-backed evaluation used for large cases is the model.**  The drivers answer cases
    with tens of thousands of tape entries with the `Array` functions of Model/TapeFast.lean (the
    list-based definitions are quadratic); they compute exactly the functions the theorems above
    are about: values, formal derivatives, dependency flags and the forward gradient of the
    specification; the reverse sweep (same entries, same bounds checks, same panics); and one
    instruction on tape 0 — same record or panic, and the array tape holds tape 0's new entries —
    whenever the array holds tape 0 and the records are constants or on tape 0 (which every
    instruction preserves, `exec_frame`). -/
theorem fast_path_agrees :
    (∀ (env : Nat → R) (vs : Array R) (ins : Instr R), Fast.fval env vs ins = ins.val env vs.toList) ∧
    (∀ (seed : Nat → R) (vs ts : Array R) (ins : Instr R),
      Fast.ftan seed vs ts ins = ins.tan seed vs.toList ts.toList) ∧
    (∀ (ds : Array Bool) (ins : Instr R), Fast.fdep ds ins = ins.dep ds.toList) ∧
    (∀ (env : Nat → R) (prog : Array (Instr R)) (i : Nat),
      (Fast.fgrad env prog i).toList = Prog.grad env prog.toList i) ∧
    (∀ (ops : Array (Op R)) (index : Nat),
      Fast.toL (Fast.freverseSweep ops index) = reverseSweep ops.toList index) ∧
    (∀ (env : Nat → R) (recs : Array (Rec R)) (tape : Array (Op R)) (w : World R) (ins : Instr R),
      tape.toList = w 0 → (∀ k, OnTape 0 (getRec recs.toList k)) →
      (Fast.fexec env recs tape ins).2 = (ins.exec 0 env recs.toList w).2 ∧
      (Fast.fexec env recs tape ins).1.toList = (ins.exec 0 env recs.toList w).1 0) :=
  ⟨Fast.fval_eq, Fast.ftan_eq, Fast.fdep_eq, Fast.fgrad_eq, Fast.freverseSweep_eq,
    fun env recs tape w ins ht hr => Fast.fexec_eq env recs tape w ins ht hr⟩

example : (#[⟨0, 0, 0, 0⟩] : Array (Op R)).toList = (World.empty.update 0 [⟨0, 0, 0, 0⟩] : World R) 0 :=
  rfl

/-! ### statements behind the harness-side oracles, hypotheses discharged, closures -/

/-- **Comparisons look at the number only** — for *any* two records (constants, variables, stale
    records, records of different tapes; no run of a program is assumed): `==` is the element
    type's `==` on the two numbers, `partial_cmp` its `partial_cmp`, and `<`, `<=`, `>`, `>=`
    (the trait's default methods) are read off that answer.  Neither `history` nor `index` is
    looked at. -/
theorem cmp_eq_plain_cmp [NumOrd R] (a b : Rec R) (w : World R) :
    (a.eq b w).1 = NumOrd.eq a.number b.number ∧
    (a.partialCmp b w).1 = numPartialCmp a.number b.number ∧
    ∀ (a' b' : Rec R) (w' : World R), a'.number = a.number → b'.number = b.number →
      (a'.eq b' w').1 = (a.eq b w).1 ∧ (a'.partialCmp b' w').1 = (a.partialCmp b w).1 := by
  refine ⟨rfl, rfl, fun a' b' w' ha hb => ?_⟩
  simp only [Rec.eq, Rec.partialCmp, ha, hb, and_self]

example [NumOrd R] : ((⟨3, some 0, 5⟩ : Rec R).eq ⟨3, some 1, 9⟩ World.empty).1
    = ((Rec.constant 3 : Rec R).eq (Rec.constant 3) World.empty).1 := rfl

/-- **`clone_from` is `clone`**: whatever the destination held (another number, another tape,
    another position), afterwards it is the source — same number, same tape, same position — and
    no tape is involved. -/
theorem clone_from_eq_clone (dst src : Rec R) :
    dst.cloneFrom src = src.clone ∧ dst.cloneFrom src = src :=
  ⟨rfl, rfl⟩

example : (⟨1, some 4, 2⟩ : Rec R).cloneFrom ⟨7, some 0, 3⟩ = ⟨7, some 0, 3⟩ := rfl

/-- **Every operator is `Record::unary` or `Record::binary` with the documented closures.**
    The operator impls of record_operations.rs repeat the bodies of `unary` / `binary` with the
    function and derivative(s) of functions.rs written in; the model mirrors each of them
    separately (`Rec.add`, `Rec.addNum`, …, including the commuted constant-variable arm of `+`
    and `*`), and each is equal to the generic method.  So a statement about `Rec.unary` and
    `Rec.binary` with arbitrary closures is a statement about every operator in every operand
    form. -/
theorem every_operator_is_unary_or_binary (a b : Rec R) (c : R) (w : World R) :
    (a.add b w = a.binary b Fn.Addition.function Fn.Addition.dx Fn.Addition.dy w ∧
     a.sub b w = a.binary b Fn.Subtraction.function Fn.Subtraction.dx Fn.Subtraction.dy w ∧
     a.mul b w = a.binary b Fn.Multiplication.function Fn.Multiplication.dx Fn.Multiplication.dy w ∧
     a.div b w = a.binary b Fn.Division.function Fn.Division.dx Fn.Division.dy w ∧
     a.pow b w = a.binary b Fn.Power.function Fn.Power.dx Fn.Power.dy w) ∧
    (a.addNum c w = a.unary (fun x => Fn.Addition.function x c) (fun x => Fn.Addition.dx x c) w ∧
     a.subNum c w = a.unary (fun x => Fn.Subtraction.function x c) (fun x => Fn.Subtraction.dx x c) w ∧
     a.mulNum c w
       = a.unary (fun x => Fn.Multiplication.function x c) (fun x => Fn.Multiplication.dx x c) w ∧
     a.divNum c w = a.unary (fun x => Fn.Division.function x c) (fun x => Fn.Division.dx x c) w ∧
     a.powNum c w = a.unary (fun x => Fn.Power.function x c) (fun x => Fn.Power.dx x c) w) ∧
    (a.subSwapped c w
       = a.unary (fun x => Fn.Subtraction.function c x) (fun x => Fn.Subtraction.dy c x) w ∧
     a.divSwapped c w = a.unary (fun x => Fn.Division.function c x) (fun x => Fn.Division.dy c x) w ∧
     Rec.numPow c a w = a.unary (fun x => Fn.Power.function c x) (fun x => Fn.Power.dy c x) w) ∧
    (a.neg w = a.unary (fun x => -x) (fun _ => -1) w ∧
     a.sin w = a.unary Fn.Sine.function Fn.Sine.dx w ∧
     a.cos w = a.unary Fn.Cosine.function Fn.Cosine.dx w ∧
     a.exp w = a.unary Fn.Exponential.function Fn.Exponential.dx w ∧
     a.ln w = a.unary Fn.NaturalLogarithm.function Fn.NaturalLogarithm.dx w ∧
     a.sqrt w = a.unary Fn.SquareRoot.function Fn.SquareRoot.dx w) :=
  ⟨⟨Rec.add_eq a b w, Rec.sub_eq a b w, Rec.mul_eq a b w, Rec.div_eq a b w, Rec.pow_eq a b w⟩,
   ⟨Rec.addNum_eq a c w, Rec.subNum_eq a c w, Rec.mulNum_eq a c w, Rec.divNum_eq a c w,
    Rec.powNum_eq a c w⟩,
   ⟨Rec.subSwapped_eq a c w, Rec.divSwapped_eq a c w, Rec.numPow_eq c a w⟩,
   ⟨Rec.neg_eq a w, Rec.sin_eq a w, Rec.cos_eq a w, Rec.exp_eq a w, Rec.ln_eq a w,
    Rec.sqrt_eq a w⟩⟩

/-- **The chain rule through user-supplied closures.**  `Record::unary(fx, dfx)` and
    `Record::binary(fxy, dfx, dfy)` with *arbitrary* closures (nothing is assumed about them — they
    need not be a function and its derivative), on any well-formed tape, for operands that point
    inside it: the operation does not panic, the result's number is what `fx` / `fxy` returned,
    and the derivatives reported for the result are, at every position `q` that existed before,
    the derivatives reported for the operand(s) times what the derivative closures returned at
    the operands' numbers:  `∂y/∂q = dfx(a)·∂a/∂q`,  `∂y/∂q = dfx(a,b)·∂a/∂q + dfy(a,b)·∂b/∂q`
    — the reported derivative is the one the closures imply.  (By
    `every_operator_is_unary_or_binary` this is also the local statement for every operator.) -/
theorem user_closure_chain_rule (a b : Rec R) (w : World R) (h : Nat) (hw : Tape.WF (w h))
    (hah : a.history = some h) (hai : a.index < (w h).length)
    (hbh : b.history = some h) (hbi : b.index < (w h).length) :
    (∀ fx dfx : R → R, ∃ adjA adjY, a.derivatives w = .ok adjA ∧
      (a.unary fx dfx w).1.derivatives (a.unary fx dfx w).2 = .ok adjY ∧
      (a.unary fx dfx w).1.number = fx a.number ∧
      ∀ q, q < (w h).length → adjY.getD q 0 = dfx a.number * adjA.getD q 0) ∧
    (∀ fxy dfx dfy : R → R → R, ∃ r w' adjA adjB adjY, a.binary b fxy dfx dfy w = .ok (r, w') ∧
      a.derivatives w = .ok adjA ∧ b.derivatives w = .ok adjB ∧ r.derivatives w' = .ok adjY ∧
      r.number = fxy a.number b.number ∧
      ∀ q, q < (w h).length →
        adjY.getD q 0
          = dfx a.number b.number * adjA.getD q 0 + dfy a.number b.number * adjB.getD q 0) :=
  ⟨fun fx dfx => unary_chain a fx dfx w h hw hah hai,
   fun fxy dfx dfy => binary_chain a b fxy dfx dfy w h hw hah hai hbh hbi⟩

example : Tape.WF ((World.empty.update 0 [⟨0, 0, 0, 0⟩, ⟨1, 1, 0, 0⟩] : World R) 0) ∧
    (⟨2, some 0, 0⟩ : Rec R).index < ((World.empty.update 0 [⟨0, 0, 0, 0⟩, ⟨1, 1, 0, 0⟩] : World R) 0).length ∧
    (⟨3, some 0, 1⟩ : Rec R).index < ((World.empty.update 0 [⟨0, 0, 0, 0⟩, ⟨1, 1, 0, 0⟩] : World R) 0).length := by
  refine ⟨?_, by simp [World.update], by simp [World.update]⟩
  exact Tape.WF_snoc [⟨0, 0, 0, 0⟩] ⟨1, 1, 0, 0⟩
    (Tape.WF_snoc [] ⟨0, 0, 0, 0⟩ Tape.WF_nil (Or.inr ⟨rfl, rfl⟩) (Or.inr ⟨rfl, rfl⟩))
    (Or.inr ⟨rfl, rfl⟩) (Or.inr ⟨rfl, rfl⟩)

/-- **Every program the generators' grammar can emit satisfies the hypotheses of the theorems
    above.**  `Prog.Emitted` is the grammar (operands are drawn from the results that already
    exist).  Such a program is well scoped — and conversely, so `WellScoped` excludes nothing the
    generators could emit and nothing a Rust program could do —; over a field `DivOK` holds for
    every program; and the tape a run starts on (a new `WengertList`) is well formed.  So for
    generated programs over a field, run on a fresh tape, `reverse_eq_grad` holds with no
    hypothesis left. -/
theorem generated_programs_valid {F : Type} [Field F] [RealFns F] (p : Prog F) :
    (Prog.Emitted p ↔ p.WellScoped) ∧ DivOK p ∧
    ∀ h, Tape.WF ((World.empty : World F) h) :=
  ⟨⟨Prog.Emitted.wellScoped, Prog.Emitted.of_wellScoped p⟩, DivOK.ofField p, fun _ => Tape.WF_nil⟩

example : Prog.Emitted ([.var, .const 2, .arith .mul 0 1] : Prog R) :=
  .snoc [.var, .const 2] _ (.snoc [.var] _ (.snoc [] _ .nil (by simp [Instr.operands]))
    (by simp [Instr.operands])) (by simp [Instr.operands])

/-- `reverse_eq_grad` for generated programs over a field on a fresh tape: no hypothesis other
    than "the grammar emitted it". -/
theorem reverse_eq_grad_generated {F : Type} [Field F] [RealFns F] (p : Prog F)
    (hp : Prog.Emitted p) (h : Nat) (env : Nat → F) :
    ∃ w recs, Prog.exec h env p World.empty = (w, .ok recs) ∧ recs.length = p.length ∧
      ∀ k, k < p.length →
        match (getRec recs k).history with
        | none =>
          (getRec recs k).derivatives w = .panic .explicit ∧ ∀ i, (Prog.grad env p i).getD k 0 = 0
        | some _ =>
          ∃ adj, (getRec recs k).derivatives w = .ok adj ∧ adj.length = (w h).length ∧
            ∀ i, p.isInput i = true →
              adj.getD (getRec recs i).index 0 = (Prog.grad env p i).getD k 0 :=
  reverse_eq_grad p hp.wellScoped (DivOK.ofField p) h env World.empty Tape.WF_nil

/-! ### bounded integer element types (the `@ int` lines) -/

open EasyMl.Num in
/-- **Over a bounded integer type the wrapper's value-or-panic is the plain operator's** — the
    statement behind the `@ int` self-check lines of the harness, as a theorem over the record
    model instantiated at checked arithmetic (`Model/TapeChecked.lean`: the element type is the
    evaluation of an integer expression, a value or the first panic; the operators are agent K's
    `arithPlain t`, i.e. `pAdd`, `pSub`, `pMul`, `pDiv`, `checked (-x)` of `Model/Numeric.lean`).
    For each of the twelve integer types `t`, each of `+ - * /`, any two records whose numbers are
    the values `x` and `y` — constants or variables in every pairing, the same record twice,
    any tapes, any positions —, in any state of the tapes:

    * `&a op &b` is `Record::binary` with the element function and the documented rules, also in
      the constant-variable arm of `+` and `*` where the code commutes the operands;
    * when it returns (no `same_list` panic), the result's number is `x op y` as the plain
      operator evaluates it: the same value, or the same panic kind (overflow; division by
      zero; `MIN / -1`);
    * the same for `&a op &y` with a plain number, for `y - a` and `y / a` (`sub_swapped`,
      `div_swapped`) and for `-a` (`checked (-x)`: `-MIN` panics);
    * the weights put on the tape are the rules of functions.rs evaluated with the same checked
      operators in the order written (`dfdx`, `dfdy` of agent K's model: `1`, `-1`, `y`, `x`,
      `1 / y`, `(-x) / (y * y)`) — they are evaluated after the number, left before right, which
      is the order the harness oracle uses for the panic kind.

    The `@ f64` lines stay oracle-only: there is no Lean model of IEEE-754 arithmetic here; the
    harness compares the implementation with the documented formula evaluated in `f64` by
    `to_bits`. -/
theorem record_op_checked_eq_plain (t : IntTy) (op : BinOp) (a b : Rec (Chk t)) (x y : Val t)
    (ha : a.number = Chk.lift x) (hb : b.number = Chk.lift y) (w : World (Chk t)) :
    Rec.bin op a b w = a.binary b (Fn.fnOf op) (Fn.dxOf op) (Fn.dyOf op) w ∧
    (∀ r w', Rec.bin op a b w = .ok (r, w') → r.number.out = (arithPlain t).bin op x y) ∧
    (Rec.binNum op a (Chk.lift y) w).1.number.out = (arithPlain t).bin op x y ∧
    (a.subSwapped (Chk.lift y) w).1.number.out = pSub t y x ∧
    (a.divSwapped (Chk.lift y) w).1.number.out = pDiv t y x ∧
    (a.neg w).1.number.out = (arithPlain t).neg x ∧
    (Fn.dxOf op (Chk.lift x) (Chk.lift y)).out = dfdx (arithPlain t) op x y ∧
    (Fn.dyOf op (Chk.lift x) (Chk.lift y)).out = dfdy (arithPlain t) op x y := by
  have hshape := Rec.bin_eq_binary op a b x y ha hb w
  refine ⟨hshape, fun r w' hrun => ?_, ?_, ?_, ?_, ?_, ?_, ?_⟩
  · rw [hshape] at hrun
    rw [Rec.binary_number a b _ _ _ w w' r hrun, ha, hb, Chk.fnOf_lift]; rfl
  · rw [Rec.binNum_number, ha, Chk.fnOf_lift]; rfl
  · rw [Rec.subSwapped_number, ha]; rfl
  · rw [Rec.divSwapped_number, ha]; rfl
  · rw [Rec.neg_number, ha]; rfl
  · rw [Chk.dxOf_lift]; rfl
  · rw [Chk.dyOf_lift]; rfl

-- the operator returns in every same-tape pairing (here two variables of tape 0, `5 - 7` in `i8`)
open EasyMl.Num in
example : ∃ r w', Rec.bin .sub (⟨Chk.lift (ofInt .i8 5), some 0, 0⟩ : Rec (Chk .i8))
    ⟨Chk.lift (ofInt .i8 7), some 0, 1⟩ (World.empty.update 0 [⟨0, 0, 0, 0⟩, ⟨1, 1, 0, 0⟩])
      = .ok (r, w') ∧ r.number.out.isOk = true :=
  ⟨_, _, rfl, by decide⟩

-- the checked arithmetic is not trivial: it panics where the plain operator does
open EasyMl.Num in
example : ((Chk.lift (ofInt .i8 100) + Chk.lift (ofInt .i8 100) : Chk .i8).out.isOk = false) ∧
    ((Chk.lift (ofInt .i8 100) + Chk.lift (ofInt .i8 27) : Chk .i8).out.isOk = true) ∧
    ((-(Chk.lift (ofInt .i8 (-128))) : Chk .i8).out.isOk = false) ∧
    ((Chk.lift (ofInt .i8 (-128)) / Chk.lift (ofInt .i8 (-1)) : Chk .i8).out.isOk = false) := by
  decide

/-! ### the analytic meaning over ℝ -/

/-- **The formal partial derivative is the analytic one.**  Over ℝ (with `sqrt exp ln sin cos`,
    `x ^ y` read as Mathlib's real functions), for every program, every input `i` and every
    result `k`: if every instruction is differentiable at the point where it is evaluated
    (`Prog.Regular`: non-zero divisors, `ln`/`sqrt` away from 0, positive base of a varying power,
    user functions having the derivatives they were handed over), then the value of `k` as a
    function of input `i` (the others fixed) has derivative `(Prog.grad env p i)[k]` at `env i`. -/
theorem grad_hasDerivAt (p : Prog ℝ) (env : Nat → ℝ) (hreg : p.Regular env) (i k : Nat) :
    HasDerivAt (fun x => (Prog.eval (Function.update env i x) p).getD k 0)
      ((Prog.grad env p i).getD k 0) (env i) := by
  have h0 : DInv i env (fun _ => []) [] :=
    ⟨fun _ => rfl, fun k => by simpa using hasDerivAt_const (env i) (0 : ℝ)⟩
  exact (prog_hasDerivAt i env p (fun _ => []) [] h0 hreg).der k

example : Prog.Regular (fun _ => (2 : ℝ))
    [.var, .var, .arith .div 0 1, .real .sin 2, .real .ln 1, .powNum 0 3] := by
  simp [Prog.Regular, Prog.RegularFrom, Instr.Regular, Instr.val]

/-- **Reverse mode returns the true partial derivative** (C04's headline, end to end over ℝ):
    for a regular program run with records on a tape, the entry of `derivatives()` of a result
    `k` at the position of input `i` is the derivative of the plain computation of `k` with
    respect to input `i` at the input point. -/
theorem reverse_hasDerivAt (p : Prog ℝ) (hp : p.WellScoped) (h : Nat) (env : Nat → ℝ)
    (w0 : World ℝ) (hw0 : Tape.WF (w0 h)) (hreg : p.Regular env) :
    ∃ w recs, Prog.exec h env p w0 = (w, .ok recs) ∧
      ∀ k i, k < p.length → p.isInput i = true →
        ∀ adj, (getRec recs k).derivatives w = .ok adj →
          HasDerivAt (fun x => (Prog.eval (Function.update env i x) p).getD k 0)
            (adj.getD (getRec recs i).index 0) (env i) := by
  obtain ⟨w, recs, hrun, _, hall⟩ := reverse_eq_grad p hp (DivOK.ofField p) h env w0 hw0
  refine ⟨w, recs, hrun, fun k i hk hi adj hadj => ?_⟩
  have := hall k hk
  cases hh : (getRec recs k).history with
  | none => simp [Rec.derivatives, Rec.tryDerivatives, hh] at hadj
  | some h' =>
    simp only [hh] at this
    obtain ⟨adj', h1, _, h3⟩ := this
    rw [hadj] at h1
    cases h1
    rw [h3 i hi]
    exact grad_hasDerivAt p env hreg i k

end EasyMl.C04
