/-
  EasyMl.Props.C14 — property theorems for C14 (mean, variance, covariance, softmax and F1 equal
  their population definitions).

  Only property statements (and their non-vacuity examples) live here; helper lemmas are in
  EasyMl/Lemmas/Stats.lean and EasyMl/Lemmas/StatsReal.lean.  The theorems are about the very
  definitions the `emlmodel` driver executes against the implementation
  (EasyMl/Model/Stats.lean); the textbook formulas are in EasyMl/Spec/Stats.lean.

  The statistics theorems hold over every division ring / field `K` (ℚ, ℝ, the prime field of
  the correspondence runs …).  They say "divide by the number of samples `N`" literally; that `N`
  is not zero in `K` (so that this is the population statistic) is the characteristic-0 reading,
  made explicit in `mean_eq`.  The softmax theorems are over ℝ with `Real.exp`.
-/
import Mathlib.Tactic.FieldSimp
import Mathlib.Tactic.Ring
import Mathlib.Algebra.CharZero.Defs
import EasyMl.Lemmas.StatsReal
import EasyMl.Lemmas.StatsNatural

namespace EasyMl.C14
open EasyMl EasyMl.Stats EasyMl.Spec.Stats
open scoped EasyMl.RealModel

set_option linter.unusedSectionVars false

variable {K : Type}

/-! ### mean and variance -/

/-- `mean` of a non-empty sample is `Σxᵢ / N` (the count the code accumulates by repeated `+ 1`
    is `N` as an element of `K`); the empty sample is rejected.  In characteristic 0, `N ≠ 0`,
    so `N · mean = Σxᵢ`. -/
theorem mean_eq [Field K] (data : List K) :
    (data ≠ [] → mean data = .ok (data.sum / (data.length : K))) ∧
    (data = [] → mean data = .panic .explicit) ∧
    (∀ [CharZero K], data ≠ [] → ∃ μ, mean data = .ok μ ∧ (data.length : K) * μ = data.sum) := by
  refine ⟨fun h => mean_eq_popMean data h, fun h => by subst h; rfl, ?_⟩
  intro _ h
  refine ⟨_, mean_eq_popMean data h, ?_⟩
  have : (data.length : K) ≠ 0 := by
    rw [Nat.cast_ne_zero]
    exact fun h0 => h (List.length_eq_zero_iff.1 h0)
  unfold popMean
  field_simp

/-- `variance` is the population variance `Σ(xᵢ − μ)² / N` with `μ = Σxᵢ / N` — divided by `N`,
    not by `N − 1`; the empty sample is rejected. -/
theorem variance_eq [DivisionRing K] (data : List K) :
    (data ≠ [] → variance data =
      .ok ((data.map fun x => (x - data.sum / (data.length : K)) * (x - data.sum / (data.length : K))).sum
        / (data.length : K))) ∧
    (data = [] → variance data = .panic .explicit) :=
  ⟨fun h => variance_eq_popVariance data h, fun h => by subst h; rfl⟩

/-! ### covariance of matrices -/

/-- Shape: the covariance matrix is `features × features` (and a valid matrix), for both
    orientations. -/
theorem cov_shape [DivisionRing K] (m : Matrix K) (h : m.Inv) :
    (∃ C, covarianceColumnFeatures m = .ok C ∧ C.rows = m.columns ∧ C.columns = m.columns ∧ C.Inv) ∧
    (∃ C, covarianceRowFeatures m = .ok C ∧ C.rows = m.rows ∧ C.columns = m.rows ∧ C.Inv) := by
  obtain ⟨_, hr, hc⟩ := h
  constructor
  · refine ⟨⟨covCells m.columns (m.rows : K) (matrixColumn m), m.columns, m.columns⟩, ?_, rfl, rfl, ?_⟩
    · unfold covarianceColumnFeatures; rw [if_pos (show 0 < m.columns from hc)]
    · exact ⟨covCells_length _ _ _, hc, hc⟩
  · refine ⟨⟨covCells m.rows (m.columns : K) (matrixRow m), m.rows, m.rows⟩, ?_, rfl, rfl, ?_⟩
    · unfold covarianceRowFeatures; rw [if_pos (show 0 < m.rows from hr)]
    · exact ⟨covCells_length _ _ _, hr, hr⟩

/-- Entries: with columns as features (rows as samples), entry `(i, j)` is the population
    covariance `Σₛ (xₛᵢ − μᵢ)(xₛⱼ − μⱼ) / N` of columns `i` and `j`, where column `c` lists the
    entries `(0,c), (1,c), …` and `N` is the number of rows; symmetrically for rows as features. -/
theorem cov_entry_eq [DivisionRing K] (m : Matrix K) (h : m.Inv) :
    (∃ C, covarianceColumnFeatures m = .ok C ∧
      (∀ i j, i < m.columns → j < m.columns →
        C.tryGet i j = some (popCovariance (matrixColumn m i) (matrixColumn m j))) ∧
      (∀ c, c < m.columns → (matrixColumn m c).length = m.rows ∧
        ∀ s, s < m.rows → (matrixColumn m c)[s]? = m.tryGet s c)) ∧
    (∃ C, covarianceRowFeatures m = .ok C ∧
      (∀ i j, i < m.rows → j < m.rows →
        C.tryGet i j = some (popCovariance (matrixRow m i) (matrixRow m j))) ∧
      (∀ r, r < m.rows → (matrixRow m r).length = m.columns ∧
        ∀ s, s < m.columns → (matrixRow m r)[s]? = m.tryGet r s)) := by
  have hr := h.2.1
  have hc := h.2.2
  constructor
  · refine ⟨⟨covCells m.columns (m.rows : K) (matrixColumn m), m.columns, m.columns⟩,
      by unfold covarianceColumnFeatures; rw [if_pos (show 0 < m.columns from hc)], ?_, ?_⟩
    · intro i j hi hj
      rw [Arith.Matrix.tryGet_eq]
      simp only
      rw [if_pos ⟨hi, hj⟩, covCells_getElem? _ _ _ i j hi hj,
        covCell_eq_popCovariance m.rows _ _ (matrixColumn_length m h i hi) (matrixColumn_length m h j hj)]
    · intro c hcc
      exact ⟨matrixColumn_length m h c hcc, fun s hs => matrixColumn_getElem? m h c hcc s hs⟩
  · refine ⟨⟨covCells m.rows (m.columns : K) (matrixRow m), m.rows, m.rows⟩,
      by unfold covarianceRowFeatures; rw [if_pos (show 0 < m.rows from hr)], ?_, ?_⟩
    · intro i j hi hj
      rw [Arith.Matrix.tryGet_eq]
      simp only
      rw [if_pos ⟨hi, hj⟩, covCells_getElem? _ _ _ i j hi hj,
        covCell_eq_popCovariance m.columns _ _ (matrixRow_length m h i hi) (matrixRow_length m h j hj)]
    · intro r hrr
      exact ⟨matrixRow_length m h r hrr, fun s hs => matrixRow_getElem? m h r hrr s hs⟩

/-- The covariance matrix is symmetric (over a field). -/
theorem cov_symm [Field K] (m : Matrix K) (h : m.Inv) (C : Matrix K)
    (hC : covarianceColumnFeatures m = .ok C ∨ covarianceRowFeatures m = .ok C) (i j : Nat) :
    C.tryGet i j = C.tryGet j i := by
  have hcomm : ∀ xs ys : List K, xs.length = ys.length → popCovariance xs ys = popCovariance ys xs := by
    intro xs ys hl
    unfold popCovariance
    rw [hl]
    congr 2
    rw [List.zipWith_comm]
    congr 1
    funext b a
    exact mul_comm _ _
  have hout : ∀ (n : Nat), C.rows = n → C.columns = n → ¬ (i < n ∧ j < n) →
      C.tryGet i j = C.tryGet j i := by
    intro n h1 h2 hn
    rw [Arith.Matrix.tryGet_eq, Arith.Matrix.tryGet_eq, h1, h2, if_neg hn, if_neg (fun h => hn ⟨h.2, h.1⟩)]
  rcases hC with hC | hC
  · obtain ⟨C', hC', hent, hcol⟩ := (cov_entry_eq m h).1
    rw [hC] at hC'; cases hC'
    by_cases hij : i < m.columns ∧ j < m.columns
    · rw [hent i j hij.1 hij.2, hent j i hij.2 hij.1,
        hcomm _ _ (by rw [(hcol i hij.1).1, (hcol j hij.2).1])]
    · obtain ⟨C'', hC'', h1, h2, _⟩ := (cov_shape m h).1
      rw [hC] at hC''; cases hC''
      exact hout m.columns h1 h2 hij
  · obtain ⟨C', hC', hent, hrow⟩ := (cov_entry_eq m h).2
    rw [hC] at hC'; cases hC'
    by_cases hij : i < m.rows ∧ j < m.rows
    · rw [hent i j hij.1 hij.2, hent j i hij.2 hij.1,
        hcomm _ _ (by rw [(hrow i hij.1).1, (hrow j hij.2).1])]
    · obtain ⟨C'', hC'', h1, h2, _⟩ := (cov_shape m h).2
      rw [hC] at hC''; cases hC''
      exact hout m.rows h1 h2 hij

/-- The diagonal carries the per-feature variances: entry `(i, i)` is what `variance` returns on
    feature `i`. -/
theorem cov_diag_eq_variance [DivisionRing K] (m : Matrix K) (h : m.Inv) :
    (∀ C, covarianceColumnFeatures m = .ok C → ∀ i, i < m.columns →
      ∃ v, variance (matrixColumn m i) = .ok v ∧ C.tryGet i i = some v) ∧
    (∀ C, covarianceRowFeatures m = .ok C → ∀ i, i < m.rows →
      ∃ v, variance (matrixRow m i) = .ok v ∧ C.tryGet i i = some v) := by
  have hdiag : ∀ xs : List K, popCovariance xs xs = popVariance xs := by
    intro xs
    unfold popCovariance popVariance
    rw [List.zipWith_self]
  have hne : ∀ (l : List K) (n : Nat), l.length = n → 1 ≤ n → l ≠ [] := by
    intro l n hl hn hnil
    rw [hnil] at hl
    simp at hl
    omega
  constructor
  · intro C hC i hi
    obtain ⟨C', hC', hent, hcol⟩ := (cov_entry_eq m h).1
    rw [hC] at hC'; cases hC'
    refine ⟨_, variance_eq_popVariance _ (hne _ _ (hcol i hi).1 h.2.1), ?_⟩
    rw [hent i i hi hi, hdiag]
  · intro C hC i hi
    obtain ⟨C', hC', hent, hrow⟩ := (cov_entry_eq m h).2
    rw [hC] at hC'; cases hC'
    refine ⟨_, variance_eq_popVariance _ (hne _ _ (hrow i hi).1 h.2.2), ?_⟩
    rw [hent i i hi hi, hdiag]

/-- The two matrix entry points agree under transposition of the data: row features of the
    transposed table = column features of the table (same matrix, entry for entry). -/
theorem cov_row_eq_col_transpose [DivisionRing K] (m mt : Matrix K) (h : m.Inv) (ht : mt.Inv)
    (hrows : mt.rows = m.columns) (hcols : mt.columns = m.rows)
    (hT : ∀ s f, mt.tryGet f s = m.tryGet s f) :
    covarianceRowFeatures mt = covarianceColumnFeatures m := by
  unfold covarianceRowFeatures covarianceColumnFeatures
  rw [if_pos (show 0 < mt.rows from ht.2.1), if_pos (show 0 < m.columns from h.2.2), hrows, hcols]
  congr 2
  apply covCells_congr
  intro i hi
  apply Arith.map_some_injective
  rw [matrixRow_map_some mt ht i (by rw [hrows]; exact hi), matrixColumn_map_some m h i hi, hcols]
  apply List.map_congr_left
  intro s _
  exact hT s i

/-! ### covariance of a tensor along a named feature dimension -/

/-- The tensor entry point agrees with the matrix one on the same data, with the feature dimension
    second (`samples × features`) or first (`features × samples`); the result is
    `[("i", F), ("j", F)]` (`iName ≠ jName` stand for the two literals); a feature name that is not a
    dimension of the input is rejected. -/
theorem cov_tensor_eq_matrix [DivisionRing K] {ν : Type} [DecidableEq ν] (iName jName : ν)
    (hij : iName ≠ jName) (v : Arith.TView ν K) (hv : v.WF) (m : Matrix K) (h : m.Inv) (s f : ν) :
    (v.shape = [(s, m.rows), (f, m.columns)] → (∀ si fi, v.get [si, fi] = m.tryGet si fi) →
      ∃ t C, covarianceTensor iName jName v f = .ok t ∧ covarianceColumnFeatures m = .ok C ∧
        t.data = C.data ∧ t.shape = [(iName, m.columns), (jName, m.columns)]) ∧
    (v.shape = [(f, m.columns), (s, m.rows)] → (∀ si fi, v.get [fi, si] = m.tryGet si fi) →
      ∃ t C, covarianceTensor iName jName v f = .ok t ∧ covarianceColumnFeatures m = .ok C ∧
        t.data = C.data ∧ t.shape = [(iName, m.columns), (jName, m.columns)]) ∧
    (∀ d0 d1, v.shape = [d0, d1] → d0.1 ≠ f → d1.1 ≠ f →
      covarianceTensor iName jName v f = .panic .explicit) := by
  have hC : covarianceColumnFeatures m = .ok ⟨covCells m.columns (m.rows : K) (matrixColumn m),
      m.columns, m.columns⟩ := by
    unfold covarianceColumnFeatures; rw [if_pos (show 0 < m.columns from h.2.2)]
  refine ⟨?_, ?_, ?_⟩
  · intro hs hg
    have hsf : s ≠ f := by
      have := hv.shape.1
      simp only [hs, List.map_cons, List.map_nil, List.nodup_cons, List.mem_cons,
        List.not_mem_nil, or_false] at this
      exact this.1
    have hpick : (if (s, m.rows).1 = f then some ((s, m.rows), (f, m.columns))
        else if (f, m.columns).1 = f then some ((f, m.columns), (s, m.rows)) else none)
        = some ((f, m.columns), (s, m.rows)) := by simp [hsf]
    have hcol : ∀ i, i < m.columns → tensorFeature v f i = .ok (matrixColumn m i) := by
      intro i hi
      rw [tensorFeature_second hs hsf i hi, matrixColumn_eq m i hi]
      congr 1
      apply Arith.filterMap_congr'
      intro k _
      exact hg k i
    refine ⟨_, _, covarianceTensor_eq iName jName hij v _ _ _ _ f hs hpick h.2.2 _ hcol, hC, rfl, rfl⟩
  · intro hs hg
    have hpick : (if (f, m.columns).1 = f then some ((f, m.columns), (s, m.rows))
        else if (s, m.rows).1 = f then some ((s, m.rows), (f, m.columns)) else none)
        = some ((f, m.columns), (s, m.rows)) := by simp
    have hcol : ∀ i, i < m.columns → tensorFeature v f i = .ok (matrixColumn m i) := by
      intro i hi
      rw [tensorFeature_first hs i hi, matrixColumn_eq m i hi]
      congr 1
      apply Arith.filterMap_congr'
      intro k _
      exact hg k i
    refine ⟨_, _, covarianceTensor_eq iName jName hij v _ _ _ _ f hs hpick h.2.2 _ hcol, hC, rfl, rfl⟩
  · intro d0 d1 hs h0 h1
    unfold covarianceTensor
    simp [hs, h0, h1]

/-! ### Naturality in the element type; lazy views -/

/-- **The statistics are natural in the element type.**  For any map `φ` between element types
    that commutes with `+ − × ÷ 0 1` and the image of the naturals (`StatsHom φ`; for softmax with
    `+ − ÷ 0 exp` and `<`, `SoftmaxHom φ`), computing a statistic of the images gives the image of
    the statistic — value or rejection, every length, size and shape, every entry: mean,
    variance, both matrix covariances, the tensor covariance (any view, either feature position)
    and softmax.  The routines are generic: they cannot do at one element type (`Trace`, `Record`,
    a user type) anything they do not do at another. -/
theorem stats_natural {α β : Type} [Add α] [Sub α] [Mul α] [Div α] [Zero α] [One α] [NatCast α]
    [Add β] [Sub β] [Mul β] [Div β] [Zero β] [One β] [NatCast β] {φ : α → β} (h : StatsHom φ) :
    (∀ l : List α, mean (l.map φ) = omap φ (mean l)) ∧
    (∀ l : List α, variance (l.map φ) = omap φ (variance l)) ∧
    (∀ m : Matrix α, covarianceColumnFeatures (mapMatrix φ m)
        = omap (mapMatrix φ) (covarianceColumnFeatures m)) ∧
    (∀ m : Matrix α, covarianceRowFeatures (mapMatrix φ m)
        = omap (mapMatrix φ) (covarianceRowFeatures m)) ∧
    (∀ {ν : Type} [DecidableEq ν] (iName jName : ν) (v : Arith.TView ν α) (feature : ν),
      covarianceTensor iName jName (mapView φ v) feature
        = omap (mapTensor φ) (covarianceTensor iName jName v feature)) ∧
    (∀ p r : α, f1Score (φ p) (φ r) = φ (f1Score p r)) :=
  ⟨mean_map h, variance_map h, covarianceColumnFeatures_map h, covarianceRowFeatures_map h,
    fun iName jName v feature => covarianceTensor_map h iName jName v feature,
    fun p r => by simp only [f1Score, h.mul, h.div, h.add, h.one]⟩

/-- softmax is natural as well (`exp` and the `max_by` comparisons must commute with the map). -/
theorem softmax_natural {α β : Type} [Add α] [Sub α] [Div α] [Zero α] [RealFns α] [NumOrd α]
    [Add β] [Sub β] [Div β] [Zero β] [RealFns β] [NumOrd β] {φ : α → β} (h : SoftmaxHom φ)
    (l : List α) : softmax (l.map φ) = (softmax l).map φ :=
  softmax_map h l

/-- **Over `Trace<T>` / `Record<T>` elements the value of a statistic is the statistic of the
    values**: for dual numbers over any element type `R` (`Dual R`, the model of `Trace<T>` and of
    the value-with-derivative reading of `Record<T>`), the number parts of mean, variance, every
    covariance and softmax of the inputs are those statistics of the inputs' number parts —
    whatever the derivative parts, and whichever inputs are constants. -/
theorem stats_over_trace {R : Type} [Add R] [Sub R] [Mul R] [Div R] [Neg R] [Zero R] [One R]
    [NatCast R] :
    (∀ l : List (Dual R), mean (l.map Dual.number) = omap Dual.number (mean l)) ∧
    (∀ l : List (Dual R), variance (l.map Dual.number) = omap Dual.number (variance l)) ∧
    (∀ m : Matrix (Dual R), covarianceColumnFeatures (mapMatrix Dual.number m)
        = omap (mapMatrix Dual.number) (covarianceColumnFeatures m)) ∧
    (∀ m : Matrix (Dual R), covarianceRowFeatures (mapMatrix Dual.number m)
        = omap (mapMatrix Dual.number) (covarianceRowFeatures m)) ∧
    (∀ {ν : Type} [DecidableEq ν] (iName jName : ν) (v : Arith.TView ν (Dual R)) (feature : ν),
      covarianceTensor iName jName (mapView Dual.number v) feature
        = omap (mapTensor Dual.number) (covarianceTensor iName jName v feature)) ∧
    (∀ [RealFns R] [NumOrd R] (l : List (Dual R)),
      softmax (l.map Dual.number) = (softmax l).map Dual.number) := by
  obtain ⟨h1, h2, h3, h4, h5, _⟩ := stats_natural (dualNumber_statsHom (R := R))
  exact ⟨h1, h2, h3, h4, fun iName jName v feature => h5 iName jName v feature,
    fun l => softmax_map dualNumber_softmaxHom l⟩

/-- Non-vacuity: the identity is such a map, and so is the number part of a dual number over the
    prime field of the correspondence runs. -/
example : StatsHom (id : ℚ → ℚ) ∧ StatsHom (Dual.number : Dual ℚ → ℚ) :=
  ⟨⟨rfl, rfl, fun _ _ => rfl, fun _ _ => rfl, fun _ _ => rfl, fun _ _ => rfl, fun _ => rfl⟩,
    dualNumber_statsHom⟩

/-- **The tensor covariance depends only on the logical data its input shows**: two well-formed
    views with the same shape and the same element at every in-range index — a plain tensor, a
    lazily reordered view (`TensorAccess`, `TensorTranspose`), a range, mask, reversal or rename of
    a larger tensor, however laid out in memory or iterated — give the same outcome; in particular
    a lazy view gives what the tensor collected from it gives.  (This is the statement a
    "memory order" fast path falsifies.) -/
theorem covariance_congr {ν : Type} [DecidableEq ν] {α : Type}
    [Add α] [Sub α] [Mul α] [Div α] [Zero α] [NatCast α]
    (iName jName : ν) (hij : iName ≠ jName) (v : Arith.TView ν α) (hv : v.WF) (feature : ν) :
    (∀ w : Arith.TView ν α, Arith.TView.Same v w →
      covarianceTensor iName jName v feature = covarianceTensor iName jName w feature) ∧
    covarianceTensor iName jName v feature
      = covarianceTensor iName jName (Arith.TView.ofTensor v.materialise) feature :=
  ⟨fun _ hvw => covarianceTensor_congr iName jName hij hv hvw feature,
    covarianceTensor_congr iName jName hij hv hv.materialise_same feature⟩

/-- Non-vacuity: a concrete well-formed view and a second view showing the same data (the tensor
    collected from it) satisfy the hypotheses of `covariance_congr`. -/
example :
    ∃ t : Tensor String ℚ, Tensor.tryFrom [("s", 3), ("f", 2)] [1, 2, 3, 6, 5, 1] = some t ∧
      (Arith.TView.ofTensor t).WF ∧
      Arith.TView.Same (Arith.TView.ofTensor t) (Arith.TView.ofTensor (Arith.TView.ofTensor t).materialise) := by
  have hv := (Arith.tryFrom_valid (shape := [("s", 3), ("f", 2)])
    (data := ([1, 2, 3, 6, 5, 1] : List ℚ)) rfl).1
  exact ⟨_, rfl, Arith.ofTensor_WF hv, (Arith.ofTensor_WF hv).materialise_same⟩

/-! ### softmax (over ℝ, `exp` = `Real.exp`) -/

/-- empty input gives the empty list -/
theorem softmax_nil : softmax ([] : List ℝ) = [] := rfl

/-- same length as the input -/
theorem softmax_length (l : List ℝ) : (softmax l).length = l.length := by
  cases l with
  | nil => rfl
  | cons x xs =>
    obtain ⟨mx, hmx, _, _⟩ := maxBy_isMax (x :: xs) (by simp)
    rw [softmax_real_eq _ mx hmx]
    simp

/-- The model's max-shifted computation is the textbook softmax `exp xᵢ / Σⱼ exp xⱼ`; the shift it
    uses is the maximum of the inputs, so every exponent it feeds to `exp` is `≤ 0` (the stability
    device for large-magnitude inputs). -/
theorem softmax_eq_textbook (l : List ℝ) (h : l ≠ []) :
    softmax l = l.map (fun x => Real.exp x / (l.map Real.exp).sum) ∧
    ∃ mx, maxBy l = some mx ∧ mx ∈ l ∧ ∀ x ∈ l, x - mx ≤ 0 := by
  refine ⟨softmax_real_eq_textbook l h, ?_⟩
  obtain ⟨mx, h1, h2, h3⟩ := maxBy_isMax l h
  exact ⟨mx, h1, h2, fun x hx => sub_nonpos.2 (h3 x hx)⟩

/-- every output is non-negative (in fact positive) -/
theorem softmax_nonneg (l : List ℝ) : ∀ y ∈ softmax l, 0 ≤ y := by
  intro y hy
  cases l with
  | nil => simp [softmax_nil] at hy
  | cons x xs =>
    rw [softmax_real_eq_textbook _ (by simp)] at hy
    simp only [List.mem_map] at hy
    obtain ⟨z, _, rfl⟩ := hy
    exact le_of_lt (div_pos (Real.exp_pos z) (sum_exp_pos _ (by simp)))

/-- the outputs of a non-empty input sum to one -/
theorem softmax_sum_one (l : List ℝ) (h : l ≠ []) : (softmax l).sum = 1 := by
  rw [softmax_real_eq_textbook l h]
  have hpos := sum_exp_pos l h
  have : (l.map fun x => Real.exp x / (l.map Real.exp).sum)
      = (l.map Real.exp).map (fun e => e * ((l.map Real.exp).sum)⁻¹) := by
    rw [List.map_map]
    apply List.map_congr_left
    intro x _
    simp [div_eq_mul_inv]
  rw [this, List.sum_map_mul_right]
  simp only [List.map_id']
  exact mul_inv_cancel₀ (ne_of_gt hpos)

/-- order relations between inputs are preserved: `xᵢ ≤ xⱼ ⇔ sᵢ ≤ sⱼ` (hence also `<` and `=`). -/
theorem softmax_monotone (l : List ℝ) (i j : Nat) (hi : i < l.length) (hj : j < l.length) :
    l[i] ≤ l[j] ↔
      (softmax l)[i]'(by rw [softmax_length]; exact hi) ≤ (softmax l)[j]'(by rw [softmax_length]; exact hj) := by
  have hne : l ≠ [] := by intro h; rw [h] at hi; simp at hi
  have hpos := sum_exp_pos l hne
  have key : ∀ k (hk : k < l.length),
      (softmax l)[k]'(by rw [softmax_length]; exact hk) = Real.exp l[k] / (l.map Real.exp).sum := by
    intro k hk
    have := softmax_real_eq_textbook l hne
    simp only [this, List.getElem_map]
  rw [key i hi, key j hj, div_le_div_iff_of_pos_right hpos, Real.exp_le_exp]

/-- adding a constant to every input does not change the output -/
theorem softmax_shift_invariant (l : List ℝ) (c : ℝ) : softmax (l.map (· + c)) = softmax l := by
  cases l with
  | nil => rfl
  | cons x xs =>
    rw [softmax_real_eq_textbook _ (by simp), softmax_real_eq_textbook (x :: xs) (by simp)]
    rw [List.map_map]
    have hsum : (List.map Real.exp (List.map (· + c) (x :: xs))).sum
        = ((x :: xs).map Real.exp).sum * Real.exp c := by
      rw [← List.sum_map_mul_right, List.map_map]
      congr 1
      apply List.map_congr_left
      intro y _
      simp [Real.exp_add]
    rw [hsum]
    apply List.map_congr_left
    intro y _
    simp only [Function.comp, Real.exp_add]
    rw [mul_div_mul_right _ _ (Real.exp_ne_zero c)]

/-! ### F1 -/

/-- `f1_score p r = 2pr / (p + r)`, which for non-zero precision and recall is their harmonic
    mean `2 / (1/p + 1/r)`. -/
theorem f1_eq_harmonic_mean [Field K] (p r : K) :
    f1Score p r = 2 * p * r / (p + r) ∧
    (p ≠ 0 → r ≠ 0 → p + r ≠ 0 → f1Score p r = 2 / (1 / p + 1 / r)) := by
  have h1 : f1Score p r = 2 * p * r / (p + r) := by
    unfold f1Score
    rw [one_add_one_eq_two]
    ring
  refine ⟨h1, ?_⟩
  intro hp hr hpr
  rw [h1]
  have h2 : 1 / p + 1 / r = (p + r) / (p * r) := by
    field_simp
    ring
  rw [h2, div_div_eq_mul_div]
  ring

/-! ### Non-vacuity -/

/-- a concrete 3×2 rational data matrix meets the hypotheses: its covariance matrix exists, is
    2×2, and has the population (÷3, not ÷2) values -/
example :
    ∃ m : Matrix ℚ, Matrix.fromFlatRowMajor 3 2 [1, 2, 3, 6, 5, 1] = some m ∧ m.Inv ∧
      ∃ C, covarianceColumnFeatures m = .ok C ∧ C.rows = 2 ∧ C.columns = 2 := by
  refine ⟨_, rfl, by decide, ?_⟩
  obtain ⟨C, hC, h1, h2, _⟩ := (cov_shape (K := ℚ) ⟨[1, 2, 3, 6, 5, 1], 3, 2⟩ (by decide)).1
  exact ⟨C, hC, h1, h2⟩

/-- the hypotheses of `cov_tensor_eq_matrix` are met by a concrete 3×2 tensor (feature dimension
    second) and the matrix with the same data -/
example :
    ∃ (t : Tensor String ℚ) (m : Matrix ℚ),
      Tensor.tryFrom [("s", 3), ("f", 2)] [1, 2, 3, 6, 5, 1] = some t ∧ m.Inv ∧
      (Arith.TView.ofTensor t).WF ∧ (Arith.TView.ofTensor t).shape = [("s", m.rows), ("f", m.columns)] ∧
      ∀ si fi, (Arith.TView.ofTensor t).get [si, fi] = m.tryGet si fi := by
  have hv := (Arith.tryFrom_valid (shape := [("s", 3), ("f", 2)])
    (data := ([1, 2, 3, 6, 5, 1] : List ℚ)) rfl).1
  exact ⟨_, ⟨[1, 2, 3, 6, 5, 1], 3, 2⟩, rfl, by decide, Arith.ofTensor_WF hv, rfl,
    (Arith.sameTable_of_same_data hv rfl).get⟩

/-- a list with a tie for the maximum is a valid softmax input (`l ≠ []`, two valid indexes) -/
example : ([1, 3, 3] : List ℝ) ≠ [] ∧ (1 : Nat) < ([1, 3, 3] : List ℝ).length := by
  constructor <;> simp

/-- precision and recall with a non-zero sum exist -/
example : (1 / 2 : ℚ) ≠ 0 ∧ (1 / 3 : ℚ) ≠ 0 ∧ (1 / 2 + 1 / 3 : ℚ) ≠ 0 := by norm_num

end EasyMl.C14
