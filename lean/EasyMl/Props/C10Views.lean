/-
  EasyMl.Props.C10Views — the view part of C10 (`view_unchecked_inBounds`) for *all* tensor view
  adaptors and compositions (from C02) and all matrix view compositions (from C12).

  A module of its own: C02's lemma files (Lemmas/ViewReorder.lean) and C01's
  (Lemmas/Mappings.lean) both declare `EasyMl.mapDimensionsToSource_eq_coords`, so they cannot be
  imported into one environment at present; Props/C10.lean builds on C01/C09/C11/C13.  The check
  (props/c10_extra.py) builds and audits this module beside `EasyMl.Props.C10`.
-/
import EasyMl.Props.C02
import EasyMl.Props.C12
import EasyMl.Lemmas.SurvivorViews
import EasyMl.Props.C09

namespace EasyMl.C10
open EasyMl EasyMl.Spec EasyMl.View

set_option linter.unusedSectionVars false

variable {ν : Type} [DecidableEq ν] {α : Type}

/-- **All tensor views** (from C02).  For every view built by the library's constructors
    (`View.WF`; `C02.constructors_establish_wf`: `Tensor`, `TensorRefMatrix` over a matrix, and
    any composition to any depth of `TensorRange`, `TensorMask`, `TensorIndex`, `TensorExpansion`,
    `TensorRename`, `TensorReverse`, `TensorAccess`, `TensorTranspose`, `TensorStack`,
    `TensorChain`) and every index inside the shape the view reports, the unchecked getter
    completes (none of its `unwrap`s, unchecked additions/subtractions or `get_unchecked` calls
    is reached out of contract), dereferences the cell the checked getter answers, and that cell
    lies in one of the view's own leaves below that leaf's stored element count. -/
theorem view_unchecked_inBounds [Inhabited ν] (v : View ν α) (h : v.WF) (idx : List Nat)
    (hin : inBounds (lens v.shape) idx = true) :
    ∃ c data, v.getUnchecked idx = .ok c ∧ v.get idx = .ok (some c) ∧
      (c.1, data) ∈ v.leaves ∧ c.2 < data.length := by
  obtain ⟨c, hc, data, h1, h2⟩ := (View.resolves v h).1 idx hin
  obtain ⟨c', hu, hg⟩ := C02.view_unchecked_eq_checked v h idx hin
  have hu' := View.uncheckedOK v h idx c hin hc
  rw [hu] at hu'
  cases hu'
  exact ⟨c, data, hu, hg, h1, h2⟩

/-- non-vacuity: a range over a reversed 2×3 tensor -/
example :
    ∃ v : View String Nat, (mkTensor 0 [("a", 2), ("b", 3)] (List.range 6)).bind
        (fun t => (mkReverse t ["b"]).bind (fun r => mkRange r [("b", ⟨1, 2⟩)])) = some v ∧
      v.getUnchecked [1, 1] = .ok (0, 3) := by
  refine ⟨_, rfl, ?_⟩
  rfl

/-- **All matrix views** (from C12): for every nested composition of `MatrixRange`,
    `MatrixReverse`, `MatrixMap` and the tensor round trip over a matrix, inside the size the
    view reports the unchecked getter reaches exactly the cell the checked getter answers. -/
theorem view_unchecked_inBounds_matrix (e : MatrixView.MExpr) (hle : e.LeavesOk)
    (v : MatrixView.MViewU) (hv : e.eval Fallible.Arith.fixed = .ok (.ok v)) (i j : Nat)
    (hi : i < e.size.1) (hj : j < e.size.2) :
    ∃ o, v.view.get i j = .ok (some o) ∧ v.uget i j = .ok o :=
  C12.mview_unchecked_eq_checked e hle v hv i j hi hj

/-! ## stack / chain constructors reject sources whose dimension order is permuted -/

/-- **`TensorStack::from` / `TensorChain::from` (every tuple arity and the array form: the model's
    `mkStack` / `mkChain` over the list of sources) reject a source whose shape is the first
    source's with the dimensions in another order** — for a stack any source whose shape differs
    from the first one's at all, for a chain any source whose dimension names, read in order,
    differ from the first one's (whatever the lengths: the comparison is positional, not a lookup
    by name).  The statement seeded changes C10-r4m2 (name lookup) and C10-r3m1 (a source never
    compared) falsify. -/
theorem zip_constructor_rejects_permuted [Inhabited ν] (ss : List (View ν α)) (first : Shape ν)
    (rest : List (Shape ν)) (hs : shapes ss = first :: rest) :
    (∀ along, (∃ s ∈ rest, s ≠ first) → mkStack ss along = none) ∧
      (∀ along, (∃ s ∈ rest, s.map (·.1) ≠ first.map (·.1)) → mkChain ss along = none) := by
  constructor
  · rintro along ⟨s, hmem, hne⟩
    unfold mkStack
    rw [hs]
    simp only
    split
    · rfl
    · split
      · rfl
      · have : rest.any (· ≠ first) = true := List.any_eq_true.2 ⟨s, hmem, by simpa using hne⟩
        rw [if_pos this]
  · rintro along ⟨s, hmem, hne⟩
    unfold mkChain
    rw [hs]
    simp only
    split
    · rfl
    · split
      · rfl
      · rename_i a _
        have hbad : (!(decide (s.length = first.length) && similarGo a 0 s first)) = true := by
          by_cases hl : s.length = first.length
          · cases hsim : similarGo a 0 s first with
            | false => simp
            | true => exact absurd (similarGo_names a s first 0 hl hsim) hne
          · simp [hl]
        have : rest.any (fun s => !(decide (s.length = first.length) && similarGo a 0 s first)) = true :=
          List.any_eq_true.2 ⟨s, hmem, hbad⟩
        rw [if_pos this]

/-- non-vacuity: `[("a",2),("b",3)]` chained along `a` with `[("b",3),("a",2)]` is rejected, and so
    is the stack of the two -/
example :
    (mkTensor 0 [("a", 2), ("b", 3)] (List.range 6)).bind (fun t1 =>
      (mkTensor 1 [("b", 3), ("a", 2)] (List.range 6)).map (fun t2 =>
        ((mkChain [t1, t2] "a").isNone, (mkStack [t1, t2] (0, "s")).isNone,
          (mkChain [t1, t1] "a").isSome))) = some (true, true, true) := by
  rfl

/-! ## the whole chain: constructed leaves → view stack → iterator -/

/-- **`unchecked_safe` for view stacks, without hypotheses on the containers.**  Take ANY view
    obtained from leaves built by the public constructors (`Tensor::from`, `TensorRefMatrix` over a
    `Matrix::from_flat_row_major`) through ANY stack of adaptor constructors, mutators and writes
    (`Built v`, C02: every `TensorRange/Mask/Index/Expansion/Rename/Reverse/Access/Transpose/
    Stack/Chain` form, to any depth), and iterate it with any element iterator for any number of
    calls.  On call `k` the iterator hands the view the `k`-th position of the shape the view
    reports (C09); that position is inside the shape; the view's unchecked getter completes on it,
    reaches the cell the checked getter answers, and that cell lies in one of the view's own
    leaves below the leaf's stored element count.  No unchecked access of the whole chain is out
    of contract. -/
theorem unchecked_safe_views [Inhabited ν] (v : View ν α) (hb : Built v) (k : Nat) (idx : List Nat)
    (hk : Spec.shapeItem (lens v.shape) k = some idx) :
    inBounds (lens v.shape) idx = true ∧
      ∃ c data, v.getUnchecked idx = .ok c ∧ v.get idx = .ok (some c) ∧
        (c.1, data) ∈ v.leaves ∧ c.2 < data.length := by
  have hin : inBounds (lens v.shape) idx = true := by
    unfold Spec.shapeItem at hk
    split at hk
    · rename_i hlt
      cases hk
      exact Iter.unravel_inBounds _ k hlt
    · cases hk
  exact ⟨hin, view_unchecked_inBounds v hb.wf idx hin⟩

/-- non-vacuity: a range over a reversed 2×3 tensor is a constructed view (`Built`), and call 3 of
    an iterator over its 2×2 shape asks for position `[1, 1]` -/
example : ∀ v : View String Nat,
    (mkTensor 0 [("a", 2), ("b", 3)] (List.range 6)).bind
        (fun t => (mkReverse t ["b"]).bind (fun r => mkRange r [("b", ⟨1, 2⟩)])) = some v →
      Built v := by
  intro v h
  simp only [Option.bind_eq_some_iff] at h
  obtain ⟨t, ht, r, hr, hv⟩ := h
  exact Built.range (Built.reverse (Built.tensor ht (by decide)) hr) hv

example : Spec.shapeItem [2, 2] 3 = some [1, 1] := by decide

end EasyMl.C10
