/-
  EasyMl.Props.C10Views — the view part of C10 (`view_unchecked_inBounds`) for *all* tensor view
  adaptors and compositions (from C02) and all matrix view compositions (from C12).

  A module of its own: C02's lemma files (Lemmas/ViewReorder.lean) and C01's
  (Lemmas/Mappings.lean) both declare `EasyMl.mapDimensionsToSource_eq_coords`, so they cannot be
  imported into one environment at present; Props/C10.lean builds on C01/C09/C11/C13.  The check
  (props/c10_extra.py) builds and audits this module beside `EasyMl.Props.C10`.
-/
import EasyMl.Props.C02
import EasyMl.Props.C12

namespace EasyMl.C10
open EasyMl EasyMl.Spec EasyMl.View

set_option linter.unusedSectionVars false

variable {ν : Type} [DecidableEq ν] {α : Type}

/-- **All tensor views** (from C02).  For every view built by the library's constructors
    (`View.WF`; `C02.constructors_establish_wf`: `Tensor`, `TensorRefMatrix` over a matrix, and
    any composition to any depth of `TensorRange`, `TensorMask`, `TensorIndex`, `TensorExpansion`,
    `TensorRename`, `TensorReverse`, `TensorAccess`, `TensorTranspose`, `TensorStack`,
    `TensorChain`) and every index inside the shape the view reports, the unchecked getter
    completes (none of its `unwrap`s, unchecked additions/subtractions or `get_unchecked` calls
    is reached out of contract), dereferences the cell the checked getter answers, and that cell
    lies in one of the view's own leaves below that leaf's stored element count. -/
theorem view_unchecked_inBounds [Inhabited ν] (v : View ν α) (h : v.WF) (idx : List Nat)
    (hin : inBounds (lens v.shape) idx = true) :
    ∃ c data, v.getUnchecked idx = .ok c ∧ v.get idx = .ok (some c) ∧
      (c.1, data) ∈ v.leaves ∧ c.2 < data.length := by
  obtain ⟨c, hc, data, h1, h2⟩ := (View.resolves v h).1 idx hin
  obtain ⟨c', hu, hg⟩ := C02.view_unchecked_eq_checked v h idx hin
  have hu' := View.uncheckedOK v h idx c hin hc
  rw [hu] at hu'
  cases hu'
  exact ⟨c, data, hu, hg, h1, h2⟩

/-- non-vacuity: a range over a reversed 2×3 tensor -/
example :
    ∃ v : View String Nat, (mkTensor 0 [("a", 2), ("b", 3)] (List.range 6)).bind
        (fun t => (mkReverse t ["b"]).bind (fun r => mkRange r [("b", ⟨1, 2⟩)])) = some v ∧
      v.getUnchecked [1, 1] = .ok (0, 3) := by
  refine ⟨_, rfl, ?_⟩
  rfl

/-- **All matrix views** (from C12): for every nested composition of `MatrixRange`,
    `MatrixReverse`, `MatrixMap` and the tensor round trip over a matrix, inside the size the
    view reports the unchecked getter reaches exactly the cell the checked getter answers. -/
theorem view_unchecked_inBounds_matrix (e : MatrixView.MExpr) (hle : e.LeavesOk)
    (v : MatrixView.MViewU) (hv : e.eval Fallible.Arith.fixed = .ok (.ok v)) (i j : Nat)
    (hi : i < e.size.1) (hj : j < e.size.2) :
    ∃ o, v.view.get i j = .ok (some o) ∧ v.uget i j = .ok o :=
  C12.mview_unchecked_eq_checked e hle v hv i j hi hj

end EasyMl.C10
