/-
  EasyMl.Props.C19 — property C19: numeric trait contracts hold for built-in, wrapper and
  user-defined types.

  The theorems speak about the code-shaped model `EasyMl.Model.Numeric` (the
  `from_usize_integral!` body with its two `as` casts on bit vectors, `ZeroOne`, the
  `Wrapping`/`Saturating` delegation and arithmetic, `Trace`/`Record` constants, and
  round-to-nearest-even for the float conversions).  The same definitions are executed by the
  `emlmodel` driver and compared with the real code on every run.

  Not a theorem (carried by the correspondence only): the equality of the four owned/borrowed
  operand forms (the model has a single answer, every form of the real operator must give it),
  IEEE float arithmetic (compared across forms only), and the "any user type works everywhere"
  clause (compile-time instantiation + agreement with the documented formula evaluated at
  `Fp`/`Rat`, see Driver.C19User).
-/
import EasyMl.Lemmas.Numeric
import EasyMl.Lemmas.WrapperOps
import EasyMl.Model.TraitReq
import EasyMl.Lemmas.CheckedInt
import EasyMl.Props.C19Natural

namespace EasyMl.C19
open EasyMl EasyMl.Num

/-! ### FromUsize on the twelve integer types

`n` ranges over the whole `usize` domain; "representable" is `T::MIN ≤ n ≤ T::MAX` with
`T::MIN`/`T::MAX` the mathematical bounds (`IntTy.minInt/maxInt`, pinned by the examples below). -/

/-- the conversion succeeds exactly when the count is representable in `T` -/
theorem fromUsize_some_iff_representable (t : IntTy) (n : Nat) (hn : n < 2 ^ 64) :
    (fromUsize t (BitVec.ofNat 64 n)).isSome = true ↔ (t.minInt ≤ (n : Int) ∧ (n : Int) ≤ t.maxInt) := by
  rw [fromUsize_isSome_iff t n hn]
  have := minInt_nonpos t
  constructor
  · intro h; exact ⟨by omega, h⟩
  · intro h; exact h.2

/-- … and then round-trips: the value obtained denotes `n`, and casting it back (`v as usize`)
    gives `n` again -/
theorem fromUsize_roundtrip (t : IntTy) (n : Nat) (hn : n < 2 ^ 64) (v : Val t)
    (h : fromUsize t (BitVec.ofNat 64 n) = some v) :
    toInt t v = (n : Int) ∧ asUsize t v = BitVec.ofNat 64 n := by
  obtain ⟨hle, hv⟩ := fromUsize_eq_some t n hn v h
  subst hv
  have hi := toInt_usizeAs t n hn hle
  refine ⟨hi, ?_⟩
  rw [asUsize_eq_ofInt, hi, BitVec.ofInt_natCast]

/-- the comparison is against `T::MAX as usize`, which for the 128-bit types is `usize::MAX`:
    every `usize` converts to `u128` and `i128` -/
theorem fromUsize_128_total (n : Nat) (hn : n < 2 ^ 64) :
    (fromUsize .u128 (BitVec.ofNat 64 n)).isSome = true ∧
      (fromUsize .i128 (BitVec.ofNat 64 n)).isSome = true := by
  constructor
  · rw [fromUsize_isSome_iff _ n hn]; simp [IntTy.maxInt, IntTy.signed, IntTy.bits]; omega
  · rw [fromUsize_isSome_iff _ n hn]; simp [IntTy.maxInt, IntTy.signed, IntTy.bits]; omega

-- the bounds the statements above refer to are the real ones
example : IntTy.all.map IntTy.maxInt =
    [255, 127, 65535, 32767, 4294967295, 2147483647, 18446744073709551615, 9223372036854775807,
     340282366920938463463374607431768211455, 170141183460469231731687303715884105727,
     18446744073709551615, 9223372036854775807] := by decide
example : IntTy.all.map IntTy.minInt =
    [0, -128, 0, -32768, 0, -2147483648, 0, -9223372036854775808, 0,
     -170141183460469231731687303715884105728, 0, -9223372036854775808] := by decide
-- non-vacuity: both branches occur, at the boundary
example : (fromUsize .i16 (BitVec.ofNat 64 32767)).map (toInt .i16) = some 32767 := by decide
example : (fromUsize .i16 (BitVec.ofNat 64 32768)).isSome = false := by decide
example : (fromUsize .isize (BitVec.ofNat 64 (2 ^ 63))).isSome = false := by decide
example : (fromUsize .u128 (BitVec.ofNat 64 (2 ^ 64 - 1))).map (toInt .u128) = some (2 ^ 64 - 1) := by
  decide

/-! ### zero and one are the identities -/

/-- `Wrapping<T>` (two's complement arithmetic), every width -/
theorem wrapping_zero_add (t : IntTy) (a : Val t) : wAdd t (wrapZero t) a = a := by
  simp [wAdd, wrapZero, zero]
theorem wrapping_add_zero (t : IntTy) (a : Val t) : wAdd t a (wrapZero t) = a := by
  simp [wAdd, wrapZero, zero]
theorem wrapping_one_mul (t : IntTy) (a : Val t) : wMul t (wrapOne t) a = a := by
  simp [wMul, wrapOne, one, BitVec.one_mul]
theorem wrapping_mul_one (t : IntTy) (a : Val t) : wMul t a (wrapOne t) = a := by
  simp [wMul, wrapOne, one, BitVec.mul_one]

/-- `Saturating<T>` (clamped arithmetic), every width -/
theorem saturating_zero_add (t : IntTy) (a : Val t) : sAdd t (wrapZero t) a = a := by
  simp [sAdd, wrapZero, toInt_zero, clamp_toInt]
theorem saturating_add_zero (t : IntTy) (a : Val t) : sAdd t a (wrapZero t) = a := by
  simp [sAdd, wrapZero, toInt_zero, clamp_toInt]
theorem saturating_one_mul (t : IntTy) (a : Val t) : sMul t (wrapOne t) a = a := by
  simp [sMul, wrapOne, toInt_one, clamp_toInt]
theorem saturating_mul_one (t : IntTy) (a : Val t) : sMul t a (wrapOne t) = a := by
  simp [sMul, wrapOne, toInt_one, clamp_toInt]

/-- the plain types with overflow checks on: the identities never overflow -/
theorem plain_zero_add (t : IntTy) (a : Val t) : pAdd t (zero t) a = .ok a := by
  simp [pAdd, toInt_zero, checked_toInt]
theorem plain_add_zero (t : IntTy) (a : Val t) : pAdd t a (zero t) = .ok a := by
  simp [pAdd, toInt_zero, checked_toInt]
theorem plain_one_mul (t : IntTy) (a : Val t) : pMul t (one t) a = .ok a := by
  simp [pMul, toInt_one, checked_toInt]
theorem plain_mul_one (t : IntTy) (a : Val t) : pMul t a (one t) = .ok a := by
  simp [pMul, toInt_one, checked_toInt]

-- the arithmetic the identities are about is not trivial: it wraps / clamps / panics
example : toInt .i8 (wAdd .i8 (ofInt .i8 100) (ofInt .i8 100)) = -56 := by decide
example : toInt .i8 (sAdd .i8 (ofInt .i8 100) (ofInt .i8 100)) = 127 := by decide
example : toInt .u8 (sSub .u8 (ofInt .u8 3) (ofInt .u8 5)) = 0 := by decide
example : (pAdd .i8 (ofInt .i8 100) (ofInt .i8 100)).isOk = false := by decide
example : (wDiv .i8 (ofInt .i8 (-128)) (ofInt .i8 (-1))).isOk = true := by decide
example : (pDiv .i8 (ofInt .i8 (-128)) (ofInt .i8 (-1))).isOk = false := by decide

/-! ### wrappers inherit -/

/-- `Wrapping<T>` / `Saturating<T>`: `from_usize`, `zero`, `one` are those of `T` -/
theorem wrapper_inherits (t : IntTy) (n : BitVec 64) :
    wrapFromUsize t n = fromUsize t n ∧ wrapZero t = zero t ∧ wrapOne t = one t := by
  refine ⟨?_, rfl, rfl⟩
  unfold wrapFromUsize
  cases fromUsize t n <;> rfl

theorem wrapper_some_iff_representable (t : IntTy) (n : Nat) (hn : n < 2 ^ 64) :
    (wrapFromUsize t (BitVec.ofNat 64 n)).isSome = true ↔
      (t.minInt ≤ (n : Int) ∧ (n : Int) ≤ t.maxInt) := by
  rw [(wrapper_inherits t _).1]; exact fromUsize_some_iff_representable t n hn

theorem wrapper_roundtrip (t : IntTy) (n : Nat) (hn : n < 2 ^ 64) (v : Val t)
    (h : wrapFromUsize t (BitVec.ofNat 64 n) = some v) :
    toInt t v = (n : Int) ∧ asUsize t v = BitVec.ofNat 64 n := by
  rw [(wrapper_inherits t _).1] at h; exact fromUsize_roundtrip t n hn v h

example : (wrapFromUsize .u8 (BitVec.ofNat 64 255)).map (toInt .u8) = some 255 := by decide

/-! ### `Trace` / `Record` constants -/

/-- `Trace::<T>::from_usize` succeeds exactly when `T::from_usize` does and yields a constant:
    the number round-trips, the derivative is zero; likewise `zero()`/`one()` -/
theorem trace_consts (t : IntTy) (n : Nat) (hn : n < 2 ^ 64) :
    ((traceFromUsize t (BitVec.ofNat 64 n)).isSome = true ↔
        (t.minInt ≤ (n : Int) ∧ (n : Int) ≤ t.maxInt)) ∧
      (∀ r, traceFromUsize t (BitVec.ofNat 64 n) = some r →
        toInt t r.number = (n : Int) ∧ r.derivative = zero t) ∧
      traceZero t = ⟨zero t, zero t⟩ ∧ traceOne t = ⟨one t, zero t⟩ := by
  refine ⟨?_, ?_, rfl, rfl⟩
  · rw [← fromUsize_some_iff_representable t n hn]
    unfold traceFromUsize
    cases fromUsize t (BitVec.ofNat 64 n) <;> simp
  · intro r hr
    unfold traceFromUsize at hr
    cases hf : fromUsize t (BitVec.ofNat 64 n) with
    | none => rw [hf] at hr; cases hr
    | some v =>
      rw [hf] at hr
      have := Option.some.inj hr
      subst this
      exact ⟨(fromUsize_roundtrip t n hn v hf).1, rfl⟩

/-- `Record::<T>::from_usize` likewise yields a constant: no tape, index 0 -/
theorem record_consts (t : IntTy) (n : Nat) (hn : n < 2 ^ 64) :
    ((recordFromUsize t (BitVec.ofNat 64 n)).isSome = true ↔
        (t.minInt ≤ (n : Int) ∧ (n : Int) ≤ t.maxInt)) ∧
      (∀ r, recordFromUsize t (BitVec.ofNat 64 n) = some r →
        toInt t r.number = (n : Int) ∧ r.hasHistory = false ∧ r.index = 0) ∧
      recordZero t = ⟨zero t, false, 0⟩ ∧ recordOne t = ⟨one t, false, 0⟩ := by
  refine ⟨?_, ?_, rfl, rfl⟩
  · rw [← fromUsize_some_iff_representable t n hn]
    unfold recordFromUsize
    cases fromUsize t (BitVec.ofNat 64 n) <;> simp
  · intro r hr
    unfold recordFromUsize at hr
    cases hf : fromUsize t (BitVec.ofNat 64 n) with
    | none => rw [hf] at hr; cases hr
    | some v =>
      rw [hf] at hr
      have := Option.some.inj hr
      subst this
      exact ⟨(fromUsize_roundtrip t n hn v hf).1, rfl, rfl⟩

example : (traceFromUsize .i8 (BitVec.ofNat 64 127)).map (fun r => (toInt .i8 r.number, toInt .i8 r.derivative)) =
    some (127, 0) := by decide
example : (recordFromUsize .i8 (BitVec.ofNat 64 128)).isSome = false := by decide

/-- the trace constants are the identities of trace arithmetic (over `Wrapping<T>`, the integer
    element types for which `Trace` arithmetic cannot panic): `0 + x = x`, `x + 0 = x`,
    `1 * x = x`, `x * 1 = x` in both components -/
theorem trace_identities (t : IntTy) (x : Trace (Val t)) :
    Trace.add (wAdd t) (traceZero t) x = x ∧ Trace.add (wAdd t) x (traceZero t) = x ∧
      Trace.mul (wAdd t) (wMul t) (traceOne t) x = x ∧
      Trace.mul (wAdd t) (wMul t) x (traceOne t) = x := by
  cases x
  simp [Trace.add, Trace.mul, traceZero, traceOne, Trace.constant, wAdd, wMul, zero, one,
    BitVec.one_mul, BitVec.mul_one]

/-! ### `Trace` / `Record` operators inherit the element operators

The model has a single answer per operation (`traceBin`, `traceScalar`, `recordBin`,
`recordScalar` mirror the `&a op &b` impls); that all four owned/borrowed operand forms of the
real operators give this answer, with the operands in this order, is what the correspondence
checks on every run.  Here: for *any* element arithmetic `A` (panics included), the number of a
trace / record result is the element operator applied to the operands' numbers in the same order,
and a record result is a constant exactly when both operands are. -/

theorem trace_ops_inherit_number {α : Type} (A : Arith α) (op : BinOp) (a b r : Trace α)
    (h : traceBin A op a b = .ok r) : A.bin op a.number b.number = .ok r.number := by
  cases op <;> simp only [traceBin, Arith.bin] at h ⊢ <;>
    (obtain ⟨n, hn, h⟩ := bind_eq_ok _ _ _ h; rw [hn]) <;>
    (repeat (obtain ⟨_, _, h⟩ := bind_eq_ok _ _ _ h)) <;>
    (have := pure_eq_ok _ _ h; subst this; rfl)

theorem trace_scalar_inherits_number {α : Type} (A : Arith α) (op : BinOp) (a r : Trace α) (c : α)
    (h : traceScalar A op a c = .ok r) : A.bin op a.number c = .ok r.number := by
  cases op <;> simp only [traceScalar, Arith.bin] at h ⊢ <;>
    (obtain ⟨n, hn, h⟩ := bind_eq_ok _ _ _ h; rw [hn]) <;>
    (repeat (obtain ⟨_, _, h⟩ := bind_eq_ok _ _ _ h)) <;>
    (have := pure_eq_ok _ _ h; subst this; rfl)

/-- tape bookkeeping of `Record op Record` on a fresh tape: the result has a tape iff an operand
    has one, sits right after the variable operands, and has a derivative exactly for them -/
theorem record_ops_constness {α : Type} (A : Arith α) (op : BinOp) (va vb : Bool) (a b : α)
    (r : RecOut α) (h : recordBin A op va vb a b = .ok r) :
    r.hasHistory = (va || vb) ∧ r.index = va.toNat + vb.toNat ∧ r.dx.isSome = va ∧ r.dy.isSome = vb := by
  cases va <;> cases vb <;> cases op <;> simp only [recordBin] at h <;>
    (repeat (obtain ⟨_, _, h⟩ := bind_eq_ok _ _ _ h)) <;>
    (have := pure_eq_ok _ _ h; subst this; simp)

/-- the number of `a op b` is the element operator on the numbers, operands in order — except
    that `constant + variable` and `constant * variable` are computed commuted, as the code does
    (`rhs + &self.number`) -/
theorem record_ops_inherit_number {α : Type} (A : Arith α) (op : BinOp) (va vb : Bool) (a b : α)
    (r : RecOut α) (h : recordBin A op va vb a b = .ok r) :
    (if (!va && vb) && (op = .add || op = .mul) then A.bin op b a else A.bin op a b) = .ok r.number := by
  cases va <;> cases vb <;> cases op <;> simp only [recordBin] at h <;>
    (obtain ⟨n, hn, h⟩ := bind_eq_ok _ _ _ h) <;>
    (repeat (obtain ⟨_, _, h⟩ := bind_eq_ok _ _ _ h)) <;>
    (have := pure_eq_ok _ _ h; subst this; simpa using hn)

-- the order of the operands matters: `5 - 7` and `7 - 5` differ in every arithmetic used
example : (traceBin (arithWrapping .u8) .sub ⟨5#8, 16#8⟩ ⟨7#8, 3#8⟩).isOk = true := by decide
example : (match traceBin (arithPlain .i64) .sub ⟨ofInt .i64 5, ofInt .i64 16⟩ ⟨ofInt .i64 7, ofInt .i64 3⟩ with
    | .ok t => (toInt .i64 t.number, toInt .i64 t.derivative) | .panic _ => (0, 0)) = (-2, 13) := by decide
example : (match recordBin (arithPlain .i64) .div true true (ofInt .i64 (-13)) (ofInt .i64 4) with
    | .ok r => (toInt .i64 r.number, r.hasHistory, r.index) | .panic _ => (0, false, 0)) = (-3, true, 2) := by
  decide
-- panics propagate: division by a zero number
example : (traceBin (arithWrapping .u8) .div ⟨5#8, 1#8⟩ ⟨0#8, 3#8⟩).isOk = false := by decide

/-! ### which impls make a user type "numeric": the blanket-impl logic of numeric.rs

`Numeric`, `NumericRef`, `Real`, `RealRef` are bodiless traits with blanket impls, so a type has them
exactly when it has their supertraits; `TraitReq.usableNumeric` / `usableReal` are the supertraits
of the bound pair `T: Numeric, for<'a> &'a T: NumericRef<T>` (resp. `Real`/`RealRef`) unfolded to
concrete impls.  That rustc accepts a user type supplying all of them and rejects it when any single
one is missing is checked by generated probes on every run (props/c19_extra.py), with the verdicts
taken from this model. -/

open TraitReq in
/-- every operator is required in all four owned/borrowed operand forms, `Neg` in both -/
theorem numeric_requires_all_four_forms :
    (∀ op ∈ ops, ∀ form ∈ [Form.vv, .vr, .rv, .rr], Impl.bin op form ∈ usableNumeric) ∧
      Impl.neg false ∈ usableNumeric ∧ Impl.neg true ∈ usableNumeric ∧ usableNumeric.length = 24 := by
  decide

open TraitReq in
/-- a type supplying exactly the listed impls is accepted, and each single one is necessary -/
theorem numeric_requirements_exact :
    satisfies usableNumeric usableNumeric = true ∧
      ∀ i ∈ usableNumeric, satisfies (usableNumeric.erase i) usableNumeric = false := by
  decide

open TraitReq in
theorem real_requirements_exact :
    satisfies usableReal usableReal = true ∧
      (∀ i ∈ usableReal, satisfies (usableReal.erase i) usableReal = false) ∧
      (∀ i ∈ usableNumeric, i ∈ usableReal) ∧ usableReal.length = 39 := by
  decide

open TraitReq in
/-- the built-in types: signed integers, floats and `Wrapping<_>` are numeric; unsigned integers
    (no `Neg`) and — with the std of the pinned toolchain — every `Saturating<_>` (no `Sum` for the
    signed, no `Neg` for the unsigned ones) are not; only the floats are `Real` -/
theorem builtin_types_classified :
    satisfies capsFullNumeric usableNumeric = true ∧ satisfies capsUnsigned usableNumeric = false ∧
      satisfies capsSaturatingSigned usableNumeric = false ∧
      satisfies capsSaturatingUnsigned usableNumeric = false ∧
      satisfies capsFloat usableReal = true ∧ satisfies capsFullNumeric usableReal = false := by
  decide

/-! ### bounded integers: `a − b` is not `a + (−b)`

The reusable checked-integer arithmetic lives in `EasyMl.Model.Numeric` (`checked`, `pAdd pSub pMul
pDiv`), `EasyMl.Model.WrapperOps` (`arithPlain`) and `EasyMl.Lemmas.CheckedInt` (`pNeg`, `toInt_ofInt`,
`checked_ok_iff`, `checked_value`); these two statements are why the Trace / Record operator lines at
`i8/i32/i64` boundary values separate a subtraction from an addition of the negation. -/

theorem checked_sub_ne_add_neg :
    (outInt .i8 (pSub .i8 (ofInt .i8 (-1)) (ofInt .i8 (-128))) = some 127 ∧
      outInt .i8 (pNeg .i8 (ofInt .i8 (-128)) >>= fun n => pAdd .i8 (ofInt .i8 (-1)) n) = none) ∧
    (outInt .i32 (pSub .i32 (ofInt .i32 (-1)) (ofInt .i32 (-2147483648))) = some 2147483647 ∧
      outInt .i32 (pNeg .i32 (ofInt .i32 (-2147483648)) >>= fun n => pAdd .i32 (ofInt .i32 (-1)) n) = none) ∧
    (outInt .i64 (pSub .i64 (ofInt .i64 (-1)) (ofInt .i64 (-9223372036854775808))) = some 9223372036854775807 ∧
      outInt .i64 (pNeg .i64 (ofInt .i64 (-9223372036854775808)) >>= fun n => pAdd .i64 (ofInt .i64 (-1)) n)
        = none) :=
  Num.checked_sub_ne_add_neg

theorem checked_sub_eq_add_neg_of_ne_min (t : IntTy) (hsg : t.signed = true) (a b : Val t)
    (hb : toInt t b ≠ t.minInt) : pSub t a b = (pNeg t b >>= fun n => pAdd t a n) :=
  Num.checked_sub_eq_add_neg_of_ne_min t hsg a b hb

example : IntTy.signed .i32 = true ∧ toInt .i32 (ofInt .i32 7) ≠ IntTy.minInt .i32 := by decide

/-- a checked operator succeeds exactly when the mathematical result is representable, and then denotes it -/
theorem checked_exact (t : IntTy) (i : Int) :
    ((checked t i).isOk = true ↔ (t.minInt ≤ i ∧ i ≤ t.maxInt)) ∧
      ∀ v, checked t i = .ok v → toInt t v = i :=
  ⟨checked_ok_iff t i, fun v h => checked_value t i v h⟩

/-! ### floats: always succeed, with the nearest value -/

/-- `from_usize_float!` never fails -/
theorem float_fromUsize_isSome (n : Nat) :
    (f32FromUsize n).isSome = true ∧ (f64FromUsize n).isSome = true := by
  simp [f32FromUsize, f64FromUsize, floatFromUsize]

/-- the rounded value is representable with `p` significant bits -/
theorem roundNE_representable (p n : Nat) (hp : 1 ≤ p) :
    ∃ m e, m < 2 ^ p ∧ roundVal (roundNE p n) = m * 2 ^ e :=
  roundNE_representable' p n hp

/-- … and no number with `p` significant bits (any exponent) is nearer to `n` -/
theorem roundNE_nearest (p n m' e' : Nat) (hp : 1 ≤ p) (hm : m' < 2 ^ p) :
    natDist (roundVal (roundNE p n)) n ≤ natDist (m' * 2 ^ e') n :=
  roundNE_nearest' p n m' e' hp hm

/-- counts with at most `p` significant bits convert exactly -/
theorem roundNE_exact (p n : Nat) (h : n < 2 ^ p) : roundVal (roundNE p n) = n := by
  unfold roundNE
  simp [bitLen_le_of_lt p n h, roundVal]

/-- every count up to and including `2^53` converts to `f64` exactly, every count up to `2^24` to `f32`
    (beyond that only the nearest value is promised, `roundNE_nearest`) -/
theorem float_fromUsize_exact_upto :
    (∀ n, n ≤ 2 ^ 53 → roundVal (roundNE 53 n) = n) ∧ (∀ n, n ≤ 2 ^ 24 → roundVal (roundNE 24 n) = n) := by
  constructor
  · intro n hn
    rcases Nat.lt_or_eq_of_le hn with h | h
    · exact roundNE_exact 53 n h
    · subst h; decide
  · intro n hn
    rcases Nat.lt_or_eq_of_le hn with h | h
    · exact roundNE_exact 24 n h
    · subst h; decide

-- … and not beyond: 2^53 + 1 is not representable
example : roundVal (roundNE 53 (2 ^ 53 + 1)) = 2 ^ 53 := by decide

/-- a tie between the two nearest values goes to the even significand -/
theorem roundNE_tie_even (p n : Nat) (hl : p < bitLen n)
    (htie : 2 * (n % 2 ^ (bitLen n - p)) = 2 ^ (bitLen n - p)) : (roundNE p n).1 % 2 = 0 :=
  roundNE_tie_even' p n hl htie

/-! ### the IEEE-754 bit pattern denotes the rounded value

`floatBits` is what the driver prints and the harness compares with `to_bits()`.  Decoding it the
IEEE way (`floatDecode`: hidden leading one, biased exponent) gives back a significand/exponent
pair that denotes exactly `roundVal (roundNE p n)`. -/

/-- `(normSig, normExp)` denotes the same number as `(m, e)` -/
theorem norm_same_value (p m e : Nat) (hp : 1 ≤ p) (hm0 : m ≠ 0) (hm : m ≤ 2 ^ p) :
    (bitLen m ≤ p ∧ normSig p m = m * 2 ^ (p - bitLen m) ∧
        normExp p m e = (e : Int) - ((p - bitLen m : Nat) : Int)) ∨
    (bitLen m = p + 1 ∧ m = normSig p m * 2 ∧ normExp p m e = (e : Int) + 1) :=
  norm_same_value' p m e hp hm0 hm

/-- for every non-zero count (any `p ≥ 1`, `ebits ≥ 2`, in particular `f32` = (24, 8) and `f64` =
    (53, 11)): the printed bit pattern decodes to the normalised form of the rounded value, with
    exactly `p` significant bits, and its exponent field is `bias + ⌊log₂⌋` with
    `bitLen n - 1 ≤ ⌊log₂⌋ ≤ bitLen n` — for `n < 2^64` far below the all-ones field of ∞/NaN -/
theorem floatFromUsize_decodes (p ebits n : Nat) (hp : 1 ≤ p) (he : 2 ≤ ebits) (hn : n ≠ 0) :
    let me := roundNE p n
    floatDecode p ebits (floatBits p ebits me) = (normSig p me.1, normExp p me.1 me.2) ∧
      2 ^ (p - 1) ≤ normSig p me.1 ∧ normSig p me.1 < 2 ^ p ∧
      (bitLen n : Int) - 1 ≤ normExp p me.1 me.2 + ((p - 1 : Nat) : Int) ∧
      normExp p me.1 me.2 + ((p - 1 : Nat) : Int) ≤ (bitLen n : Int) := by
  intro me
  obtain ⟨hm0, hm, hlo, hhi⟩ := roundNE_sig p n hp hn
  have hr := normSig_range p me.1 hp hm0 hm
  refine ⟨?_, hr.1, hr.2, hlo, hhi⟩
  have hme : me = (me.1, me.2) := rfl
  rw [hme]
  apply floatBits_decode' p ebits me.1 me.2 hp hm0 hm
  have hb : (1 : Int) ≤ bitLen n := by have := bitLen_pos hn; omega
  have hbias : (1 : Int) ≤ 2 ^ (ebits - 1) - 1 := by
    have h2 : 2 ^ 1 ≤ 2 ^ (ebits - 1) := Nat.pow_le_pow_right (by decide) (by omega)
    have h3 : (2 : Int) ^ (ebits - 1) = ((2 ^ (ebits - 1) : Nat) : Int) := by simp
    omega
  have : normExp p me.1 me.2 = normExp p (roundNE p n).1 (roundNE p n).2 := rfl
  omega

-- f32: 2^24 + 3 rounds to (2^23 + 2) * 2^1; its pattern 0x4B800002 decodes to that pair
example : f32FromUsize (2 ^ 24 + 3) = some 0x4B800002 := by decide
example : floatDecode 24 8 0x4B800002 = (2 ^ 23 + 2, 1) := by decide
example : f64FromUsize 1 = some 0x3FF0000000000000 := by decide

-- 2^24 + 1 is a tie for f32 and goes down to the even 2^24; 2^24 + 3 goes up to 2^24 + 4
example : roundNE 24 (2 ^ 24 + 1) = (2 ^ 23, 1) := by decide
example : roundNE 24 (2 ^ 24 + 3) = (2 ^ 23 + 2, 1) := by decide
example : (2 : Nat) ^ 23 < 2 ^ 24 ∧ 24 < bitLen (2 ^ 24 + 1) ∧
    2 * ((2 ^ 24 + 1) % 2 ^ (bitLen (2 ^ 24 + 1) - 24)) = 2 ^ (bitLen (2 ^ 24 + 1) - 24) := by decide

end EasyMl.C19
