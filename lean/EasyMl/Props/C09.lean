/-
  EasyMl.Props.C09 — property theorems for C09 (iterators yield each element once, in the
  documented order, with exact lengths).

  Only property statements (and their non-vacuity examples) live here; helper lemmas are in
  EasyMl/Lemmas/Iter.lean.  Every theorem is about the very definitions the `emlmodel` driver
  executes against the implementation (EasyMl/Model/Iter.lean) and the specification
  (EasyMl/Spec/Iter.lean).  All statements are for every dimensionality, every shape and every
  number `k` of calls already made.
-/
import EasyMl.Lemmas.Iter

namespace EasyMl.C09
open EasyMl EasyMl.Iter EasyMl.Spec

/-! ## The bare shape iterator -/

/-- After `k < Π lengths` calls the next item is the index tuple whose mixed-radix value is
    `k` (last dimension fastest) — the documented order. -/
theorem shapeIter_kth (shape : List Nat) (k : Nat) (hk : k < prod shape) :
    (ShapeIter.steps k (ShapeIter.new shape)).next.1 = some (unravel shape k) := by
  obtain ⟨hs, hlt, _⟩ := steps_spec shape k
  obtain ⟨hf, hi⟩ := hlt hk
  have hb : inBounds (ShapeIter.steps k (ShapeIter.new shape)).shape
      (ShapeIter.steps k (ShapeIter.new shape)).indexes = true := by
    rw [hs, hi]; exact unravel_inBounds shape k hk
  rw [(next_spec _ hf hb).1, hi]

example : (ShapeIter.steps 7 (ShapeIter.new [2, 3, 2])).next.1 = some [1, 0, 1] := by decide

/-- Every yielded index lies inside the shape (this is what makes the `get_reference_unchecked`
    calls of the element iterators legal, C10). -/
theorem shapeIter_items_inBounds (shape : List Nat) (k : Nat) (idx : List Nat)
    (h : (ShapeIter.steps k (ShapeIter.new shape)).next.1 = some idx) :
    inBounds shape idx = true := by
  rcases Nat.lt_or_ge k (prod shape) with hk | hk
  · rw [shapeIter_kth shape k hk] at h
    cases h
    exact unravel_inBounds shape k hk
  · rw [next_finished _ ((steps_spec shape k).2.2 hk)] at h
    cases h

/-- Each index of the shape is yielded exactly once: at call number `ravel shape idx` and at no
    other call. -/
theorem shapeIter_each_index_once (shape : List Nat) (idx : List Nat)
    (hb : inBounds shape idx = true) (j : Nat) :
    (ShapeIter.steps j (ShapeIter.new shape)).next.1 = some idx ↔ j = ravel shape idx := by
  constructor
  · intro h
    rcases Nat.lt_or_ge j (prod shape) with hj | hj
    · rw [shapeIter_kth shape j hj] at h
      cases h
      exact (ravel_unravel shape j hj).symm
    · rw [next_finished _ ((steps_spec shape j).2.2 hj)] at h
      cases h
  · intro h
    subst h
    rw [shapeIter_kth shape _ (ravel_lt shape idx hb), unravel_ravel shape idx hb]

example : inBounds [2, 3, 2] [1, 2, 0] = true ∧ ravel [2, 3, 2] [1, 2, 0] = 10 := by decide

/-- The order of the items is the lexicographic order of the index tuples. -/
theorem shapeIter_lexicographic (shape : List Nat) (j k : Nat) (hjk : j < k)
    (hk : k < prod shape) : List.Lex (· < ·) (unravel shape j) (unravel shape k) :=
  unravel_lex shape j k hjk hk

/-- `size_hint()` after `k` calls is `(Π lengths − k, Some(Π lengths − k))` for every `k`,
    including past the end (truncated subtraction gives 0), computed without overflow or
    underflow; hence `len()` is exactly the number of items still to come.
    The element count must itself fit in a `usize` (otherwise no length can be reported, see
    `shapeIter_len_unrepresentable`). -/
theorem shapeIter_len (shape : List Nat) (hfit : prod shape ≤ usizeMax) (k : Nat) :
    (ShapeIter.steps k (ShapeIter.new shape)).sizeHint =
        .ok (remaining (prod shape) k, some (remaining (prod shape) k)) ∧
      lenOfHint (ShapeIter.steps k (ShapeIter.new shape)).sizeHint =
        .ok (remaining (prod shape) k) := by
  have key : (ShapeIter.steps k (ShapeIter.new shape)).sizeHint =
      .ok (remaining (prod shape) k, some (remaining (prod shape) k)) := by
    obtain ⟨hs, hlt, hge⟩ := steps_spec shape k
    rcases Nat.lt_or_ge k (prod shape) with hk | hk
    · obtain ⟨hf, hi⟩ := hlt hk
      have hb : inBounds (ShapeIter.steps k (ShapeIter.new shape)).shape
          (ShapeIter.steps k (ShapeIter.new shape)).indexes = true := by
        rw [hs, hi]; exact unravel_inBounds shape k hk
      rw [sizeHint_spec _ hf hb (by rw [hs]; exact hfit), hs, hi, ravel_unravel shape k hk]
      rfl
    · rw [sizeHint_finished _ (hge hk)]
      have : remaining (prod shape) k = 0 := by unfold remaining; omega
      rw [this]
  exact ⟨key, by rw [key]; simp [lenOfHint]⟩

example : prod [2, 3, 2] ≤ usizeMax := by decide

/-- What the code does when the element count does not fit: the `product()` inside
    `size_hint` overflows (a panic in builds with overflow checks). -/
theorem shapeIter_len_unrepresentable (shape : List Nat) (hpos : ∀ l ∈ shape, 0 < l)
    (hne : shape ≠ []) (hbig : usizeMax < prod shape) :
    (ShapeIter.new shape).sizeHint = .panic .overflow := by
  have hf : (ShapeIter.new shape).finished = false := by
    cases h : (ShapeIter.new shape).finished with
    | false => rfl
    | true =>
      have := (new_spec shape).2.2.mp h
      have := prod_pos_of_all_pos shape hpos
      omega
  have hD : shape.length > 0 := by
    cases shape with
    | nil => exact absurd rfl hne
    | cons _ _ => simp
  unfold ShapeIter.sizeHint
  simp only [hf, Bool.false_eq_true, if_false]
  have hs : (ShapeIter.new shape).shape = shape := rfl
  rw [hs]
  simp only [hD, if_true]
  rw [prodC_overflow shape 1 (by omega) (by simp [usizeMax]) hpos (by omega)]

example : usizeMax < prod [2 ^ 63, 2] := by decide

/-- Every `indexes[d] += 1` stays at or below the length of its dimension, so it cannot
    overflow for lengths that are `usize` values. -/
theorem shapeIter_indexes_le (shape : List Nat) (k : Nat) :
    leBounds shape (ShapeIter.steps k (ShapeIter.new shape)).indexes = true :=
  steps_leBounds shape k

/-- Model fidelity: the step function written as the literal Rust loop with indexed reads and
    writes (`indexes[D-1] += 1; for d in (1..D).rev() { … }`, `ShapeIter.nextLoop`) and the
    structural `ShapeIter.next` all other theorems are about agree — on every state whose index
    array is as long as the shape, in particular on every reachable state. -/
theorem shapeIter_loop_form (shape : List Nat) (k : Nat) :
    (ShapeIter.steps k (ShapeIter.new shape)).nextLoop =
      (ShapeIter.steps k (ShapeIter.new shape)).next := by
  apply nextLoop_eq_next
  rw [(steps_spec shape k).1]
  exact leBounds_length _ _ (steps_leBounds shape k)

/-- Fused: once all `Π lengths` items have been yielded, `next` returns `None` and leaves the
    iterator as it is — so it returns `None` forever. -/
theorem shapeIter_fused (shape : List Nat) (k : Nat) (hk : prod shape ≤ k) :
    (ShapeIter.steps k (ShapeIter.new shape)).next =
      (none, ShapeIter.steps k (ShapeIter.new shape)) :=
  next_finished _ ((steps_spec shape k).2.2 hk)

/-- A shape with a zero length yields nothing, at any point, and reports length 0. -/
theorem shapeIter_zero_len (shape : List Nat) (h0 : 0 ∈ shape) (k : Nat) :
    (ShapeIter.steps k (ShapeIter.new shape)).next.1 = none ∧
      (ShapeIter.steps k (ShapeIter.new shape)).sizeHint = .ok (0, some 0) := by
  have hp := prod_eq_zero_of_mem shape h0
  have hf := (steps_spec shape k).2.2 (by omega)
  exact ⟨by rw [next_finished _ hf], sizeHint_finished _ hf⟩

example : (ShapeIter.new [2, 0, 3]).next.1 = none := by decide

/-- The shape iterator in the vocabulary of the generic layer: it enumerates `shapeItem`. -/
theorem shapeIter_enumerates (shape : List Nat) :
    Enumerates shapeNext (ShapeIter.new shape) (prod shape) (shapeItem shape)
      (fun k => ShapeIter.steps k (ShapeIter.new shape)) :=
  shape_enumerates shape

/-! ## Matrix iterators

  `collect next n s` runs `n` calls of `next` from `s`, returning the items (`none` = the
  iterator returned `None`) and the iterator afterwards; `.ok` means no call panicked. -/

/-- Row-major iteration: for every number `n` of calls — also beyond the end — the calls yield
    `(k / columns, k % columns)` for `k < rows * columns` and `None` afterwards (fused), never
    panicking; this includes empty (`0×N`, `N×0`) views, which yield nothing. -/
theorem rowMajor_kth (rows columns n : Nat) :
    collect rowMajorNext n (MatIter.new rows columns) =
      .ok ((List.range n).map (rowMajorItem rows columns), rowMajorState rows columns n) := by
  have := (rowMajor_enumerates rows columns).collect_from n 0
  rw [(rowMajor_enumerates rows columns).start, Nat.zero_add, ← List.range_eq_range'] at this
  exact this

example : collect rowMajorNext 5 (MatIter.new 2 2) =
    .ok ([some (0, 0), some (0, 1), some (1, 0), some (1, 1), none], rowMajorState 2 2 5) := by
  rfl

/-- After any `n` calls the row-major size hint is `(rows·columns − n, Some(rows·columns − n))`,
    lower = upper, no underflow and no overflow (for element counts that fit a `usize`). -/
theorem rowMajor_len (rows columns : Nat) (hfit : rows * columns ≤ usizeMax) (n : Nat)
    (items : List (Option (Nat × Nat))) (st : MatIter)
    (h : collect rowMajorNext n (MatIter.new rows columns) = .ok (items, st)) :
    rowMajorSizeHint st =
        .ok (remaining (rows * columns) n, some (remaining (rows * columns) n)) ∧
      lenOfHint (rowMajorSizeHint st) = .ok (remaining (rows * columns) n) := by
  rw [rowMajor_kth] at h
  simp only [Outcome.ok.injEq, Prod.mk.injEq] at h
  rw [← h.2, rowMajorSizeHint_state rows columns n hfit]
  exact ⟨rfl, by simp [lenOfHint, remaining]⟩

/-- Column-major iteration yields `(k % rows, k / rows)` for `k < rows * columns`, then `None`. -/
theorem colMajor_kth (rows columns n : Nat) :
    collect colMajorNext n (MatIter.new rows columns) =
      .ok ((List.range n).map (colMajorItem rows columns), colMajorState rows columns n) := by
  have := (colMajor_enumerates rows columns).collect_from n 0
  rw [(colMajor_enumerates rows columns).start, Nat.zero_add, ← List.range_eq_range'] at this
  exact this

example : collect colMajorNext 7 (MatIter.new 2 3) =
    .ok ([some (0, 0), some (1, 0), some (0, 1), some (1, 1), some (0, 2), some (1, 2), none],
      colMajorState 2 3 7) := by
  rfl

theorem colMajor_len (rows columns : Nat) (hfit : rows * columns ≤ usizeMax) (n : Nat)
    (items : List (Option (Nat × Nat))) (st : MatIter)
    (h : collect colMajorNext n (MatIter.new rows columns) = .ok (items, st)) :
    colMajorSizeHint st =
        .ok (remaining (rows * columns) n, some (remaining (rows * columns) n)) ∧
      lenOfHint (colMajorSizeHint st) = .ok (remaining (rows * columns) n) := by
  rw [colMajor_kth] at h
  simp only [Outcome.ok.injEq, Prod.mk.injEq] at h
  rw [← h.2, colMajorSizeHint_state rows columns n hfit]
  exact ⟨rfl, by simp [lenOfHint, remaining]⟩

/-- Empty views (`0×N`, `N×0`, `0×0`): both whole-matrix iterators yield nothing at any call,
    and report length 0 (the `rows - 1` / `columns - 1` of the step functions and the
    subtractions of the size hints never underflow). -/
theorem matrix_empty_views (rows columns : Nat) (hempty : rows = 0 ∨ columns = 0) (n : Nat) :
    collect rowMajorNext n (MatIter.new rows columns) =
        .ok (List.replicate n none, MatIter.new rows columns) ∧
      collect colMajorNext n (MatIter.new rows columns) =
        .ok (List.replicate n none, MatIter.new rows columns) ∧
      rowMajorSizeHint (MatIter.new rows columns) = .ok (0, some 0) ∧
      colMajorSizeHint (MatIter.new rows columns) = .ok (0, some 0) := by
  have h0 : rows * columns = 0 := by rcases hempty with h | h <;> simp [h]
  have hr : ∀ k, rowMajorItem rows columns k = none := by intro k; simp [rowMajorItem, h0]
  have hc : ∀ k, colMajorItem rows columns k = none := by intro k; simp [colMajorItem, h0]
  have hrs : ∀ k, rowMajorState rows columns k = MatIter.new rows columns := by
    intro k; rw [← rowMajorState_zero]; simp [rowMajorState, h0]
  have hcs : ∀ k, colMajorState rows columns k = MatIter.new rows columns := by
    intro k; rw [← colMajorState_zero]; simp [colMajorState, h0]
  have hl : ∀ (f : Nat → Option (Nat × Nat)), (∀ k, f k = none) →
      (List.range n).map f = List.replicate n none := by
    intro f hf
    apply List.ext_getElem <;> simp [hf]
  refine ⟨?_, ?_, ?_, ?_⟩
  · rw [rowMajor_kth, hl _ hr, hrs]
  · rw [colMajor_kth, hl _ hc, hcs]
  · have := rowMajorSizeHint_state rows columns 0 (by rw [h0]; simp [usizeMax])
    rw [hrs, h0] at this; exact this
  · have := colMajorSizeHint_state rows columns 0 (by rw [h0]; simp [usizeMax])
    rw [hcs, h0] at this; exact this

example : (0 : Nat) = 0 ∨ (5 : Nat) = 0 := Or.inl rfl

/-- Single row: the constructor accepts exactly the rows of a view with at least one column
    (`assert!(index_is_valid(row, 0))`, otherwise the documented panic); the iterator then
    yields `(row, 0), (row, 1), …, (row, columns − 1)`, then `None`, with exact lengths. -/
theorem row_kth_len (rows columns row n : Nat) :
    (¬ (row < rows ∧ 0 < columns) → LineIter.newRow rows columns row = .panic .explicit) ∧
      (row < rows ∧ 0 < columns →
        ∃ it, LineIter.newRow rows columns row = .ok it ∧
          collect lineNext n it =
            .ok ((List.range n).map (rowItem columns row), lineState (.row row) columns n) ∧
          (lineState (.row row) columns n).sizeHint =
            (remaining columns n, some (remaining columns n))) := by
  refine ⟨fun h => by simp [LineIter.newRow, h],
    fun h => ⟨⟨.row row, ⟨0, columns⟩⟩, by simp [LineIter.newRow, h], ?_, ?_⟩⟩
  · have := (line_enumerates (.row row) columns).collect_from n 0
    rw [(line_enumerates (.row row) columns).start, Nat.zero_add, ← List.range_eq_range'] at this
    rw [this]
    simp [rowItem, Line.position]
  · exact lineState_sizeHint _ _ _

/-- Single column: symmetric to `row_kth_len`. -/
theorem col_kth_len (rows columns column n : Nat) :
    (¬ (0 < rows ∧ column < columns) → LineIter.newColumn rows columns column = .panic .explicit) ∧
      (0 < rows ∧ column < columns →
        ∃ it, LineIter.newColumn rows columns column = .ok it ∧
          collect lineNext n it =
            .ok ((List.range n).map (columnItem rows column), lineState (.column column) rows n) ∧
          (lineState (.column column) rows n).sizeHint =
            (remaining rows n, some (remaining rows n))) := by
  refine ⟨fun h => by simp [LineIter.newColumn, h],
    fun h => ⟨⟨.column column, ⟨0, rows⟩⟩, by simp [LineIter.newColumn, h], ?_, ?_⟩⟩
  · have := (line_enumerates (.column column) rows).collect_from n 0
    rw [(line_enumerates (.column column) rows).start, Nat.zero_add, ← List.range_eq_range'] at this
    rw [this]
    simp [columnItem, Line.position]
  · exact lineState_sizeHint _ _ _

/-- Main diagonal: `(0,0), (1,1), …` up to `min rows columns` (so nothing for empty views). -/
theorem diag_kth_len (rows columns n : Nat) :
    collect lineNext n (LineIter.newDiagonal rows columns) =
        .ok ((List.range n).map (diagonalItem rows columns),
          lineState .diagonal (min rows columns) n) ∧
      (lineState .diagonal (min rows columns) n).sizeHint =
        (remaining (min rows columns) n, some (remaining (min rows columns) n)) := by
  refine ⟨?_, lineState_sizeHint _ _ _⟩
  have := (line_enumerates .diagonal (min rows columns)).collect_from n 0
  rw [(line_enumerates .diagonal (min rows columns)).start, Nat.zero_add,
    ← List.range_eq_range'] at this
  rw [LineIter.newDiagonal, this]
  simp [diagonalItem, Line.position]

example : (1 < 2 ∧ 0 < 3) := by decide

/-! ## `WithIndex`: every element is paired with its true index

  First in local form (any state of the iterator, reachable or not): if the with-index
  iterator returns `(i, x)` then the wrapped iterator fetched `x` from exactly position `i`.
  The `refNext` flavour makes the fetched cell visible; the copying and owning flavours fetch
  the same cell (`copyNext`, `ownedNext` in Model/Iter.lean). -/

theorem withIndex_pairs_true_index {κ : Type} (cell : List Nat → Option κ) (it it' : ShapeIter)
    (i : List Nat) (x : Option κ)
    (h : withIndexNext (fun s => s.indexes) (refNext shapeNext cell) it = .ok (some (i, x), it')) :
    shapeNext it = .ok (some i, it') ∧ x = cell i := by
  simp only [withIndexNext, refNext] at h
  cases hn : shapeNext it with
  | panic k => simp [hn] at h
  | ok r =>
    obtain ⟨p, s'⟩ := r
    cases p with
    | none => simp [hn] at h
    | some p =>
      have hc := shapeNext_counter it s' p hn
      simp only [hn, Option.map_some, Outcome.ok.injEq, Prod.mk.injEq, Option.some.injEq] at h
      obtain ⟨⟨h1, h2⟩, h3⟩ := h
      subst h3
      rw [hc] at h1
      subst h1
      exact ⟨rfl, h2.symm⟩

theorem withIndex_pairs_true_index_rowMajor {κ : Type} (cell : Nat × Nat → Option κ)
    (it it' : MatIter) (i : Nat × Nat) (x : Option κ)
    (h : withIndexNext (fun s => (s.rowCounter, s.columnCounter)) (refNext rowMajorNext cell) it =
      .ok (some (i, x), it')) :
    rowMajorNext it = .ok (some i, it') ∧ x = cell i := by
  simp only [withIndexNext, refNext] at h
  cases hn : rowMajorNext it with
  | panic k => simp [hn] at h
  | ok r =>
    obtain ⟨p, s'⟩ := r
    cases p with
    | none => simp [hn] at h
    | some p =>
      have hc := rowMajorNext_counter it s' p hn
      simp only [hn, Option.map_some, Outcome.ok.injEq, Prod.mk.injEq, Option.some.injEq] at h
      obtain ⟨⟨h1, h2⟩, h3⟩ := h
      subst h3
      rw [hc] at h1
      subst h1
      exact ⟨rfl, h2.symm⟩

theorem withIndex_pairs_true_index_colMajor {κ : Type} (cell : Nat × Nat → Option κ)
    (it it' : MatIter) (i : Nat × Nat) (x : Option κ)
    (h : withIndexNext (fun s => (s.rowCounter, s.columnCounter)) (refNext colMajorNext cell) it =
      .ok (some (i, x), it')) :
    colMajorNext it = .ok (some i, it') ∧ x = cell i := by
  simp only [withIndexNext, refNext] at h
  cases hn : colMajorNext it with
  | panic k => simp [hn] at h
  | ok r =>
    obtain ⟨p, s'⟩ := r
    cases p with
    | none => simp [hn] at h
    | some p =>
      have hc := colMajorNext_counter it s' p hn
      simp only [hn, Option.map_some, Outcome.ok.injEq, Prod.mk.injEq, Option.some.injEq] at h
      obtain ⟨⟨h1, h2⟩, h3⟩ := h
      subst h3
      rw [hc] at h1
      subst h1
      exact ⟨rfl, h2.symm⟩

/-- The counters `WithIndex` reads show, in *every* state, the position the wrapped iterator is
    about to fetch — for the shape iterator and both matrix odometers. -/
theorem counters_show_position :
    (∀ (s s' : ShapeIter) p, shapeNext s = .ok (some p, s') → s.indexes = p) ∧
      (∀ (s s' : MatIter) p, rowMajorNext s = .ok (some p, s') →
        (s.rowCounter, s.columnCounter) = p) ∧
      (∀ (s s' : MatIter) p, colMajorNext s = .ok (some p, s') →
        (s.rowCounter, s.columnCounter) = p) :=
  ⟨shapeNext_counter, rowMajorNext_counter, colMajorNext_counter⟩

/-- The *copying* with-index iterators, any state: the returned index is the position whose
    cell's content was copied. -/
theorem withIndex_true_index_copy {σ π κ α : Type} (next : σ → Outcome (Option π × σ))
    (counter : σ → π) (hcounter : ∀ s s' p, next s = .ok (some p, s') → counter s = p)
    (cell : π → Option κ) (mem : κ → α) (s s' : σ) (i : π) (x : Option α)
    (h : withIndexNext counter (copyNext next cell mem) s = .ok (some (i, x), s')) :
    next s = .ok (some i, s') ∧ x = (cell i).map mem := by
  simp only [withIndexNext, copyNext] at h
  cases hn : next s with
  | panic k => simp [hn] at h
  | ok r =>
    obtain ⟨p, t⟩ := r
    cases p with
    | none => simp [hn] at h
    | some p =>
      have hc := hcounter s t p hn
      simp only [hn, Option.map_some, Outcome.ok.injEq, Prod.mk.injEq, Option.some.injEq] at h
      obtain ⟨⟨h1, h2⟩, h3⟩ := h
      subst h3
      rw [hc] at h1
      subst h1
      exact ⟨rfl, h2.symm⟩

/-- The *owning* with-index iterators, any state and any memory: the returned index is the
    position whose cell's content was moved out, and exactly that cell now holds the
    placeholder. -/
theorem withIndex_true_index_owned {σ π κ α : Type} [DecidableEq κ]
    (next : σ → Outcome (Option π × σ)) (counter : σ → π)
    (hcounter : ∀ s s' p, next s = .ok (some p, s') → counter s = p)
    (cell : π → Option κ) (placeholder : α) (s s' : σ) (mem mem' : κ → α) (i : π) (c : κ)
    (x : Option α) (hcell : cell i = some c)
    (h : withIndexNext (fun (t : σ × (κ → α)) => counter t.1) (ownedNext next cell placeholder)
      (s, mem) = .ok (some (i, x), (s', mem'))) :
    next s = .ok (some i, s') ∧ x = some (mem c) ∧ mem' = update mem c placeholder := by
  simp only [withIndexNext, ownedNext] at h
  cases hn : next s with
  | panic k => simp [hn] at h
  | ok r =>
    obtain ⟨p, t⟩ := r
    cases p with
    | none => simp [hn] at h
    | some p =>
      have hc := hcounter s t p hn
      simp only [hn] at h
      cases hcp : cell p with
      | none =>
        simp only [hcp, Option.map_some, Outcome.ok.injEq, Prod.mk.injEq, Option.some.injEq] at h
        obtain ⟨⟨h1, _⟩, _⟩ := h
        rw [hc] at h1
        subst h1
        rw [hcell] at hcp
        cases hcp
      | some c' =>
        simp only [hcp, Option.map_some, Outcome.ok.injEq, Prod.mk.injEq, Option.some.injEq] at h
        obtain ⟨⟨h1, h2⟩, h3, h4⟩ := h
        rw [hc] at h1
        subst h1
        rw [hcell] at hcp
        cases hcp
        subst h3
        exact ⟨rfl, h2.symm, h4.symm⟩

/-- … and globally: the with-index iterators yield, call by call, the documented position
    paired with the cell of that position — for tensors over any source … -/
theorem withIndex_kth {κ : Type} (shape : List Nat) (cell : List Nat → Option κ) (n : Nat) :
    collect (withIndexNext (fun s => s.indexes) (refNext shapeNext cell)) n (ShapeIter.new shape) =
      .ok ((List.range n).map (fun k => (shapeItem shape k).map fun p => (p, cell p)),
        ShapeIter.steps n (ShapeIter.new shape)) := by
  have E := (shape_enumerates shape).withIndex_ref (fun s => s.indexes)
    (fun s s' p h => shapeNext_counter s s' p h) cell
  have := E.collect_from n 0
  rw [Nat.zero_add, ← List.range_eq_range'] at this
  exact this

/-- … and for both whole-matrix orders over any source. -/
theorem withIndex_kth_matrix {κ : Type} (rows columns : Nat) (cell : Nat × Nat → Option κ)
    (n : Nat) :
    collect (withIndexNext (fun s => (s.rowCounter, s.columnCounter)) (refNext rowMajorNext cell)) n
        (MatIter.new rows columns) =
      .ok ((List.range n).map (fun k => (rowMajorItem rows columns k).map fun p => (p, cell p)),
        rowMajorState rows columns n) ∧
    collect (withIndexNext (fun s => (s.rowCounter, s.columnCounter)) (refNext colMajorNext cell)) n
        (MatIter.new rows columns) =
      .ok ((List.range n).map (fun k => (colMajorItem rows columns k).map fun p => (p, cell p)),
        colMajorState rows columns n) := by
  constructor
  · have E := (rowMajor_enumerates rows columns).withIndex_ref
      (fun s => (s.rowCounter, s.columnCounter)) (fun s s' p h => rowMajorNext_counter s s' p h) cell
    have := E.collect_from n 0
    rw [(rowMajor_enumerates rows columns).start, Nat.zero_add, ← List.range_eq_range'] at this
    exact this
  · have E := (colMajor_enumerates rows columns).withIndex_ref
      (fun s => (s.rowCounter, s.columnCounter)) (fun s s' p h => colMajorNext_counter s s' p h) cell
    have := E.collect_from n 0
    rw [(colMajor_enumerates rows columns).start, Nat.zero_add, ← List.range_eq_range'] at this
    exact this

/-- `WithIndex::source()` mid-iteration: the wrapper has no state of its own (the model's
    with-index step runs on the wrapped iterator's state), so after `k` with-index calls the
    wrapped iterator is exactly the iterator after `k` plain calls, and continuing on it yields
    the remaining items `item k, item (k+1), …` — nothing skipped, nothing repeated. -/
theorem withIndex_source_resumes {σ π β : Type} {next : σ → Outcome (Option β × σ)} {s0 : σ}
    {total : Nat} {item : Nat → Option β} {state : Nat → σ}
    (E : Enumerates next s0 total item state) (counter : σ → π) (k n : Nat) :
    collect (withIndexNext counter next) k s0 =
        .ok ((List.range k).map (fun j => (item j).map fun x => (counter (state j), x)), state k) ∧
      collect next n (state k) = .ok ((List.range' k n).map item, state (k + n)) := by
  constructor
  · have := (E.withIndex counter).collect_from k 0
    rw [E.start, Nat.zero_add, ← List.range_eq_range'] at this
    exact this
  · exact E.collect_from n k

/-- Converting a *partially consumed* iterator into its with-index form (`it.with_index()`,
    `WithIndex::from(it)`, `it.into()`, `AsRecords::with_index`): the conversion only wraps the
    iterator — it is the identity on the iterator's state — so after `k` plain calls the
    with-index iterator continues at item `k` with the true indexes: nothing is yielded again,
    the length is not reset, an exhausted iterator stays exhausted (`k ≥ total`: every item
    `None`). -/
theorem withIndex_of_advanced {σ π β : Type} {next : σ → Outcome (Option β × σ)} {s0 : σ}
    {total : Nat} {item : Nat → Option β} {state : Nat → σ}
    (E : Enumerates next s0 total item state) (counter : σ → π) (k n : Nat) :
    collect next k s0 = .ok ((List.range k).map item, state k) ∧
      collect (withIndexNext counter next) n (state k) =
        .ok ((List.range' k n).map (fun j => (item j).map fun x => (counter (state j), x)),
          state (k + n)) ∧
      (total ≤ k → ∀ j ∈ List.range' k n, item j = none) := by
  refine ⟨?_, (E.withIndex counter).collect_from n k, ?_⟩
  · have := E.collect_from k 0
    rw [E.start, Nat.zero_add, ← List.range_eq_range'] at this
    exact this
  · intro hk j hj
    have := (List.mem_range'_1.mp hj).1
    exact E.item_none j (by omega)

example : collect (withIndexNext (fun s => (s.rowCounter, s.columnCounter)) colMajorNext) 2
      (colMajorState 2 2 1) =
    .ok ([some ((1, 0), (1, 0)), some ((0, 1), (0, 1))], colMajorState 2 2 3) := by rfl

/-- `ShapeIterator` is `Clone`: a copy taken after `k` calls is the same value, so it — and the
    original — go on exactly as the iterator after `k` calls does (`n` more calls lead to the
    state after `k + n` calls). -/
theorem shapeIter_clone_continues (it : ShapeIter) (k n : Nat) :
    ShapeIter.steps n (ShapeIter.steps k it) = ShapeIter.steps (k + n) it := by
  induction k generalizing it with
  | zero => simp [ShapeIter.steps]
  | succ k ih =>
    have e : k + 1 + n = (k + n) + 1 := by omega
    rw [e]
    simp only [ShapeIter.steps]
    exact ih it.next.2

/-- **The with-index wrapper has no state of its own** — for *any* iterator (any step function,
    any state, any flavour, also the owning ones that carry the memory along): `n` calls on the
    wrapper make exactly the `n` calls of the wrapped iterator, ending in the same state, with
    the same items (paired with an index) and the same panics.  This is what the `split=<k>`
    (`WithIndex::source()` after `k` calls) and `conv=<k>` (conversion after `k` calls) answers
    rest on: the records of a mixed run are those of the with-index run on the one side of `k`
    and of the plain run on the other. -/
theorem withIndex_wrapper_transparent {σ π β : Type} (counter : σ → π)
    (next : σ → Outcome (Option β × σ)) (n : Nat) (s : σ) :
    (∀ xs s', collect next n s = .ok (xs, s') →
      ∃ ys, collect (withIndexNext counter next) n s = .ok (ys, s') ∧
        ys.map (Option.map Prod.snd) = xs) ∧
    (∀ k, collect next n s = .panic k → collect (withIndexNext counter next) n s = .panic k) :=
  collect_withIndex counter next n s

example : ∃ ys, collect (withIndexNext (fun s => s.indexes) shapeNext) 3 (ShapeIter.new [2, 2]) =
    .ok (ys, ShapeIter.steps 3 (ShapeIter.new [2, 2])) ∧
      ys.map (Option.map Prod.snd) = [some [0, 0], some [0, 1], some [1, 0]] :=
  ⟨_, rfl, rfl⟩

/-- **Mapped iterators** (`AsRecords`, which maps each `(number, index)` of the wrapped tensor /
    matrix iterator to a `Record`; `Iterator::map`): same order, same count, same exhaustion —
    item `k` is `f` of the wrapped item `k`; and the with-index form
    (`WithIndex<AsRecords<WithIndex<I>>>`, which maps the second component) pairs `f (item k)`
    with the position the wrapped iterator was about to yield. -/
theorem asRecords_enumerates {σ π β γ : Type} {next : σ → Outcome (Option β × σ)} {s0 : σ}
    {total : Nat} {item : Nat → Option β} {state : Nat → σ}
    (E : Enumerates next s0 total item state) (f : β → γ) (counter : σ → π) :
    Enumerates (mapNext f next) s0 total (fun k => (item k).map f) state ∧
      Enumerates (mapNext (fun (p : π × β) => (p.1, f p.2)) (withIndexNext counter next)) s0 total
        (fun k => (item k).map fun x => (counter (state k), f x)) state := by
  refine ⟨E.map f, ?_⟩
  have := (E.withIndex counter).map (fun (p : π × β) => (p.1, f p.2))
  simpa [Option.map_map, Function.comp_def] using this

/-! ## std's consumers (`count`, `last`, `fold`/`sum`/`collect`/`for_each`, `nth`)

  The two files override none of them, so they are std's loops over `next` (`drain`, `nthOf` in
  Model/Iter.lean).  For every enumerating iterator: -/

/-- Running an iterator that has already served `k` calls to its end (`count`, `last`, `fold`,
    `collect`, a `for` loop) visits exactly the items `k, k+1, …, total−1` in order — each once,
    none skipped whatever their values — and their number is `total − k`, the length reported
    at that point (`*_len`); afterwards the iterator has made `total − k + 1` further calls. -/
theorem consumers_drain {σ β : Type} {next : σ → Outcome (Option β × σ)} {s0 : σ} {total : Nat}
    {item : Nat → Option β} {state : Nat → σ} (E : Enumerates next s0 total item state)
    (k fuel : Nat) (hfuel : total - k < fuel) :
    drain next fuel (state k) =
        .ok ((List.range' k (total - k)).filterMap item, state (k + (total - k + 1))) ∧
      ((List.range' k (total - k)).filterMap item).length = remaining total k := by
  have h := drain_spec E fuel k
  have e1 : min fuel (total - k) = total - k := by omega
  have e2 : min fuel (total - k + 1) = total - k + 1 := by omega
  rw [e1, e2] at h
  refine ⟨h, ?_⟩
  rcases Nat.lt_or_ge k total with hk | hk
  · exact drain_length E k (total - k) (by omega)
  · have : total - k = 0 := by omega
    simp [this, remaining]

/-- A consumer that stops early — a closure that panics at its `p`-th element, a `break`, a
    `take` — after `c` items leaves the iterator exactly `c` calls further: the survivor goes on
    with item `k + c` (`Enumerates.collect_from` from `state (k + c)`), nothing is lost or
    repeated. -/
theorem consumers_interrupted {σ β : Type} {next : σ → Outcome (Option β × σ)} {s0 : σ}
    {total : Nat} {item : Nat → Option β} {state : Nat → σ}
    (E : Enumerates next s0 total item state) (k c n : Nat) (hc : k + c ≤ total) :
    drain next c (state k) = .ok ((List.range' k c).filterMap item, state (k + c)) ∧
      ((List.range' k c).filterMap item).length = c ∧
      collect next n (state (k + c)) = .ok ((List.range' (k + c) n).map item, state (k + c + n)) := by
  have h := drain_spec E c k
  have e1 : min c (total - k) = c := by omega
  have e2 : min c (total - k + 1) = c := by omega
  rw [e1, e2] at h
  exact ⟨h, drain_length E k c hc, E.collect_from n (k + c)⟩

/-- `nth(j)` after `k` calls returns item `k + j` (or `None` if that is past the end) and
    leaves the iterator `min (j+1) (total−k+1)` calls further. -/
theorem consumers_nth {σ β : Type} {next : σ → Outcome (Option β × σ)} {s0 : σ} {total : Nat}
    {item : Nat → Option β} {state : Nat → σ} (E : Enumerates next s0 total item state)
    (j k : Nat) :
    nthOf next j (state k) =
      .ok (if k + j < total then item (k + j) else none,
        state (k + min (j + 1) (total - k + 1))) :=
  nthOf_spec E j k

/-- The reported exact length is the number of items still to come, at every point of the
    iteration — stated with the items actually produced: after any `k` calls, `len()` of the
    shape iterator equals the length of the list obtained by running it to the end. -/
theorem shapeIter_len_eq_count (shape : List Nat) (hfit : prod shape ≤ usizeMax) (k : Nat) :
    ∃ items st,
      drain shapeNext (prod shape + 1) (ShapeIter.steps k (ShapeIter.new shape)) = .ok (items, st) ∧
        lenOfHint (ShapeIter.steps k (ShapeIter.new shape)).sizeHint = .ok items.length := by
  obtain ⟨h1, h2⟩ := consumers_drain (shape_enumerates shape) k (prod shape + 1) (by omega)
  exact ⟨_, _, h1, by rw [(shapeIter_len shape hfit k).2, h2]⟩

/-- The same for the two whole-matrix iterators (including empty views). -/
theorem matrix_len_eq_count (rows columns : Nat) (hfit : rows * columns ≤ usizeMax) (k : Nat) :
    (∃ items st,
      drain rowMajorNext (rows * columns + 1) (rowMajorState rows columns k) = .ok (items, st) ∧
        lenOfHint (rowMajorSizeHint (rowMajorState rows columns k)) = .ok items.length) ∧
    (∃ items st,
      drain colMajorNext (rows * columns + 1) (colMajorState rows columns k) = .ok (items, st) ∧
        lenOfHint (colMajorSizeHint (colMajorState rows columns k)) = .ok items.length) := by
  constructor
  · obtain ⟨h1, h2⟩ := consumers_drain (rowMajor_enumerates rows columns) k (rows * columns + 1)
      (by omega)
    refine ⟨_, _, h1, ?_⟩
    rw [rowMajorSizeHint_state rows columns k hfit, h2]
    simp [lenOfHint, remaining]
  · obtain ⟨h1, h2⟩ := consumers_drain (colMajor_enumerates rows columns) k (rows * columns + 1)
      (by omega)
    refine ⟨_, _, h1, ?_⟩
    rw [colMajorSizeHint_state rows columns k hfit, h2]
    simp [lenOfHint, remaining]

example : drain shapeNext 7 (ShapeIter.steps 2 (ShapeIter.new [2, 3])) =
    .ok ([[0, 2], [1, 0], [1, 1], [1, 2]], ShapeIter.steps 7 (ShapeIter.new [2, 3])) := by rfl

/-- The row, column and diagonal iterators: after any `k` calls the reported length is the
    number of items actually produced by running them to the end. -/
theorem line_len_eq_count (line : Line) (stop k : Nat) :
    ∃ items st,
      drain lineNext (stop + 1) (lineState line stop k) = .ok (items, st) ∧
        (lineState line stop k).sizeHint = (items.length, some items.length) := by
  obtain ⟨h1, h2⟩ := consumers_drain (line_enumerates line stop) k (stop + 1) (by omega)
  refine ⟨_, _, h1, ?_⟩
  rw [lineState_sizeHint, h2]
  rfl

example : drain lineNext 4 (lineState (.column 1) 3 1) =
    .ok ([(1, 1), (2, 1)], lineState (.column 1) 3 4) := by rfl

/-! ## Mutable iterators never hand out the same element twice; owning iterators move every
    value out once

  Stated for *any* enumerating position iterator (`Enumerates`) over *any* source that is
  `Faithful` (resolves the `k`-th position to a cell `cellOf k`, different calls to different
  cells).  Instances for `Tensor` and `Matrix` follow; a view model plugs in by proving
  `Faithful` from the injectivity of its index map (`faithful_of_injective`). -/

/-- The reference iterators (shared and mutable) hand out, call by call, the cells
    `cellOf 0, cellOf 1, …` — for every number of calls `n`, `None` after the end — and these
    cells are pairwise different: no two `&mut` alias. -/
theorem mut_items_distinct {σ π κ : Type} {next : σ → Outcome (Option π × σ)} {s0 : σ}
    {total : Nat} {item : Nat → Option π} {state : Nat → σ}
    (E : Enumerates next s0 total item state) {cell : π → Option κ} {cellOf : Nat → κ}
    (F : Faithful item total cell cellOf) (n : Nat) :
    collect (refNext next cell) n s0 =
        .ok ((List.range n).map (fun k => if k < total then some (some (cellOf k)) else none),
          state n) ∧
      ((List.range (min n total)).map cellOf).Nodup := by
  constructor
  · have := (E.ref cell).collect_from n 0
    rw [E.start, Nat.zero_add, ← List.range_eq_range'] at this
    rw [this]
    congr 2
    apply List.map_congr_left
    intro k _
    by_cases hk : k < total
    · obtain ⟨p, hp, hc⟩ := F.resolves k hk
      simp [hk, hp, hc]
    · simp [hk, E.item_none k (by omega)]
  · rw [List.nodup_iff_pairwise_ne, List.pairwise_map]
    refine List.Pairwise.imp_of_mem ?_ (List.pairwise_lt_range (n := min n total))
    intro a b ha hb hab heq
    have ha' := List.mem_range.mp ha
    have hb' := List.mem_range.mp hb
    have := F.distinct a b (by omega) (by omega) heq
    omega

/-- Owning iterators: for every number of calls `n`, the values returned are the *original*
    contents `mem0 (cellOf k)` in iteration order (never a placeholder, never a value twice:
    the cells are pairwise different), and afterwards exactly the visited cells hold the
    placeholder while all other cells are untouched. -/
theorem owned_moves_once {σ π κ α : Type} [DecidableEq κ] {next : σ → Outcome (Option π × σ)}
    {s0 : σ} {total : Nat} {item : Nat → Option π} {state : Nat → σ}
    (E : Enumerates next s0 total item state) {cell : π → Option κ} {cellOf : Nat → κ}
    (F : Faithful item total cell cellOf) (mem0 : κ → α) (placeholder : α) (n : Nat) :
    collect (ownedNext next cell placeholder) n (s0, mem0) =
      .ok ((List.range n).map (fun k => if k < total then some (some (mem0 (cellOf k))) else none),
        (state n, fun c => if c ∈ (List.range (min n total)).map cellOf then placeholder
          else mem0 c)) := by
  have := owned_collect_from E cell cellOf F.resolves F.distinct mem0 placeholder n 0
  have hm : visitedMem mem0 placeholder ((List.range (min 0 total)).map cellOf) = mem0 := by
    funext c; simp [visitedMem]
  rw [hm, E.start, Nat.zero_add, ← List.range_eq_range'] at this
  exact this

/-- **Mutable iteration that writes** `g(old)` through every item (`for x in it { *x = g(x) }`,
    the loop of `map_mut`), for every number of calls `n`: the cells handed out are
    `cellOf 0, cellOf 1, …`, and afterwards exactly the first `min n total` of them hold
    `g (original)` — each rewritten once, from its *original* value — and every other cell is
    untouched.  With `n = total` this is `map`; with a closure that panics at its `n`-th call the
    written prefix is exactly the first `n` items in iteration order. -/
theorem mut_writes_eq_map {σ π κ α : Type} [DecidableEq κ] {next : σ → Outcome (Option π × σ)}
    {s0 : σ} {total : Nat} {item : Nat → Option π} {state : Nat → σ}
    (E : Enumerates next s0 total item state) {cell : π → Option κ} {cellOf : Nat → κ}
    (F : Faithful item total cell cellOf) (mem0 : κ → α) (g : α → α) (n : Nat) :
    collect (writeNext next cell g) n (s0, mem0) =
      .ok ((List.range n).map (fun k => if k < total then some (some (cellOf k)) else none),
        (state n, fun c => if c ∈ (List.range (min n total)).map cellOf then g (mem0 c)
          else mem0 c)) := by
  have := write_collect_from E cell cellOf F.resolves F.distinct mem0 g n 0
  have hm : writtenMem mem0 g ((List.range (min 0 total)).map cellOf) = mem0 := by
    funext c; simp [writtenMem]
  rw [hm, E.start, Nat.zero_add, ← List.range_eq_range'] at this
  exact this

/-- The *with-index* owning iterators (`WithIndex<TensorOwnedIterator>`, `WithIndex<RowMajorOwned…>`
    …) move each original value out exactly once as well: the second components of their items are
    the items of the plain owning iterator, and the iterator state and the memory afterwards —
    placeholders in exactly the visited cells — are the same (from `owned_moves_once` and
    `withIndex_wrapper_transparent`). -/
theorem owned_withIndex_moves_once {σ π κ α : Type} [DecidableEq κ]
    {next : σ → Outcome (Option π × σ)} {s0 : σ} {total : Nat} {item : Nat → Option π}
    {state : Nat → σ} (E : Enumerates next s0 total item state) {cell : π → Option κ}
    {cellOf : Nat → κ} (F : Faithful item total cell cellOf) (counter : σ → π) (mem0 : κ → α)
    (placeholder : α) (n : Nat) :
    ∃ ys, collect (withIndexNext (fun (t : σ × (κ → α)) => counter t.1)
          (ownedNext next cell placeholder)) n (s0, mem0) =
        .ok (ys, (state n, fun c => if c ∈ (List.range (min n total)).map cellOf then placeholder
          else mem0 c)) ∧
      ys.map (Option.map Prod.snd) =
        (List.range n).map (fun k => if k < total then some (some (mem0 (cellOf k))) else none) :=
  (collect_withIndex (fun (t : σ × (κ → α)) => counter t.1) (ownedNext next cell placeholder) n
    (s0, mem0)).1 _ _ (owned_moves_once E F mem0 placeholder n)

/-- A source is faithful for an iteration as soon as every visited position is valid, the
    source resolves valid positions, and it maps different valid positions to different cells
    (for views: `view_get_injective`, C02). -/
theorem faithful_of_injective {π κ : Type} [Inhabited κ] {total : Nat} {item : Nat → Option π}
    (cell : π → Option κ) (valid : π → Prop)
    (hitem_valid : ∀ k, k < total → ∃ p, item k = some p ∧ valid p)
    (hitem_inj : ∀ j k p, item j = some p → item k = some p → j = k)
    (hresolves : ∀ p, valid p → ∃ c, cell p = some c)
    (hsrc : ∀ p q c, valid p → valid q → cell p = some c → cell q = some c → p = q) :
    Faithful item total cell (fun k => ((item k).bind cell).getD default) where
  resolves k hk := by
    obtain ⟨p, hp, vp⟩ := hitem_valid k hk
    obtain ⟨c, hc⟩ := hresolves p vp
    exact ⟨p, hp, by simp [hp, hc]⟩
  distinct := by
    apply cellOf_injective cell valid
    · intro k hk
      obtain ⟨p, hp, vp⟩ := hitem_valid k hk
      obtain ⟨c, hc⟩ := hresolves p vp
      exact ⟨p, hp, vp, by simp [hp, hc]⟩
    · intro j k p _ _ hj hk
      exact hitem_inj j k p hj hk
    · exact hsrc

/-- `Tensor`: iteration resolves call `k` to storage offset `k` (one step in memory per call). -/
theorem tensor_faithful {ν α : Type} [DecidableEq ν] (shape : Shape ν) (data : List α)
    (t : Tensor ν α) (ht : Tensor.tryFrom shape data = some t) :
    (TSource.ofTensor t).shape = shape.map (·.2) ∧
      Faithful (shapeItem (shape.map (·.2))) (prod (shape.map (·.2))) (TSource.ofTensor t).cell
        (fun k => k) := by
  refine ⟨(ofTensor_cell shape data t ht _ (unravel_inBounds _ 0 ?_)).2, ?_, ?_⟩
  · -- a tensor has at least one element
    exact prod_pos_of_all_pos _ (tryFrom_lengths_pos shape data t ht)
  · intro k hk
    refine ⟨unravel (shape.map (·.2)) k, by simp [shapeItem, hk], ?_⟩
    rw [(ofTensor_cell shape data t ht _ (unravel_inBounds _ k hk)).1, ravel_unravel _ k hk]
  · intro j k _ _ h; exact h

example : ∃ t, Tensor.tryFrom [("a", 2), ("b", 3)] (List.range 6) = some t := ⟨_, rfl⟩

/-- `Matrix`, row-major: call `k` resolves to offset `k`; column-major: to
    `k / rows + (k % rows) * columns`; both without repetition. -/
theorem matrix_faithful (rows columns : Nat) :
    Faithful (rowMajorItem rows columns) (rows * columns) (MSource.ofMatrix rows columns).cell
        (fun k => k) ∧
      Faithful (colMajorItem rows columns) (rows * columns) (MSource.ofMatrix rows columns).cell
        (fun k => k / rows + (k % rows) * columns) := by
  constructor
  · refine ⟨?_, fun j k _ _ h => h⟩
    intro k hk
    have hv := rowMajorItem_valid rows columns k (k / columns, k % columns)
      (by simp [rowMajorItem, hk])
    refine ⟨(k / columns, k % columns), by simp [rowMajorItem, hk], ?_⟩
    rw [ofMatrix_cell _ _ _ hv]
    simp only [Option.some.injEq]
    have := Nat.div_add_mod k columns
    rw [Nat.mul_comm] at this
    omega
  · have hres : ∀ k, k < rows * columns → ∃ p, colMajorItem rows columns k = some p ∧
        (p.1 < rows ∧ p.2 < columns) ∧
        (MSource.ofMatrix rows columns).cell p = some (k / rows + (k % rows) * columns) := by
      intro k hk
      have hv := colMajorItem_valid rows columns k (k % rows, k / rows)
        (by simp [colMajorItem, hk])
      exact ⟨(k % rows, k / rows), by simp [colMajorItem, hk], hv, ofMatrix_cell _ _ _ hv⟩
    refine ⟨fun k hk => ?_, ?_⟩
    · obtain ⟨p, hp, _, hc⟩ := hres k hk
      exact ⟨p, hp, hc⟩
    · exact cellOf_injective (MSource.ofMatrix rows columns).cell
        (fun p => p.1 < rows ∧ p.2 < columns) _ hres
        (fun j k p _ _ hj hk => colMajorItem_injective rows columns j k p hj hk)
        (fun p q c vp vq => ofMatrix_injective rows columns p q c vp vq)

/-- **The order of iteration makes no difference to the result of a complete mutable pass**:
    writing `g(old)` through the row-major and through the column-major mutable iterator of a
    matrix leave the same memory — every cell of the matrix holds `g (original)`, every other
    cell its original. -/
theorem matrix_mut_write_order_irrelevant {α : Type} (rows columns : Nat) (mem0 : Nat → α)
    (g : α → α) :
    ∃ memR memC,
      collect (writeNext rowMajorNext (MSource.ofMatrix rows columns).cell g) (rows * columns)
          (MatIter.new rows columns, mem0) =
        .ok ((List.range (rows * columns)).map (fun k => some (some k)),
          (rowMajorState rows columns (rows * columns), memR)) ∧
      (∃ cells, collect (writeNext colMajorNext (MSource.ofMatrix rows columns).cell g)
          (rows * columns) (MatIter.new rows columns, mem0) =
        .ok (cells, (colMajorState rows columns (rows * columns), memC))) ∧
      (∀ c, memR c = if c < rows * columns then g (mem0 c) else mem0 c) ∧
      (∀ c, memC c = memR c) := by
  have hR := mut_writes_eq_map (rowMajor_enumerates rows columns) (matrix_faithful rows columns).1
    mem0 g (rows * columns)
  have hC := mut_writes_eq_map (colMajor_enumerates rows columns) (matrix_faithful rows columns).2
    mem0 g (rows * columns)
  rw [Nat.min_self] at hR hC
  refine ⟨fun c => if c ∈ (List.range (rows * columns)).map (fun k => k) then g (mem0 c) else mem0 c,
    fun c => if c ∈ (List.range (rows * columns)).map (fun k => k / rows + (k % rows) * columns)
      then g (mem0 c) else mem0 c, ?_, ⟨_, hC⟩, ?_, ?_⟩
  · rw [hR]
    congr 2
    apply List.map_congr_left
    intro k hk
    simp [List.mem_range.mp hk]
  · intro c
    simp
  · intro c
    -- the column-major cells are exactly the cells below rows * columns
    have hmem : c ∈ (List.range (rows * columns)).map
        (fun k => k / rows + (k % rows) * columns) ↔ c < rows * columns := by
      constructor
      · intro h
        obtain ⟨k, hk, rfl⟩ := List.mem_map.mp h
        have hk' := List.mem_range.mp hk
        have hr : 0 < rows := Nat.pos_of_ne_zero fun h0 => by rw [h0] at hk'; simp at hk'
        have hdiv : k / rows < columns :=
          (Nat.div_lt_iff_lt_mul hr).mpr (by rw [Nat.mul_comm]; exact hk')
        have hmod := Nat.mod_lt k hr
        have h1 : (k % rows + 1) * columns ≤ rows * columns := Nat.mul_le_mul_right _ hmod
        rw [Nat.add_mul, Nat.one_mul] at h1
        omega
      · intro hc
        have hcol : 0 < columns := Nat.pos_of_ne_zero fun h0 => by rw [h0] at hc; simp at hc
        have hr : 0 < rows := Nat.pos_of_ne_zero fun h0 => by rw [h0] at hc; simp at hc
        have hq : c / columns < rows := (Nat.div_lt_iff_lt_mul hcol).mpr hc
        have hm := Nat.mod_lt c hcol
        refine List.mem_map.mpr ⟨(c % columns) * rows + c / columns, List.mem_range.mpr ?_, ?_⟩
        · have h1 : (c % columns + 1) * rows ≤ columns * rows := Nat.mul_le_mul_right _ hm
          rw [Nat.add_mul, Nat.one_mul] at h1
          rw [Nat.mul_comm rows columns]; omega
        · have e1 : ((c % columns) * rows + c / columns) / rows = c % columns := by
            rw [Nat.mul_comm, Nat.mul_add_div hr, Nat.div_eq_of_lt hq]; rfl
          have e2 : ((c % columns) * rows + c / columns) % rows = c / columns := by
            rw [Nat.mul_comm, Nat.mul_add_mod, Nat.mod_eq_of_lt hq]
          rw [e1, e2]
          have := Nat.div_add_mod c columns
          rw [Nat.mul_comm] at this
          omega
    simp only [hmem, List.mem_map, List.mem_range, exists_eq_right]

example : collect (writeNext colMajorNext (MSource.ofMatrix 2 2).cell (· + 10)) 3
      (MatIter.new 2 2, fun c => c) =
    .ok ([some (some 0), some (some 2), some (some 1)], (colMajorState 2 2 3, fun c =>
      if c ∈ (List.range 3).map (fun k => k / 2 + (k % 2) * 2) then c + 10 else c)) := by
  rw [mut_writes_eq_map (colMajor_enumerates 2 2) (matrix_faithful 2 2).2 (fun c => c) (· + 10) 3]
  rfl

/-- The copying iterators return, call by call, the current contents of the cells
    `cellOf 0, cellOf 1, …` (and leave the source alone). -/
theorem copy_kth {σ π κ α : Type} {next : σ → Outcome (Option π × σ)} {s0 : σ}
    {total : Nat} {item : Nat → Option π} {state : Nat → σ}
    (E : Enumerates next s0 total item state) {cell : π → Option κ} {cellOf : Nat → κ}
    (F : Faithful item total cell cellOf) (mem : κ → α) (n : Nat) :
    collect (copyNext next cell mem) n s0 =
      .ok ((List.range n).map (fun k => if k < total then some (some (mem (cellOf k))) else none),
        state n) := by
  have := (E.copy cell mem).collect_from n 0
  rw [E.start, Nat.zero_add, ← List.range_eq_range'] at this
  rw [this]
  congr 2
  apply List.map_congr_left
  intro k _
  by_cases hk : k < total
  · obtain ⟨p, hp, hc⟩ := F.resolves k hk
    simp [hk, hp, hc]
  · simp [hk, E.item_none k (by omega)]

/-- Matrix sources built from a `Matrix` by `MatrixRange` (clipped, possibly empty) and
    `MatrixReverse`, nested to any depth, resolve every position inside their size and never map
    two positions to one cell. -/
theorem matrix_views_wellFormed :
    (∀ rows columns, (MSource.ofMatrix rows columns).WellFormed) ∧
      (∀ {κ : Type} (src : MSource κ), src.WellFormed →
        ∀ rs rl cs cl, (src.range rs rl cs cl).WellFormed) ∧
      (∀ {κ : Type} (src : MSource κ), src.WellFormed →
        ∀ r c, (src.reverse r c).WellFormed) :=
  ⟨ofMatrix_wellFormed, fun src h rs rl cs cl => range_wellFormed src h rs rl cs cl,
    fun src h r c => reverse_wellFormed src h r c⟩

example : ((MSource.ofMatrix 3 4).range 1 5 0 0).rows = 2 ∧
    ((MSource.ofMatrix 3 4).range 1 5 0 0).columns = 0 := by decide

/-- Every iterator kind over every well-formed matrix source is faithful: row-major,
    column-major, any existing row, any existing column, the diagonal.  With
    `mut_items_distinct` / `owned_moves_once` / `copy_kth` this gives the element-level
    statements for `Matrix`, `MatrixView`, `MatrixRange` (incl. empty) and `MatrixReverse`. -/
theorem matrix_source_faithful {κ : Type} [Inhabited κ] (src : MSource κ) (h : src.WellFormed) :
    Faithful (rowMajorItem src.rows src.columns) (src.rows * src.columns) src.cell
        (fun k => ((rowMajorItem src.rows src.columns k).bind src.cell).getD default) ∧
      Faithful (colMajorItem src.rows src.columns) (src.rows * src.columns) src.cell
        (fun k => ((colMajorItem src.rows src.columns k).bind src.cell).getD default) ∧
      (∀ row, row < src.rows →
        Faithful (rowItem src.columns row) src.columns src.cell
          (fun k => ((rowItem src.columns row k).bind src.cell).getD default)) ∧
      (∀ column, column < src.columns →
        Faithful (columnItem src.rows column) src.rows src.cell
          (fun k => ((columnItem src.rows column k).bind src.cell).getD default)) ∧
      Faithful (diagonalItem src.rows src.columns) (min src.rows src.columns) src.cell
        (fun k => ((diagonalItem src.rows src.columns k).bind src.cell).getD default) := by
  refine ⟨?_, ?_, ?_, ?_, ?_⟩
  · exact faithful_of_injective src.cell (fun p => p.1 < src.rows ∧ p.2 < src.columns)
      (fun k hk => ⟨(k / src.columns, k % src.columns), by simp [rowMajorItem, hk],
        rowMajorItem_valid _ _ k _ (by simp [rowMajorItem, hk])⟩)
      (rowMajorItem_injective _ _) h.resolves h.injective
  · exact faithful_of_injective src.cell (fun p => p.1 < src.rows ∧ p.2 < src.columns)
      (fun k hk => ⟨(k % src.rows, k / src.rows), by simp [colMajorItem, hk],
        colMajorItem_valid _ _ k _ (by simp [colMajorItem, hk])⟩)
      (colMajorItem_injective _ _) h.resolves h.injective
  · intro row hrow
    refine faithful_of_injective src.cell (fun p => p.1 < src.rows ∧ p.2 < src.columns)
      (fun k hk => ⟨(row, k), by simp [rowItem, hk], hrow, hk⟩) ?_ h.resolves h.injective
    intro j k p hj hk
    unfold rowItem at hj hk
    split at hj <;> split at hk <;> simp at hj hk
    have := hj.trans hk.symm
    simp only [Prod.mk.injEq] at this
    omega
  · intro column hcol
    refine faithful_of_injective src.cell (fun p => p.1 < src.rows ∧ p.2 < src.columns)
      (fun k hk => ⟨(k, column), by simp [columnItem, hk], hk, hcol⟩) ?_ h.resolves h.injective
    intro j k p hj hk
    unfold columnItem at hj hk
    split at hj <;> split at hk <;> simp at hj hk
    have := hj.trans hk.symm
    simp only [Prod.mk.injEq] at this
    omega
  · refine faithful_of_injective src.cell (fun p => p.1 < src.rows ∧ p.2 < src.columns)
      (fun k hk => ⟨(k, k), by simp [diagonalItem, hk], by omega, by omega⟩) ?_
      h.resolves h.injective
    intro j k p hj hk
    unfold diagonalItem at hj hk
    split at hj <;> split at hk <;> simp at hj hk
    have := hj.trans hk.symm
    simp only [Prod.mk.injEq] at this
    omega

example : (MSource.ofMatrix 2 3).WellFormed := ofMatrix_wellFormed 2 3

/-- The row, column and diagonal iterators in the vocabulary of the generic layer (so that
    `mut_items_distinct`, `copy_kth` apply to them with `matrix_source_faithful`). -/
theorem line_iterators_enumerate (rows columns : Nat) :
    (∀ row, Enumerates lineNext ⟨.row row, ⟨0, columns⟩⟩ columns (rowItem columns row)
        (lineState (.row row) columns)) ∧
      (∀ column, Enumerates lineNext ⟨.column column, ⟨0, rows⟩⟩ rows (columnItem rows column)
        (lineState (.column column) rows)) ∧
      Enumerates lineNext (LineIter.newDiagonal rows columns) (min rows columns)
        (diagonalItem rows columns) (lineState .diagonal (min rows columns)) := by
  refine ⟨fun row => ?_, fun column => ?_, ?_⟩
  · have h : (fun k => if k < columns then some ((Line.row row).position k) else none) =
        rowItem columns row := by funext k; simp [rowItem, Line.position]
    rw [← h]; exact line_enumerates _ _
  · have h : (fun k => if k < rows then some ((Line.column column).position k) else none) =
        columnItem rows column := by funext k; simp [columnItem, Line.position]
    rw [← h]; exact line_enumerates _ _
  · have h : (fun k => if k < min rows columns then some (Line.diagonal.position k) else none) =
        diagonalItem rows columns := by funext k; simp [diagonalItem, Line.position]
    rw [← h]; exact line_enumerates _ _

/-- Worked instance, end to end: the mutable row-major iterator over an `N×M` `Matrix` hands
    out the cells `0, 1, …, N·M − 1`, each once. -/
theorem matrix_rowMajor_mut_distinct (rows columns n : Nat) :
    collect (refNext rowMajorNext (MSource.ofMatrix rows columns).cell) n (MatIter.new rows columns) =
        .ok ((List.range n).map (fun k => if k < rows * columns then some (some k) else none),
          rowMajorState rows columns n) ∧
      ((List.range (min n (rows * columns))).map fun k => k).Nodup :=
  mut_items_distinct (rowMajor_enumerates rows columns) (matrix_faithful rows columns).1 n

/-- Worked instance: the owning iterator over a `Tensor` returns the original data in storage
    order and leaves placeholders in exactly the cells it has visited. -/
theorem tensor_owned_moves_once {ν α : Type} [DecidableEq ν] (shape : Shape ν) (data : List α)
    (t : Tensor ν α) (ht : Tensor.tryFrom shape data = some t) (mem0 : Nat → α) (placeholder : α)
    (n : Nat) :
    collect (ownedNext shapeNext (TSource.ofTensor t).cell placeholder) n
        (ShapeIter.new (shape.map (·.2)), mem0) =
      .ok ((List.range n).map
          (fun k => if k < prod (shape.map (·.2)) then some (some (mem0 k)) else none),
        (ShapeIter.steps n (ShapeIter.new (shape.map (·.2))),
          fun c => if c ∈ (List.range (min n (prod (shape.map (·.2))))).map (fun k => k)
            then placeholder else mem0 c)) :=
  owned_moves_once (shape_enumerates (shape.map (·.2))) (tensor_faithful shape data t ht).2
    mem0 placeholder n

/-- Every tensor iterator over every well-formed tensor source (a `Tensor`; any view whose
    index map is total and injective on its shape) is faithful — so `mut_items_distinct`,
    `owned_moves_once`, `copy_kth` and `withIndex_kth` apply to it. -/
theorem tensor_source_faithful {κ : Type} [Inhabited κ] (src : TSource κ) (h : src.WellFormed) :
    Faithful (shapeItem src.shape) (prod src.shape) src.cell
      (fun k => ((shapeItem src.shape k).bind src.cell).getD default) :=
  faithful_of_injective src.cell (fun idx => inBounds src.shape idx = true)
    (fun k hk => ⟨unravel src.shape k, by simp [shapeItem, hk], unravel_inBounds _ k hk⟩)
    (shapeItem_injective src.shape) h.resolves h.injective

/-- A constructed `Tensor` is a well-formed source. -/
theorem tensor_wellFormed {ν α : Type} [DecidableEq ν] (shape : Shape ν) (data : List α)
    (t : Tensor ν α) (ht : Tensor.tryFrom shape data = some t) :
    (TSource.ofTensor t).WellFormed :=
  ofTensor_wellFormed shape data t ht

example : ∃ t, Tensor.tryFrom [("a", 2), ("b", 3)] (List.range 6) = some t := ⟨_, rfl⟩

end EasyMl.C09
