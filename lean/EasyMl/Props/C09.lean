import EasyMl.Model.Iter
import EasyMl.Spec.Iter
