/-
  EasyMl.Props.C09 — property theorems for C09 (iterators yield each element once, in the
  documented order, with exact lengths).

  Only property statements (and their non-vacuity examples) live here; helper lemmas are in
  EasyMl/Lemmas/Iter.lean.  Every theorem is about the very definitions the `emlmodel` driver
  executes against the implementation (EasyMl/Model/Iter.lean) and the specification
  (EasyMl/Spec/Iter.lean).  All statements are for every dimensionality, every shape and every
  number `k` of calls already made.
-/
import EasyMl.Lemmas.Iter

namespace EasyMl.C09
open EasyMl EasyMl.Iter EasyMl.Spec

/-! ## The bare shape iterator -/

/-- After `k < Π lengths` calls the next item is the index tuple whose mixed-radix value is
    `k` (last dimension fastest) — the documented order. -/
theorem shapeIter_kth (shape : List Nat) (k : Nat) (hk : k < prod shape) :
    (ShapeIter.steps k (ShapeIter.new shape)).next.1 = some (unravel shape k) := by
  obtain ⟨hs, hlt, _⟩ := steps_spec shape k
  obtain ⟨hf, hi⟩ := hlt hk
  have hb : inBounds (ShapeIter.steps k (ShapeIter.new shape)).shape
      (ShapeIter.steps k (ShapeIter.new shape)).indexes = true := by
    rw [hs, hi]; exact unravel_inBounds shape k hk
  rw [(next_spec _ hf hb).1, hi]

example : (ShapeIter.steps 7 (ShapeIter.new [2, 3, 2])).next.1 = some [1, 0, 1] := by decide

/-- Every yielded index lies inside the shape (this is what makes the `get_reference_unchecked`
    calls of the element iterators legal, C10). -/
theorem shapeIter_items_inBounds (shape : List Nat) (k : Nat) (idx : List Nat)
    (h : (ShapeIter.steps k (ShapeIter.new shape)).next.1 = some idx) :
    inBounds shape idx = true := by
  rcases Nat.lt_or_ge k (prod shape) with hk | hk
  · rw [shapeIter_kth shape k hk] at h
    cases h
    exact unravel_inBounds shape k hk
  · rw [next_finished _ ((steps_spec shape k).2.2 hk)] at h
    cases h

/-- Each index of the shape is yielded exactly once: at call number `ravel shape idx` and at no
    other call. -/
theorem shapeIter_each_index_once (shape : List Nat) (idx : List Nat)
    (hb : inBounds shape idx = true) (j : Nat) :
    (ShapeIter.steps j (ShapeIter.new shape)).next.1 = some idx ↔ j = ravel shape idx := by
  constructor
  · intro h
    rcases Nat.lt_or_ge j (prod shape) with hj | hj
    · rw [shapeIter_kth shape j hj] at h
      cases h
      exact (ravel_unravel shape j hj).symm
    · rw [next_finished _ ((steps_spec shape j).2.2 hj)] at h
      cases h
  · intro h
    subst h
    rw [shapeIter_kth shape _ (ravel_lt shape idx hb), unravel_ravel shape idx hb]

example : inBounds [2, 3, 2] [1, 2, 0] = true ∧ ravel [2, 3, 2] [1, 2, 0] = 10 := by decide

/-- The order of the items is the lexicographic order of the index tuples. -/
theorem shapeIter_lexicographic (shape : List Nat) (j k : Nat) (hjk : j < k)
    (hk : k < prod shape) : List.Lex (· < ·) (unravel shape j) (unravel shape k) :=
  unravel_lex shape j k hjk hk

/-- `size_hint()` after `k` calls is `(Π lengths − k, Some(Π lengths − k))` for every `k`,
    including past the end (truncated subtraction gives 0), computed without overflow or
    underflow; hence `len()` is exactly the number of items still to come.
    The element count must itself fit in a `usize` (otherwise no length can be reported, see
    `shapeIter_len_unrepresentable`). -/
theorem shapeIter_len (shape : List Nat) (hfit : prod shape ≤ usizeMax) (k : Nat) :
    (ShapeIter.steps k (ShapeIter.new shape)).sizeHint =
        .ok (remaining (prod shape) k, some (remaining (prod shape) k)) ∧
      lenOfHint (ShapeIter.steps k (ShapeIter.new shape)).sizeHint =
        .ok (remaining (prod shape) k) := by
  have key : (ShapeIter.steps k (ShapeIter.new shape)).sizeHint =
      .ok (remaining (prod shape) k, some (remaining (prod shape) k)) := by
    obtain ⟨hs, hlt, hge⟩ := steps_spec shape k
    rcases Nat.lt_or_ge k (prod shape) with hk | hk
    · obtain ⟨hf, hi⟩ := hlt hk
      have hb : inBounds (ShapeIter.steps k (ShapeIter.new shape)).shape
          (ShapeIter.steps k (ShapeIter.new shape)).indexes = true := by
        rw [hs, hi]; exact unravel_inBounds shape k hk
      rw [sizeHint_spec _ hf hb (by rw [hs]; exact hfit), hs, hi, ravel_unravel shape k hk]
      rfl
    · rw [sizeHint_finished _ (hge hk)]
      have : remaining (prod shape) k = 0 := by unfold remaining; omega
      rw [this]
  exact ⟨key, by rw [key]; simp [lenOfHint]⟩

example : prod [2, 3, 2] ≤ usizeMax := by decide

/-- What the code does when the element count does not fit: the `product()` inside
    `size_hint` overflows (a panic in builds with overflow checks). -/
theorem shapeIter_len_unrepresentable (shape : List Nat) (hpos : ∀ l ∈ shape, 0 < l)
    (hne : shape ≠ []) (hbig : usizeMax < prod shape) :
    (ShapeIter.new shape).sizeHint = .panic .overflow := by
  have hf : (ShapeIter.new shape).finished = false := by
    cases h : (ShapeIter.new shape).finished with
    | false => rfl
    | true =>
      have := (new_spec shape).2.2.mp h
      have := prod_pos_of_all_pos shape hpos
      omega
  have hD : shape.length > 0 := by
    cases shape with
    | nil => exact absurd rfl hne
    | cons _ _ => simp
  unfold ShapeIter.sizeHint
  simp only [hf, Bool.false_eq_true, if_false]
  have hs : (ShapeIter.new shape).shape = shape := rfl
  rw [hs]
  simp only [hD, if_true]
  rw [prodC_overflow shape 1 (by omega) (by simp [usizeMax]) hpos (by omega)]

example : usizeMax < prod [2 ^ 63, 2] := by decide

/-- Every `indexes[d] += 1` stays at or below the length of its dimension, so it cannot
    overflow for lengths that are `usize` values. -/
theorem shapeIter_indexes_le (shape : List Nat) (k : Nat) :
    leBounds shape (ShapeIter.steps k (ShapeIter.new shape)).indexes = true :=
  steps_leBounds shape k

/-- Fused: once all `Π lengths` items have been yielded, `next` returns `None` and leaves the
    iterator as it is — so it returns `None` forever. -/
theorem shapeIter_fused (shape : List Nat) (k : Nat) (hk : prod shape ≤ k) :
    (ShapeIter.steps k (ShapeIter.new shape)).next =
      (none, ShapeIter.steps k (ShapeIter.new shape)) :=
  next_finished _ ((steps_spec shape k).2.2 hk)

/-- A shape with a zero length yields nothing, at any point, and reports length 0. -/
theorem shapeIter_zero_len (shape : List Nat) (h0 : 0 ∈ shape) (k : Nat) :
    (ShapeIter.steps k (ShapeIter.new shape)).next.1 = none ∧
      (ShapeIter.steps k (ShapeIter.new shape)).sizeHint = .ok (0, some 0) := by
  have hp := prod_eq_zero_of_mem shape h0
  have hf := (steps_spec shape k).2.2 (by omega)
  exact ⟨by rw [next_finished _ hf], sizeHint_finished _ hf⟩

example : (ShapeIter.new [2, 0, 3]).next.1 = none := by decide

end EasyMl.C09
