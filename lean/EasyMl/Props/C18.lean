/-
  EasyMl.Props.C18 — what a theorem can carry of C18 (results are a deterministic pure function
  of the explicit inputs).

  The model is a collection of Lean functions, so every observable on which the implementation
  *corresponds* to the model is a function of the explicit inputs by construction; "no hidden
  state" of the model itself needs no theorem.  What is proved here are the specific
  independence statements the property names, each about the definitions the `emlmodel` driver
  executes against the implementation:

    * tape positions are a function of the append order only (never of the values appended or
      of what happens on other tapes) — `tape_positions_depend_on_append_order_only`;
    * previously executed unrelated calls on the same tape only shift positions: the derivative
      values of a computation recorded after any prefix of unrelated entries are the same, at
      positions shifted by the prefix length — `tape_shift_invariant`;
    * the order in which iterators visit elements is a fixed function of the shape and the call
      number — `iteration_order_fixed` (from C09);
    * the order in which Heap's algorithm emits permutations (the summation order of the
      determinant) does not depend on the elements — `heaps_order_fixed`.

  The premise "the crate has no hidden state, no address / hash order / time / environment
  dependence" about the *code* is fed by the source scan regenerated on every run
  (props/c18_extra.py); bit-identical floats, formatted output and address independence across
  executions rest on the cross-execution digest comparison and are not theorems.

  Only property statements (and non-vacuity examples) live here; helpers are in
  EasyMl/Lemmas/Determinism.lean.
-/
import EasyMl.Lemmas.Determinism
import EasyMl.Lemmas.TapePositions
import EasyMl.Props.C09
import EasyMl.Props.C15
import EasyMl.Model.Survivor

namespace EasyMl.C18
open EasyMl EasyMl.Spec EasyMl.Iter

/-! ## tape positions -/

/-- **Tape positions are a function of the append order only.**  Every append hands out the
    current length of the tape and makes the tape one entry longer, whatever is appended; so the
    `i`-th of any sequence of appends lands at `initial length + i`, for all values, parents and
    weights; `append_nullary_repeating(n)` reserves the next `n` positions.  At the record level:
    a new variable, a reset and every operator result (all built from `pushUnary`/`pushBinary`)
    get the current length of *their own* tape as position, extend that tape by one entry and
    leave every other tape untouched. -/
theorem tape_positions_depend_on_append_order_only {R : Type} [Zero R] :
    (∀ (t : Tape R) (as : List (Append R)),
      (appendAll t as).1 = List.range' t.length as.length ∧
        (appendAll t as).2.length = t.length + as.length) ∧
    (∀ (t : Tape R) (n : Nat),
      (t.appendNullaryRepeating n).1 = t.length ∧ (t.appendNullaryRepeating n).2.length = t.length + n) ∧
    (∀ (w : World R) (h parent : Nat) (d number : R),
      (Rec.pushUnary w h parent d number).1 = ⟨number, some h, (w h).length⟩ ∧
        (Rec.pushUnary w h parent d number).2 h = w h ++ [⟨parent, (w h).length, d, 0⟩] ∧
        ∀ j, j ≠ h → (Rec.pushUnary w h parent d number).2 j = w j) ∧
    (∀ (w : World R) (h lp rp : Nat) (ld rd number : R),
      (Rec.pushBinary w h lp ld rp rd number).1 = ⟨number, some h, (w h).length⟩ ∧
        (Rec.pushBinary w h lp ld rp rd number).2 h = w h ++ [⟨lp, rp, ld, rd⟩] ∧
        ∀ j, j ≠ h → (Rec.pushBinary w h lp ld rp rd number).2 j = w j) ∧
    (∀ (w : World R) (h : Nat) (x : R),
      (Rec.mkVar x h w).1 = ⟨x, some h, (w h).length⟩ ∧
        ∀ j, j ≠ h → (Rec.mkVar x h w).2 j = w j) := by
  refine ⟨fun t as => ?_, fun t n => ?_, fun w h p d n => ?_, fun w h lp rp ld rd n => ?_,
    fun w h x => ?_⟩
  · induction as generalizing t with
    | nil => simp [appendAll]
    | cons a rest ih =>
      cases a <;>
        simp [appendAll, Tape.appendNullary, Tape.appendUnary, Tape.appendBinary, ih,
          List.range'_succ] <;> omega
  · constructor
    · rfl
    · simp only [Tape.appendNullaryRepeating]
      induction n using Nat.rec with
      | zero => simp
      | succ n ih =>
        rw [List.range_succ, List.foldl_append]
        simp only [List.foldl_cons, List.foldl_nil, List.length_append, List.length_singleton]
        omega
  · refine ⟨rfl, by simp [Rec.pushUnary, Tape.appendUnary, World.update], fun j hj => ?_⟩
    simp [Rec.pushUnary, Tape.appendUnary, World.update, hj]
  · refine ⟨rfl, by simp [Rec.pushBinary, Tape.appendBinary, World.update], fun j hj => ?_⟩
    simp [Rec.pushBinary, Tape.appendBinary, World.update, hj]
  · refine ⟨rfl, fun j hj => ?_⟩
    simp [Rec.mkVar, Tape.appendNullary, World.update, hj]

example : (appendAll ([] : Tape Int) [.nullary, .unary 0 5, .binary 0 2 1 3]).1 = [0, 1, 2] := by
  decide

/-- **Positions do not depend on the numeric inputs.**  Run any program (any sequence of record
    operators: variables, constants, arithmetic in all operand forms, `neg`, `sum`, the real
    functions, `pow`, user-supplied unary / binary functions) on tape `h` with two different
    environments `env`, `env'` (the values of the input variables), starting from worlds whose
    tapes have pairwise the same lengths.  Then both runs end the same way (both complete, or
    both panic with the same kind at the same instruction); every tape has the same length in
    both final worlds; and the records produced sit, pairwise, on the same tape at the same
    position.  Only the numbers differ. -/
theorem program_positions_independent_of_inputs {R : Type} [CommRing R] [Div R] [RealFns R]
    (h : Nat) (env env' : Nat → R) (p : Prog R) (w w' : World R)
    (hw : ∀ j, (w j).length = (w' j).length) :
    (∀ j, ((p.exec h env w).1 j).length = ((p.exec h env' w').1 j).length) ∧
      match (p.exec h env w).2, (p.exec h env' w').2 with
      | .ok rs, .ok rs' =>
        rs.length = rs'.length ∧
          ∀ i, (getRec rs i).history = (getRec rs' i).history ∧ (getRec rs i).index = (getRec rs' i).index
      | .panic k, .panic k' => k = k'
      | _, _ => False :=
  execFrom_sim h env env' p hw [] [] rfl (fun _ => RecSim.const _ _)

/-- non-vacuity: `y = (x0 · x1 + 7) + x0` at two different points of the prime field lands at
    the same positions -/
example :
    let p : Prog Fp := [.var, .var, .arith .mul 0 1, .arithNum .add 2 7, .arith .add 3 0]
    (((p.exec 0 (fun i => Fp.ofNat (i + 2)) World.empty).2,
        (p.exec 0 (fun i => Fp.ofNat (10 * i + 3)) World.empty).2) matches
      (.ok [⟨_, some 0, 0⟩, ⟨_, some 0, 1⟩, ⟨_, some 0, 2⟩, ⟨_, some 0, 3⟩, ⟨_, some 0, 4⟩],
       .ok [⟨_, some 0, 0⟩, ⟨_, some 0, 1⟩, ⟨_, some 0, 2⟩, ⟨_, some 0, 3⟩, ⟨_, some 0, 4⟩])) = true := by
  decide

/-! ## unrelated earlier calls on the same tape -/

/-- **Shift invariance.**  Let `ops` be the entries a computation records on a fresh tape and
    `pre` any (well-formed) tape of unrelated earlier entries.  Recorded after `pre`, the same
    computation appends the entries `ops` with both parents moved `|pre|` positions later (that
    is `tape_positions_depend_on_append_order_only`).  Then the reverse sweep from the
    correspondingly shifted output never panics and yields, at position `q + |pre|`, exactly the
    derivative the fresh run yields at position `q` — for every `q` — and zero at every position
    of the unrelated prefix.  (Over any commutative ring; float rounding is not modelled.) -/
theorem tape_shift_invariant {R : Type} [CommRing R] (pre ops : Tape R) (hp : Tape.WF pre)
    (ho : Tape.WF ops) (y : Nat) (hy : y < ops.length) :
    ∃ adj adj', reverseSweep ops y = .ok adj ∧
      reverseSweep (pre ++ ops.map (Op.shift pre.length)) (y + pre.length) = .ok adj' ∧
      adj'.length = pre.length + adj.length ∧
      (∀ q, adj'.getD (q + pre.length) 0 = adj.getD q 0) ∧
      (∀ q, q < pre.length → adj'.getD q 0 = 0) := by
  obtain ⟨adj, hs, hl, hadj⟩ := sweep_adjoint ops ho y hy
  have hwf := Tape.WF_shift pre ops hp ho
  have hy' : y + pre.length < (pre ++ ops.map (Op.shift pre.length)).length := by simp; omega
  obtain ⟨adj', hs', hl', hadj'⟩ := sweep_adjoint _ hwf (y + pre.length) hy'
  refine ⟨adj, adj', hs, hs', by simp [hl, hl'], fun q => ?_, fun q hq => ?_⟩
  · rw [hadj', hadj, tapeTan_shift]
    have hlen : (tapeTan (fun j => if j = q + pre.length then (1 : R) else 0) pre).length = pre.length :=
      tapeTan_length _ _
    have := getD_append_add (tapeTan (fun j => if j = q + pre.length then (1 : R) else 0) pre)
      (tapeTan (fun j => if j + pre.length = q + pre.length then (1 : R) else 0) ops) y 0
    rw [hlen] at this
    rw [this]
    congr 2
    funext j
    simp
  · rw [hadj', tapeTan_shift]
    have hlen : (tapeTan (fun j => if j = q then (1 : R) else 0) pre).length = pre.length :=
      tapeTan_length _ _
    have := getD_append_add (tapeTan (fun j => if j = q then (1 : R) else 0) pre)
      (tapeTan (fun j => if j + pre.length = q then (1 : R) else 0) ops) y 0
    rw [hlen] at this
    rw [this]
    have hz : (fun j => if j + pre.length = q then (1 : R) else 0) = fun _ => 0 := by
      funext j
      have : ¬ (j + pre.length = q) := by omega
      simp [this]
    rw [hz]
    exact tapeTan_zero_getD ops y

/-- non-vacuity: `z = x·y` recorded on a fresh tape and after two unrelated variables -/
example :
    let ops : Tape Int := [⟨0, 0, 0, 0⟩, ⟨1, 1, 0, 0⟩, ⟨0, 1, 7, 5⟩]
    let pre : Tape Int := [⟨0, 0, 0, 0⟩, ⟨0, 1, 3, 0⟩]
    reverseSweep ops 2 = .ok [7, 5, 1] ∧
      reverseSweep (pre ++ ops.map (Op.shift pre.length)) 4 = .ok [0, 0, 7, 5, 1] := by
  constructor <;> rfl

/-! ## answers depend on the logical content only (the Lean anchor of the `@ alloc` family)

  The models carry no allocation state at all: a tape is the list of its operations, a matrix is
  `(data, rows, columns)`, a tensor `(data, shape, strides)`.  So "two objects with the same
  logical content give the same answers, whatever was stored in them (or in their backing `Vec`)
  before" is a congruence on the model side; the harness shows on every run that the real code
  answers objects built along different allocation routes identically (`@ alloc …`), which is
  what ties these statements to the code. -/

/-- **Tapes.**  (i) The derivatives of a record depend only on the content of its own tape: two
    worlds that agree on that tape give the same derivatives (whatever the other tapes hold, and
    whatever was on this tape before it was cleared and re-filled).  (ii) Clearing a list on which
    anything was recorded and resetting the records in use is indistinguishable from creating the
    same variables on a brand-new list: same records, same tape, and every program run afterwards
    gives the same outcome and the same derivatives (C15 `clear_reset_equiv_fresh_world`). -/
theorem answers_depend_on_logical_content_tape {R : Type} [CommRing R] [Div R] [RealFns R] :
    (∀ (r : Rec R) (w1 w2 : World R) (t : Nat), (r.history = none ∨ r.history = some t) →
      w1 t = w2 t → r.derivatives w1 = r.derivatives w2) ∧
    (∀ (w wf : World R) (t : Nat), wf t = [] → ∀ (rs : List (Rec R)),
      (∀ r ∈ rs, r.history = some t) → ∀ (p : Prog R) (env : Nat → R),
      let live := resetAll rs (w.clear t)
      let fresh := mkVars (rs.map (·.number)) t wf
      let runL := Prog.execFrom t env p live.2 live.1
      let runF := Prog.execFrom t env p fresh.2 fresh.1
      live.1 = fresh.1 ∧ live.2 t = fresh.2 t ∧ runL.2 = runF.2 ∧ runL.1 t = runF.1 t ∧
        ∀ recs, runL.2 = .ok recs → ∀ k,
          (getRec recs k).derivatives runL.1 = (getRec recs k).derivatives runF.1) :=
  ⟨fun r w1 w2 t hr hw => derivatives_frame r w1 w2 t hr hw,
   fun w wf t hf rs hrs p env => C15.clear_reset_equiv_fresh_world w wf t hf rs hrs p env⟩

/-- non-vacuity: a world whose tape 0 held three entries before `clear`, and a fresh one -/
example : (World.clear (fun _ => [⟨0, 0, 0, 0⟩, ⟨0, 1, 2, 0⟩, ⟨0, 1, 1, 1⟩] : World Int) 0) 0 =
    (World.empty : World Int) 0 := rfl

/-- **Matrices and tensors.**  The model of a matrix has exactly the fields `data`, `rows`,
    `columns` (a tensor: `data`, `shape`, `strides`) — no capacity, no allocation history.  Two
    models with equal fields are equal, hence every operation, every history and every iterator
    of the models answers them identically: resizing operations incl. user code panicking at any
    call (`Matrix.xexec`), the survivor operations on tensors (`Survivor.exec`). -/
theorem answers_depend_on_logical_content_containers {ν α : Type} [DecidableEq ν] [Inhabited ν] :
    (∀ (m1 m2 : Matrix α), m1.data = m2.data → m1.rows = m2.rows → m1.columns = m2.columns →
      m1 = m2 ∧ (∀ x : Matrix.XOp α, m1.xexec x = m2.xexec x) ∧
        ∀ xs : List (Matrix.XOp α), m1.xrun xs = m2.xrun xs) ∧
    (∀ (t1 t2 : Tensor ν α), t1.data = t2.data → t1.shape = t2.shape → t1.strides = t2.strides →
      t1 = t2 ∧ (∀ op : Survivor.Op ν α, (Survivor.exec t1 op).state = (Survivor.exec t2 op).state) ∧
        ∀ ops : List (Survivor.Op ν α), Survivor.run t1 ops = Survivor.run t2 ops) := by
  constructor
  · intro m1 m2 h1 h2 h3
    have e : m1 = m2 := by cases m1; cases m2; simp_all
    subst e
    exact ⟨rfl, fun _ => rfl, fun _ => rfl⟩
  · intro t1 t2 h1 h2 h3
    have e : t1 = t2 := by cases t1; cases t2; simp_all
    subst e
    exact ⟨rfl, fun _ => rfl, fun _ => rfl⟩

/-- non-vacuity: the 3×2 matrix of seeded change C18-r5m2, reached by `remove_row` from a 4×2 one
    and built directly, and `insert_row(0, 9)` on both -/
example :
    ((⟨[1, 2, 3, 4, 5, 6, 7, 8], 4, 2⟩ : Matrix Nat).exec (.removeRow 3)).state = ⟨[1, 2, 3, 4, 5, 6], 3, 2⟩ ∧
      ((⟨[1, 2, 3, 4, 5, 6], 3, 2⟩ : Matrix Nat).exec (.insertRow 0 9)).state =
        ⟨[9, 9, 1, 2, 3, 4, 5, 6], 4, 2⟩ := by
  exact ⟨rfl, rfl⟩

/-! ## iteration order -/

/-- **The iteration order is fixed**: the items of the first `n` calls of the tensor index
    iterator are `unravel shape 0, unravel shape 1, …` (then `None`), those of the row-major /
    column-major matrix iterators `(k / columns, k % columns)` / `(k % rows, k / rows)` —
    functions of the shape and the call number only, the same whatever source is iterated and
    whatever was iterated before. -/
theorem iteration_order_fixed :
    (∀ (shape : List Nat) (n : Nat),
      collect shapeNext n (ShapeIter.new shape) =
        .ok ((List.range n).map (shapeItem shape), ShapeIter.steps n (ShapeIter.new shape))) ∧
    (∀ (rows columns n : Nat),
      collect rowMajorNext n (MatIter.new rows columns) =
          .ok ((List.range n).map (rowMajorItem rows columns), rowMajorState rows columns n) ∧
        collect colMajorNext n (MatIter.new rows columns) =
          .ok ((List.range n).map (colMajorItem rows columns), colMajorState rows columns n)) := by
  refine ⟨fun shape n => ?_, fun rows columns n => ⟨?_, ?_⟩⟩
  · have := (shape_enumerates shape).collect_from n 0
    rw [(shape_enumerates shape).start, Nat.zero_add, ← List.range_eq_range'] at this
    exact this
  · have := (rowMajor_enumerates rows columns).collect_from n 0
    rw [(rowMajor_enumerates rows columns).start, Nat.zero_add, ← List.range_eq_range'] at this
    exact this
  · have := (colMajor_enumerates rows columns).collect_from n 0
    rw [(colMajor_enumerates rows columns).start, Nat.zero_add, ← List.range_eq_range'] at this
    exact this

example : (List.range 4).map (colMajorItem 2 2) = [some (0, 0), some (1, 0), some (0, 1), some (1, 1)] := by
  decide

/-! ## Heap's algorithm -/

/-- **The order in which permutations are emitted does not depend on the elements**: permuting
    the image of a list under any function is the image of permuting the list — same sequence
    of arrangements, same `even_swaps` flags — and what `with_each_permutation` hands to its
    consumer is a left fold over that sequence.  (So the summation order of the determinant is a
    function of the size alone.) -/
theorem heaps_order_fixed {α β σ : Type} (f : α → β) (l : List α) :
    Det.generatePermutations (l.map f) =
        (Det.generatePermutations l).map (fun pe => (pe.1.map f, pe.2)) ∧
      ∀ (st : σ) (c : σ → List α → Bool → σ),
        (Det.withEachPermutation l st c).2 =
          (Det.generatePermutations l).foldl (fun s pe => c s pe.1 pe.2) st := by
  refine ⟨?_, fun st c => Det.withEach_eq l st c⟩
  rw [Det.generatePermutations_eq, Det.generatePermutations_eq, List.length_map,
    Det.heapsPure_map, Det.flagged_map]

example : Det.generatePermutations [10, 20, 30] =
    [([10, 20, 30], true), ([20, 10, 30], false), ([30, 10, 20], true), ([10, 30, 20], false),
      ([20, 30, 10], true), ([30, 20, 10], false)] := by decide

end EasyMl.C18
