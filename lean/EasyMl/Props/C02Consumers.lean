/-
  EasyMl.Props.C02Consumers — property C02, continued: views as sources of the whole-view
  consumers (composition with property C13, Model/Transform.lean).
-/
import EasyMl.Lemmas.ViewSource
import EasyMl.Lemmas.ViewBuilt
import EasyMl.Props.C13

namespace EasyMl.C02
open EasyMl EasyMl.View
open EasyMl.Spec (materialise mapped mappedWithIndex zipped reordered transposed IsOrdering inBounds)

set_option linter.unusedSectionVars false

variable {ν : Type} [DecidableEq ν] [Inhabited ν] {α : Type}

theorem withNames_eq_renameShape : ∀ (sh : Shape ν) (names : List ν),
    Spec.withNames sh names = renameShape sh names := by
  intro sh
  induction sh with
  | nil => intro names; cases names <;> simp [Spec.withNames, renameShape]
  | cons d ds ih =>
    intro names
    cases names with
    | nil => simp [Spec.withNames, renameShape]
    | cons n ns =>
      have := ih ns
      simp only [Spec.withNames] at this
      simp [Spec.withNames, renameShape, this]

/-! ### Whole-view consumers: a stack of adaptors is a valid source

  The iterators of `TensorView` / `TensorAccess`, `map`, `map_with_index`, `elementwise*`, `==`,
  `first`, `scalar`, `reorder`, `transpose` are modelled once, over any source (`TView`: shape and
  checked getter), in Model/Transform.lean, and property C13 proves what each of them computes
  *for every source that meets the `TensorRef` contract* (`LazyView.Valid`).  The theorems below
  show that every well-formed view of this model is such a source whose elements are the ones the
  index mapping designates — so each consumer over a stack of adaptors is that consumer over the
  materialised logical tensor — and that the two models agree on the lazy reordering adaptor. -/

/-- **A well-formed view is a valid source**, its element at an in-bounds index is the one stored
    in the cell the index mapping designates, and outside its shape it answers nothing. -/
theorem view_is_valid_source (v : View ν α) (h : v.WF) (hn : v.leafIds.Nodup) :
    v.asSource.lazy.Valid ∧
    (∀ idx, inBounds (lens v.shape) idx = true →
      ∃ c, v.specCell idx = some c ∧ v.asSource.get idx = v.lookup c) ∧
    (∀ idx, inBounds (lens v.shape) idx = false → v.asSource.get idx = none) :=
  ⟨View.asSource_valid v h hn, View.asSource_get v h, View.asSource_get_outside v⟩

/-- **Every whole-view consumer over a view is that consumer over the materialised tensor.**
    For a well-formed view over distinct containers (any composition):
    * storing its value (`Tensor::from(shape, iter().collect())`) is accepted and reads back the
      view — materialisation loses nothing;
    * iteration (`iter`, `iter_reference`, of `TensorView` and of `TensorAccess::
      from_source_order`) lists the elements of that value in row-major order of the view's shape;
    * `map` / `map_with_index` return the tensor of the mapped value (the view's own shape);
    * `first` is its first element and never panics;
    * `elementwise*` with any other valid source panics exactly on different shapes and is
      otherwise the element-wise combination of the two values;
    * `==` with any other valid source holds exactly for equal shapes and equal elements at every
      index. -/
theorem view_consumers [DecidableEq (Shape ν)] [DecidableEq α] {β : Type} (v : View ν α) (h : v.WF)
    (hn : v.leafIds.Nodup) (r : TView ν α) (hr : r.lazy.Valid) (f : α → β) (g : List Nat → α → β)
    (e : α → α → α) (ei : List Nat → α → α → α) :
    (Tensor.tryFrom v.shape (materialise v.asSource.lazy).elems =
        some (Tensor.ofVal (materialise v.asSource.lazy)) ∧
      (Tensor.ofVal (materialise v.asSource.lazy)).view.lazy.Equiv v.asSource.lazy) ∧
    v.asSource.iter = (materialise v.asSource.lazy).elems ∧
    v.asSource.map f = .ok (Tensor.ofVal (materialise (mapped f v.asSource.lazy))) ∧
    v.asSource.mapWithIndex g = .ok (Tensor.ofVal (materialise (mappedWithIndex g v.asSource.lazy))) ∧
    (∃ x, v.asSource.first = .ok x ∧ (materialise v.asSource.lazy).elems.head? = some x) ∧
    v.asSource.elementwise e r =
      (if v.shape = r.shape then
        .ok (Tensor.ofVal (materialise (zipped (fun _ => e) v.asSource.lazy r.lazy)))
       else .panic .explicit) ∧
    v.asSource.elementwiseWithIndex ei r =
      (if v.shape = r.shape then .ok (Tensor.ofVal (materialise (zipped ei v.asSource.lazy r.lazy)))
       else .panic .explicit) ∧
    (tensorEquality v.asSource r = true ↔
      v.shape = r.shape ∧
      ∀ idx, inBounds (lens v.shape) idx = true → v.asSource.get idx = r.get idx) := by
  have hv := View.asSource_valid v h hn
  exact ⟨C13.materialise_roundtrip _ hv, C13.iter_eq_materialise _,
    (C13.map_eq_materialise_map f g _ hv).1, (C13.map_eq_materialise_map f g _ hv).2,
    C13.first_eq _ hv, (C13.elementwise_eq_materialise_zip e ei _ r hv hr).1,
    (C13.elementwise_eq_materialise_zip e ei _ r hv hr).2, C13.eq_iff _ r hv hr⟩

/-- **`TensorAccess::from_source_order`, 0-dimensional views, and the copying reorderings.**
    For a well-formed view over distinct containers: the access in the view's own order is the
    view (same shape, same elements — so its iterators, `first`, `map`… are the view's);
    a 0-dimensional view (e.g. every dimension selected by `TensorIndex`) yields its sole element
    through `scalar` and `into_scalar` alike, without a panic; and `reorder` / `transpose` by *any*
    name list panic exactly when the list is not an ordering of the view's names and otherwise
    return the stored value of the reordered / transposed lazy view. -/
theorem view_consumers_more (v : View ν α) (h : v.WF) (hn : v.leafIds.Nodup) (names : List ν) :
    v.asSource.accessSourceOrder.lazy.Equiv v.asSource.lazy ∧
    materialise v.asSource.accessSourceOrder.lazy = materialise v.asSource.lazy ∧
    (v.shape = [] → ∃ x, v.asSource.scalar = .ok x ∧ v.asSource.intoScalar = .ok x ∧
      (materialise v.asSource.lazy).elems = [x]) ∧
    v.asSource.reorder names =
      (if IsOrdering v.shape names then
        .ok (Tensor.ofVal (materialise (reordered v.asSource.lazy names)))
       else .panic .explicit) ∧
    v.asSource.transpose names =
      (if IsOrdering v.shape names then
        .ok (Tensor.ofVal (materialise (transposed v.asSource.lazy names)))
       else .panic .explicit) := by
  have hv := View.asSource_valid v h hn
  refine ⟨accessSourceOrder_equiv _, materialise_congr (accessSourceOrder_equiv _), ?_,
    C13.reorder_eq_materialise_access v.asSource hv names,
    C13.transpose_eq_materialise_transposeView v.asSource hv names⟩
  intro h0
  obtain ⟨x, hs, he⟩ := C13.scalar_eq v.asSource hv h0
  have hi := (C13.intoScalar_eq_scalar v.asSource hv h0).1
  exact ⟨x, hs, by rw [hi, hs], he⟩

/-- **Consumers cannot tell related views apart.**  Two well-formed views over the same leaves
    with the same shape and the same designated cells (`SameView`: e.g. the two sides of
    `adaptor_laws`) are the same source: any function of a source — every consumer above, and any
    other code that only uses `view_shape` and the checked getter inside the shape — gives the
    same result on both. -/
theorem consumer_congr {β : Type} (a b : View ν α) (ha : a.WF) (hb : b.WF) (h : SameView a b)
    (hl : a.leaves = b.leaves) (F : TView ν α → β) : F a.asSource = F b.asSource := by
  rw [sameView_asSource ha hb h hl]

/-- **Lazy reordering = eager reordering.**  For a well-formed view and an accepted name list,
    the `TensorAccess` of Model/Transform.lean over the view as a source is (up to `Equiv`) the
    `View.access` adaptor of this model as a source; hence `reorder` (which copies) returns
    exactly the stored value of the lazy `TensorAccess` of this model, and `transpose` that of the
    lazy `TensorTranspose` — the eager twins of the two reordering adaptors agree with them on
    every stack. -/
theorem lazy_reorder_eq_eager (v : View ν α) (h : v.WF) (hn : v.leafIds.Nodup) (names : List ν)
    (m : DimensionMappings) (hm : DimensionMappings.new v.shape names = some m) :
    (∃ a, v.asSource.access names = some a ∧ a.lazy.Equiv (View.access v m).asSource.lazy) ∧
    v.asSource.reorder names =
      .ok (Tensor.ofVal (materialise (View.access v m).asSource.lazy)) ∧
    v.asSource.transpose names =
      .ok (Tensor.ofVal (materialise (View.transpose v m).asSource.lazy)) := by
  have hv := View.asSource_valid v h hn
  have hnd : (v.asSource.shape.map (·.1)).Nodup := hv.shape.1
  obtain ⟨a, ha, hequiv⟩ := View.asSource_access v h names m hm
  have hord : IsOrdering v.asSource.shape names := by
    by_contra hno
    rw [TView.access_none v.asSource names hnd hno] at ha
    cases ha
  obtain ⟨a', ha', hlazy⟩ := TView.access_of_ordering v.asSource names hnd hord
  have haa : a' = a := by rw [ha] at ha'; exact (Option.some.inj ha').symm
  subst haa
  have hmat : materialise (reordered v.asSource.lazy names) =
      materialise (View.access v m).asSource.lazy := by
    rw [← hlazy]; exact materialise_congr hequiv
  refine ⟨⟨a', ha, hequiv⟩, ?_, ?_⟩
  · rw [C13.reorder_eq_materialise_access v.asSource hv names, if_pos hord, hmat]
  · rw [C13.transpose_eq_materialise_transposeView v.asSource hv names, if_pos hord]
    congr 2
    -- the transposed lazy view of C13 against `View.transpose` as a source
    apply materialise_congr
    have hg := (View.correct v h).1
    have hok : MappingOK m v.shape.length := new_mappingOK (goodShape_iff.1 hg).1 hm
    have hreq : Spec.shapeFor v.asSource.lazy.shape names = m.mapShapeToRequested v.shape := by
      have := hequiv.1
      rw [hlazy] at this
      exact this
    have hshape : (transposed v.asSource.lazy names).shape = (View.transpose v m).shape := by
      simp only [transposed, hreq, View.shape]
      rw [transposeShape_eq_renameShape (ν := ν) _ _ (mapShapeToRequested_length hok).symm,
        withNames_eq_renameShape]
      rfl
    refine ⟨hshape, fun idx hl => ?_⟩
    have hlen : idx.length = v.shape.length := by
      rw [hshape] at hl
      rw [hl]
      simp only [View.shape]
      exact transposeShape_length (mapShapeToRequested_length hok)
    have e1 : (transposed v.asSource.lazy names).get idx = a'.lazy.get idx := by rw [hlazy]; rfl
    have hla : idx.length = a'.lazy.shape.length := by
      rw [hlazy]
      show idx.length = (Spec.shapeFor v.asSource.lazy.shape names).length
      rw [hreq, mapShapeToRequested_length hok]
      exact hlen
    rw [e1, hequiv.2 idx hla]
    -- both read the source at the mapped index, inside shapes with the same lengths
    simp only [TView.lazy, View.asSource, Arith.TView.ofView, View.shape, View.read, View.get,
      View.lookup, View.leaves, transposeShape_lens (mapShapeToRequested_length hok)]
    rfl

/-- **Constructed views are valid sources**: no hypothesis beyond "built by the constructors over
    distinct containers". -/
theorem constructed_views_are_sources (v : View ν α) (hb : Built v) (hn : v.leafIds.Nodup) :
    v.asSource.lazy.Valid := View.asSource_valid v hb.wf hn

/-- an instance of `consumer_congr` with a law of `adaptor_laws`: no consumer can tell a view
    reversed twice along the same dimensions from the view itself -/
theorem reverse_twice_consumers {β : Type} (s : View ν α) (hs : s.WF) (r : List Bool)
    (hr : r.length = s.shape.length) (F : TView ν α → β) :
    F (View.reverse (View.reverse s r) r).asSource = F s.asSource := by
  have h1 : (View.reverse s r).WF := by simp only [View.WF]; exact ⟨hs, hr⟩
  have h2 : (View.reverse (View.reverse s r) r).WF := by
    simp only [View.WF]; exact ⟨h1, by simpa [View.shape] using hr⟩
  exact consumer_congr _ _ h2 hs (reverse_reverse s r hr) rfl F

/-! ### Non-vacuity -/

/-- a reversed range of a 2×3 tensor (names 0, 1) as a source: iteration, `map`, `first`, and the
    eager `reorder` / `transpose` by the names `[1, 0]` -/
example :
    ((mkTensor 1 [(0, 2), (1, 3)] (List.range 6)).bind fun t =>
      (t.mkReverse [1]).bind fun r => (r.mkRange [(1, ⟨0, 2⟩)]).map fun v =>
        (v.asSource.iter,
         (match v.asSource.map (· + 10) with | .ok t => some (t.shape, t.data) | .panic _ => none),
         (match v.asSource.first with | .ok x => some x | .panic _ => none))) =
    some ([2, 1, 5, 4], some ([(0, 2), (1, 2)], [12, 11, 15, 14]), some 2) := by rfl

example :
    ((mkTensor 1 [(0, 2), (1, 3)] (List.range 6)).bind fun t =>
      (t.mkReverse [1]).bind fun r => (r.mkRange [(1, ⟨0, 2⟩)]).map fun v =>
        ((match v.asSource.reorder [1, 0] with | .ok t => some (t.shape, t.data) | .panic _ => none),
         (match v.asSource.transpose [1, 0] with | .ok t => some (t.shape, t.data) | .panic _ => none))) =
    some (some ([(1, 2), (0, 2)], [2, 5, 1, 4]), some ([(0, 2), (1, 2)], [2, 5, 1, 4])) := by rfl

/-- … and it meets the hypotheses of the theorems above (well formed, one leaf) -/
example : ∀ v, ((mkTensor 1 [(0, 2), (1, 3)] (List.range 6)).bind fun t =>
      (t.mkReverse [1]).bind fun r => r.mkRange [(1, ⟨0, 2⟩)]) = some v →
    v.WF ∧ v.leafIds.Nodup ∧ v.asSource.lazy.Valid := by
  intro v h
  simp only [Option.bind_eq_some_iff] at h
  obtain ⟨t, ht, r, hr, hv⟩ := h
  have hb : Built v := Built.range (Built.reverse (Built.tensor ht (by decide)) hr) hv
  have hn : v.leafIds.Nodup := by
    have e : ((mkTensor 1 [(0, 2), (1, 3)] (List.range 6)).bind fun t =>
      (t.mkReverse [1]).bind fun r => r.mkRange [(1, ⟨0, 2⟩)]) = some v := by
      simp only [Option.bind_eq_some_iff]; exact ⟨t, ht, r, hr, hv⟩
    have : ((mkTensor 1 [(0, 2), (1, 3)] (List.range 6)).bind fun t =>
      (t.mkReverse [1]).bind fun r => (r.mkRange [(1, ⟨0, 2⟩)])).map (fun v : View Nat Nat => v.leafIds) = some [1] := by decide
    rw [e] at this
    simp only [Option.map_some, Option.some.injEq] at this
    rw [this]; decide
  exact ⟨hb.wf, hn, View.asSource_valid v hb.wf hn⟩

end EasyMl.C02
