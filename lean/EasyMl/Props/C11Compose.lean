/-
  EasyMl.Props.C11Compose — property theorems of C11 that compose it with its neighbours:

  * C12 (`matrix_equality`, the function behind `Matrix == MatrixView`, `MatrixView == Matrix`,
    `MatrixView == MatrixView`): all operand forms decide equality of the lists of rows;
  * C09 (`matrix_iter_of_inv`): the whole-matrix iterators over any reachable matrix read the
    concatenated rows / transposed rows;
  * C11 → C12 → C09 end to end: a constructor, any history of resizing operations applied through
    `source_ref_mut()` of reversal views, then iteration over the views: everything observed is a
    function of the list-of-rows history.

  Only property statements; it is the registry's `lean_module` for C11 (it imports Props/C11, so
  every C11 theorem is audited through it).
-/
import EasyMl.Props.C11
import EasyMl.Props.C12
import EasyMl.Props.C09Producers

namespace EasyMl.C11
open EasyMl EasyMl.Matrix EasyMl.MatrixView EasyMl.Fallible

variable {α : Type}

/-! ### equality in all operand forms -/

/-- a matrix of natural numbers as `matrix_equality` sees an operand: its size, the layout the
    operand reports (a `Matrix` reports `RowMajor`, a view over it whatever its adaptors say) and
    its elements through the checked getter -/
def gridOf (m : Matrix Nat) (layout : MLayout) : Grid :=
  ⟨m.rows, m.columns, layout, fun i j => (m.tryGet i j).getD 0⟩

/-- **All six operand forms of `==` agree with equality of the lists of rows.**  `Matrix == Matrix`
    is `eqP` (`impl PartialEq for Matrix`); `Matrix == MatrixView`, `MatrixView == Matrix` and
    `MatrixView == MatrixView` are `matrix_equality` over the two sources, whatever layouts they
    report and whichever operand is on the left (so `!=` is its negation in every form): on
    matrices satisfying the invariant each of them is `true` exactly when the lists of rows are
    equal. -/
theorem eq_all_forms (a b : Matrix Nat) (ha : a.Inv) (hb : b.Inv) (la lb : MLayout) :
    (a.eqP b = true ↔ abs a = abs b) ∧ (b.eqP a = true ↔ abs a = abs b) ∧
    (matrixEquality (gridOf a la) (gridOf b lb) = true ↔ abs a = abs b) ∧
    (matrixEquality (gridOf b lb) (gridOf a la) = true ↔ abs a = abs b) := by
  have key : ∀ (x y : Matrix Nat), x.Inv → y.Inv → ∀ lx ly,
      (matrixEquality (gridOf x lx) (gridOf y ly) = true ↔ abs x = abs y) := by
    intro x y hx hy lx ly
    rw [C12.matrix_eq_iff]
    simp only [gridOf]
    constructor
    · rintro ⟨h1, h2, h3⟩
      apply rows_ext (rect_toRows x hx) (by rw [h2]; exact rect_toRows y hy)
      · rw [length_toRows, length_toRows, h1]
      · intro i j hi hj
        rw [length_toRows] at hi
        rw [cell_toRows, cell_toRows]
        obtain ⟨u, hu⟩ := tryGet_isSome x hx.1 hi hj
        obtain ⟨v, hv⟩ := tryGet_isSome y hy.1 (h1 ▸ hi) (h2 ▸ hj)
        have := h3 i j hi hj
        rw [hu, hv] at this
        simp only [Option.getD_some] at this
        rw [hu, hv, this]
    · intro h
      have := abs_injective x y hx hy h
      subst this
      exact ⟨rfl, rfl, fun _ _ _ _ => rfl⟩
  refine ⟨eq_refines a b ha hb, ?_, key a b ha hb la lb, ?_⟩
  · rw [eq_refines b a hb ha]; exact eq_comm
  · rw [key b a hb ha lb la]; exact eq_comm

/-- non-vacuity: two different histories producing the same rows are equal in every form, a
    matrix and its (different) transpose are not -/
example :
    let a : Matrix Nat := (⟨[1, 2, 3, 4], 2, 2⟩ : Matrix Nat).run [.insertRow 2 0, .removeRow 2]
    let b : Matrix Nat := ⟨[1, 2, 3, 4], 2, 2⟩
    a.eqP b = true ∧ matrixEquality (gridOf a .rowMajor) (gridOf b .other) = true ∧
    matrixEquality (gridOf b .columnMajor) (gridOf (b.run [.transposeMut]) .columnMajor) = false := by
  decide

/-! ### the whole-matrix iterators through C09's bridge -/

/-- **Every iterator over every reachable matrix.**  For a matrix built by any constructor and
    any history (no hypothesis): C09's iterator theorems apply to it (`matrix_iter_of_inv`: the
    row-major iterators read storage cell `k` at call `k`, the column-major ones cell
    `k / rows + (k % rows)·columns`, each inside the storage, none twice), and those cells hold
    the `k`-th element of the concatenated list of rows resp. of the concatenated transposed list
    of rows. -/
theorem reachable_iterators (m : Matrix α) (hr : Reachable m) :
    Spec.Faithful (Spec.rowMajorItem m.rows m.columns) (m.rows * m.columns)
        (Iter.MSource.ofMatrix m.rows m.columns).cell (fun k => k) ∧
    Spec.Faithful (Spec.colMajorItem m.rows m.columns) (m.rows * m.columns)
        (Iter.MSource.ofMatrix m.rows m.columns).cell
        (fun k => k / m.rows + (k % m.rows) * m.columns) ∧
    (∀ k, k < m.rows * m.columns →
      m.data[k]? = (abs m).flatten[k]? ∧ (∃ x, m.data[k]? = some x) ∧
      m.data[k / m.rows + (k % m.rows) * m.columns]? = (Rows.transpose (abs m)).flatten[k]?) := by
  have h := reachable_inv m hr
  obtain ⟨f1, f2, f3⟩ := C09.matrix_iter_of_inv m h.1
  refine ⟨f1, f2, ?_⟩
  intro k hk
  have hd : (abs m).flatten = m.data := flatten_toRows m h
  refine ⟨by rw [hd], ⟨m.data[k]'(f3 k hk).1, List.getElem?_eq_getElem (f3 k hk).1⟩, ?_⟩
  -- the k-th element of the transposed rows is the cell (k % rows, k / rows)
  have hr0 : 0 < m.rows := h.2.1
  have hdiv : k / m.rows < m.columns :=
    (Nat.div_lt_iff_lt_mul hr0).mpr (by rw [Nat.mul_comm]; exact hk)
  have hmod := Nat.mod_lt k hr0
  have hk' : k = (k / m.rows) * m.rows + k % m.rows := by
    have := Nat.div_add_mod k m.rows; rw [Nat.mul_comm] at this; omega
  have hcell := flatten_getElem?_rect (Rows.transpose (abs m)) (rect_transpose_toRows m h)
    (k / m.rows) (k % m.rows) (by rw [length_transpose_toRows m h]; exact hdiv) hmod
  rw [← hk'] at hcell
  rw [hcell, cell_transpose_toRows m h _ _ hdiv hmod]
  simp [Matrix.tryGet, Matrix.getIndex, hmod, hdiv]

/-! ### C11 → C12 → C09 end to end -/

private theorem reversalsOver_size (rows columns : Nat) (flags : List (Bool × Bool)) :
    (reversalsOver rows columns flags).size = (rows, columns) ∧
    (reversalsOver rows columns flags).dataLen = rows * columns := by
  unfold reversalsOver
  have : ∀ (e0 : MExpr), (flags.foldl (fun e f => MExpr.reverse e f.1 f.2) e0).size = e0.size ∧
      (flags.foldl (fun e f => MExpr.reverse e f.1 f.2) e0).dataLen = e0.dataLen := by
    induction flags with
    | nil => intro e0; exact ⟨rfl, rfl⟩
    | cons f fs ih => intro e0; simpa [MExpr.size, MExpr.dataLen] using ih (.reverse e0 f.1 f.2)
  exact this _

/-- **From a constructor, through any resizing history applied underneath live views, to the
    iteration of those views — everything is the list-of-rows history.**  Build a matrix with any
    public constructor; wrap it in any number of reversal views (`l`); apply any history of C11
    operations (any arguments, also refused ones) to the matrix through `source_ref_mut()`.  Then,
    with `rs` the list of rows reached by the same history in the list-of-rows model and `e` the
    reversals (same flags) of a leaf of the size of `rs`:
    (1) the matrix under the views is `m0.run ops`, satisfies the invariant and abstracts to `rs`;
    (2) the live view's checked getter answers `e.cell i j` for every index, never a panic (C12);
    (3) its row-major and column-major iterators yield, call by call, exactly `e.cell` of the
        position, `None` past the end (C09 over C12's stack);
    (4) every designated cell is an offset into the storage whose element is the cell
        `(o / columns, o % columns)` of `rs`.
    The only hypothesis besides the construction is that the element count fits in `usize`. -/
theorem constructed_history_view_iteration (c : Ctor α) (m0 : Matrix α) (hc : c.build = .ok m0)
    (l : Live α) (hl : l.leaf = m0) (ops : List (Matrix.Op α))
    (hfit : (m0.run ops).data.length ≤ usizeMax) (n : Nat) :
    let m := m0.run ops
    let rs := Rows.run (Rows.ctorRows c) ops
    let e := reversalsOver (Rows.nrows rs) (Rows.ncols rs) l.flags
    ((l.mutateAll ops).leaf = m ∧ m.Inv ∧ abs m = rs ∧ e.size = (Rows.nrows rs, Rows.ncols rs)) ∧
    (∀ i j, ((l.mutateAll ops).view Arith.fixed).view.get i j = .ok (e.cell i j)) ∧
    (Iter.collect (Iter.refNext Iter.rowMajorNext e.msource.cell) n
        (Iter.MatIter.new (Rows.nrows rs) (Rows.ncols rs)) =
      .ok ((List.range n).map (fun k =>
          if k < Rows.nrows rs * Rows.ncols rs then
            some (e.cell (k / Rows.ncols rs) (k % Rows.ncols rs)) else none),
        Iter.rowMajorState (Rows.nrows rs) (Rows.ncols rs) n) ∧
     Iter.collect (Iter.refNext Iter.colMajorNext e.msource.cell) n
        (Iter.MatIter.new (Rows.nrows rs) (Rows.ncols rs)) =
      .ok ((List.range n).map (fun k =>
          if k < Rows.nrows rs * Rows.ncols rs then
            some (e.cell (k % Rows.nrows rs) (k / Rows.nrows rs)) else none),
        Iter.colMajorState (Rows.nrows rs) (Rows.ncols rs) n)) ∧
    (∀ i j o, e.cell i j = some o →
      o < m.data.length ∧ m.data[o]? = Rows.cell rs (o / Rows.ncols rs) (o % Rows.ncols rs) ∧
      ∃ x, m.data[o]? = some x) := by
  intro m rs e
  obtain ⟨hinv', habs'⟩ := constructed_history_refines c m0 hc ops
  have hinv : m.Inv := hinv'
  have habs : abs m = rs := habs'
  have hn : Rows.nrows rs = m.rows := by rw [← habs]; exact length_toRows m
  have hcn : Rows.ncols rs = m.columns := by rw [← habs]; exact ncols_toRows m hinv
  have hsz := reversalsOver_size (Rows.nrows rs) (Rows.ncols rs) l.flags
  have hm0 : m0.Inv := ((constructors_inv c).1 (by
    cases hp : Rows.ctorPre c with
    | true => rfl
    | false => rw [(constructors_inv c).2 hp] at hc; cases hc)).elim fun m' hm' => by
      rw [hm'.1] at hc; cases hc; exact hm'.2.1
  have hlive := C12.live_view_after_source_steps l ops (by rw [hl]; exact hm0) (by rw [hl]; exact hfit)
  rw [hl] at hlive
  have he : e = reversalsOver (Matrix.run m0 ops).rows (Matrix.run m0 ops).columns l.flags := by
    show reversalsOver _ _ _ = _
    rw [hn, hcn]
  obtain ⟨_, _, hget, _⟩ := hlive.2.2 e he
  have hle : e.LeavesOk := by
    have := (l.mutateAll ops).expr_leavesOk (by rw [hlive.1]; exact hinv) (by rw [hlive.1]; exact hfit)
    rw [(l.mutateAll ops).expr_eq, hlive.1, hlive.2.1, ← he] at this
    exact this
  have hiter := C12.view_iteration_enumerates_cells e hle n
  rw [hsz.1] at hiter
  refine ⟨⟨hlive.1, hinv, habs, hsz.1⟩, hget, ⟨hiter.1, hiter.2.1⟩, ?_⟩
  intro i j o ho
  have hlt := e.cell_lt hle i j o ho
  rw [hsz.2, hn, hcn, ← hinv.1] at hlt
  have hc0 : 0 < m.columns := hinv.2.2
  have hdiv : o / m.columns < m.rows := by
    rw [hinv.1] at hlt
    exact (Nat.div_lt_iff_lt_mul hc0).mpr hlt
  have ho' : o = (o / m.columns) * m.columns + o % m.columns := by
    have := Nat.div_add_mod o m.columns; rw [Nat.mul_comm] at this; omega
  have hcell := flatten_getElem?_rect (abs m) (rect_toRows m hinv) (o / m.columns) (o % m.columns)
    (by rw [length_toRows]; exact hdiv) (Nat.mod_lt _ hc0)
  rw [← ho', flatten_toRows m hinv, habs] at hcell
  refine ⟨hlt, by rw [hcn]; exact hcell, ⟨m.data[o]'hlt, List.getElem?_eq_getElem hlt⟩⟩

/-- The storage length of every constructed history is determined by the list-of-rows model:
    `data.len() = nrows · ncols` of the list-of-rows state (no hypothesis). -/
theorem constructed_storage_length (c : Ctor α) (m0 : Matrix α) (hc : c.build = .ok m0)
    (ops : List (Matrix.Op α)) :
    (m0.run ops).data.length =
      Rows.nrows (Rows.run (Rows.ctorRows c) ops) * Rows.ncols (Rows.run (Rows.ctorRows c) ops) := by
  obtain ⟨hinv, habs⟩ := constructed_history_refines c m0 hc ops
  rw [← habs, show Rows.nrows (abs (m0.run ops)) = (m0.run ops).rows from length_toRows _,
    ncols_toRows _ hinv]
  exact hinv.1

/-- `constructed_history_view_iteration` with its one hypothesis stated on the specification
    side: the list-of-rows state has at most `usize::MAX` cells (nothing is assumed about the
    implementation-side storage any more). -/
theorem constructed_history_view_iteration_spec_bound (c : Ctor α) (m0 : Matrix α)
    (hc : c.build = .ok m0) (l : Live α) (hl : l.leaf = m0) (ops : List (Matrix.Op α))
    (hfit : Rows.nrows (Rows.run (Rows.ctorRows c) ops) * Rows.ncols (Rows.run (Rows.ctorRows c) ops)
      ≤ usizeMax) (n : Nat) :
    ((l.mutateAll ops).leaf = m0.run ops ∧ (m0.run ops).Inv ∧
      abs (m0.run ops) = Rows.run (Rows.ctorRows c) ops) ∧
    (∀ i j, ((l.mutateAll ops).view Arith.fixed).view.get i j =
      .ok ((reversalsOver (Rows.nrows (Rows.run (Rows.ctorRows c) ops))
        (Rows.ncols (Rows.run (Rows.ctorRows c) ops)) l.flags).cell i j)) := by
  have h := constructed_history_view_iteration c m0 hc l hl ops
    (by rw [constructed_storage_length c m0 hc ops]; exact hfit) n
  exact ⟨⟨h.1.1, h.1.2.1, h.1.2.2.1⟩, h.2.1⟩

/-- non-vacuity of the end-to-end statement: a matrix from `from_flat_row_major`, one row-reversing
    view around it, a row inserted underneath; the hypotheses hold and the reversed view's cell
    `(0, 0)` is the first element of the *new* last row (offset 4 of the 3×2 storage) -/
example :
    (Ctor.fromFlatRowMajor 2 2 [1, 2, 3, 4] : Ctor Nat).build = .ok ⟨[1, 2, 3, 4], 2, 2⟩ ∧
    (Live.reverse (.matrix (⟨[1, 2, 3, 4], 2, 2⟩ : Matrix Nat)) true false).leaf = ⟨[1, 2, 3, 4], 2, 2⟩ ∧
    ((⟨[1, 2, 3, 4], 2, 2⟩ : Matrix Nat).run [.insertRow 1 9]).data.length ≤ usizeMax ∧
    (reversalsOver 3 2 [(true, false)]).cell 0 0 = some 4 ∧
    ((⟨[1, 2, 3, 4], 2, 2⟩ : Matrix Nat).run [.insertRow 1 9]).data[4]? = some 3 :=
  ⟨rfl, rfl, by decide, by decide, by decide⟩

/-- non-vacuity of `reachable_iterators`: a reachable non-square matrix (column-major cell of
    call 1 is storage cell 3) -/
example : Reachable (⟨[1, 2, 3, 4, 5, 6], 2, 3⟩ : Matrix Nat) ∧ 1 / 2 + (1 % 2) * 3 = 3 :=
  ⟨⟨.fromFlatRowMajor 2 3 [1, 2, 3, 4, 5, 6], _, [], rfl, rfl⟩, by decide⟩

end EasyMl.C11
