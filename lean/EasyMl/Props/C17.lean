/-
  EasyMl.Props.C17 — property theorems for C17 (Gaussian density and draws follow the normal
  distribution's definition).

  Only property statements live here; helper lemmas are in `EasyMl/Lemmas/Gaussian.lean`
  (and `Lemmas/Decomp.lean` for the Cholesky factor the multivariate draws use).  Every theorem
  is about the definitions of `Model/Gaussian.lean` that the `emlmodel` driver executes against
  the implementation, and about `Spec/Gaussian.lean`, which the driver evaluates next to them.
-/
import EasyMl.Lemmas.Gaussian
import EasyMl.Props.C08
import EasyMl.Lemmas.Stats
import EasyMl.Lemmas.DecompArith
import EasyMl.Model.ApiSurface
import Mathlib.Analysis.SpecialFunctions.Exp
import Mathlib.Tactic.NormNum

namespace EasyMl.C17
open EasyMl EasyMl.Decomp EasyMl.Gaussian EasyMl.Spec.Gaussian
open scoped EasyMl.RealModel

set_option linter.unusedSectionVars false

/-! ### density -/

/-- **The density is the normal pdf** `(1/√(2π σ²))·exp(−(x−μ)²/(2σ²))` for every mean, every
    positive variance and every point (the repaired formula; over ℝ with `Real.sqrt`, `Real.exp`,
    `Real.rpow`, `Real.pi`). -/
theorem probability_eq_normal_pdf (mean variance x : ℝ) (hv : 0 < variance) :
    probability mean variance x
      = (1 / Real.sqrt (2 * Real.pi * variance)) *
          Real.exp (-(x - mean) ^ 2 / (2 * variance)) := by
  unfold probability
  simp only [RealModel.sqrt_eq, RealModel.exp_eq, RealModel.pow_eq, RealModel.pi_eq]
  have h2 : (1 + 1 : ℝ) = 2 := by norm_num
  rw [h2]
  have hsq : Real.sqrt variance ^ 2 = variance := Real.sq_sqrt hv.le
  have hfrac : Real.sqrt variance * Real.sqrt (2 * Real.pi) = Real.sqrt (2 * Real.pi * variance) := by
    rw [mul_comm, ← Real.sqrt_mul (by positivity)]
  have hexp : (-1 / 2 : ℝ) * ((x - mean) / Real.sqrt variance) ^ (2 : ℝ)
      = -(x - mean) ^ 2 / (2 * variance) := by
    rw [Real.rpow_two, div_pow, hsq]
    field_simp
  rw [hfrac, hexp]

example : (0 : ℝ) < 4 := by norm_num

/-- … which is the executable specification `Spec.Gaussian.normalPdf` at ℝ. -/
theorem probability_eq_spec (mean variance x : ℝ) (hv : 0 < variance) :
    probability mean variance x = normalPdf mean variance x := by
  rw [probability_eq_normal_pdf mean variance x hv]
  unfold normalPdf
  simp only [RealModel.sqrt_eq, RealModel.exp_eq, RealModel.pi_eq]
  have h2 : (1 + 1 : ℝ) = 2 := by norm_num
  rw [h2]
  congr 2
  ring

/-- **Defect I-10 of the pinned code**: the formula as written at the pinned commit,
    `exp(−½·((x−μ)/σ²)²)/(σ√(2π))`, is *not* the normal density — witness μ = 0, σ² = 4, x = 2
    (it gives `exp(−1/8)/√(8π)` where the density is `exp(−1/2)/√(8π)`). -/
theorem probabilityAsWritten_ne_normal_pdf :
    probabilityAsWritten (0 : ℝ) 4 2
      ≠ (1 / Real.sqrt (2 * Real.pi * 4)) * Real.exp (-(2 - 0) ^ 2 / (2 * 4)) := by
  unfold probabilityAsWritten
  simp only [RealModel.sqrt_eq, RealModel.exp_eq, RealModel.pow_eq, RealModel.pi_eq]
  have h2 : (1 + 1 : ℝ) = 2 := by norm_num
  rw [h2]
  have hfrac : Real.sqrt 4 * Real.sqrt (2 * Real.pi) = Real.sqrt (2 * Real.pi * 4) := by
    rw [mul_comm, ← Real.sqrt_mul (by positivity)]
  rw [hfrac, Real.rpow_two]
  have hpos : 0 < 1 / Real.sqrt (2 * Real.pi * 4) := by positivity
  intro h
  have := mul_left_cancel₀ (ne_of_gt hpos) h
  have := Real.exp_injective this
  norm_num at this

/-! ### univariate draws (any element type: the statements are about which source numbers go
    where, so they hold verbatim at `f64`, `Fp`, ℝ) -/

section draw
variable {α : Type} [Add α] [Sub α] [Mul α] [Div α] [Neg α] [Zero α] [One α] [RealFns α]

/-- **Exactly `k` samples from exactly `2⌈k/2⌉` source numbers.**  For every mean, variance,
    source and `k` (incl. `0`, odd, even): the draw is absent iff the source has fewer than
    `2⌈k/2⌉` numbers; a present draw has exactly `k` samples; and the source is advanced by
    exactly `min(source length, 2⌈k/2⌉)` numbers (a failing draw has used the source up). -/
theorem draw_count (mean variance : α) (source : List α) (k : ℕ) :
    ((draw mean variance source k).1 = none ↔ source.length < 2 * ((k + 1) / 2)) ∧
    (∀ samples, (draw mean variance source k).1 = some samples → samples.length = k) ∧
    (draw mean variance source k).2 = source.drop (min source.length (2 * ((k + 1) / 2))) := by
  rw [draw_eq_spec]
  refine ⟨?_, ?_, rfl⟩
  · unfold drawSpec needed
    by_cases h : source.length < 2 * ((k + 1) / 2) <;> simp [h]
  · intro samples h
    exact drawSpec_length _ _ _ _ _ h

/-- **Samples `2i`, `2i+1` are the Box–Muller functions of source numbers `2i`, `2i+1`**, scaled by
    the standard deviation `√variance` and shifted by the mean:
    `σ·√(−2 ln u)·cos(2πv) + μ` and `σ·√(−2 ln u)·sin(2πv) + μ`. -/
theorem draw_eq_boxMuller (mean variance : α) (source samples : List α) (k : ℕ)
    (h : (draw mean variance source k).1 = some samples) (i : ℕ) (hi : i < k) :
    samples[i]? = some (
      if i % 2 = 0 then
        boxMuller₁ mean (RealFns.sqrt variance) (source.getD (2 * (i / 2)) 0) (source.getD (2 * (i / 2) + 1) 0)
      else
        boxMuller₂ mean (RealFns.sqrt variance) (source.getD (2 * (i / 2)) 0) (source.getD (2 * (i / 2) + 1) 0)) := by
  rw [draw_eq_spec] at h
  simp only [] at h
  unfold drawSpec at h
  split at h
  · cases h
  · simp only [Option.some.injEq] at h
    subst h
    simp [hi]

/-- Non-vacuity: three samples from a source of five numbers over `Fp` use four of them. -/
example : ∃ samples, (draw (⟨3⟩ : Fp) ⟨7⟩ [⟨11⟩, ⟨12⟩, ⟨13⟩, ⟨14⟩, ⟨15⟩] 3).1 = some samples ∧
    (draw (⟨3⟩ : Fp) ⟨7⟩ [⟨11⟩, ⟨12⟩, ⟨13⟩, ⟨14⟩, ⟨15⟩] 3).2 = [⟨15⟩] := by
  rw [draw_eq_spec]
  exact ⟨_, rfl, rfl⟩

end draw

/-! ### multivariate draws -/

section mv
variable {K : Type} [Field K] [RealFns K] [NumOrd K]

/-- **Multivariate draws are `μ + L·z`.**  For a mean vector as long as the covariance matrix
    is high (what both constructors validate): the draw is the specification `mvSpec` — the
    `samples × features` table whose row `s` is `μ + L·z_s`, `L` the Cholesky factor of the
    covariance and `z_s` the `N` standard-normal Box–Muller draws made from the `s`-th chunk of
    `2⌈N/2⌉` source numbers — and exactly `mvConsumed` source numbers are taken.  The only other
    outcome is the rejection of a request for zero samples of a valid distribution (a tensor
    cannot have a zero-length dimension). -/
theorem mv_draw_eq (mean : List K) (covariance : Matrix K) (source : List K) (samples : ℕ)
    (sameNames : Bool) (hm : mean.length = covariance.rows) :
    drawTensorSamples mean covariance source samples sameNames =
      (if sameNames = false ∧ (cholesky covariance).isSome ∧ samples = 0 then .panic .explicit
        else .ok (mvSpec mean covariance source samples sameNames),
       source.drop (mvConsumed mean covariance source.length samples sameNames)) :=
  drawTensorSamples_eq_spec mean covariance source samples sameNames hm

/-- entry `(s, i)` of a present draw is `μ_i + Σ_k L[i,k]·z_s[k]` -/
theorem mv_entry (mean : List K) (covariance L : Matrix K) (source : List K) (samples : ℕ)
    (m : Matrix K) (hL : cholesky covariance = some L)
    (h : mvSpec mean covariance source samples false = some m)
    (s i : ℕ) (hs : s < samples) (hi : i < mean.length) :
    get m s i = mean.getD i 0
      + (List.range mean.length).foldl (fun acc k => acc + get L i k * (rowNormals source mean.length s).getD k 0) 0 := by
  unfold mvSpec at h
  simp only [Bool.false_eq_true, if_false, hL] at h
  split at h
  · cases h
  · simp only [Option.some.injEq] at h
    subst h
    rw [get_ofFn _ _ _ _ _ hs hi]
    rfl

/-- Non-vacuity of `mv_entry` / `mv_shape`: over ℝ the 1×1 covariance `[[4]]` has the Cholesky
    factor `[[2]]` and one sample is drawn from a source of two numbers. -/
example : cholesky (⟨[4], 1, 1⟩ : Matrix ℝ) = some ⟨[2], 1, 1⟩ ∧
    ∃ m, mvSpec [(1 : ℝ)] ⟨[4], 1, 1⟩ [1 / 2, 1 / 4] 1 false = some m := by
  have hc : cholesky (⟨[4], 1, 1⟩ : Matrix ℝ) = some ⟨[2], 1, 1⟩ := by
    simp [cholesky, forRange, cholRow, cholEntry, cholSum, foldRange, Decomp.get, Decomp.set, fill,
      EasyMl.Matrix.getIndex, List.range_succ, List.range_zero, C08.sqrt_four]
  refine ⟨hc, ?_⟩
  unfold mvSpec
  simp only [Bool.false_eq_true, if_false, hc]
  rw [if_neg (by simp [needed])]
  exact ⟨_, rfl⟩

/-- **Shape**: a present draw is `samples × features` (`features` = the length of the mean). -/
theorem mv_shape (mean : List K) (covariance : Matrix K) (source : List K) (samples : ℕ)
    (sameNames : Bool) (m : Matrix K) (h : mvSpec mean covariance source samples sameNames = some m) :
    m.rows = samples ∧ m.columns = mean.length ∧ m.data.length = samples * mean.length := by
  unfold mvSpec at h
  simp only [] at h
  split at h
  · cases h
  · split at h
    · cases h
    · split at h
      · cases h
      · simp only [Option.some.injEq] at h
        subst h
        exact shaped_ofFn _ _ _

/-- **Absence**: a draw of at least one sample is absent exactly when the two dimension names
    are equal, the covariance has no Cholesky factor (it is not positive definite, cf.
    `C08.cholesky_none_iff_nonpos_pivot`) or the source has fewer than
    `samples · 2⌈N/2⌉` numbers. -/
theorem mv_none_iff (mean : List K) (covariance : Matrix K) (source : List K) (samples : ℕ)
    (sameNames : Bool) (hm : mean.length = covariance.rows) (hk : 0 < samples) :
    (drawTensorSamples mean covariance source samples sameNames).1 = .ok none ↔
      (sameNames = true ∨ cholesky covariance = none ∨
        source.length < samples * (2 * ((mean.length + 1) / 2))) := by
  rw [mv_draw_eq _ _ _ _ _ hm]
  simp only []
  rw [if_neg (by omega)]
  unfold mvSpec needed
  cases sameNames with
  | true => simp
  | false =>
    cases hc : cholesky covariance with
    | none => simp
    | some L =>
      by_cases hlen : source.length < samples * (2 * ((mean.length + 1) / 2)) <;> simp [hlen]

/-- **A covariance that is not positive definite yields absence** (real, symmetric covariance;
    any number of samples, any source): the Cholesky factor is absent (`C08`), so the draw is. -/
theorem mv_none_of_not_posdef (mean : List ℝ) (covariance : Matrix ℝ) (source : List ℝ) (samples : ℕ)
    (sameNames : Bool)
    (hsym : (toMat covariance.rows covariance.rows covariance).transpose
      = toMat covariance.rows covariance.rows covariance)
    (hnot : ¬ (toMat covariance.rows covariance.rows covariance).PosDef) :
    drawTensorSamples mean covariance source samples sameNames = (.ok none, source) := by
  have hc := C08.cholesky_none_of_not_posdef covariance hsym hnot
  unfold drawTensorSamples
  cases sameNames <;> simp [hc]

/-- **A positive definite covariance, distinct names, at least one sample and a long enough
    source give a present draw** of the documented shape, consuming exactly
    `samples · 2⌈N/2⌉` numbers. -/
theorem mv_present_of_posdef (mean : List ℝ) (covariance : Matrix ℝ) (source : List ℝ) (samples : ℕ)
    (hm : mean.length = covariance.rows) (hsq : covariance.rows = covariance.columns)
    (hPD : (toMat covariance.rows covariance.rows covariance).PosDef) (hk : 0 < samples)
    (hlen : samples * (2 * ((mean.length + 1) / 2)) ≤ source.length) :
    ∃ m, drawTensorSamples mean covariance source samples false
        = (.ok (some m), source.drop (samples * (2 * ((mean.length + 1) / 2)))) ∧
      m.rows = samples ∧ m.columns = mean.length := by
  obtain ⟨L, hL⟩ := cholesky_present_aux hsq hPD
  rw [mv_draw_eq _ _ _ _ _ hm]
  rw [if_neg (by omega)]
  have hspec : ∃ m, mvSpec mean covariance source samples false = some m := by
    unfold mvSpec needed
    simp only [Bool.false_eq_true, if_false, hL]
    rw [if_neg (by omega)]
    exact ⟨_, rfl⟩
  obtain ⟨m, hm'⟩ := hspec
  obtain ⟨h1, h2, _⟩ := mv_shape mean covariance source samples false m hm'
  refine ⟨m, ?_, h1, h2⟩
  rw [hm']
  unfold mvConsumed needed
  simp only [Bool.false_eq_true, if_false, hL]
  rw [Nat.min_eq_right hlen]

/-- **A present multivariate draw is `μ + L·z` for a genuine square root `L` of the covariance**
    (real, symmetric covariance): the model found a lower-triangular `L` with positive diagonal and
    `L·Lᵀ = covariance` (C08), and entry `(s, i)` of the result is `μ_i + Σ_k L[i,k]·z_s[k]` with
    `z_s` the standard-normal Box–Muller draws of the `s`-th source chunk — so the rows have mean
    `μ` and covariance `L·I·Lᵀ = covariance` whenever the `z` are standard normal. -/
theorem mv_draw_uses_cholesky_factor (mean : List ℝ) (covariance : Matrix ℝ) (source : List ℝ)
    (samples : ℕ) (m : Matrix ℝ) (hm : mean.length = covariance.rows)
    (hsym : (toMat covariance.rows covariance.rows covariance).transpose
      = toMat covariance.rows covariance.rows covariance)
    (h : (drawTensorSamples mean covariance source samples false).1 = .ok (some m)) :
    ∃ L, cholesky covariance = some L ∧
      (∀ i j : Fin covariance.rows, i < j → toMat covariance.rows covariance.rows L i j = 0) ∧
      (∀ i : Fin covariance.rows, 0 < toMat covariance.rows covariance.rows L i i) ∧
      toMat covariance.rows covariance.rows L * (toMat covariance.rows covariance.rows L).transpose
        = toMat covariance.rows covariance.rows covariance ∧
      m.rows = samples ∧ m.columns = mean.length ∧
      ∀ s i, s < samples → i < mean.length →
        get m s i = mean.getD i 0 + (List.range mean.length).foldl
          (fun acc k => acc + get L i k * (rowNormals source mean.length s).getD k 0) 0 := by
  rw [mv_draw_eq _ _ _ _ _ hm] at h
  simp only [] at h
  split at h
  · cases h
  · simp only [Outcome.ok.injEq] at h
    cases hc : cholesky covariance with
    | none => simp [mvSpec, hc] at h
    | some L =>
      obtain ⟨_, _, hlow, hpos, _, hfull⟩ := C08.cholesky_sound covariance L hc
      obtain ⟨hr, hcol, _⟩ := mv_shape _ _ _ _ _ _ h
      exact ⟨L, rfl, hlow, hpos, hfull hsym, hr, hcol,
        fun s i hs hi => mv_entry mean covariance L source samples m hc h s i hs hi⟩

/-- **Matrix and tensor variants agree**: `MultivariateGaussianTensor::draw` with any two
    *distinct* dimension names computes what `MultivariateGaussian::draw` (whose names are the
    constants `"samples"`, `"features"`) computes. -/
theorem mv_matrix_eq_tensor {α : Type} [Add α] [Sub α] [Mul α] [Div α] [Neg α] [Zero α] [One α]
    [RealFns α] [NumOrd α] (mean : List α) (covariance : Matrix α) (source : List α)
    (samples : ℕ) (s f : String) (hsf : s ≠ f) :
    mvDrawTensor mean covariance source samples s f = mvDrawMatrix mean covariance source samples := by
  unfold mvDrawTensor mvDrawMatrix
  have h1 : (s == f) = false := by simpa using hsf
  have h2 : (("samples" : String) == "features") = false := by decide
  rw [h1, h2]

example : ("a" : String) ≠ "b" := by decide

/-- Non-vacuity of the hypotheses of `mv_draw_eq`/`mv_none_iff` over ℚ (with the exact square
    root of the correspondence runs replaced by any function — the covariance `[[1]]`… is not
    needed: the statements only ask for equal lengths). -/
example : ([1, 2] : List ℚ).length = (⟨[4, 2, 2, 5], 2, 2⟩ : Matrix ℚ).rows := rfl

end mv

/-! ### the control flow never looks at values, nor at the distribution's own names -/

section
variable {α : Type} [Add α] [Sub α] [Mul α] [Div α] [Neg α] [Zero α] [One α]

/-- **No value-triggered re-draw.**  Whether a draw is present, how many samples it has and how
    many source numbers it takes are functions of `k` and of the *length* of the source alone: for
    any two means, variances, sources of equal length — and any two interpretations `F`, `G` of the
    real functions `sqrt ln cos sin …` the samples are made with — the two draws are both present
    or both absent, have equally many samples and leave equally long rests.  In particular no
    source value (a zero, a one, a repeated number) is skipped or drawn again. -/
theorem draw_value_independent (F G : RealFns α) (μ₁ v₁ μ₂ v₂ : α) (s₁ s₂ : List α) (k : ℕ)
    (h : s₁.length = s₂.length) :
    ((letI := F; draw μ₁ v₁ s₁ k).1.isSome = (letI := G; draw μ₂ v₂ s₂ k).1.isSome) ∧
    ((letI := F; draw μ₁ v₁ s₁ k).2.length = (letI := G; draw μ₂ v₂ s₂ k).2.length) ∧
    (∀ a b, (letI := F; draw μ₁ v₁ s₁ k).1 = some a →
      (letI := G; draw μ₂ v₂ s₂ k).1 = some b → a.length = b.length) := by
  obtain ⟨hn1, hl1, hr1⟩ := (letI := F; draw_count μ₁ v₁ s₁ k)
  obtain ⟨hn2, hl2, hr2⟩ := (letI := G; draw_count μ₂ v₂ s₂ k)
  refine ⟨?_, ?_, ?_⟩
  · cases h1 : (letI := F; draw μ₁ v₁ s₁ k).1 with
    | none =>
      have : s₂.length < 2 * ((k + 1) / 2) := by rw [← h]; exact hn1.mp h1
      rw [hn2.mpr this]
    | some a =>
      cases h2 : (letI := G; draw μ₂ v₂ s₂ k).1 with
      | some b => rfl
      | none =>
        have : s₁.length < 2 * ((k + 1) / 2) := by rw [h]; exact hn2.mp h2
        rw [hn1.mpr this] at h1; cases h1
  · rw [hr1, hr2, List.length_drop, List.length_drop, h]
  · intro a b ha hb
    rw [hl1 a ha, hl2 b hb]

end

section
variable {K : Type} [Field K] [RealFns K] [NumOrd K]

theorem mvSpec_isSome_iff (mean : List K) (cov : Matrix K) (s : List K) (k : ℕ) (same : Bool) :
    (mvSpec mean cov s k same).isSome ↔
      (same = false ∧ (cholesky cov).isSome ∧ k * needed mean.length ≤ s.length) := by
  unfold mvSpec
  cases same with
  | true => simp
  | false =>
    cases hc : cholesky cov with
    | none => simp
    | some L =>
      by_cases hl : s.length < k * needed mean.length <;> simp [hl] <;> omega

/-- **The multivariate draw does not look at the source values to decide anything**: for two
    sources of equal length (same distribution, same request) the two draws take equally many
    numbers, are both present / both absent / both rejected, and present results have the same
    shape. -/
theorem mv_value_independent (mean : List K) (cov : Matrix K) (s₁ s₂ : List K) (k : ℕ) (same : Bool)
    (hm : mean.length = cov.rows) (h : s₁.length = s₂.length) :
    (drawTensorSamples mean cov s₁ k same).2.length = (drawTensorSamples mean cov s₂ k same).2.length ∧
    ((drawTensorSamples mean cov s₁ k same).1 = .ok none ↔
      (drawTensorSamples mean cov s₂ k same).1 = .ok none) ∧
    ((drawTensorSamples mean cov s₁ k same).1 = .panic .explicit ↔
      (drawTensorSamples mean cov s₂ k same).1 = .panic .explicit) ∧
    (∀ m₁ m₂, (drawTensorSamples mean cov s₁ k same).1 = .ok (some m₁) →
      (drawTensorSamples mean cov s₂ k same).1 = .ok (some m₂) →
      m₁.rows = m₂.rows ∧ m₁.columns = m₂.columns) := by
  rw [mv_draw_eq _ _ _ _ _ hm, mv_draw_eq _ _ _ _ _ hm]
  simp only []
  have hsome := mvSpec_isSome_iff mean cov s₁ k same
  have hsome' := mvSpec_isSome_iff mean cov s₂ k same
  rw [h] at hsome
  have hiff : (mvSpec mean cov s₁ k same).isSome = (mvSpec mean cov s₂ k same).isSome := by
    rw [Bool.eq_iff_iff, hsome, hsome']
  refine ⟨by rw [List.length_drop, List.length_drop, h], ?_, ?_, ?_⟩
  · split
    · simp
    · cases h1 : mvSpec mean cov s₁ k same <;> cases h2 : mvSpec mean cov s₂ k same <;>
        simp [h1, h2] at hiff ⊢
  · split <;> simp
  · split
    · intro m₁ m₂ h1; cases h1
    · intro m₁ m₂ h1 h2
      simp only [Outcome.ok.injEq] at h1 h2
      obtain ⟨a1, a2, _⟩ := mv_shape _ _ _ _ _ _ h1
      obtain ⟨b1, b2, _⟩ := mv_shape _ _ _ _ _ _ h2
      exact ⟨by rw [a1, b1], by rw [a2, b2]⟩

end

/-- **The draw's name checks depend only on the two requested names**: for a valid covariance
    tensor (its two names differ), whatever the mean's own name and the covariance's names are —
    equal to `samples`, to `features`, to one another or to internal names — the checks pass
    exactly when `samples ≠ features`, and the drawn tensor is named `[samples, features]`; equal
    requested names give absence (never a panic). -/
theorem mvNameChecks_eq {ν : Type} [DecidableEq ν] (meanName cov0 cov1 samples features : ν)
    (hcov : cov0 ≠ cov1) :
    mvNameChecks meanName cov0 cov1 samples features
      = if samples = features then .ok none else .ok (some [samples, features]) := by
  unfold mvNameChecks namesUnique
  by_cases h : samples = features
  · simp [h]
  · simp [h, hcov]

example : ("u" : String) ≠ "v" := by decide

/-! ### fitting -/

/-- **`Gaussian::approximating` fits the sample mean and the population variance**: for non-empty
    data over any field the result is `(Σxᵢ/N, Σ(xᵢ−μ)²/N)` (`Spec.Stats.popMean`, `popVariance`; the
    C14 theorems about `linear_algebra::mean` / `variance`); empty data is rejected by the
    assertion of `mean`. -/
theorem approximating_eq {K : Type} [Field K] (data : List K) :
    (data ≠ [] → approximating data
        = .ok (Spec.Stats.popMean data, Spec.Stats.popVariance data)) ∧
    (approximating ([] : List K) = .panic .explicit) := by
  constructor
  · intro h
    unfold approximating
    rw [Stats.mean_eq_popMean data h, Stats.variance_eq_popVariance data h]
  · rfl

example : ([1, 2, 4] : List ℚ) ≠ [] := by decide

/-! ### constructor validation -/

/-- `MultivariateGaussian::new` accepts exactly a column-vector mean, a square covariance and
    matching lengths; everything else is rejected by an assertion. -/
theorem mvNewMatrix_ok_iff (mr mc cr cc : ℕ) :
    mvNewMatrix mr mc cr cc = .ok () ↔ (mc = 1 ∧ cr = cc ∧ mr = cr) := by
  unfold mvNewMatrix
  by_cases h1 : mc = 1 <;> by_cases h2 : cr = cc <;> by_cases h3 : mr = cr <;> simp [h1, h2, h3]

/-- `MultivariateGaussianTensor::new` accepts exactly a square covariance with a mean of the same
    length, and reports which of the two requirements failed. -/
theorem mvNewTensor_ok_iff (ml cr cc : ℕ) :
    (mvNewTensor ml cr cc = .ok () ↔ (cr = cc ∧ ml = cr)) ∧
    (mvNewTensor ml cr cc = .error .notCovarianceMatrix ↔ cr ≠ cc) ∧
    (mvNewTensor ml cr cc = .error .meanVectorWrongLength ↔ (cr = cc ∧ ml ≠ cr)) := by
  unfold mvNewTensor
  by_cases h2 : cr = cc <;> by_cases h3 : ml = cr <;> subst_vars <;> simp_all

/-! ### constructor-discharged statements, composition with C03, API surface -/

section constructed
set_option linter.unusedSectionVars false
variable {K : Type} [Field K] [RealFns K] [NumOrd K]

/-- **For every distribution a constructor accepts** the multivariate draw is the specification:
    the equal-length hypothesis of `mv_draw_eq` is what `MultivariateGaussianTensor::new` /
    `MultivariateGaussian::new` (a one-column mean) check, so it is discharged by acceptance. -/
theorem mv_draw_eq_constructed (mean : List K) (covariance : Matrix K) (source : List K) (samples : ℕ)
    (sameNames : Bool)
    (hnew : mvNewTensor mean.length covariance.rows covariance.columns = .ok () ∨
      mvNewMatrix mean.length 1 covariance.rows covariance.columns = .ok ()) :
    drawTensorSamples mean covariance source samples sameNames =
      (if sameNames = false ∧ (cholesky covariance).isSome ∧ samples = 0 then .panic .explicit
        else .ok (mvSpec mean covariance source samples sameNames),
       source.drop (mvConsumed mean covariance source.length samples sameNames)) := by
  have hm : mean.length = covariance.rows := by
    rcases hnew with h | h
    · exact ((mvNewTensor_ok_iff _ _ _).1.mp h).2
    · exact ((mvNewMatrix_ok_iff _ _ _ _).mp h).2.2
  exact mv_draw_eq mean covariance source samples sameNames hm

/-- … and it is absent exactly for equal names, no Cholesky factor or a short source. -/
theorem mv_none_iff_constructed (mean : List K) (covariance : Matrix K) (source : List K) (samples : ℕ)
    (sameNames : Bool)
    (hnew : mvNewTensor mean.length covariance.rows covariance.columns = .ok () ∨
      mvNewMatrix mean.length 1 covariance.rows covariance.columns = .ok ()) (hk : 0 < samples) :
    (drawTensorSamples mean covariance source samples sameNames).1 = .ok none ↔
      (sameNames = true ∨ cholesky covariance = none ∨
        source.length < samples * (2 * ((mean.length + 1) / 2))) := by
  have hm : mean.length = covariance.rows := by
    rcases hnew with h | h
    · exact ((mvNewTensor_ok_iff _ _ _).1.mp h).2
    · exact ((mvNewMatrix_ok_iff _ _ _ _).mp h).2.2
  exact mv_none_iff mean covariance source samples sameNames hm hk

example : mvNewTensor ([1, 2] : List ℚ).length 2 2 = .ok () := by decide

/-- **Composition C17 ∘ C08 ∘ C03**: one sample row is the mean plus the first column of C03's
    matrix product (`Arith.mMatMul`, the model of `Tensor/Matrix * …`) of the Cholesky factor (C08's
    model) with the column of standard normals. -/
theorem mv_row_via_C03 {n : ℕ} (mean : List K) (L : Matrix K) (z : List K)
    (hL : Shaped (n + 1) (n + 1) L) (hz : z.length = n + 1) :
    ∃ P, Arith.mMatMul (Arith.MView.ofMatrix L) (Arith.MView.ofMatrix ⟨z, z.length, 1⟩) = .ok P ∧
      randomVector mean L z = (List.range mean.length).map fun i => mean.getD i 0 + get P i 0 := by
  have hzs : Shaped (n + 1) 1 (⟨z, z.length, 1⟩ : Matrix K) := ⟨hz, rfl, by simp [hz]⟩
  exact ⟨matMul L ⟨z, z.length, 1⟩, matMul_eq_C03 hL hzs (by omega) (le_refl 1), rfl⟩

example : Shaped 2 2 (⟨[2, 0, 1, 2], 2, 2⟩ : Matrix ℚ) ∧ ([1, 3] : List ℚ).length = 1 + 1 := ⟨⟨rfl, rfl, rfl⟩, rfl⟩

end constructed

/-! ### API surface of `Gaussian` (`Model/ApiSurface.lean`) -/

/-- `Gaussian::new(mean, variance)` stores its arguments in field order and `clone_from` leaves a
    clone of the source whatever the target held (so `N(9,9).clone_from(&N(3,4))` is `N(3,4)`). -/
theorem gaussian_struct_surface {F : Type} (mean variance m2 v2 : F) :
    (Api.fromUnchecked mean variance).first = mean ∧ (Api.fromUnchecked mean variance).second = variance ∧
    Api.cloneFrom (Api.fromUnchecked m2 v2) (Api.fromUnchecked mean variance)
      = Api.fromUnchecked mean variance :=
  ⟨rfl, rfl, rfl⟩


end EasyMl.C17
