/-
  EasyMl.Props.C17 — property theorems for C17 (placeholder while the correspondence is built).
-/
import EasyMl.Model.Gaussian

namespace EasyMl.C17
end EasyMl.C17
