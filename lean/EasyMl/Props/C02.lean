/-
  EasyMl.Props.C02 — property theorems for C02 (every tensor view adaptor and every composition
  exposes exactly its documented index mapping).

  Only property statements live here; helper lemmas are in EasyMl/Lemmas/View*.lean.  The
  theorems are about the very definitions the `emlmodel` driver executes against the
  implementation: `View.shape / get / getUnchecked / layout / write` (Model/View.lean) and the
  specification `View.specGet` (Spec/View.lean).  All are proved by structural induction over
  `View` (`View.ind`), so they hold for compositions of *any* depth and any number of stacked /
  chained sources, any dimensionality, any parameters.

  `View.WF` is the invariant the library's constructors establish (`constructors_establish_wf`
  below: every `mkX` of the model, i.e. every validation of `…::from / try_from / from_strict`,
  returns only well-formed views when given well-formed sources).
-/
import EasyMl.Lemmas.ViewMapping
import EasyMl.Lemmas.ViewInjective
import EasyMl.Lemmas.ViewWrite
import EasyMl.Lemmas.ViewLayout
import EasyMl.Lemmas.ViewAccessors
import EasyMl.Lemmas.ViewMatrixBridge
import EasyMl.Lemmas.ViewWriteMany
import EasyMl.Lemmas.ViewLawsLayout
import EasyMl.Lemmas.ViewBuilt

namespace EasyMl.C02
open EasyMl EasyMl.Spec EasyMl.View

set_option linter.unusedSectionVars false

variable {ν : Type} [DecidableEq ν] [Inhabited ν] {α : Type}

/-- **Shape validity.**  The shape of every view the constructors accept has unique names and
    lengths ≥ 1 (clauses 3 and 4 of the `TensorRef` contract) — and lengths that fit in `usize`. -/
theorem view_shape_valid (v : View ν α) (h : v.WF) :
    ValidShape v.shape ∧ ∀ d ∈ v.shape, d.2 ≤ usizeMax :=
  (View.correct v h).1

/-- **Presence.**  For *all* coordinates up to `usize::MAX` the checked getters return without
    any panic / overflow outcome, and the answer is `Some` exactly when the index tuple lies
    inside the view's shape.  (This is the statement the unrepaired `TensorReverse` / `TensorMask`
    getters fail: defects #4, #5.) -/
theorem view_get_some_iff_inBounds (v : View ν α) (h : v.WF) (idx : List Nat)
    (hl : idx.length = v.shape.length) (hb : ∀ i ∈ idx, i ≤ usizeMax) :
    ∃ r, v.get idx = .ok r ∧ (r.isSome ↔ inBounds (lens v.shape) idx = true) := by
  refine ⟨v.specGet idx, (View.correct v h).2 idx hl hb, ?_⟩
  unfold View.specGet
  by_cases hin : inBounds (lens v.shape) idx = true
  · simp only [hin, if_true, iff_true]
    exact View.specCell_isSome v h idx hin
  · simp [hin]

/-- **Mapping.**  The cell a checked getter resolves to is the documented mapping of the adaptors
    applied down to the leaf (`View.specGet`, Spec/View.lean). -/
theorem view_get_eq_spec (v : View ν α) (h : v.WF) (idx : List Nat)
    (hl : idx.length = v.shape.length) (hb : ∀ i ∈ idx, i ≤ usizeMax) :
    v.get idx = .ok (v.specGet idx) :=
  (View.correct v h).2 idx hl hb

/-- **No aliasing.**  When the leaves are distinct containers (distinct leaf ids — always the
    case for owned / `&mut` sources), distinct in-bounds index tuples resolve to distinct cells,
    and every cell belongs to one of the view's own leaves.  (This is what makes handing out
    `&mut` references from the mutable iterators sound.) -/
theorem view_get_injective (v : View ν α) (h : v.WF) (hn : v.leafIds.Nodup) (a b : List Nat)
    (ha : inBounds (lens v.shape) a = true) (hb : inBounds (lens v.shape) b = true)
    (c : Cell) (hca : v.get a = .ok (some c)) (hcb : v.get b = .ok (some c)) :
    a = b ∧ c.1 ∈ v.leafIds := by
  have hg := (View.correct v h).1
  have la := inBounds_length ha
  have lb := inBounds_length hb
  simp only [lens_length] at la lb
  rw [(View.correct v h).2 a la (bounded_of_inBounds ha hg.lens_le)] at hca
  rw [(View.correct v h).2 b lb (bounded_of_inBounds hb hg.lens_le)] at hcb
  simp only [View.specGet, ha, hb, if_true, Outcome.ok.injEq] at hca hcb
  refine ⟨(View.resolves v h).2 hn a b ha hb (by rw [hca, hcb]), ?_⟩
  obtain ⟨c', hc', hm⟩ := (View.resolves v h).1 a ha
  rw [hca] at hc'
  simp only [Option.some.injEq] at hc'
  rw [hc']; exact leafIds_of_mem hm.choose_spec.1

/-- **Unchecked access.**  On every in-bounds index tuple the unchecked getters return the same
    cell as the checked ones; in particular none of the intermediate `unwrap()`s, unchecked
    additions / subtractions, `panic!` arms or `get_unchecked` calls of the unchecked path can
    fail there (clause 1 of the `TensorRef` contract). -/
theorem view_unchecked_eq_checked (v : View ν α) (h : v.WF) (idx : List Nat)
    (hin : inBounds (lens v.shape) idx = true) :
    ∃ c, v.getUnchecked idx = .ok c ∧ v.get idx = .ok (some c) := by
  obtain ⟨c, hc, _⟩ := (View.resolves v h).1 idx hin
  have hg := (View.correct v h).1
  have la := inBounds_length hin
  simp only [lens_length] at la
  refine ⟨c, View.uncheckedOK v h idx c hin hc, ?_⟩
  rw [(View.correct v h).2 idx la (bounded_of_inBounds hin hg.lens_le)]
  simp [View.specGet, hin, hc]

/-- **Writes land on the designated element only.**  A write through a present index
    (`*view.get_reference_mut(idx)? = x`) leaves the view's shape and its whole index mapping
    unchanged, changes exactly the designated element of the designated leaf, reads back as `x`
    at that index and as the old value at every other in-bounds index; a write through an absent
    index changes nothing.  (Leaves are distinct containers: always the case for a `TensorMut`.) -/
theorem view_write_frame (v : View ν α) (h : v.WF) (hn : v.leafIds.Nodup) (idx : List Nat)
    (hl : idx.length = v.shape.length) (hb : ∀ i ∈ idx, i ≤ usizeMax) (x : α) :
    (inBounds (lens v.shape) idx = false → v.write idx x = .ok none) ∧
    (inBounds (lens v.shape) idx = true →
      ∃ c v', v.get idx = .ok (some c) ∧ v.write idx x = .ok (some v') ∧
        v'.shape = v.shape ∧ (∀ i, v'.get i = v.get i) ∧
        v'.leaves = v.leaves.map (updLeaf c x) ∧
        v'.read idx = .ok (some x) ∧
        ∀ idx', inBounds (lens v.shape) idx' = true → idx' ≠ idx → v'.read idx' = v.read idx') := by
  have hget := (View.correct v h).2 idx hl hb
  have hg := (View.correct v h).1
  constructor
  · intro hout
    simp [View.write, hget, View.specGet, hout]
  · intro hin
    obtain ⟨c, hc, _, data, hm, hlt⟩ := View.specCell_valid v h idx hin
    have hgc : v.get idx = .ok (some c) := by rw [hget]; simp [View.specGet, hin, hc]
    have hss := View.sameStructure c x v
    refine ⟨c, v.setCell c x, hgc, by simp [View.write, hgc], hss.1, hss.2.1, hss.2.2, ?_, ?_⟩
    · simp [View.read, hss.2.1, hgc, lookup_setCell v hn c x hm hlt]
    · intro idx' hin' hne
      have la := inBounds_length hin'
      simp only [lens_length] at la
      have hget' := (View.correct v h).2 idx' la (bounded_of_inBounds hin' hg.lens_le)
      obtain ⟨c', hc', _⟩ := View.specCell_valid v h idx' hin'
      have hgc' : v.get idx' = .ok (some c') := by rw [hget']; simp [View.specGet, hin', hc']
      have hcc : c' ≠ c := by
        intro he
        exact hne ((View.resolves v h).2 hn idx' idx hin' hin (by rw [hc', hc, he]))
      simp [View.read, hss.2.1, hgc', lookup_setCell v hn c x hm hlt, hcc]

/-- **Any sequence of writes.**  A loop that writes through the view — `iter_reference_mut`,
    `map_mut`, `map_mut_with_index`, a hand-written loop over `get_reference_mut`, complete or cut
    short (a closure that panics after `k` elements has performed the first `k` writes) — never
    panics and leaves a view that is *well formed again* with the same leaves (ids), the same
    shape and the same index mapping, so every theorem of this file applies to it again; reading
    it at any in-bounds index gives the value of the last write addressed to that index, and what
    the view held before at every index no write addressed.  Writes at absent indexes change
    nothing. -/
theorem view_write_many_frame (v : View ν α) (h : v.WF) (hn : v.leafIds.Nodup)
    (ws : List (List Nat × α))
    (hws : ∀ w ∈ ws, w.1.length = v.shape.length ∧ ∀ i ∈ w.1, i ≤ usizeMax) :
    ∃ v', v.writeMany ws = .ok v' ∧ v'.WF ∧ v'.leafIds = v.leafIds ∧ v'.shape = v.shape ∧
      (∀ i, v'.get i = v.get i) ∧
      ∀ idx, inBounds (lens v.shape) idx = true →
        v'.read idx = match View.lastWrite ws idx with
          | some x => .ok (some x)
          | none => v.read idx :=
  View.writeMany_spec ws v h hn hws

/-- **Linear layouts.**  Whenever a view claims `DataLayout::Linear(order)`:
    `order` is a reordering of the view's dimension names, so `TensorAccess::from_memory_order`
    succeeds (`DimensionMappings::new` returns a mapping, the contract panic is unreachable); the
    view lies in a single leaf, and visiting it through that access — i.e. in the claimed dimension
    order — resolves the tuple `idx` to the row-major offset of `idx + starts` within the leaf's
    full extents `fulls`; hence the walk is *strictly increasing* in iteration order; and when
    the view has as many elements as the leaf (it spans the whole tensor) `starts = 0` and
    `fulls` are its own lengths: the walk is `0, 1, 2, …`, contiguous.  Covers `Tensor`,
    `TensorRefMatrix` over a `Matrix` and over `MatrixRefTensor` of any tensor view, row major and
    column major, with `MatrixRange`s in between (which forward the layout of a part of the
    leaf), `TensorRename`, `TensorAccess`, `TensorTranspose` (with the repaired
    `map_linear_data_layout_to_transposed`), `TensorMap` in any composition; every other adaptor
    (`MatrixReverse` included) reports a non-linear layout. -/
theorem layout_linear_increasing (v : View ν α) (h : v.WF) (order : List ν)
    (hl : v.layout = .ok (.linear order)) :
    (∃ m, DimensionMappings.new v.shape order = some m) ∧
    (∀ m, DimensionMappings.new v.shape order = some m →
      ∃ (leaf : Nat) (data : List α) (fulls starts : List Nat), v.leaves = [(leaf, data)] ∧
        data.length = prod fulls ∧
        (∀ idx, inBounds (lens (View.access v m).shape) idx = true →
          (View.access v m).get idx =
            .ok (some (leaf, ravel fulls (List.zipWith (· + ·) idx starts)))) ∧
        (∀ a b, inBounds (lens (View.access v m).shape) a = true →
          inBounds (lens (View.access v m).shape) b = true → a < b →
          ravel fulls (List.zipWith (· + ·) a starts) < ravel fulls (List.zipWith (· + ·) b starts)) ∧
        (prod (lens (View.access v m).shape) = data.length →
          ∀ idx, inBounds (lens (View.access v m).shape) idx = true →
            (View.access v m).get idx = .ok (some (leaf, ravel (lens (View.access v m).shape) idx)))) := by
  obtain ⟨h1, h2⟩ := View.layout_memory_order v h order hl
  refine ⟨h1, ?_⟩
  intro m hm
  obtain ⟨leaf, data, fulls, starts, a, b, hsl0, c, d⟩ := h2 m hm
  have hD : (View.access v m).shape.length = v.shape.length := by
    have hok := new_mappingOK (goodShape_iff.1 (View.correct v h).1).1 hm
    simp only [View.shape]; exact mapShapeToRequested_length hok
  have hsl : ∀ idx, inBounds (lens (View.access v m).shape) idx = true → idx.length = starts.length := by
    intro idx hin
    have h2 := inBounds_length hin
    simp only [lens_length] at h2
    omega
  refine ⟨leaf, data, fulls, starts, a, b, fun idx hin => (c idx hin).2, ?_, ?_⟩
  · intro x y hx hy hxy
    have lx := inBounds_length hx
    have ly := inBounds_length hy
    exact ravel_lt_of_lex fulls _ _ (c x hx).1 (c y hy).1
      (lex_zipWith_add x y starts (by omega) (hsl x hx) hxy)
  · intro hp idx hin
    obtain ⟨hf, hs0⟩ := d hp
    rw [(c idx hin).2, hf]
    have : List.zipWith (· + ·) idx starts = idx := by
      apply List.ext_getElem (by simp [hsl idx hin])
      intro k hk1 hk2
      simp only [List.getElem_zipWith]
      have hk3 : k < starts.length := by simp only [List.length_zipWith] at hk1; omega
      have := hs0 _ (List.getElem_mem hk3)
      omega
    rw [this]

/-- **`data_layout` and `from_memory_order` never panic.**  On every well-formed view (any
    composition) `data_layout` returns: the name lookups of `TensorRename::data_layout` and of
    `map_linear_data_layout_to_transposed` (`position_of(..)` followed by a panic on `None`)
    always succeed, because a claimed order only names dimensions of the view.
    `TensorAccess::from_memory_order` returns too: `None` exactly when the layout is not
    linear, otherwise the (well-formed) access in the claimed order — the
    `unwrap_or_else(|| panic!(..))` around `TensorAccess::try_from` is never reached. -/
theorem layout_never_panics (v : View ν α) (h : v.WF) :
    (∃ l, v.layout = .ok l) ∧
    (∃ r, v.fromMemoryOrder = .ok r) ∧
    (∀ a, v.fromMemoryOrder = .ok (some a) →
      a.WF ∧ ∃ order, v.layout = .ok (.linear order) ∧ mkAccess v order = some a) ∧
    (v.fromMemoryOrder = .ok none ↔ ¬ ∃ order, v.layout = .ok (.linear order)) :=
  ⟨View.layout_ok v h, (View.fromMemoryOrder_ok v h).1, (View.fromMemoryOrder_ok v h).2.1,
    (View.fromMemoryOrder_ok v h).2.2⟩

/-- **Accessors and mutators.**  On a well-formed view:
    * `length_of(name)` is the length recorded for `name`, `None` exactly for a name the view
      does not have; `last_index_of(name)` is that length minus one;
    * `source()` / `source_ref()` / `sources()` / `sources_ref()` hand out well-formed views;
    * `TensorRename::get_names` are the names of the shape;
    * `TensorRename::set_names` panics exactly for a repeated name (and then — theorem
      `constructors_establish_wf` — leaves the adaptor as it was); accepted, the view has the new
      names, the same lengths, the same leaves and the same index mapping;
    * after the source behind `source_ref_mut` (`TensorRename`, `TensorReverse`) was replaced, the
      adaptor hands out and reads through the new source. -/
theorem accessors_spec (v : View ν α) (h : v.WF) :
    (∀ n l, View.lengthOf v.shape n = some l ↔ (n, l) ∈ v.shape) ∧
    (∀ n, View.lengthOf v.shape n = none ↔ n ∉ namesOf v.shape) ∧
    (∀ n k, View.lastIndexOf v.shape n = some k ↔ (n, k + 1) ∈ v.shape) ∧
    (∀ s ∈ v.sources, s.WF) ∧
    (∀ ns, v.getNames = some ns → namesOf v.shape = ns) ∧
    (∀ s old dimensions, v = View.rename s old → dimensions.length = v.shape.length →
      ((v.setNames dimensions).2 = .panic .explicit ↔ ¬ dimensions.Nodup) ∧
      (dimensions.Nodup →
        (v.setNames dimensions).2 = .ok () ∧
        namesOf (v.setNames dimensions).1.shape = dimensions ∧
        lens (v.setNames dimensions).1.shape = lens v.shape ∧
        (v.setNames dimensions).1.leaves = v.leaves ∧
        ∀ idx, (v.setNames dimensions).1.specGet idx = v.specGet idx)) ∧
    (∀ s s', v.sourceOf = some s →
      (v.replaceSource s').sourceOf = some s' ∧ (v.replaceSource s').sources = [s'] ∧
      v.replaceSource s = v ∧ (v.replaceSource s').leaves = s'.leaves) := by
  have hg := (View.correct v h).1
  refine ⟨lengthOf_eq_some_iff (goodShape_iff.1 hg).1, lengthOf_eq_none_iff v.shape,
    lastIndexOf_eq_some_iff hg, View.sources_wf v h, View.getNames_spec v h, ?_,
    fun s s' hs => View.replaceSource_spec v s s' hs⟩
  intro s old dimensions hv hl
  subst hv
  exact View.setNames_spec s old dimensions h hl

/-- **Matrix-side stacks: the view model agrees with the matrix-view model.**  `TensorRefMatrix`
    over a stack of `MatrixRange` / `MatrixReverse` adaptors over `MatrixRefTensor` of a
    2-dimensional view is represented in Model/View.lean by constructors with the index functions
    of a tensor range / reversal (`mkMatrixStack`).  Model/MatrixView.lean (property C12,
    written independently from the matrix code: `MView.ofTensor`, `MView.range` with
    `MatrixRange::from`'s clipping, `MView.reverse` with `MatrixReverse`'s empty-matrix guard and
    `getVia`, `tensorRefMatrixWithNames`; repaired arithmetic `Arith.fixed`) composes the same
    stack as functions `(rows, columns, try_get_reference)`.  For every source view, stack and pair
    of names the composition there never panics, is refused (`Err`) exactly when `mkMatrixStack`
    is, and otherwise has the same shape and the same checked-getter answer at every pair of
    indexes (cells shown through any encoding `enc`) as the view this model builds — so the
    theorems above about `mkMatrixStack` views are theorems about what C12's model of the matrix
    code computes. -/
theorem matrix_stack_agrees_with_matrix_model (s : View ν α) (hs2 : s.shape.length = 2)
    (enc : Cell → Nat) (ops : List MatOp) (r c : ν) :
    (mkMatrixStack s ops r c = none →
      ∃ sh, mviewStack Fallible.Arith.fixed s enc ops r c = .ok (.error sh)) ∧
    (∀ v, mkMatrixStack s ops r c = some v →
      ∃ T, mviewStack Fallible.Arith.fixed s enc ops r c = .ok (.ok T) ∧ T.shape = v.shape ∧
        ∀ i j, T.get [i, j] = omap enc (v.get [i, j])) :=
  matrix_stack_bridge s hs2 enc ops r c

/-- **Relations between adaptors.**  (`SameView a b`: `a` and `b` have the same `view_shape` and
    designate the same cell — or none — at every index tuple.)
    * arguments that change nothing: a `TensorRange` over every dimension in full, a `TensorMask`
      whose masks are all empty (wherever they start), a `TensorReverse` of no dimension, a
      `TensorRename` to the names the view has — each cannot be told apart from its source;
    * reversing the same dimensions twice gives the source back;
    * a `TensorRange` of a `TensorRange` is the one range with the starts added;
    * `TensorTranspose::from(s, names)` cannot be told apart from
      `TensorRename::from(TensorAccess::from(s, names), <the names of s>)`, *and claims the same
      data layout*: `map_linear_data_layout_to_transposed` agrees with the composition of
      `TensorAccess::data_layout` and `TensorRename::data_layout`, an independent route to the
      same list of names (the inverse permutation would not);
    * selecting source `k` along the dimension a `TensorStack` added gives source `k` back. -/
theorem adaptor_laws (s : View ν α) :
    SameView (View.range s (s.shape.map fun d => ⟨0, d.2⟩)) s ∧
    (∀ ms : List IndexRange, ms.length = s.shape.length → (∀ m ∈ ms, m.length = 0) →
      SameView (View.mask s ms) s) ∧
    SameView (View.reverse s (List.replicate s.shape.length false)) s ∧
    SameView (View.rename s (namesOf s.shape)) s ∧
    (∀ r : List Bool, r.length = s.shape.length → SameView (View.reverse (View.reverse s r) r) s) ∧
    (∀ r1 r2 : List IndexRange, r1.length = r2.length →
      SameView (View.range (View.range s r1) r2)
        (View.range s (List.zipWith (fun a b => ⟨a.start + b.start, b.length⟩) r1 r2))) ∧
    (∀ m : DimensionMappings, (View.transpose s m).WF →
      SameView (View.transpose s m) (View.rename (View.access s m) (namesOf s.shape)) ∧
      (View.transpose s m).layout = (View.rename (View.access s m) (namesOf s.shape)).layout) ∧
    (∀ (ss : List (View ν α)) (along : Nat × ν) (k : Nat), ss[k]? = some s →
      (∀ sh ∈ shapes ss, sh = (shapes ss).headD []) → along.1 ≤ ((shapes ss).headD []).length →
      SameView (View.index (View.stack ss along)
        (providedAt (((shapes ss).headD []).length + 1) along.1 k)) s) :=
  ⟨range_full s, mask_nothing s, reverse_none s, rename_own s, reverse_reverse s, range_range s,
    fun m hw => ⟨transpose_eq_rename_access s m (by
        simp only [View.WF] at hw; exact mapShapeToRequested_length hw.2),
      transpose_layout_eq_rename_access s m hw⟩,
    fun ss along k hk hsame ha => index_stack ss along k s hk hsame ha⟩

/-- … and two well-formed views related by `SameView` answer alike through the checked getters
    (hence — `view_unchecked_eq_checked` — through the unchecked ones on in-bounds indexes) -/
theorem laws_carry_to_getters (a b : View ν α) (ha : a.WF) (hb : b.WF) (h : SameView a b)
    (idx : List Nat) (hl : idx.length = a.shape.length) (hbd : ∀ i ∈ idx, i ≤ usizeMax) :
    a.get idx = b.get idx := sameView_get ha hb h idx hl hbd

/-- **Towers of matrix ↔ tensor round trips.**  `matrix_stack_agrees_with_matrix_model` holds for
    any source of C12's model that reports the shape of the 2-dimensional view and answers like it
    at every index pair (`TSim`), and what comes out of C12's composition then behaves in the same
    way like the view `mkMatrixStack` returns.  Hence any tower
    `TensorRefMatrix(ops_n(MatrixRefTensor( … TensorRefMatrix(ops_1(MatrixRefTensor(s))) … )))`,
    each layer with its own matrix-side stack and names (`mkTower`), composed in C12's model
    (`mviewTower`, repaired arithmetic) never panics, is refused exactly when this model refuses
    some layer, and otherwise has the shape and the checked-getter answers of this model's view. -/
theorem matrix_towers_agree_with_matrix_model (enc : Cell → Nat)
    (layers : List (List MatOp × ν × ν)) (T : Fallible.TView ν) (s : View ν α)
    (hs2 : s.shape.length = 2) (hT : TSim enc T s) :
    (mkTower s layers = none →
      ∃ sh, mviewTower Fallible.Arith.fixed T layers = .ok (.error sh)) ∧
    (∀ v, mkTower s layers = some v →
      ∃ T', mviewTower Fallible.Arith.fixed T layers = .ok (.ok T') ∧ T'.shape = v.shape ∧
        ∀ i j, T'.get [i, j] = omap enc (v.get [i, j])) := by
  obtain ⟨a, b⟩ := matrix_tower_bridge enc layers T s hs2 hT
  exact ⟨a, fun v h => by obtain ⟨T', e, h1, h2⟩ := b v h; exact ⟨T', e, h1, h2⟩⟩

/-- **The constructors establish the invariant.**  Every validation of the model
    (`Tensor::from`, `TensorRefMatrix::with_names` over a `Matrix` and over `MatrixRefTensor` of a tensor view,
    `TensorRange/TensorMask::from`, `from_all`,
    `from_strict`, `from_all_strict`, `TensorIndex::from`, `TensorExpansion::from` with its stable
    sort, `TensorRename::from`, `TensorReverse::from`, `TensorAccess/TensorTranspose::try_from`,
    `TensorStack::from`, `TensorChain::from`) and every mutator of an existing view
    (`TensorRename::set_names`, `source_ref_mut` of `TensorRename` / `TensorReverse`) accepts only arguments for which the resulting view
    is well formed, given well-formed sources.  The two size side conditions are the ones
    discussed at `View.WF`. -/
theorem constructors_establish_wf :
    (∀ (id : Nat) (shape : Shape ν) (data : List α) (v : View ν α),
      mkTensor id shape data = some v → data.length ≤ usizeMax → v.WF) ∧
    (∀ (id rows columns : Nat) (data : List α) (r c : ν) (v : View ν α),
      mkMatrix id rows columns data r c = some v → data.length ≤ usizeMax → v.WF) ∧
    (∀ (s : View ν α), s.WF → (View.tmap s).WF) ∧    -- `TensorMap::from` validates nothing
    (∀ (s v : View ν α), s.WF →
      (∀ r c, mkMatrixOf s r c = some v → v.WF) ∧
      (∀ ops r c, mkMatrixStack s ops r c = some v → v.WF) ∧
      (∀ rs, mkRange s rs = some v → v.WF) ∧ (∀ rs, mkRangeStrict s rs = some v → v.WF) ∧
      (∀ rs, mkRangeAll s rs = some v → v.WF) ∧ (∀ rs, mkRangeAllStrict s rs = some v → v.WF) ∧
      (∀ ms, mkMask s ms = some v → v.WF) ∧ (∀ ms, mkMaskStrict s ms = some v → v.WF) ∧
      (∀ ms, mkMaskAll s ms = some v → v.WF) ∧ (∀ ms, mkMaskAllStrict s ms = some v → v.WF) ∧
      (∀ p, mkIndex s p = some v → v.WF) ∧ (∀ e, mkExpansion s e = some v → v.WF) ∧
      (∀ ns, mkRename s ns = some v → v.WF) ∧ (∀ ns, mkReverse s ns = some v → v.WF) ∧
      (∀ ns, mkAccess s ns = some v → v.WF) ∧ (∀ ns, mkTranspose s ns = some v → v.WF)) ∧
    (∀ (ss : List (View ν α)) (v : View ν α), (∀ s ∈ ss, s.WF) →
      (∀ along, ss.length ≤ usizeMax → mkStack ss along = some v → v.WF) ∧
      (∀ along, (∀ a, (chainLens (shapes ss) a).sum ≤ usizeMax) → mkChain ss along = some v → v.WF)) ∧
    -- the mutators of an existing view: `TensorRename::set_names` (accepted or refused: the view
    -- that exists afterwards is well formed, and it is the old one when the call panicked) and
    -- replacing the source through `source_ref_mut` (`TensorRename`, `TensorReverse`)
    (∀ (v : View ν α) (dimensions : List ν), v.WF → dimensions.length = v.shape.length →
      (v.setNames dimensions).1.WF ∧
      (∀ k, (v.setNames dimensions).2 = .panic k → (v.setNames dimensions).1 = v)) ∧
    (∀ (v s s' : View ν α), v.WF → s'.WF → v.sourceOf = some s →
      s'.shape.length = s.shape.length → (v.replaceSource s').WF) := by
  refine ⟨fun _ _ _ _ h hm => mkTensor_wf h hm, fun _ _ _ _ _ _ _ h hm => mkMatrix_wf h hm,
    fun s hs => by simpa only [View.WF] using hs, ?_, ?_,
    fun v ns hv hl => ⟨setNames_wf hv hl, fun k h => setNames_panic_unchanged v ns k h⟩,
    fun _ _ _ hv hs' hsrc hl => replaceSource_wf hv hs' hsrc hl⟩
  · intro s v hs
    exact ⟨fun _ _ h => mkMatrixOf_wf hs h, fun _ _ _ h => mkMatrixStack_wf hs h, fun _ h => mkRange_wf hs h, fun _ h => mkRangeStrict_wf hs h, fun _ h => mkRangeAll_wf hs h,
      fun _ h => mkRangeAllStrict_wf hs h, fun _ h => mkMask_wf hs h, fun _ h => mkMaskStrict_wf hs h,
      fun _ h => mkMaskAll_wf hs h, fun _ h => mkMaskAllStrict_wf hs h, fun _ h => mkIndex_wf hs h,
      fun _ h => mkExpansion_wf hs h, fun _ h => mkRename_wf hs h, fun _ h => mkReverse_wf hs h,
      fun _ h => mkAccess_wf hs h, fun _ h => mkTranspose_wf hs h⟩
  · intro ss v hs
    exact ⟨fun _ hn h => mkStack_wf hs hn h, fun _ hsum h => mkChain_wf hs hsum h⟩

/-- **The main theorems over constructed views only.**  `Built v` (Spec/ViewBuilt.lean): `v` was
    obtained from `Tensor::from` / `TensorRefMatrix` over a `Matrix` by the constructors of the
    adaptors — every form, i.e. also every convenience method of `Tensor` / `TensorView`, which
    call them —, the mutators `set_names` / `source_ref_mut`, and writes through a view, with no
    hypothesis beyond the two size assumptions (containers hold at most `usize::MAX` elements).
    Every such view is well formed, hence: its shape is valid; its checked getters never panic on
    `usize` coordinates and return the documented cell; the unchecked getters agree on in-bounds
    indexes; `data_layout` and `from_memory_order` never panic; and what it hands out as sources
    is constructed-quality (well formed) again. -/
theorem constructed_views (v : View ν α) (hb : Built v) :
    v.WF ∧
    (ValidShape v.shape ∧ ∀ d ∈ v.shape, d.2 ≤ usizeMax) ∧
    (∀ idx : List Nat, idx.length = v.shape.length → (∀ i ∈ idx, i ≤ usizeMax) →
      v.get idx = .ok (v.specGet idx)) ∧
    (∀ idx, inBounds (lens v.shape) idx = true →
      ∃ c, v.getUnchecked idx = .ok c ∧ v.get idx = .ok (some c)) ∧
    (∃ l, v.layout = .ok l) ∧ (∃ r, v.fromMemoryOrder = .ok r) ∧
    (∀ s ∈ v.sources, s.WF) :=
  ⟨hb.wf, view_shape_valid v hb.wf, view_get_eq_spec v hb.wf, view_unchecked_eq_checked v hb.wf,
    (layout_never_panics v hb.wf).1, (layout_never_panics v hb.wf).2.1, View.sources_wf v hb.wf⟩

/-! ### Non-vacuity: concrete compositions meet the hypotheses

  (dimension names are numbers here: 0 = "a", 1 = "b", 2 = "c", 7 = "x", 8 = "s") -/

section Examples

/-- transpose(expand(select(reverse(mask(range(2×3×2 tensor)))))) — a depth-6 composition built
    only with the constructors -/
private def ex1 : Option (View Nat Nat) :=
  (mkTensor 1 [(0, 2), (1, 3), (2, 2)] (List.range 12)).bind fun t =>
  (t.mkRange [(1, ⟨1, 5⟩)]).bind fun r =>
  (r.mkMask [(2, ⟨0, 1⟩)]).bind fun m =>
  (m.mkReverse [0, 1]).bind fun rv =>
  (rv.mkIndex [(0, 0)]).bind fun i =>
  (i.mkExpansion [(0, 7)]).bind fun e => e.mkTranspose [2, 7, 1]

/-- … it is accepted, has the expected shape, resolves `[0, 0, 0]` to offset 11 of leaf 1 and
    rejects `[0, 0, usize::MAX]` and `[0, 2, 0]` -/
example : (ex1.map fun v => (v.shape, v.specGet [0, 0, 0], v.specGet [0, 0, usizeMax], v.specGet [0, 2, 0])) =
    some ([(7, 1), (1, 1), (2, 2)], some (1, 11), none, none) := by decide

/-- … and it satisfies the hypothesis `WF` of the theorems above -/
example : ∀ v, ex1 = some v → v.WF ∧ v.leafIds.Nodup := by
  intro v hv
  have hids : (ex1.map fun v => v.leafIds) = some [1] := by decide
  rw [hv] at hids
  simp only [Option.map_some, Option.some.injEq] at hids
  refine ⟨?_, by rw [hids]; decide⟩
  simp only [ex1, Option.bind_eq_some_iff] at hv
  obtain ⟨t, ht, r, hr, m, hm, rv, hrv, i, hi, e, he, hv⟩ := hv
  exact mkTranspose_wf (mkExpansion_wf (mkIndex_wf (mkReverse_wf (mkMask_wf (mkRange_wf
    (mkTensor_wf ht (by decide)) hr) hm) hrv) hi) he) hv

/-- a chain of a 2×2 and a 2×1 tensor along dimension 1, stacked with a copy of itself built from
    two other leaves: accepted, well formed, distinct leaves -/
private def ex2 : Option (View Nat Nat) :=
  (mkTensor 1 [(0, 2), (1, 2)] (List.range 4)).bind fun t1 =>
  (mkTensor 2 [(0, 2), (1, 1)] (List.range 2)).bind fun t2 =>
  (mkTensor 3 [(0, 2), (1, 2)] (List.range 4)).bind fun t3 =>
  (mkTensor 4 [(0, 2), (1, 1)] (List.range 2)).bind fun t4 =>
  (mkChain [t1, t2] 1).bind fun c1 => (mkChain [t3, t4] 1).bind fun c2 => mkStack [c1, c2] (0, 8)

example : (ex2.map fun v => (v.shape, v.leafIds, v.specGet [1, 1, 2], v.specGet [0, 0, 3])) =
    some ([(8, 2), (0, 2), (1, 3)], [1, 2, 3, 4], some (4, 1), none) := by decide

example : ∀ v, ex2 = some v → v.WF := by
  intro v hv
  simp only [ex2, Option.bind_eq_some_iff] at hv
  obtain ⟨t1, h1, t2, h2, t3, h3, t4, h4, c1, hc1, c2, hc2, hv⟩ := hv
  have w1 := mkTensor_wf h1 (by decide)
  have w2 := mkTensor_wf h2 (by decide)
  have w3 := mkTensor_wf h3 (by decide)
  have w4 := mkTensor_wf h4 (by decide)
  -- the size side condition of chaining: tiny sums
  have s1 : ∀ a, (chainLens (shapes [t1, t2]) a).sum ≤ usizeMax := by
    simp only [mkTensor, Tensor.tryFrom] at h1 h2
    split at h1 <;> simp at h1
    split at h2 <;> simp at h2
    subst h1 h2
    intro a
    match a with
    | 0 => decide
    | 1 => decide
    | (n + 2) => simp [chainLens, shapes, View.shape, usizeMax]
  have s2 : ∀ a, (chainLens (shapes [t3, t4]) a).sum ≤ usizeMax := by
    simp only [mkTensor, Tensor.tryFrom] at h3 h4
    split at h3 <;> simp at h3
    split at h4 <;> simp at h4
    subst h3 h4
    intro a
    match a with
    | 0 => decide
    | 1 => decide
    | (n + 2) => simp [chainLens, shapes, View.shape, usizeMax]
  have wc1 := mkChain_wf (ss := [t1, t2]) (by simp [w1, w2]) s1 hc1
  have wc2 := mkChain_wf (ss := [t3, t4]) (by simp [w3, w4]) s2 hc2
  exact mkStack_wf (ss := [c1, c2]) (by simp [wc1, wc2]) (by simp [usizeMax]) hv

/-- a transposition of a reordering of a tensor (the shape of defect #12): the repaired layout is
    `[2, 1, 0]`-named `c, v, column`, and its memory-order access is accepted -/
example :
    ((mkTensor 1 [(0, 2), (1, 2), (2, 4)] (List.range 16)).bind fun t =>
      (t.mkAccess [2, 0, 1]).bind fun a => (a.mkTranspose [0, 2, 1]).map fun v =>
        (v.shape, match v.layout with | .ok l => some l | .panic _ => none)) =
    some ([(2, 2), (0, 4), (1, 2)], some (.linear [2, 1, 0])) := by decide

/-- a reordered 2×3 tensor seen as a (column major) matrix seen as a tensor again: accepted, well
    formed, and its layout names the *column* dimension first -/
example :
    ((mkTensor 1 [(0, 2), (1, 3)] (List.range 6)).bind fun t =>
      (t.mkAccess [1, 0]).bind fun a => (a.mkMatrixOf 7 8).map fun v =>
        (v.shape, (match v.layout with | .ok l => some l | .panic _ => none), v.specGet [2, 1])) =
    some ([(7, 3), (8, 2)], some (.linear [8, 7]), some (1, 5)) := by decide

example : ∀ v, ((mkTensor 1 [(0, 2), (1, 3)] (List.range 6)).bind fun t =>
      (t.mkAccess [1, 0]).bind fun a => a.mkMatrixOf 7 8) = some v → v.WF := by
  intro v hv
  simp only [Option.bind_eq_some_iff] at hv
  obtain ⟨t, ht, a, ha, hv⟩ := hv
  exact mkMatrixOf_wf (mkAccess_wf (mkTensor_wf ht (by decide)) ha) hv

/-- a column major matrix (a reordered 3×4 tensor), ranged on both sides, seen as a tensor: the
    layout is still claimed (column dimension first) and the walk in that order is strictly
    increasing but no longer contiguous … -/
example :
    ((mkTensor 1 [(0, 3), (1, 4)] (List.range 12)).bind fun t =>
      (t.mkAccess [1, 0]).bind fun a =>
      (a.mkMatrixStack [.range ⟨1, 9⟩ ⟨0, 2⟩] 7 8).map fun v =>
        (v.shape, (match v.layout with | .ok l => some l | .panic _ => none),
         [v.specGet [0, 0], v.specGet [1, 0], v.specGet [0, 1]])) =
    some ([(7, 3), (8, 2)], some (.linear [8, 7]), [some (1, 1), some (1, 2), some (1, 5)]) := by decide

/-- … reversed in both directions it claims nothing (the seeded change C02-r3m2 made it claim
    the source's layout while the addresses go downwards) -/
example :
    ((mkTensor 1 [(0, 3), (1, 4)] (List.range 12)).bind fun t =>
      (t.mkAccess [1, 0]).bind fun a =>
      (a.mkMatrixStack [.range ⟨1, 9⟩ ⟨0, 2⟩, .reverse true true] 7 8).map fun w =>
        ((match w.layout with | .ok l => some l | .panic _ => none), [w.specGet [0, 0], w.specGet [0, 1]])) =
    some (some .other, [some (1, 7), some (1, 3)]) := by decide

/-- the depth-6 composition `ex1` is a constructed view (`Built`), so `constructed_views` speaks
    about it without any further hypothesis -/
example : ∀ v, ex1 = some v → Built v := by
  intro v h
  simp only [ex1, Option.bind_eq_some_iff] at h
  obtain ⟨t, ht, r, hr, m, hm, rv, hrv, i, hi, e, he, hv⟩ := h
  have h0 : Built t := Built.tensor ht (by decide)
  exact Built.transpose (Built.expansion (Built.index (Built.reverse (Built.mask (Built.range h0 hr) hm) hrv) hi) he) hv

/-- a sequence of writes through `ex1` (two of them at the same index, one outside the shape):
    the last value per index is read back, the rest is untouched -/
example : (ex1.bind fun v =>
    match v.writeMany [([0, 0, 0], 70), ([0, 0, 1], 71), ([0, 0, 0], 72), ([0, 9, 0], 73)] with
    | .ok v' => some ((match v'.read [0, 0, 0] with | .ok o => o | .panic _ => none),
        (match v'.read [0, 0, 1] with | .ok o => o | .panic _ => none),
        (match v'.read [0, 0, 2], v.read [0, 0, 2] with | .ok a, .ok b => a == b | _, _ => false),
        v'.shape == v.shape)
    | .panic _ => none) =
    some (some 72, some 71, true, true) := by decide

/-- a two-layer tower over a 3×4 tensor: a ranged, row-reversed matrix view of it as a tensor, and
    of that a column-reversed matrix view as a tensor again -/
example :
    ((mkTensor 1 [(0, 3), (1, 4)] (List.range 12)).bind fun t =>
      (mkTower t [([.range ⟨1, 2⟩ ⟨0, 3⟩, .reverse true false], 7, 8), ([.reverse false true], 5, 6)]).map fun v =>
        (v.shape, [v.specGet [0, 0], v.specGet [1, 2], v.specGet [2, 0]])) =
    some ([(5, 2), (6, 3)], [some (1, 10), some (1, 4), none]) := by decide

/-- the legacy formula (unchanged tree) claims `[1, 0, 2]` for the same view: defect #12 -/
example : mapLinearDataLayoutToTransposedLegacy
    { sourceToRequested := [1, 0, 2], requestedToSource := [1, 0, 2] } [0, 1, 2] = [1, 0, 2] := by
  decide

end Examples

end EasyMl.C02
