/-
  EasyMl.Props.C02 — property theorems for C02 (work in progress).
-/
import EasyMl.Spec.View

namespace EasyMl.C02
end EasyMl.C02
