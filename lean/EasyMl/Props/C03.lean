/-
  EasyMl.Props.C03 — property theorems for C03 (tensor and matrix arithmetic equals the textbook
  result for every operand form).

  Only property statements (and their non-vacuity examples) live here; helper lemmas are in
  EasyMl/Lemmas/Arith.lean and EasyMl/Lemmas/ArithMatrix.lean.  Every theorem is about the very
  definitions the `emlmodel` driver executes against the implementation (EasyMl/Model/Arith.lean).

  Reading guide.  An operand is a `Tensor` (read by the code in flat storage order) or a view (read
  in `ShapeIterator` order through `get_reference`); `Operand.WF` says it is a tensor `Tensor::from`
  can have produced, resp. a view meeting the `TensorRef` contract.  Ownership forms do not exist
  in the model; the correspondence runs all 16 forms against the model's single answer.
  The element type is arbitrary: the statements hold "in the element type's own arithmetic".
-/
import EasyMl.Lemmas.ArithMatrix
import EasyMl.Lemmas.ShapeIter
import EasyMl.Lemmas.ArithViews
import EasyMl.Lemmas.ArithChecked

namespace EasyMl.C03
open EasyMl
open EasyMl.Arith EasyMl.Spec

set_option linter.unusedSectionVars false

variable {ν : Type} [DecidableEq ν] {α : Type}

/-! ### Iteration order -/

/-- The index order the model uses for view operands (`viewIndices`, the row-major product of the
    ranges) is the order the `ShapeIterator` odometer of the code yields (its code-shaped model
    `shapeIndexes`, whose carry loop C09/C13 verify and tie to the code). -/
theorem viewIndices_eq_shapeIterator (lens : List Nat) : viewIndices lens = shapeIndexes lens := by
  rw [shapeIndexes_eq_allIndexes]
  induction lens with
  | nil => rfl
  | cons l ls ih => simp only [viewIndices, allIndexes, ih]

/-! ### Elementwise operations on tensors and tensor views -/

/-- The `direct_iter_reference` shortcut is sound: the flat storage order of a `Tensor` is its
    view (`ShapeIterator`) order, so container and view operands are read alike. -/
theorem direct_iter_eq_view_order (t : Tensor ν α) (ht : Tensor.Valid t) :
    (Operand.tensor t).seq = (Operand.tensor t).asView.elems :=
  (Operand.WF.seq_eq (o := .tensor t) ht)

/-- `(A ⊕ B)[idx] = A[idx] ⊕ B[idx]` for every index tuple of every shape (any dimensionality),
    for container and view operands alike; outside the shape there is no element on either side.
    (`op` is `+`, `-`, or the closure given to `elementwise*`.) -/
theorem elementwise_get (op : α → α → α) (l r : Operand ν α) (hl : l.WF) (hr : r.WF)
    (hs : l.shape = r.shape) :
    ∃ t, elementwise op l r = .ok t ∧ t.shape = l.shape ∧
      ∀ idx, idx.length = l.shape.length →
        t.get idx = (match l.asView.get idx, r.asView.get idx with
                     | some a, some b => some (op a b)
                     | _, _ => none) := by
  have hlen : (List.zipWith op l.seq r.seq).length = elements l.shape := by
    rw [List.length_zipWith, hl.seq_length, hr.seq_length, hs]; simp
  refine ⟨Tensor.mk (List.zipWith op l.seq r.seq) l.shape (computeStrides l.shape), ?_, rfl, ?_⟩
  · unfold elementwise
    rw [if_pos hs, tensorFrom_eq_ok _ _ hlen hl.validShape]
  · intro idx hidx
    have hv : Tensor.Valid (Tensor.mk (List.zipWith op l.seq r.seq) l.shape
        (computeStrides l.shape)) := ⟨rfl, hlen, hl.validShape⟩
    rw [hv.get_eq idx hidx]
    by_cases hb : inBounds (l.shape.map (·.2)) idx = true
    · simp only [hb, if_true, List.getElem?_zipWith]
      rw [hl.seq_getElem? idx hb]
      have hb' : inBounds (r.shape.map (·.2)) idx = true := by rw [← hs]; exact hb
      have := hr.seq_getElem? idx hb'
      rw [← hs] at this
      rw [this]
      cases l.asView.get idx <;> cases r.asView.get idx <;> rfl
    · have hb' : inBounds (l.shape.map (·.2)) idx = false := by simpa using hb
      simp only [hb', Bool.false_eq_true, if_false]
      have := hl.asView.none_of_not idx (by rw [Operand.asView_shape]; exact hidx)
        (by simpa [Arith.TView.lens, Operand.asView_shape] using hb')
      rw [this]

/-- Scalar broadcasts `tensor ⊕ s` (`⊕ ∈ {+,-,*,/}`): every element is combined with the scalar,
    the shape is kept. -/
theorem scalarOp_get (op : α → α → α) (x : Operand ν α) (s : α) (hx : x.WF) :
    ∃ t, scalarOp op x s = .ok t ∧ t.shape = x.shape ∧
      ∀ idx, idx.length = x.shape.length → t.get idx = (x.asView.get idx).map (op · s) := by
  have hlen : (x.seq.map (op · s)).length = elements x.shape := by
    rw [List.length_map, hx.seq_length]
  have hv : Tensor.Valid (Tensor.mk (x.seq.map (op · s)) x.shape (computeStrides x.shape)) :=
    ⟨rfl, hlen, hx.validShape⟩
  refine ⟨Tensor.mk (x.seq.map (op · s)) x.shape (computeStrides x.shape), ?_, rfl, ?_⟩
  · cases x with
    | tensor t =>
      have ht : Tensor.Valid t := hx
      simp only [scalarOp, mapOperand, Operand.seq, Operand.shape]
      rw [← ht.strides]
    | view v =>
      simp only [scalarOp, mapOperand]
      exact tensorFrom_eq_ok _ _ hlen hx.validShape
  · intro idx hidx
    rw [hv.get_eq idx hidx]
    by_cases hb : inBounds (x.shape.map (·.2)) idx = true
    · simp only [hb, if_true, List.getElem?_map]
      rw [hx.seq_getElem? idx hb]
    · have hb' : inBounds (x.shape.map (·.2)) idx = false := by simpa using hb
      simp only [hb', Bool.false_eq_true, if_false]
      have := hx.asView.none_of_not idx (by rw [Operand.asView_shape]; exact hidx)
        (by simpa [Arith.TView.lens, Operand.asView_shape] using hb')
      rw [this]; rfl

/-- `scalar_product` of two 1-dimensional operands with the same dimension:
    `a₀·b₀ + a₁·b₁ + … ` folded from the left starting at the first product. -/
theorem vectorProduct_eq_sum [Add α] [Mul α] (l r : Operand ν α) (hl : l.WF) (hr : r.WF)
    (s : ν) (n : Nat) (hls : l.shape = [(s, n + 1)]) (hrs : r.shape = [(s, n + 1)])
    (a b : Nat → α) (ha : ∀ p, p < n + 1 → l.asView.get [p] = some (a p))
    (hb : ∀ p, p < n + 1 → r.asView.get [p] = some (b p)) :
    vectorProduct l r = .ok (leftSum (fun p => a p * b p) n) := by
  have hseq : ∀ (o : Operand ν α) (c : Nat → α), o.WF → o.shape = [(s, n + 1)] →
      (∀ p, p < n + 1 → o.asView.get [p] = some (c p)) → o.seq = (List.range (n + 1)).map c := by
    intro o c ho hos hc
    rw [ho.seq_eq]
    have : o.asView = ⟨[(s, n + 1)], o.asView.get⟩ := by
      have := Operand.asView_shape o
      rw [hos] at this
      cases h : o.asView with
      | mk sh g => rw [h] at this; simp only at this; rw [this]
    rw [this, elems_one]
    exact filterMap_range_some (n + 1) _ c hc
  unfold vectorProduct
  rw [if_pos (by rw [hls, hrs])]
  simp only [hls, hrs, if_true]
  rw [hseq l a hl hls ha, hseq r b hr hrs hb, scalarProduct_range]

/-! ### Matrix multiplication of 2-dimensional tensors -/

/-- `M×N · N×L = M×L`, carrying the left operand's row name and the right operand's column name
    (holds whenever the product returns, for any operands). -/
theorem matMul_shape [Add α] [Mul α] [Zero α] (l r : Arith.TView ν α) (t : Tensor ν α)
    (h : matMul l r = .ok t) :
    ∃ l0 l1 r0 r1, l.shape = [l0, l1] ∧ r.shape = [r0, r1] ∧ l1.2 = r0.2 ∧
      t.shape = [(l0.1, l0.2), (r1.1, r1.2)] := by
  unfold matMul at h
  split at h
  · rename_i l0 l1 r0 r1 hl hr
    refine ⟨l0, l1, r0, r1, hl, hr, ?_⟩
    split at h
    · rename_i hin
      refine ⟨hin, ?_⟩
      split at h
      · cases h
      · split at h
        · cases h
        · rename_i t0 ht0
          split at h
          · cases h
          · cases h
            unfold tensorFrom at ht0
            split at ht0
            · rename_i t1 ht1
              cases ht0
              exact (tryFrom_valid ht1).2.1
            · cases ht0
    · cases h
  · cases h

/-- `(A·B)[i,j] = A[i,0]·B[0,j] + A[i,1]·B[1,j] + … + A[i,N-1]·B[N-1,j]`, summed from the left
    starting at the first product (no zero is added), in the element type's own `+` and `*`
    (no algebraic law is used: any type with the two operations). -/
theorem matMul_get_eq_sum [Add α] [Mul α] [Zero α] (l r : Arith.TView ν α) (hl : l.WF) (hr : r.WF)
    {a b c d : ν} {m n k : Nat}
    (hls : l.shape = [(a, m), (b, n + 1)]) (hrs : r.shape = [(c, n + 1), (d, k)]) (had : a ≠ d)
    (A B : Nat → Nat → α) (hA : l.HasEntries m (n + 1) A) (hB : r.HasEntries (n + 1) k B) :
    ∃ t, matMul l r = .ok t ∧ t.shape = [(a, m), (d, k)] ∧
      ∀ i j, i < m → j < k → t.get [i, j] = some (leftSum (fun p => A i p * B p j) n) := by
  have hm : 1 ≤ m := hl.shape.2 (a, m) (by simp [hls])
  have hk : 1 ≤ k := hr.shape.2 (d, k) (by simp [hrs])
  have hcd : c ≠ d := by
    have := hr.shape.1
    simp only [hrs, List.map_cons, List.map_nil, List.nodup_cons, List.mem_cons,
      List.not_mem_nil, or_false] at this
    exact this.1
  refine ⟨_, matMul_eq hls hrs hcd had hm hk hA hB, rfl, ?_⟩
  intro i j hi hj
  have hv : Tensor.Valid (Tensor.mk
      ((List.range m).flatMap fun i => (List.range k).map fun j => leftSum (fun p => A i p * B p j) n)
      [(a, m), (d, k)] (computeStrides [(a, m), (d, k)])) := by
    refine ⟨rfl, ?_, ?_⟩
    · simp
    · constructor
      · simp [had]
      · intro x hx
        simp only [List.mem_cons, List.not_mem_nil, or_false] at hx
        rcases hx with rfl | rfl <;> assumption
  rw [hv.get_eq [i, j] rfl]
  have hb : inBounds [m, k] [i, j] = true := by simp [inBounds, hi, hj]
  simp only [List.map_cons, List.map_nil, hb, if_true]
  have : ravel [m, k] [i, j] = i * k + j := by simp [ravel]
  rw [this, table_getElem? m k _ i j hi hj]

/-- Over a (commutative) semiring the model's product is Mathlib's `Matrix` product:
    `(A·B) i j = ∑ p, A i p * B p j` (`Matrix.mul_apply`).  Only `+` being a commutative monoid
    is needed to reorder the left fold into the `Finset` sum. -/
theorem matMul_eq_Matrix_mul {R : Type} [Semiring R] (l r : Arith.TView ν R) (hl : l.WF) (hr : r.WF)
    {a b c d : ν} {m n k : Nat}
    (hls : l.shape = [(a, m), (b, n + 1)]) (hrs : r.shape = [(c, n + 1), (d, k)]) (had : a ≠ d)
    (A : _root_.Matrix (Fin m) (Fin (n + 1)) R) (B : _root_.Matrix (Fin (n + 1)) (Fin k) R)
    (hA : ∀ (i : Fin m) (p : Fin (n + 1)), l.get [i.val, p.val] = some (A i p))
    (hB : ∀ (p : Fin (n + 1)) (j : Fin k), r.get [p.val, j.val] = some (B p j)) :
    ∃ t, matMul l r = .ok t ∧ t.shape = [(a, m), (d, k)] ∧
      ∀ (i : Fin m) (j : Fin k), t.get [i.val, j.val] = some ((A * B) i j) := by
  classical
  let A' : Nat → Nat → R := fun i p => if h : i < m ∧ p < n + 1 then A ⟨i, h.1⟩ ⟨p, h.2⟩ else 0
  let B' : Nat → Nat → R := fun p j => if h : p < n + 1 ∧ j < k then B ⟨p, h.1⟩ ⟨j, h.2⟩ else 0
  have hA' : l.HasEntries m (n + 1) A' := by
    intro i p hi hp
    simp only [A', hi, hp, and_self, dif_pos]
    exact hA ⟨i, hi⟩ ⟨p, hp⟩
  have hB' : r.HasEntries (n + 1) k B' := by
    intro p j hp hj
    simp only [B', hp, hj, and_self, dif_pos]
    exact hB ⟨p, hp⟩ ⟨j, hj⟩
  obtain ⟨t, ht, hts, hget⟩ := matMul_get_eq_sum l r hl hr hls hrs had A' B' hA' hB'
  refine ⟨t, ht, hts, ?_⟩
  intro i j
  rw [hget i.val j.val i.isLt j.isLt, Matrix.mul_apply]
  congr 1
  apply leftSum_eq_sum_fin
  intro p
  simp only [A', B', i.isLt, p.isLt, j.isLt, and_self, dif_pos]

/-! ### Rejections -/

/-- The model panics exactly on the documented mismatches (and then with the library's own
    `panic!`), for well-formed operands:
    * elementwise `+`/`-`/`elementwise*`: the shapes differ (a name, the name order or a length);
    * `scalar_product`: the (1-dimensional) shapes differ;
    * matrix product of 2-dimensional tensors: the inner lengths differ, or the result's two
      names (left row name, right column name) collide. -/
theorem ops_reject_iff [Add α] [Mul α] [Zero α] :
    (∀ (op : α → α → α) (l r : Operand ν α), l.WF → r.WF →
      ((∃ k, elementwise op l r = .panic k) ↔ l.shape ≠ r.shape) ∧
      (∀ k, elementwise op l r = .panic k → k = .explicit)) ∧
    (∀ (l r : Operand ν α) (dl dr : ν × Nat), l.WF → r.WF → l.shape = [dl] → r.shape = [dr] →
      ((∃ k, vectorProduct l r = .panic k) ↔ l.shape ≠ r.shape) ∧
      (∀ k, vectorProduct l r = .panic k → k = .explicit)) ∧
    (∀ (l r : Arith.TView ν α) (l0 l1 r0 r1 : ν × Nat), l.WF → r.WF → l.shape = [l0, l1] →
      r.shape = [r0, r1] →
      ((∃ k, matMul l r = .panic k) ↔ (l1.2 ≠ r0.2 ∨ l0.1 = r1.1)) ∧
      (∀ k, matMul l r = .panic k → k = .explicit)) := by
  refine ⟨?_, ?_, ?_⟩
  · intro op l r hl hr
    by_cases hs : l.shape = r.shape
    · obtain ⟨t, ht, _⟩ := elementwise_get op l r hl hr hs
      simp [ht, hs]
    · have : elementwise op l r = .panic .explicit := by unfold elementwise; rw [if_neg hs]
      simp [this, hs]
  · intro l r dl dr hl hr hls hrs
    by_cases hs : l.shape = r.shape
    · have hd : dl = dr := by rw [hls, hrs] at hs; simpa using hs
      subst hd
      obtain ⟨s, n⟩ := dl
      have hn : 1 ≤ n := hl.validShape.2 (s, n) (by simp [hls])
      obtain ⟨n', rfl⟩ : ∃ n', n = n' + 1 := ⟨n - 1, by omega⟩
      -- tables of entries exist because the operands are well formed
      have hex : ∀ o : Operand ν α, o.WF → o.shape = [(s, n' + 1)] →
          ∃ c : Nat → α, ∀ p, p < n' + 1 → o.asView.get [p] = some (c p) := by
        intro o ho hos
        have h0 := ho.asView.some_of_inBounds [0]
          (by simp [Arith.TView.lens, Operand.asView_shape, hos, inBounds])
        obtain ⟨x, _⟩ := Option.isSome_iff_exists.1 h0
        refine ⟨fun p => (o.asView.get [p]).getD x, ?_⟩
        intro p hp
        have := ho.asView.some_of_inBounds [p]
          (by simp [Arith.TView.lens, Operand.asView_shape, hos, inBounds, hp])
        obtain ⟨y, hy⟩ := Option.isSome_iff_exists.1 this
        simp [hy]
      obtain ⟨a, ha⟩ := hex l hl hls
      obtain ⟨b, hb⟩ := hex r hr hrs
      have := vectorProduct_eq_sum l r hl hr s n' hls hrs a b ha hb
      simp [this, hs]
    · have : vectorProduct l r = .panic .explicit := by unfold vectorProduct; rw [if_neg hs]
      simp [this, hs]
  · intro l r l0 l1 r0 r1 hl hr hls hrs
    by_cases hin : l1.2 = r0.2
    · by_cases hcol : l0.1 = r1.1
      · have : matMul l r = .panic .explicit := by
          simp only [matMul, hls, hrs, hin, if_true, hcol]
        simp [this, hcol]
      · obtain ⟨a, m⟩ := l0
        obtain ⟨b, n⟩ := l1
        obtain ⟨c, n2⟩ := r0
        obtain ⟨d, k⟩ := r1
        simp only at hin hcol
        subst hin
        have hn : 1 ≤ n := hl.shape.2 (b, n) (by simp [hls])
        obtain ⟨n', rfl⟩ : ∃ n', n = n' + 1 := ⟨n - 1, by omega⟩
        obtain ⟨A, hA⟩ := hl.exists_entries hls
        obtain ⟨B, hB⟩ := hr.exists_entries hrs
        obtain ⟨t, ht, _⟩ := matMul_get_eq_sum l r hl hr hls hrs hcol A B hA hB
        simp [ht, hcol]
    · have : matMul l r = .panic .explicit := by
        simp only [matMul, hls, hrs, hin, if_false]
      simp [this, hin]

/-! ### Matrices and matrix views -/

/-- Elementwise `+`/`-` of matrices and matrix views: `(A ⊕ B)[i,j] = A[i,j] ⊕ B[i,j]`, same
    size; rejected (with the library's own panic) exactly when the sizes differ. -/
theorem mElementwise_get (op : α → α → α) (l r : MOperand α) (hl : l.WF) (hr : r.WF) :
    (l.size = r.size →
      ∃ M, mElementwise op l r = .ok M ∧ (M.rows, M.columns) = l.size ∧
        ∀ i j, M.tryGet i j = (match l.asView.get i j, r.asView.get i j with
                               | some a, some b => some (op a b)
                               | _, _ => none)) ∧
    (l.size ≠ r.size → mElementwise op l r = .panic .explicit) := by
  constructor
  · intro hs
    have hlen : (List.zipWith op l.seq r.seq).length = l.size.1 * l.size.2 := by
      rw [List.length_zipWith, hl.seq_length, hr.seq_length, hs]; simp
    have hlv := hl.asView
    have hl1 : l.asView.rows = l.size.1 := congrArg Prod.fst (MOperand.asView_size l)
    have hl2 : l.asView.columns = l.size.2 := congrArg Prod.snd (MOperand.asView_size l)
    have hr1 : r.asView.rows = r.size.1 := congrArg Prod.fst (MOperand.asView_size r)
    have hr2 : r.asView.columns = r.size.2 := congrArg Prod.snd (MOperand.asView_size r)
    have hpos1 : 1 ≤ l.size.1 := by rw [← hl1]; exact hlv.rows_pos
    have hpos2 : 1 ≤ l.size.2 := by rw [← hl2]; exact hlv.cols_pos
    have hne : List.zipWith op l.seq r.seq ≠ [] := by
      intro h
      rw [h] at hlen
      have : 1 ≤ l.size.1 * l.size.2 := Nat.mul_le_mul hpos1 hpos2
      simp at hlen
      omega
    refine ⟨⟨List.zipWith op l.seq r.seq, l.size.1, l.size.2⟩, ?_, rfl, ?_⟩
    · unfold mElementwise
      rw [if_pos hs, matrixFromFlat_eq_ok _ _ hlen.symm hne]
    · intro i j
      rw [Matrix.tryGet_eq]
      simp only
      by_cases hij : i < l.size.1 ∧ j < l.size.2
      · rw [if_pos hij, List.getElem?_zipWith, hl.seq_getElem? i j hij.1 hij.2]
        have := hr.seq_getElem? i j (by rw [← hs]; exact hij.1) (by rw [← hs]; exact hij.2)
        rw [← hs] at this
        rw [this]
        cases l.asView.get i j <;> cases r.asView.get i j <;> rfl
      · rw [if_neg hij]
        have := hlv.none_of_not i j (by rw [hl1, hl2]; exact hij)
        rw [this]
  · intro hs
    unfold mElementwise
    rw [if_neg hs]

/-- `map`-based operations on matrices and matrix views — negation and the scalar broadcasts
    `+ - * /` — apply the function to every element and keep the size. -/
theorem mMap_get (f : α → α) (x : MOperand α) (hx : x.WF) :
    ∃ M, mMap f x = .ok M ∧ (M.rows, M.columns) = x.size ∧
      ∀ i j, M.tryGet i j = (x.asView.get i j).map f := by
  have hlen : (x.seq.map f).length = x.size.1 * x.size.2 := by
    rw [List.length_map, hx.seq_length]
  have hxv := hx.asView
  have h1 : x.asView.rows = x.size.1 := congrArg Prod.fst (MOperand.asView_size x)
  have h2 : x.asView.columns = x.size.2 := congrArg Prod.snd (MOperand.asView_size x)
  have hpos1 : 1 ≤ x.size.1 := by rw [← h1]; exact hxv.rows_pos
  have hpos2 : 1 ≤ x.size.2 := by rw [← h2]; exact hxv.cols_pos
  have hne : x.seq.map f ≠ [] := by
    intro h
    rw [h] at hlen
    have : 1 ≤ x.size.1 * x.size.2 := Nat.mul_le_mul hpos1 hpos2
    simp at hlen
    omega
  refine ⟨⟨x.seq.map f, x.size.1, x.size.2⟩, ?_, rfl, ?_⟩
  · unfold mMap
    rw [matrixFromFlat_eq_ok _ _ hlen.symm hne]
  · intro i j
    rw [Matrix.tryGet_eq]
    simp only
    by_cases hij : i < x.size.1 ∧ j < x.size.2
    · rw [if_pos hij, List.getElem?_map, hx.seq_getElem? i j hij.1 hij.2]
    · rw [if_neg hij, hxv.none_of_not i j (by rw [h1, h2]; exact hij)]
      rfl

/-- Negation: `(-A)[i,j] = -(A[i,j])`. -/
theorem mNeg_get [Neg α] (x : MOperand α) (hx : x.WF) :
    ∃ M, mNeg x = .ok M ∧ (M.rows, M.columns) = x.size ∧
      ∀ i j, M.tryGet i j = (x.asView.get i j).map (fun e => -e) :=
  mMap_get _ x hx

/-- Scalar broadcasts on matrices: `(A ⊕ s)[i,j] = A[i,j] ⊕ s`. -/
theorem mScalarOp_get (op : α → α → α) (x : MOperand α) (s : α) (hx : x.WF) :
    ∃ M, mScalarOp op x s = .ok M ∧ (M.rows, M.columns) = x.size ∧
      ∀ i j, M.tryGet i j = (x.asView.get i j).map (op · s) :=
  mMap_get _ x hx

/-- Matrix multiplication of matrices and matrix views: `L×(N+1) · (N+1)×K = L×K` with
    `(A·B)[i,j] = Σ_p A[i,p]·B[p,j]` folded from the left; rejected exactly when the inner sizes
    differ. -/
theorem mMatMul_get_eq_sum [Add α] [Mul α] [Zero α] (l r : MView α) (hl : l.WF) (hr : r.WF) :
    (∀ n, l.columns = n + 1 → r.rows = n + 1 →
      ∀ A B : Nat → Nat → α, l.HasEntries A → r.HasEntries B →
      ∃ M, mMatMul l r = .ok M ∧ M.rows = l.rows ∧ M.columns = r.columns ∧
        ∀ i j, i < l.rows → j < r.columns →
          M.tryGet i j = some (leftSum (fun p => A i p * B p j) n)) ∧
    (l.columns ≠ r.rows → mMatMul l r = .panic .explicit) := by
  constructor
  · intro n hln hrn A B hA hB
    refine ⟨_, mMatMul_eq hln hrn hl.rows_pos hr.cols_pos hA hB, rfl, rfl, ?_⟩
    intro i j hi hj
    rw [Matrix.tryGet_eq]
    simp only
    rw [if_pos ⟨hi, hj⟩, table_getElem? _ _ _ i j hi hj]
  · intro h
    unfold mMatMul
    rw [if_neg h]


/-! ### The tensor and the matrix API agree -/

/-- Same data through the tensor API and through the matrix API: elementwise operations and the
    matrix product produce the same row-major table, with the same lengths / size. -/
theorem tensor_matrix_agree [Add α] [Mul α] [Zero α]
    (t1 t2 : Arith.TView ν α) (m1 m2 : MView α) (ht1 : t1.WF) (ht2 : t2.WF) (hm1 : m1.WF) (hm2 : m2.WF)
    {a1 b1 a2 b2 : ν} (h1 : SameTable t1 m1 a1 b1) (h2 : SameTable t2 m2 a2 b2) :
    (∀ op : α → α → α, t1.shape = t2.shape →
      ∃ t M, elementwise op (.view t1) (.view t2) = .ok t ∧
        mElementwise op (.view m1) (.view m2) = .ok M ∧ M.data = t.data ∧
        t.shape.map (·.2) = [M.rows, M.columns]) ∧
    (m1.columns = m2.rows → a1 ≠ b2 →
      ∃ t M, matMul t1 t2 = .ok t ∧ mMatMul m1 m2 = .ok M ∧ M.data = t.data ∧
        t.shape.map (·.2) = [M.rows, M.columns]) := by
  constructor
  · intro op hs
    have hsz : m1.rows = m2.rows ∧ m1.columns = m2.columns := by
      rw [h1.shape, h2.shape] at hs
      simp only [List.cons.injEq, Prod.mk.injEq, and_true] at hs
      exact ⟨hs.1.2, hs.2.2⟩
    have hsize : (MOperand.view m1).size = (MOperand.view m2).size := by
      simp [MOperand.size, hsz.1, hsz.2]
    have e1 := h1.elems_eq ht1 hm1
    have e2 := h2.elems_eq ht2 hm2
    have hlenT : (List.zipWith op t1.elems t2.elems).length = elements t1.shape := by
      rw [List.length_zipWith, ht1.elems_length, ht2.elems_length, hs]; simp
    have hlenM : m1.rows * m1.columns = (List.zipWith op m1.elems m2.elems).length := by
      rw [List.length_zipWith, hm1.elems_length, hm2.elems_length, hsz.1, hsz.2]; simp
    have hne : List.zipWith op m1.elems m2.elems ≠ [] := by
      intro h
      have hpos : 1 ≤ m1.rows * m1.columns := Nat.mul_le_mul hm1.rows_pos hm1.cols_pos
      rw [hlenM, h] at hpos
      simp at hpos
    refine ⟨Tensor.mk (List.zipWith op t1.elems t2.elems) t1.shape (computeStrides t1.shape),
      ⟨List.zipWith op m1.elems m2.elems, m1.rows, m1.columns⟩, ?_, ?_, ?_, ?_⟩
    · unfold elementwise
      rw [if_pos (show (Operand.view t1).shape = (Operand.view t2).shape from hs)]
      exact tensorFrom_eq_ok _ _ hlenT ht1.shape
    · unfold mElementwise
      rw [if_pos hsize]
      exact matrixFromFlat_eq_ok (m1.rows, m1.columns) _ hlenM hne
    · simp only [e1, e2]
    · simp [h1.shape]
  · intro hin hne
    obtain ⟨n, hn⟩ : ∃ n, m1.columns = n + 1 := ⟨m1.columns - 1, by have := hm1.cols_pos; omega⟩
    obtain ⟨A, hA⟩ := hm1.exists_entries
    obtain ⟨B, hB⟩ := hm2.exists_entries
    have hn2 : m2.rows = n + 1 := by rw [← hin]; exact hn
    have hs1 : t1.shape = [(a1, m1.rows), (b1, n + 1)] := by rw [h1.shape, hn]
    have hs2 : t2.shape = [(a2, n + 1), (b2, m2.columns)] := by rw [h2.shape, hn2]
    have hA' : t1.HasEntries m1.rows (n + 1) A := by
      intro i j hi hj
      rw [h1.get]
      exact hA i j hi (by omega)
    have hB' : t2.HasEntries (n + 1) m2.columns B := by
      intro i j hi hj
      rw [h2.get]
      exact hB i j (by omega) hj
    have hcd : a2 ≠ b2 := by
      have := ht2.shape.1
      simp only [h2.shape, List.map_cons, List.map_nil, List.nodup_cons, List.mem_cons,
        List.not_mem_nil, or_false] at this
      exact this.1
    refine ⟨_, _, matMul_eq hs1 hs2 hcd hne hm1.rows_pos hm2.cols_pos hA' hB',
      mMatMul_eq hn hn2 hm1.rows_pos hm2.cols_pos hA hB, rfl, ?_⟩
    simp

/-- `MatrixRefTensor`: a well-formed 2-dimensional tensor view seen through the matrix API is a
    well-formed matrix view showing the same table (whatever the iteration / storage order of the
    tensor view, e.g. a `TensorAccess` in swapped dimension order whose `data_layout` is
    column-major) — so `mElementwise_get`, `mMap_get` (negation, scalar broadcasts, `map`),
    `mMatMul_get_eq_sum` and `tensor_matrix_agree` apply to it. -/
theorem tensor_view_as_matrix_view (v : Arith.TView ν α) (hv : v.WF) {a b : ν} {r c : Nat}
    (hs : v.shape = [(a, r), (b, c)]) :
    ∃ mv, MView.ofTView v = some mv ∧ mv.WF ∧ mv.rows = r ∧ mv.columns = c ∧ SameTable v mv a b := by
  refine ⟨⟨r, c, fun i j => v.get [i, j]⟩, by simp [MView.ofTView, hs], ?_, rfl, rfl, ⟨hs, fun _ _ => rfl⟩⟩
  refine ⟨hv.shape.2 (a, r) (by simp [hs]), hv.shape.2 (b, c) (by simp [hs]), ?_, ?_⟩
  · intro i j hi hj
    exact hv.some_of_inBounds [i, j] (by simp [Arith.TView.lens, hs, inBounds, hi, hj])
  · intro i j hn
    apply hv.none_of_not [i, j] (by simp [hs])
    simp only [Arith.TView.lens, hs, List.map_cons, List.map_nil, inBounds, Bool.and_true]
    by_cases hi : i < r
    · have hj : ¬ j < c := fun hj => hn ⟨hi, hj⟩
      simp [hj]
    · simp [hi]

/-! ### Euclidean length -/

/-- `Matrix::euclidean_length` of a row or column vector with entries `x₀ … xₙ` is
    `sqrt(x₀² + … + xₙ²)` (the squares summed from the left by the 1×1 matrix product the code
    forms with the transposed vector); a matrix that is neither is rejected.
    (`Tensor::euclidean_length` is by definition `sqrt` of the left-folded sum of squares.) -/
theorem euclidean_length_eq [Add α] [Mul α] [Zero α] [RealFns α] (m : Matrix α)
    (n : Nat) (X : Nat → α) (hX : ∀ k, k ≤ n → m.data[k]? = some (X k)) :
    (m.columns = 1 → m.rows = n + 1 →
      matrixEuclideanLength m = .ok (RealFns.sqrt (leftSum (fun k => X k * X k) n))) ∧
    (m.rows = 1 → m.columns = n + 1 →
      matrixEuclideanLength m = .ok (RealFns.sqrt (leftSum (fun k => X k * X k) n))) ∧
    (m.rows ≠ 1 → m.columns ≠ 1 → matrixEuclideanLength m = .panic .explicit) := by
  refine ⟨?_, ?_, ?_⟩
  · intro hc hr
    have hget : ∀ k, k < n + 1 → m.tryGet k 0 = some (X k) := by
      intro k hk
      rw [Matrix.tryGet_eq, if_pos ⟨by omega, by omega⟩, hc]
      simpa using hX k (by omega)
    have h := mMatMul_eq (l := ⟨1, m.rows, fun _ c => m.tryGet c 0⟩) (r := MView.ofMatrix m)
      (n := n) (A := fun _ p => X p) (B := fun p _ => X p) hr hr (Nat.le_refl 1)
      (by show 1 ≤ m.columns; omega)
      (by intro i j _ hj; exact hget j (by simpa [hr] using hj))
      (by intro i j hi hj
          have hj' : j = 0 := by have : j < m.columns := hj; omega
          subst hj'
          exact hget i (by have : i < m.rows := hi; omega))
    unfold matrixEuclideanLength
    rw [if_pos hc, h]
    simp [MView.ofMatrix, hc]
  · intro hr hc
    have hget : ∀ k, k < n + 1 → m.tryGet 0 k = some (X k) := by
      intro k hk
      rw [Matrix.tryGet_eq, if_pos ⟨by omega, by omega⟩]
      simpa using hX k (by omega)
    have h := mMatMul_eq (l := MView.ofMatrix m) (r := ⟨m.columns, 1, fun r _ => m.tryGet 0 r⟩)
      (n := n) (A := fun _ p => X p) (B := fun p _ => X p) hc hc
      (by show 1 ≤ m.rows; omega) (Nat.le_refl 1)
      (by intro i j hi hj
          have hi' : i = 0 := by have : i < m.rows := hi; omega
          subst hi'
          exact hget j (by have : j < m.columns := hj; omega))
      (by intro i j hi _; exact hget i (by simpa [hc] using hi))
    unfold matrixEuclideanLength
    by_cases hc1 : m.columns = 1
    · -- 1×1: the column-vector branch is taken; same value
      have hn : n = 0 := by omega
      subst hn
      have := (show _ from hget 0 (by omega))
      have h' := mMatMul_eq (l := ⟨1, m.rows, fun _ c => m.tryGet c 0⟩) (r := MView.ofMatrix m)
        (n := 0) (A := fun _ p => X p) (B := fun p _ => X p) hr hr (Nat.le_refl 1)
        (by show 1 ≤ m.columns; omega)
        (by intro i j _ hj
            have hj' : j = 0 := by have : j < m.rows := hj; omega
            subst hj'; exact this)
        (by intro i j hi hj
            have hi' : i = 0 := by have : i < m.rows := hi; omega
            have hj' : j = 0 := by have : j < m.columns := hj; omega
            subst hi'; subst hj'; exact this)
      rw [if_pos hc1, h']
      simp [MView.ofMatrix, hc1]
    · rw [if_neg hc1, if_pos hr, h]
      simp [MView.ofMatrix, hr]
  · intro hr hc
    unfold matrixEuclideanLength
    rw [if_neg hc, if_neg hr]

/-- a concrete 1×3 row vector meets the hypotheses -/
example : ∀ k, k ≤ 2 → (⟨[3, 4, 12], 1, 3⟩ : Matrix Int).data[k]? = some (([3, 4, 12] : List Int).getD k 0) := by
  intro k hk
  match k, hk with
  | 0, _ => rfl
  | 1, _ => rfl
  | 2, _ => rfl

/-! ### Operators over views = operators over the materialised tensors -/

/-- **Every operator sees a view operand only through what it shows.**  For well-formed views
    (in particular for every well-formed composition of the library's adaptors,
    `library_views_are_operands`), elementwise operations, scalar broadcasts, `scalar_product` and
    the matrix product give the same outcome on the lazy views as on the tensors obtained by
    collecting them (`materialise`: shape + elements in iteration order) — value, shape and
    rejection alike; and the matrix product gives the same outcome on any two views that show the
    same shape and elements (`TView.Same`), whatever their memory layout. -/
theorem operators_over_views_eq_materialised [Add α] [Mul α] [Zero α]
    (l r : Arith.TView ν α) (hl : l.WF) (hr : r.WF) :
    (∀ op : α → α → α, elementwise op (.view l) (.view r)
        = elementwise op (.tensor l.materialise) (.tensor r.materialise)) ∧
    (∀ (op : α → α → α) (s : α), scalarOp op (.view l) s = scalarOp op (.tensor l.materialise) s) ∧
    vectorProduct (.view l) (.view r) = vectorProduct (.tensor l.materialise) (.tensor r.materialise) ∧
    matMul l r = matMul (Arith.TView.ofTensor l.materialise) (Arith.TView.ofTensor r.materialise) ∧
    (∀ l' r' : Arith.TView ν α, Arith.TView.Same l l' → Arith.TView.Same r r' → matMul l r = matMul l' r') := by
  refine ⟨fun _ => rfl, ?_, rfl, matMul_congr hl hr hl.materialise_same hr.materialise_same,
    fun l' r' h1 h2 => matMul_congr hl hr h1 h2⟩
  intro op s
  show tensorFrom l.shape (l.elems.map (op · s)) = .ok _
  rw [tensorFrom_eq_ok _ _ (by rw [List.length_map, hl.elems_length]) hl.shape]
  rfl

/-- **Rejection ⇔ the decidable compatibility check fails**, for every operator and every operand
    form (well-formed operands): elementwise `+ -` / `elementwise*`, `scalar_product`, the tensor
    matrix product (whatever the dimensionality of the views), matrix `+ -`, the matrix product;
    scalar broadcasts, negation and `map` never reject. -/
theorem reject_iff_not_compatible [Add α] [Mul α] [Zero α] [Neg α] :
    (∀ (op : α → α → α) (l r : Operand ν α), l.WF → r.WF →
      ((∃ k, elementwise op l r = .panic k) ↔ elementwiseCompatible l r = false)) ∧
    (∀ (l r : Operand ν α) (dl dr : ν × Nat), l.WF → r.WF → l.shape = [dl] → r.shape = [dr] →
      ((∃ k, vectorProduct l r = .panic k) ↔ elementwiseCompatible l r = false)) ∧
    (∀ (l r : Arith.TView ν α), l.WF → r.WF →
      ((∃ k, matMul l r = .panic k) ↔ matMulCompatible l r = false)) ∧
    (∀ (op : α → α → α) (l r : MOperand α), l.WF → r.WF →
      ((∃ k, mElementwise op l r = .panic k) ↔ mElementwiseCompatible l r = false)) ∧
    (∀ (l r : MView α), l.WF → r.WF →
      ((∃ k, mMatMul l r = .panic k) ↔ mMatMulCompatible l r = false)) ∧
    (∀ (op : α → α → α) (x : Operand ν α) (s : α), x.WF → ∃ T, scalarOp op x s = .ok T) ∧
    (∀ (f : α → α) (x : MOperand α), x.WF → ∃ M, mMap f x = .ok M) ∧
    (∀ (x : MOperand α), x.WF → ∃ M, mNeg x = .ok M) := by
  obtain ⟨h1, h2, h3⟩ := ops_reject_iff (ν := ν) (α := α)
  refine ⟨?_, ?_, ?_, ?_, ?_, ?_, ?_, ?_⟩
  · intro op l r hl hr
    rw [(h1 op l r hl hr).1]
    simp [elementwiseCompatible]
  · intro l r dl dr hl hr hls hrs
    rw [(h2 l r dl dr hl hr hls hrs).1]
    simp [elementwiseCompatible]
  · intro l r hl hr
    -- not two-dimensional on either side: rejected, and the check is false
    have hbad : ∀ (hnot : ∀ l0 l1 r0 r1, ¬ (l.shape = [l0, l1] ∧ r.shape = [r0, r1])),
        matMul l r = .panic .explicit ∧ matMulCompatible l r = false := by
      intro hnot
      constructor
      · unfold matMul
        split
        · rename_i l0 l1 r0 r1 h1' h2'
          exact absurd ⟨h1', h2'⟩ (hnot l0 l1 r0 r1)
        · rfl
      · unfold matMulCompatible
        split
        · rename_i l0 l1 r0 r1 h1' h2'
          exact absurd ⟨h1', h2'⟩ (hnot l0 l1 r0 r1)
        · rfl
    by_cases h2d : ∃ l0 l1 r0 r1, l.shape = [l0, l1] ∧ r.shape = [r0, r1]
    · obtain ⟨l0, l1, r0, r1, hls, hrs⟩ := h2d
      rw [(h3 l r l0 l1 r0 r1 hl hr hls hrs).1]
      simp only [matMulCompatible, hls, hrs, Bool.and_eq_false_iff, decide_eq_false_iff_not,
        Bool.not_eq_false', decide_eq_true_eq]
    · have := hbad (fun l0 l1 r0 r1 h => h2d ⟨l0, l1, r0, r1, h⟩)
      simp [this.1, this.2]
  · intro op l r hl hr
    obtain ⟨hok, hbad⟩ := mElementwise_get op l r hl hr
    by_cases hs : l.size = r.size
    · obtain ⟨M, hM, _⟩ := hok hs
      simp [hM, mElementwiseCompatible, hs]
    · simp [hbad hs, mElementwiseCompatible, hs]
  · intro l r hl hr
    obtain ⟨hok, hbad⟩ := mMatMul_get_eq_sum l r hl hr
    by_cases hs : l.columns = r.rows
    · obtain ⟨n, hn⟩ : ∃ n, l.columns = n + 1 := ⟨l.columns - 1, by have := hl.cols_pos; omega⟩
      obtain ⟨A, hA⟩ := hl.exists_entries
      obtain ⟨B, hB⟩ := hr.exists_entries
      obtain ⟨M, hM, _⟩ := hok n hn (by rw [← hs]; exact hn) A B hA hB
      simp [hM, mMatMulCompatible, hs]
    · simp [hbad hs, mMatMulCompatible, hs]
  · intro op x s hx
    obtain ⟨T, hT, _⟩ := scalarOp_get op x s hx
    exact ⟨T, hT⟩
  · intro f x hx
    obtain ⟨M, hM, _⟩ := mMap_get f x hx
    exact ⟨M, hM⟩
  · intro x hx
    obtain ⟨M, hM, _⟩ := mNeg_get x hx
    exact ⟨M, hM⟩

/-- non-vacuity for the bounded-integer statements: a concrete `i8` vector with `MIN` and `-1` is a
    well-formed operand whose entries are computed values -/
example :
    ∃ T : Tensor String (Ck .i8),
      Tensor.tryFrom [("s", 2)] [.ok (Num.ofInt .i8 (-128)), .ok (Num.ofInt .i8 (-1))] = some T ∧
      (Operand.tensor T).WF ∧
      ∀ idx, inBounds ((Operand.tensor T).shape.map (·.2)) idx = true →
        (Operand.tensor T).asView.get idx
          = some (.ok (if idx = [0] then Num.ofInt .i8 (-128) else Num.ofInt .i8 (-1))) := by
  refine ⟨_, rfl, (tryFrom_valid (shape := [("s", 2)])
    (data := [(.ok (Num.ofInt .i8 (-128)) : Ck .i8), .ok (Num.ofInt .i8 (-1))]) rfl).1, ?_⟩
  intro idx hb
  have hl := inBounds_length hb
  match idx, hl with
  | [i], _ =>
    simp only [Operand.shape, List.map_cons, List.map_nil, inBounds, Bool.and_true,
      decide_eq_true_eq] at hb
    match i, hb with
    | 0, _ => rfl
    | 1, _ => rfl

/-! ### Bounded integers: what the integer boundary lines of the correspondence check -/

/-- **Operators over the plain integer types with overflow checks.**  At the element type
    `Ck t` (the outcome of computing an element of the integer type `t`: strict operators, the
    mathematical result if it fits, `panic(overflow)` otherwise; Model/ArithChecked.lean) the cells
    of every operator's result are the element type's own plain operator applied cell by cell,
    and the result-or-panic of the whole operation (`collapse`: the first panic in evaluation
    order) is that of running the plain operator over the cells in row-major order — for
    `+`, `-`, the scalar broadcasts, `Neg` (matrices), and, with the products folded in the order
    `scalar_product` evaluates them (`ckLeftSum`), `scalar_product` and the matrix product.
    In particular `x - y` is the checked subtraction, not `x + (-y)` (see the example below). -/
theorem ops_over_checked_ints (t : Num.IntTy) :
    -- elementwise + and - (any shape, container or view operands)
    (∀ (l r : Operand ν (Ck t)) (A B : List Nat → Num.Val t), l.WF → r.WF → l.shape = r.shape →
      (∀ idx, inBounds (l.shape.map (·.2)) idx = true → l.asView.get idx = some (.ok (A idx))) →
      (∀ idx, inBounds (l.shape.map (·.2)) idx = true → r.asView.get idx = some (.ok (B idx))) →
      (∃ T, elementwise (· + ·) l r = .ok T ∧ collapse T.data =
          outcomeMapM (fun idx => Num.pAdd t (A idx) (B idx)) (viewIndices (l.shape.map (·.2)))) ∧
      (∃ T, elementwise (· - ·) l r = .ok T ∧ collapse T.data =
          outcomeMapM (fun idx => Num.pSub t (A idx) (B idx)) (viewIndices (l.shape.map (·.2))))) ∧
    -- scalar broadcasts
    (∀ (x : Operand ν (Ck t)) (A : List Nat → Num.Val t) (s : Num.Val t), x.WF →
      (∀ idx, inBounds (x.shape.map (·.2)) idx = true → x.asView.get idx = some (.ok (A idx))) →
      (∃ T, scalarOp (· + ·) x (.ok s) = .ok T ∧ collapse T.data =
          outcomeMapM (fun idx => Num.pAdd t (A idx) s) (viewIndices (x.shape.map (·.2)))) ∧
      (∃ T, scalarOp (· - ·) x (.ok s) = .ok T ∧ collapse T.data =
          outcomeMapM (fun idx => Num.pSub t (A idx) s) (viewIndices (x.shape.map (·.2)))) ∧
      (∃ T, scalarOp (· * ·) x (.ok s) = .ok T ∧ collapse T.data =
          outcomeMapM (fun idx => Num.pMul t (A idx) s) (viewIndices (x.shape.map (·.2)))) ∧
      (∃ T, scalarOp (· / ·) x (.ok s) = .ok T ∧ collapse T.data =
          outcomeMapM (fun idx => Num.pDiv t (A idx) s) (viewIndices (x.shape.map (·.2))))) ∧
    -- matrix product (and scalar_product as its 1 x N . N x 1 case): checked fold per cell
    (∀ (l r : Arith.TView ν (Ck t)) (a b c d : ν) (m n k : Nat) (A B : Nat → Nat → Num.Val t),
      l.WF → r.WF → l.shape = [(a, m), (b, n + 1)] → r.shape = [(c, n + 1), (d, k)] → a ≠ d →
      l.HasEntries m (n + 1) (fun i p => .ok (A i p)) → r.HasEntries (n + 1) k (fun p j => .ok (B p j)) →
      ∃ T, matMul l r = .ok T ∧ ∀ i j, i < m → j < k →
        T.get [i, j] = some (ckLeftSum (fun p => Num.pMul t (A i p) (B p j)) n)) ∧
    -- negation of matrices and matrix views
    (∀ (x : MOperand (Ck t)) (A : Nat → Nat → Num.Val t), x.WF →
      (∀ i j, i < x.size.1 → j < x.size.2 → x.asView.get i j = some (.ok (A i j))) →
      ∃ M, mNeg x = .ok M ∧ ∀ i j, i < x.size.1 → j < x.size.2 → M.tryGet i j = some (pNeg t (A i j))) := by
  refine ⟨?_, ?_, ?_, ?_⟩
  · intro l r A B hl hr hs hA hB
    exact ⟨⟨_, elementwise_data (· + ·) l r hl hr hs _ _ hA hB, collapse_map _ _⟩,
      ⟨_, elementwise_data (· - ·) l r hl hr hs _ _ hA hB, collapse_map _ _⟩⟩
  · intro x A s hx hA
    exact ⟨⟨_, mapOperand_data _ x hx _ hA, collapse_map _ _⟩, ⟨_, mapOperand_data _ x hx _ hA, collapse_map _ _⟩,
      ⟨_, mapOperand_data _ x hx _ hA, collapse_map _ _⟩, ⟨_, mapOperand_data _ x hx _ hA, collapse_map _ _⟩⟩
  · intro l r a b c d m n k A B hl hr hls hrs had hA hB
    obtain ⟨T, hT, _, hget⟩ := matMul_get_eq_sum l r hl hr hls hrs had _ _ hA hB
    refine ⟨T, hT, fun i j hi hj => ?_⟩
    rw [hget i j hi hj, leftSum_ck]
  · intro x A hx hA
    obtain ⟨M, hM, _, hget⟩ := mNeg_get x hx
    refine ⟨M, hM, fun i j hi hj => ?_⟩
    rw [hget i j, hA i j hi hj]
    rfl

/-- `x - y` is not `x + (-y)` over bounded integers: for `i8`, `-1 - (-128) = 127`, while
    `-(-128)` overflows (the change C03-r5m1 makes; the harness' integer boundary lines exhibit
    it on the real code). -/
example :
    (match ((.ok (Num.ofInt .i8 (-1)) : Ck .i8) - .ok (Num.ofInt .i8 (-128))) with
      | .ok v => decide (Num.toInt .i8 v = 127)
      | .panic _ => false) = true ∧
    (match ((.ok (Num.ofInt .i8 (-1)) : Ck .i8) + -(.ok (Num.ofInt .i8 (-128)))) with
      | .panic .overflow => true
      | _ => false) = true := by
  decide

/-! ### Every composition of the library's view adaptors is a well-formed operand -/

/-- C02's model of the view adaptors (`View`: any composition of range / mask / index / expansion /
    rename / reverse / access / transpose / stack / chain over tensors and matrices, verified and
    tied to the code there) plugs into this property: a well-formed view over distinct containers
    is a well-formed operand with the same shape whose elements are those the checked getter
    reads.  Hence every theorem above holds for operands built from any of those adaptors. -/
theorem library_views_are_operands [Inhabited ν] (w : View ν α) (h : w.WF) (hn : w.leafIds.Nodup) :
    (Operand.view (Arith.TView.ofView w)).WF ∧ (Arith.TView.ofView w).shape = w.shape ∧
    ∀ idx, inBounds (lens w.shape) idx = true →
      ∃ a, w.read idx = .ok (some a) ∧ (Arith.TView.ofView w).get idx = some a := by
  have hwf := ofView_WF w h hn
  refine ⟨hwf, rfl, ?_⟩
  intro idx hin
  have hs := hwf.some_of_inBounds idx hin
  rw [Arith.TView.ofView_get w idx hin] at hs ⊢
  cases hr : w.read idx with
  | panic k => simp [hr] at hs
  | ok o =>
    cases o with
    | none => simp [hr] at hs
    | some a => exact ⟨a, rfl, rfl⟩

/-! ### Non-vacuity: concrete operands meeting the hypotheses -/

/-- a reversed 2×2 tensor is a well-formed `View` over one container -/
example :
    ∃ w : View String Int, w.WF ∧ w.leafIds.Nodup ∧ w.shape = [("a", 2), ("b", 2)] ∧
      (Arith.TView.ofView w).elems = [3, 4, 1, 2] := by
  refine ⟨.reverse (.tensor 0 ⟨[1, 2, 3, 4], [("a", 2), ("b", 2)], [2, 1]⟩) [true, false],
    ?_, by decide, rfl, by decide⟩
  refine ⟨⟨⟨by decide, ?_⟩, rfl, rfl, by decide⟩, rfl⟩
  intro d hd
  simp only [List.mem_cons, List.not_mem_nil, or_false] at hd
  rcases hd with rfl | rfl <;> decide


/-- A concrete 2×3 tensor is a well-formed container operand, its transposing view (iteration
    order ≠ storage order) a well-formed 3×2 view operand, and the two can be multiplied:
    the hypotheses of the theorems above are satisfiable by non-trivial objects. -/
example :
    ∃ t : Tensor String Int, Tensor.tryFrom [("r", 2), ("c", 3)] [1, 2, 3, 4, 5, 6] = some t ∧
      (Operand.tensor t).WF ∧ (Arith.TView.ofTensor t).swap2.WF ∧
      (Arith.TView.ofTensor t).swap2.shape = [("c", 3), ("r", 2)] ∧
      (Arith.TView.ofTensor t).swap2.elems = [1, 4, 2, 5, 3, 6] ∧
      (∃ v p, (Arith.TView.ofTensor t).swap2.rename ["x", "y"] = some v ∧
        matMul (Arith.TView.ofTensor t) v = .ok p ∧ p.data = [14, 32, 32, 77]) := by
  refine ⟨_, rfl, ?_, ?_, ?_, by decide, ⟨_, _, rfl, rfl, rfl⟩⟩
  · exact (tryFrom_valid (shape := [("r", 2), ("c", 3)]) (data := [1, 2, 3, 4, 5, 6]) rfl).1
  · exact ((ofTensor_WF (tryFrom_valid (shape := [("r", 2), ("c", 3)])
      (data := ([1, 2, 3, 4, 5, 6] : List Int)) rfl).1).swap2 rfl).1
  · exact ((ofTensor_WF (tryFrom_valid (shape := [("r", 2), ("c", 3)])
      (data := ([1, 2, 3, 4, 5, 6] : List Int)) rfl).1).swap2 rfl).2

/-- A concrete matrix and a reversed range of it are well-formed matrix operands showing entries;
    a tensor view and a matrix view of the same data satisfy `SameTable`. -/
example :
    ∃ m : Matrix Int, Matrix.fromFlatRowMajor 2 2 [1, 2, 3, 4] = some m ∧ (MOperand.matrix m).WF ∧
      (MView.ofMatrix m).HasEntries (fun i j => (1 + 2 * i + j : Int)) ∧
      ∃ t : Tensor String Int, Tensor.tryFrom [("r", 2), ("c", 2)] [1, 2, 3, 4] = some t ∧
        SameTable (Arith.TView.ofTensor t) (MView.ofMatrix m) "r" "c" := by
  refine ⟨_, rfl, (by decide : Matrix.Inv _), ?_, _, rfl, ⟨rfl, ?_⟩⟩
  · intro i j hi hj
    have hi' : i < 2 := hi
    have hj' : j < 2 := hj
    match i, j, hi', hj' with
    | 0, 0, _, _ => rfl
    | 0, 1, _, _ => rfl
    | 1, 0, _, _ => rfl
    | 1, 1, _, _ => rfl
  · intro i j
    have hv := (tryFrom_valid (shape := [("r", 2), ("c", 2)]) (data := ([1, 2, 3, 4] : List Int)) rfl).1
    rw [show (Arith.TView.ofTensor _).get [i, j] = Tensor.get _ [i, j] from rfl, hv.get_eq [i, j] rfl]
    show _ = Matrix.tryGet _ i j
    rw [Matrix.tryGet_eq]
    simp only [List.map_cons, List.map_nil, inBounds, ravel, Bool.and_true, Bool.and_eq_true,
      decide_eq_true_eq]
    by_cases h : i < 2 ∧ j < 2
    · simp [h, prod]
    · simp [h]

end EasyMl.C03
