/-
  EasyMl.Props.C06 — property theorems for C06 (record containers differentiate identically to
  element-by-element records) and for the container part of C15 (cross-tape rejection, position
  allocation, `reset`).

  Only property statements live here; helper lemmas are in EasyMl/Lemmas/RecordContainer.lean.
  The theorems are about the very definitions the `emlmodel` driver executes against the
  implementation:

  * the code-shaped container model `Cont.*`, `UOp.container`, `BOp.container`
    (EasyMl/Model/RecordContainer.lean, EasyMl/Spec/RecordContainer.lean) — batch tape
    appenders, one container-level same-tape test, `record_scalar_product` **as repaired**
    (fixes/G-11, G-14);
  * the specification "do it element by element with scalar records": `Cont.mapRecs` /
    `zipRecs` / `matmulRecs` / `variablesRecs` / `resetRecs` over the scalar operators
    `UOp.scalar`, `BOp.scalar`, `Rec.mul`, `Rec.add`, `Rec.mkVar`, `Rec.reset` of the C04 model
    (EasyMl/Model/Tape.lean).

  `asRecs` turns the outcome of a container operation into what the specification speaks about:
  the list of records (number, tape, position) in row-major order and all tapes.  Equality of
  these means equal values, equal positions and an identical final tape, so every statement about
  derivatives of scalar records (C04's `reverse_eq_grad`) holds verbatim for the container
  (`container_derivatives_eq_scalar`).

  `R` is any field with the `Real` functions as uninterpreted operations (commutativity is what
  relates `c + x` computed by a container to `x + c` computed by `&Record + &Record` with a
  constant on the left).  Containers are `Cont.WF`: as many elements as the shape has cells, at
  least one, constants stored with index 0 — what every constructor and operation produces
  (`container_wf_*`).

  The behaviour of the pinned commit is kept in `Cont.matmulTensorAsWritten`,
  `Cont.matmulMatrixAsWritten`; the theorems at the end show by kernel evaluation on concrete
  witnesses that it violates the statements proved here for the repaired code.
-/
import EasyMl.Lemmas.RecordContainer
import EasyMl.Lemmas.RecordContainerTape
import EasyMl.Lemmas.RecordContainerHistory
import EasyMl.Lemmas.RecordContainerSurface
import EasyMl.Props.C09

namespace EasyMl.C06
open EasyMl EasyMl.RC EasyMl.Iter EasyMl.Spec

variable {R : Type} [Field R] [RealFns R]

set_option linter.unusedSectionVars false
set_option linter.unusedSimpArgs false

/-! ### elementwise operations -/

/-- **Every elementwise operation of one container** (`unary`, container ∘ number in both
    orders, `Neg`, `sin cos exp ln sqrt`, `pow` in both orders), for every shape, every source
    view order, variables and constants alike: the resulting records — values, tape, positions —
    and all tapes are those of the scalar record operator applied to the elements one after the
    other in row-major order.  The shape and the tape of the container are kept. -/
theorem container_eq_elementwise_unary (op : UOp R) (c : Cont R) (w : World R) :
    asRecs (op.container c w) = Cont.mapRecs op.scalar c.toRecs w
      ∧ (op.container c w).1.shape = c.shape
      ∧ (op.container c w).1.history = c.history := by
  rw [uop_container_eq, uop_scalar_fun]
  exact ⟨unary_eq c _ _ w, unary_shape c _ _ w⟩

/-- **Every elementwise operation of two containers** (`binary`, `+`, `-`,
    `elementwise_multiply`, `elementwise_divide`), for every common shape and every one of the
    four variable/constant pairings — and for two variables of two different tapes, where both
    sides panic: the outcome is that of the scalar record operator applied to the element pairs
    one after the other in row-major order. -/
theorem container_eq_elementwise_binary (op : BOp R) (a b : Cont R) (w : World R)
    (ha : a.WF) (hb : b.WF) (hs : a.shape = b.shape) :
    (op.container a b w).map asRecs = zipRecs op.scalar a.toRecs b.toRecs w := by
  rw [bop_container_eq, bop_scalar_fun]
  exact binary_eq a b _ _ _ w hs ha.nonempty hb.nonempty

/-- Containers of different shapes are rejected by every elementwise operation of two
    containers (the scalar computation has no counterpart: there is no pairing of elements). -/
theorem container_shape_mismatch (op : BOp R) (a b : Cont R) (w : World R)
    (hs : a.shape ≠ b.shape) : op.container a b w = .panic .explicit := by
  rw [bop_container_eq]
  exact binary_shape_mismatch a b _ _ _ w hs

/-- **container_eq_elementwise** — the two statements above together: for every elementwise
    container operation, every shape and every variable/constant pairing, the resulting values,
    positions and final tapes are those of the scalar C04 operators applied element by element
    in row-major order. -/
theorem container_eq_elementwise (w : World R) :
    (∀ (op : UOp R) (c : Cont R), asRecs (op.container c w) = Cont.mapRecs op.scalar c.toRecs w)
      ∧ (∀ (op : BOp R) (a b : Cont R), a.WF → b.WF → a.shape = b.shape →
          (op.container a b w).map asRecs = zipRecs op.scalar a.toRecs b.toRecs w) :=
  ⟨fun op c => (container_eq_elementwise_unary op c w).1,
   fun op a b ha hb hs => container_eq_elementwise_binary op a b w ha hb hs⟩

/-- the hypotheses are satisfiable: a 1×2 variable container -/
example : (⟨[("r", 1), ("c", 2)], [((2 : ℚ), 0), (3, 1)], some 0⟩ : Cont ℚ).WF :=
  ⟨by decide, by simp, by simp⟩

/-- `RecordTensor::variables` / `RecordMatrix::variables` allocate exactly the tape entries and
    positions of `Record::variable` called for every value in row-major order. -/
theorem variables_eq_elementwise (h : Nat) (shape : Shape String) (vals : List R) (w : World R)
    (hlen : vals.length = elements shape) :
    asRecs (Cont.variables h shape vals w) = variablesRecs h vals w :=
  variables_eq h shape vals w hlen

example : ([2, 3] : List ℚ).length = elements [("r", 1), ("c", 2)] := by decide

/-- Container `reset` (C15): the fresh positions and tape entries are those of `Record::reset`
    called for every element in row-major order; constants are left alone. -/
theorem reset_eq_elementwise (c : Cont R) (w : World R) (hc : c.WF) :
    asRecs (c.reset w) = resetRecs c.toRecs w :=
  reset_eq c w hc.length_eq

/-- Since records and tapes coincide, so do all derivatives: `derivatives()` of a container is
    the reverse sweep of each of its records, in row-major order (`None` for constants). -/
theorem container_derivatives_eq_scalar (c : Cont R) (w : World R) :
    c.derivatives w
      = match c.history with
        | none => .ok none
        | some _ =>
          match Cont.collectOutcomes (c.toRecs.map fun r => r.derivatives w) with
          | .ok ds => .ok (some ds)
          | .panic k => .panic k := by
  unfold Cont.derivatives
  cases hh : c.history with
  | none => rfl
  | some h =>
    simp only [Cont.toRecs, hh, List.map_map, Function.comp_def]
    generalize Cont.collectOutcomes _ = o
    cases o <;> rfl

/-! ### the assigning forms -/

/-- `unary_assign` / `do_unary_assign` overwrite the container with exactly what the allocating
    `unary` returns, and leave the same tapes. -/
theorem assign_eq_allocating_unary (op : UOp R) (c : Cont R) (w : World R) (hc : c.WF) :
    c.unaryAssign op.fns.1 op.fns.2 w
      = ({ c with elems := (op.container c w).1.elems, history := (op.container c w).1.history },
         (op.container c w).2) := by
  rw [uop_container_eq]
  exact unaryAssign_eq c _ _ w hc.const_zero

/-- `binary_left_assign` / `do_binary_left_assign` overwrite the left container with exactly what
    the allocating `binary` returns (same values, positions, tape; same panics). -/
theorem assign_eq_allocating_left (op : BOp R) (a b : Cont R) (w : World R) :
    a.binaryLeftAssign b op.fns.1 op.fns.2.1 op.fns.2.2 w
      = (op.container a b w).map fun r =>
          ({ a with elems := r.1.elems, history := r.1.history }, r.2) := by
  rw [bop_container_eq]
  exact binaryLeftAssign_eq a b _ _ _ w

/-- `binary_right_assign` / `do_binary_right_assign` overwrite the right container with the
    values and positions the allocating `binary` returns (same panics); when both containers are
    variables the appended tape entries name their two parents in the other order
    (`rightAssignWorld`), otherwise the tapes are identical. -/
theorem assign_eq_allocating_right (op : BOp R) (a b : Cont R) (w : World R) :
    a.binaryRightAssign b op.fns.1 op.fns.2.1 op.fns.2.2 w
      = (op.container a b w).map fun r =>
          ({ b with elems := r.1.elems, history := r.1.history }, rightAssignWorld a b w r.2) := by
  rw [bop_container_eq]
  exact binaryRightAssign_eq a b _ _ _ w

/-- … and the order in which an entry names its parents is invisible to every derivative, now
    and after any further operations on the tape (`ext`). -/
theorem right_assign_same_derivatives (k : Nat) (t ext : Tape R) (y : Nat) :
    reverseSweep (swapFrom k t ++ ext) y = reverseSweep (t ++ ext) y :=
  reverseSweep_swapEquiv ((swapEquiv_swapFrom k t).append ext) y

/-! ### one operand holds constants -/

/-- **The constant side influences no derivative.**  The only thing an elementwise operation
    reads of a constants container are its numbers: whatever indexes are stored beside them (the
    constructors store 0), the result — values, positions, every tape — is the same.  Together
    with `container_eq_elementwise_binary` (the entries are the unary ones of the scalar
    operators) no derivative mass can reach a position because of a constant. -/
theorem constant_side_no_influence (op : BOp R) (g : Nat → Nat) (a b : Cont R) (w : World R) :
    (b.history = none → op.container a (reindex g b) w = op.container a b w)
      ∧ (a.history = none → op.container (reindex g a) b w = op.container a b w) := by
  simp only [bop_container_eq]
  exact ⟨binary_reindex_right g a b _ _ _ w, binary_reindex_left g a b _ _ _ w⟩

/-- The same for matrix multiplication of record tensors and of record matrices (repaired
    code).  False of the pinned commit: `asWritten_constant_operand_pollutes`. -/
theorem constant_side_no_influence_matmul (g : Nat → Nat) (a b : Cont R) (w : World R) :
    (b.history = none → a.matmulTensor (reindex g b) w = a.matmulTensor b w
        ∧ a.matmulMatrix (reindex g b) w = a.matmulMatrix b w)
      ∧ (a.history = none → (reindex g a).matmulTensor b w = a.matmulTensor b w
        ∧ (reindex g a).matmulMatrix b w = a.matmulMatrix b w) := by
  constructor
  · intro hb
    simp only [Cont.matmulTensor, Cont.matmulTensorWith, Cont.matmulMatrix, reindex_shape,
      reindex_history, matmulCore_reindex_right g a b _ _ _ _ w hb, and_self]
  · intro ha
    simp only [Cont.matmulTensor, Cont.matmulTensorWith, Cont.matmulMatrix, reindex_shape,
      reindex_history, matmulCore_reindex_left g a b _ _ _ _ w ha, and_self]

/-! ### matrix multiplication -/

/-- **`RecordTensor * RecordTensor`** (repaired code), every `m×n · n×l`, every
    variable/constant pairing, and two variables of different tapes (both sides panic): the
    outcome is that of multiplying with scalar records — each cell
    `zip.map(x * y).reduce(x + y)` with `&Record * &Record` and `&Record + &Record`, cells in
    row-major order — value for value, position for position, tape entry for tape entry. -/
theorem matmul_records_eq_scalar (a b : Cont R) (w : World R) (l0 l1 r0 r1 : String × Nat)
    (hsa : a.shape = [l0, l1]) (hsb : b.shape = [r0, r1]) (hn : l1.2 = r0.2)
    (hnames : l0.1 ≠ r1.1) (ha : a.WF) (hb : b.WF) :
    (a.matmulTensor b w).map asRecs = matmulRecs a.toRecs b.toRecs l0.2 l1.2 r1.2 w :=
  matmulTensor_eq a b w l0 l1 r0 r1 hsa hsb hn hnames ha hb

/-- **`RecordMatrix * RecordMatrix`** (repaired code): the same. -/
theorem matmul_records_eq_scalar_matrix (a b : Cont R) (w : World R) (l0 l1 r0 r1 : String × Nat)
    (hsa : a.shape = [l0, l1]) (hsb : b.shape = [r0, r1]) (hn : l1.2 = r0.2)
    (ha : a.WF) (hb : b.WF) :
    (a.matmulMatrix b w).map asRecs = matmulRecs a.toRecs b.toRecs l0.2 l1.2 r1.2 w :=
  matmulMatrix_eq a b w l0 l1 r0 r1 hsa hsb hn ha hb

/-- Mismatched inner lengths are rejected by both multiplications, duplicate result names by the
    tensor one. -/
theorem matmul_rejects (a b : Cont R) (w : World R) (l0 l1 r0 r1 : String × Nat)
    (hsa : a.shape = [l0, l1]) (hsb : b.shape = [r0, r1]) :
    (l1.2 ≠ r0.2 → a.matmulTensor b w = .panic .explicit ∧ a.matmulMatrix b w = .panic .explicit)
      ∧ (l0.1 = r1.1 → a.matmulTensor b w = .panic .explicit) := by
  constructor
  · intro hn
    simp only [Cont.matmulTensor, Cont.matmulTensorWith, Cont.matmulMatrix, hsa, hsb, Cont.dims2]
    constructor <;> split <;> simp [hn]
  · intro he
    simp only [Cont.matmulTensor, Cont.matmulTensorWith, hsa, hsb, Cont.dims2]
    split
    · rfl
    · split <;> simp [he]

example : ((1 : ℕ) ≠ 2) ∧ ("a" ≠ "c") := by decide

/-! ### records in, records out -/

/-- **`iter_as_records` → `from_iter` is the identity** on every well-formed record tensor whose
    shape `Tensor::try_from` accepts (distinct names, no zero length). -/
theorem from_iter_roundtrip (c : Cont R) (hc : c.WF)
    (hshape : validateDimensions c.shape c.elems.length = none) :
    Cont.fromIterTensor c.shape c.toRecs = .ok c := by
  simp only [Cont.fromIterTensor, toRecs_eq, collectComponents_recsOf c.history c.elems hc.nonempty,
    hshape]

/-- … and on every record matrix (`rows * columns` does not overflow `usize`). -/
theorem from_iter_roundtrip_matrix (c : Cont R) (hc : c.WF) (rn cn : String) (r k : Nat)
    (hs : c.shape = [(rn, r), (cn, k)]) (hfit : r * k ≤ usizeMax) :
    Cont.fromIterMatrix rn cn r k c.toRecs = .ok c := by
  have hl : c.elems.length = r * k := by rw [hc.length_eq, hs, elements_two]
  simp only [Cont.fromIterMatrix, toRecs_eq, collectComponents_recsOf c.history c.elems hc.nonempty,
    hfit, hl, and_self, if_true, ← hs]

example : validateDimensions [("r", 1), ("c", 2)] 2 = none ∧ 1 * 2 ≤ usizeMax := by decide

/-- Whatever iterator of records `from_iter` accepts, the container it builds *is* that sequence
    of records (numbers, positions and the common tape), with the requested shape: collecting
    loses nothing.  (`from_iters` collects every position of the array this way.) -/
theorem from_iter_records (shape : Shape String) (recs : List (Rec R)) (c : Cont R) :
    (Cont.fromIterTensor shape recs = .ok c → c.toRecs = recs ∧ c.shape = shape ∧ recs ≠ [])
      ∧ (∀ rn cn r k, Cont.fromIterMatrix rn cn r k recs = .ok c →
          c.toRecs = recs ∧ c.shape = [(rn, r), (cn, k)] ∧ recs ≠ []) := by
  constructor
  · intro h
    simp only [Cont.fromIterTensor] at h
    cases hcc : Cont.collectComponents recs with
    | error e => simp [hcc] at h
    | ok p =>
      obtain ⟨hist, numbers⟩ := p
      simp only [hcc] at h
      cases hv : validateDimensions shape numbers.length with
      | some e => simp [hv] at h
      | none =>
        simp only [hv] at h
        injection h with h; subst h
        have := collectComponents_ok recs hist numbers hcc
        exact ⟨this.2, rfl, this.1⟩
  · intro rn cn r k h
    simp only [Cont.fromIterMatrix] at h
    cases hcc : Cont.collectComponents recs with
    | error e => simp [hcc] at h
    | ok p =>
      obtain ⟨hist, numbers⟩ := p
      simp only [hcc] at h
      split at h
      · injection h with h; subst h
        have := collectComponents_ok recs hist numbers hcc
        exact ⟨this.2, rfl, this.1⟩
      · simp at h

/-- **Inconsistent histories are rejected**: a record whose tape differs from the first record's
    (a constant among variables, a variable among constants, another tape) makes `from_iter` /
    `from_iters` — and with them `map` — return the `InconsistentHistory` error naming the first
    record's tape. -/
theorem from_iter_rejects_inconsistent (shape : Shape String) (r : Rec R) (rest : List (Rec R))
    (hbad : ∃ x ∈ rest, x.history ≠ r.history) :
    ∃ later, Cont.fromIterTensor shape (r :: rest) = .error (.inconsistent r.history later)
      ∧ ∀ rn cn rows cols,
          Cont.fromIterMatrix rn cn rows cols (r :: rest) = .error (.inconsistent r.history later) := by
  obtain ⟨later, h⟩ := collectComponents_inconsistent r rest hbad
  exact ⟨later, by simp [Cont.fromIterTensor, h], by simp [Cont.fromIterMatrix, h]⟩

example : ∃ x ∈ [Rec.constant (1 : ℚ)], x.history ≠ (⟨2, some 0, 0⟩ : Rec ℚ).history :=
  ⟨Rec.constant 1, by simp, by simp [Rec.constant]⟩

/-- **`map` / `map_with_index`**: the mapped container is the sequence of records the function
    returns for the elements in row-major order (the function's tape effects are those of the
    element-by-element run in any case); it keeps the shape. -/
theorem map_eq_elementwise (isMatrix : Bool) (c : Cont R)
    (f : Nat → Rec R → World R → Rec R × World R) (w : World R) :
    (Cont.map isMatrix c f w).1 = (Cont.mapRecsIdx f 0 c.toRecs w).2
      ∧ ∀ c', (Cont.map isMatrix c f w).2 = .ok (.ok c') →
          c'.toRecs = (Cont.mapRecsIdx f 0 c.toRecs w).1 := by
  unfold Cont.map
  constructor
  · simp only []
    split <;> rfl
  · intro c' h
    simp only [] at h
    split at h
    · rename_i c'' hcol
      have hc : c'' = c' := by
        injection h with h; injection h with h
      subst hc
      split at hcol
      · split at hcol
        · exact ((from_iter_records c.shape _ c'').2 _ _ _ _ hcol).1
        · simp at hcol
      · exact ((from_iter_records c.shape _ c'').1 hcol).1
    all_goals simp at h

/-- **`map_mut` / `map_mut_with_index`**: every element is overwritten with the record the
    function returns for it, in row-major order; when the returned tapes agree the container
    takes that tape, otherwise the `InconsistentHistory` error is reported (and the container
    keeps its old tape). -/
theorem map_mut_eq_elementwise (c : Cont R) (f : Nat → Rec R → World R → Rec R × World R)
    (w : World R) (hne : c.elems ≠ []) :
    ∃ c' err, Cont.mapMut c f w = ((Cont.mapRecsIdx f 0 c.toRecs w).2, .ok (c', err))
      ∧ c'.elems = ((Cont.mapRecsIdx f 0 c.toRecs w).1.map fun r => (r.number, r.index))
      ∧ c'.shape = c.shape
      ∧ (err = none → c'.toRecs = (Cont.mapRecsIdx f 0 c.toRecs w).1) := by
  unfold Cont.mapMut
  have hlen := mapRecsIdx_length f 0 c.toRecs w
  cases hrecs : c.toRecs with
  | nil =>
    exfalso
    apply hne
    have : c.toRecs.length = 0 := by rw [hrecs]; rfl
    simpa [Cont.toRecs] using this
  | cons r0 rest0 =>
    simp only []
    rw [hrecs] at hlen
    cases hm : (Cont.mapRecsIdx f 0 (r0 :: rest0) w).1 with
    | nil => rw [hm] at hlen; simp at hlen
    | cons r rest =>
      simp only []
      cases hl : Cont.lastDifferent r.history rest none with
      | none =>
        refine ⟨_, none, rfl, by simp [hm], rfl, fun _ => ?_⟩
        have hall := ((lastDifferent_none _ _ _).mp hl).2
        simp only [Cont.toRecs, List.map_cons, List.map_map]
        congr 1
        rw [List.map_congr_left (g := id)]
        · simp
        · intro x hx
          simp only [Function.comp, id]
          cases x with
          | mk n hst i =>
            have := hall ⟨n, hst, i⟩ hx
            simp only at this
            simp [this]
      | some later =>
        exact ⟨_, some (r.history, later), rfl, by simp [hm], rfl, fun h => by simp at h⟩

/-! ### single elements as records, 0-dimensional containers -/

/-- **Element access as a record** (`get_as_record` / `try_get_as_record` of the three
    `TensorAccess` flavours and of `RecordMatrix`): the record returned for an in-range index is
    exactly the record the element-by-element view of the container has at that position (number,
    tape, position — so it differentiates identically); out of range `try_…` gives `None` and
    `get_as_record` panics. -/
theorem get_as_record_eq_scalar (c : Cont R) (pos : Option Nat) :
    c.tryGetAsRecord pos = pos.bind (fun k => c.toRecs[k]?)
      ∧ c.getAsRecord pos
          = match pos.bind (fun k => c.toRecs[k]?) with
            | some r => .ok r
            | none => .panic .explicit := by
  have h1 : c.tryGetAsRecord pos = pos.bind (fun k => c.toRecs[k]?) := by
    cases pos with
    | none => rfl
    | some k => simp [Cont.tryGetAsRecord, Cont.toRecs, List.getElem?_map]
  refine ⟨h1, ?_⟩
  unfold Cont.getAsRecord
  rw [h1]
  generalize (pos.bind fun k => c.toRecs[k]?) = o
  cases o <;> rfl

/-- **`Record` ↔ 0-dimensional `RecordTensor`**: both directions keep number, tape and position;
    the round trips are identities. -/
theorem record_tensor0_conversions (r : Rec R) (c : Cont R) (e : R × Nat) :
    (Cont.ofRecord r).toRecord = .ok r
      ∧ (Cont.ofRecord r).toRecs = [r] ∧ (Cont.ofRecord r).shape = []
      ∧ (c.shape = [] → c.elems = [e] →
          c.toRecord = .ok ⟨e.1, c.history, e.2⟩ ∧ Cont.ofRecord ⟨e.1, c.history, e.2⟩ = c) := by
  refine ⟨rfl, rfl, rfl, ?_⟩
  intro hs he
  constructor
  · simp [Cont.toRecord, he]
  · cases c with
    | mk shape elems history =>
      simp only at hs he
      subst hs he
      rfl

/-- Exchanging two elements through `get_reference_mut` / `try_get_reference_mut` exchanges the
    two records and nothing else. -/
theorem swap_elems_eq_scalar (c : Cont R) (i j : Nat) :
    (c.swapElems i j).toRecs = listSwap c.toRecs i j
      ∧ (c.swapElems i j).shape = c.shape ∧ (c.swapElems i j).history = c.history := by
  unfold Cont.swapElems listSwap
  simp only [Cont.toRecs, List.getElem?_map]
  cases hi : c.elems[i]? <;> cases hj : c.elems[j]? <;> simp [List.map_set]

/-! ### well-formedness and positions (C15: "each new variable or result occupies the next unused
    tape position", "one entry per element") -/

/-- The constructors and every elementwise operation produce well-formed containers … -/
theorem container_wf (w : World R) :
    (∀ (shape : Shape String) (vals : List R), vals.length = elements shape → vals ≠ [] →
        (Cont.constants shape vals).WF ∧ ∀ h, (Cont.variables h shape vals w).1.WF)
      ∧ (∀ (op : UOp R) (c : Cont R), c.WF → (op.container c w).1.WF)
      ∧ (∀ (op : BOp R) (a b c' : Cont R) w', a.WF → b.WF → op.container a b w = .ok (c', w') →
          c'.WF ∧ c'.shape = a.shape ∧ c'.history = Cont.pickHistory a.history b.history) := by
  refine ⟨?_, ?_, ?_⟩
  · intro shape vals hlen hne
    constructor
    · refine ⟨by simp [Cont.constants, hlen], by simpa [Cont.constants] using hne, ?_⟩
      intro _ e he
      simp only [Cont.constants, List.mem_map] at he
      obtain ⟨_, _, rfl⟩ := he
      rfl
    · intro h
      simp only [Cont.variables, appendNullaryRepeating_eq]
      refine ⟨by simp [List.length_zip, incrementingIndexes_length, hlen], ?_, by simp⟩
      intro hnil
      have : (vals.zip (incrementingIndexes (w h).length (elements shape))).length = 0 := by
        simp only at hnil; rw [hnil]; rfl
      simp only [List.length_zip, incrementingIndexes_length, hlen, Nat.min_self] at this
      exact hne (List.eq_nil_of_length_eq_zero (hlen ▸ this))
  · intro op c hc
    rw [uop_container_eq]
    exact unary_wf c _ _ w hc
  · intro op a b c' w' ha hb hok
    rw [bop_container_eq] at hok
    have := binary_ok_spec a b _ _ _ w ha hb c' w' hok
    exact ⟨this.1, this.2.2.1, this.2.2.2⟩

/-- … and so do the matrix multiplications. -/
theorem container_wf_matmul (a b c' : Cont R) (w w' : World R) (ha : a.WF) (hb : b.WF) :
    (a.matmulTensor b w = .ok (c', w') → c'.WF) ∧ (a.matmulMatrix b w = .ok (c', w') → c'.WF) := by
  constructor
  · intro h
    simp only [Cont.matmulTensor, Cont.matmulTensorWith] at h
    split at h
    · simp at h
    · cases hda : Cont.dims2 a.shape with
      | none => simp [hda] at h
      | some da =>
        cases hdb : Cont.dims2 b.shape with
        | none => simp [hda, hdb] at h
        | some db =>
          obtain ⟨l0, l1⟩ := da
          obtain ⟨r0, r1⟩ := db
          simp only [hda, hdb] at h
          have hsa : a.shape = [l0, l1] := by
            unfold Cont.dims2 at hda; split at hda <;> simp_all
          have hsb : b.shape = [r0, r1] := by
            unfold Cont.dims2 at hdb; split at hdb <;> simp_all
          split at h
          · simp at h
          · split at h
            · simp at h
            · have hp := dims_pos a l0 l1 hsa ha
              have hq := dims_pos b r0 r1 hsb hb
              exact matmulCore_wf _ a b _ _ _ l0 r1 rfl rfl (Nat.mul_pos hp.1 hq.2) w c' w' h
  · intro h
    simp only [Cont.matmulMatrix] at h
    split at h
    · simp at h
    · cases hda : Cont.dims2 a.shape with
      | none => simp [hda] at h
      | some da =>
        cases hdb : Cont.dims2 b.shape with
        | none => simp [hda, hdb] at h
        | some db =>
          obtain ⟨l0, l1⟩ := da
          obtain ⟨r0, r1⟩ := db
          simp only [hda, hdb] at h
          have hsa : a.shape = [l0, l1] := by
            unfold Cont.dims2 at hda; split at hda <;> simp_all
          have hsb : b.shape = [r0, r1] := by
            unfold Cont.dims2 at hdb; split at hdb <;> simp_all
          split at h
          · simp at h
          · have hp := dims_pos a l0 l1 hsa ha
            have hq := dims_pos b r0 r1 hsb hb
            exact matmulCore_wf _ a b _ _ _ (l0.1, l0.2) (l1.1, r1.2) rfl rfl
              (Nat.mul_pos hp.1 hq.2) w c' w' h

/-- … and `reset` and the assigning forms keep containers well formed … -/
theorem container_wf_assign (w : World R) :
    (∀ c : Cont R, c.WF → (c.reset w).1.WF)
      ∧ (∀ (op : UOp R) (c : Cont R), c.WF → (c.unaryAssign op.fns.1 op.fns.2 w).1.WF)
      ∧ (∀ (op : BOp R) (a b c' : Cont R) w', a.WF → b.WF →
          (a.binaryLeftAssign b op.fns.1 op.fns.2.1 op.fns.2.2 w = .ok (c', w')
            ∨ a.binaryRightAssign b op.fns.1 op.fns.2.1 op.fns.2.2 w = .ok (c', w')) → c'.WF) := by
  refine ⟨?_, ?_, ?_⟩
  · intro c hc
    unfold Cont.reset
    cases hh : c.history with
    | none => exact hc
    | some h =>
      simp only [appendNullaryRepeating_eq, Cont.total]
      have hl : ((c.elems.zip (incrementingIndexes (w h).length (elements c.shape))).map
          fun p => (p.1.1, p.2)).length = c.elems.length := by
        simp [List.length_zip, incrementingIndexes_length, hc.length_eq]
      refine ⟨by rw [hl]; exact hc.length_eq, ?_, by simp⟩
      intro hnil
      have h0 : c.elems.length = 0 := by rw [← hl]; simp only at hnil; rw [hnil]; rfl
      exact hc.nonempty (List.eq_nil_of_length_eq_zero h0)
  · intro op c hc
    rw [unaryAssign_eq c _ _ w hc.const_zero]
    have hw := unary_wf c op.fns.1 op.fns.2 w hc
    have hs := unary_shape c op.fns.1 op.fns.2 w
    exact ⟨by simpa [hs.1] using hw.length_eq, hw.nonempty, hw.const_zero⟩
  · intro op a b c' w' ha hb hok
    have key : ∀ (x : Cont R) (r : Cont R × World R), x.shape = a.shape →
        a.binary b op.fns.1 op.fns.2.1 op.fns.2.2 w = .ok r →
        ({ x with elems := r.1.elems, history := r.1.history } : Cont R).WF := by
      intro x r hx hr
      obtain ⟨r1, r2⟩ := r
      have sp := binary_ok_spec a b _ _ _ w ha hb r1 r2 hr
      exact ⟨by simpa [hx, sp.2.2.1] using sp.1.length_eq, sp.1.nonempty, sp.1.const_zero⟩
    rcases hok with hok | hok
    · rw [binaryLeftAssign_eq] at hok
      cases hr : a.binary b op.fns.1 op.fns.2.1 op.fns.2.2 w with
      | panic k => simp [hr, Outcome.map] at hok
      | ok r =>
        simp only [hr, Outcome.map] at hok
        injection hok with hok; injection hok with h1 _; subst h1
        exact key a r rfl hr
    · rw [binaryRightAssign_eq] at hok
      cases hr : a.binary b op.fns.1 op.fns.2.1 op.fns.2.2 w with
      | panic k => simp [hr, Outcome.map] at hok
      | ok r =>
        simp only [hr, Outcome.map] at hok
        injection hok with hok; injection hok with h1 _; subst h1
        have hs : b.shape = a.shape := by
          by_contra hne
          have := binary_shape_mismatch a b op.fns.1 op.fns.2.1 op.fns.2.2 w (fun e => hne e.symm)
          rw [this] at hr; cases hr
        exact key b r hs hr

/-- … and `from_iter` (hence `map`) builds a well-formed container from records that are
    themselves well formed (a record without a tape has index 0, as `Record::constant` and every
    scalar operator produce). -/
theorem container_wf_from_iter (shape : Shape String) (recs : List (Rec R)) (c : Cont R)
    (hgood : ∀ r ∈ recs, r.history = none → r.index = 0) :
    (Cont.fromIterTensor shape recs = .ok c → c.WF)
      ∧ (∀ rn cn r k, Cont.fromIterMatrix rn cn r k recs = .ok c → c.WF) := by
  have wf_of : c.toRecs = recs → recs ≠ [] → c.elems.length = elements c.shape → c.WF := by
    intro htr hne hlen
    refine ⟨hlen, ?_, ?_⟩
    · intro hnil
      apply hne
      rw [← htr, Cont.toRecs, hnil]; rfl
    · intro hh e he
      have hmem : (⟨e.1, c.history, e.2⟩ : Rec R) ∈ recs := by
        rw [← htr, Cont.toRecs]
        exact List.mem_map.mpr ⟨e, he, rfl⟩
      exact hgood _ hmem hh
  constructor
  · intro h
    have hr := (from_iter_records shape recs c).1 h
    refine wf_of hr.1 hr.2.2 ?_
    simp only [Cont.fromIterTensor] at h
    cases hcc : Cont.collectComponents recs with
    | error e => simp [hcc] at h
    | ok p =>
      obtain ⟨hist, numbers⟩ := p
      simp only [hcc] at h
      cases hv : validateDimensions shape numbers.length with
      | some e => simp [hv] at h
      | none =>
        simp only [hv] at h
        injection h with h; subst h
        simp only [validateDimensions] at hv
        split at hv
        · simp at hv
        · rename_i hlen
          simpa using hlen
  · intro rn cn r k h
    have hr := (from_iter_records shape recs c).2 rn cn r k h
    refine wf_of hr.1 hr.2.2 ?_
    simp only [Cont.fromIterMatrix] at h
    cases hcc : Cont.collectComponents recs with
    | error e => simp [hcc] at h
    | ok p =>
      obtain ⟨hist, numbers⟩ := p
      simp only [hcc] at h
      split at h
      · rename_i hfit
        injection h with h; subst h
        simp [elements_two, hfit.2]
      · simp at h

example : ∀ r ∈ [Rec.constant (1 : ℚ)], r.history = none → r.index = 0 := by simp [Rec.constant]

/-- **Next unused positions** (C15): the result of an elementwise operation occupies a contiguous
    block that starts at the number of entries its tape had, one new entry per element; no other
    tape changes; a constant result changes no tape at all.  (`variables` and `reset`: through
    `variables_eq_elementwise`, `reset_eq_elementwise` and the scalar `position_is_length`.) -/
theorem positions_next_unused (w : World R) :
    (∀ (op : UOp R) (c : Cont R), NextUnused w (op.container c w).1 (op.container c w).2)
      ∧ (∀ (op : BOp R) (a b c' : Cont R) w', a.WF → b.WF → op.container a b w = .ok (c', w') →
          NextUnused w c' w') := by
  constructor
  · intro op c
    rw [uop_container_eq]
    exact unary_nextUnused c _ _ w
  · intro op a b c' w' ha hb hok
    rw [bop_container_eq] at hok
    exact (binary_ok_spec a b _ _ _ w ha hb c' w' hok).2.1

/-! ### the tapes stay well formed; derivatives are total (C15: "every derivative set has exactly
    one entry per tape entry") -/

/-- **Every container operation keeps every tape well formed** (`Tape.WF`, the hypothesis of
    C04's `reverse_eq_grad` / `sweep_correct`: an entry's parents are earlier entries, or the entry
    itself with weight zero), lets the tapes only grow (earlier entries and positions are never
    touched) and puts its result on its tape (`OnTape`: every stored position exists) —
    `variables`, `reset`, all fifteen one-container and five two-container elementwise operations
    and both matrix multiplications, for operands that are themselves on their tapes.  So the
    invariant holds along every history of container operations starting from empty tapes. -/
theorem tape_invariant (w : World R) (hw : WorldWF w) :
    (∀ h shape (vals : List R), vals.length = elements shape →
        Keeps w (Cont.variables h shape vals w).1 (Cont.variables h shape vals w).2)
      ∧ (∀ c : Cont R, c.WF → Keeps w (c.reset w).1 (c.reset w).2)
      ∧ (∀ (op : UOp R) (c : Cont R), OnTape w c → Keeps w (op.container c w).1 (op.container c w).2)
      ∧ (∀ (op : BOp R) (a b c' : Cont R) w', a.WF → b.WF → OnTape w a → OnTape w b →
          op.container a b w = .ok (c', w') → Keeps w c' w')
      ∧ (∀ (a b c' : Cont R) w', OnTape w a → OnTape w b →
          (a.matmulTensor b w = .ok (c', w') ∨ a.matmulMatrix b w = .ok (c', w')) → Keeps w c' w') := by
  refine ⟨fun h shape vals hl => variables_keeps h shape vals w hw hl,
    fun c hc => reset_keeps c w hw hc, ?_, ?_, ?_⟩
  · intro op c hc
    rw [uop_container_eq]
    exact unary_keeps c _ _ w hw hc
  · intro op a b c' w' ha hb hoa hob hok
    rw [bop_container_eq] at hok
    exact binary_keeps a b _ _ _ w hw hoa hob ha hb c' w' hok
  · intro a b c' w' hoa hob hok
    rcases hok with hok | hok
    · exact (matmul_keeps a b w hw hoa hob c' w').1 hok
    · exact (matmul_keeps a b w hw hoa hob c' w').2 hok

/-- the empty tapes are well formed and a constants container is on them -/
example : WorldWF (World.empty : World ℚ) ∧ OnTape (World.empty : World ℚ) (Cont.constants [("a", 1)] [2]) :=
  ⟨fun _ => Tape.WF_nil, fun h hh => by simp [Cont.constants] at hh⟩

/-- **`derivatives()` of a variable container is total** on well-formed tapes: it never panics,
    returns one derivative vector per element (in row-major order), and every vector has exactly
    one entry per tape entry. -/
theorem container_derivatives_total (c : Cont R) (w : World R) (h : Nat) (hh : c.history = some h)
    (hw : WorldWF w) (hc : OnTape w c) :
    ∃ ds, c.derivatives w = .ok (some ds) ∧ ds.length = c.elems.length
      ∧ ∀ d ∈ ds, d.length = (w h).length :=
  derivatives_total c w h hh hw hc

/-! ### user closures that panic -/

/-- **A panicking user closure leaves the tapes of the element-by-element computation so far.**
    When the function handed to `unary` / `unary_assign` (`binary` / `binary_left_assign` /
    `binary_right_assign`, `map`) panics at element `k`, the tapes are exactly those the scalar
    record operator leaves after the first `k` elements (pairs); no container is produced and the
    operands are not touched (the model's outcome is the tapes alone). -/
theorem panicking_closure_frame (k : Nat) (w : World R) :
    (∀ (c : Cont R) (fx dfx : R → R),
        c.unaryPanicAt fx dfx k w = (Cont.mapRecs (fun r => r.unary fx dfx) (c.toRecs.take k) w).2)
      ∧ (∀ (a b : Cont R) (f dfx dfy : R → R → R), a.shape = b.shape →
          areSameList a.history b.history = true →
          ∃ recs, zipRecs (fun x y => x.binary y f dfx dfy) (a.toRecs.take k) (b.toRecs.take k) w
            = .ok (recs, a.binaryPanicAt b f dfx dfy k w))
      ∧ (∀ (c : Cont R) (f : Nat → Rec R → World R → Rec R × World R),
          c.mapPanicAt f k w = (Cont.mapRecsIdx f 0 (c.toRecs.take k) w).2
            ∧ (c.mapMutPanicAt f k w).2 = (Cont.mapRecsIdx f 0 (c.toRecs.take k) w).2
            ∧ (c.mapMutPanicAt f k w).1.elems
                = ((Cont.mapRecsIdx f 0 (c.toRecs.take k) w).1.map fun r => (r.number, r.index))
                    ++ c.elems.drop k
            ∧ (c.mapMutPanicAt f k w).1.history = c.history) :=
  ⟨fun c fx dfx => unaryPanicAt_eq c fx dfx k w,
   fun a b f dfx dfy hs hsame => binaryPanicAt_eq a b f dfx dfy k w hs hsame,
   fun _ _ => ⟨rfl, rfl, rfl, rfl⟩⟩

/-! ### variables of two different tapes (C15, container part) -/

/-- **Every binary operation between record containers of two different tapes is rejected with
    a panic** — `binary`, `+`, `-`, `elementwise_multiply`, `elementwise_divide`,
    `binary_left_assign`, `binary_right_assign`, matrix multiplication of record tensors and
    (repaired code) of record matrices — whatever the shapes; nothing is appended to any tape
    (the outcome carries no new tapes). -/
theorem container_cross_tape_rejected (a b : Cont R) (w : World R) (h h' : Nat)
    (hha : a.history = some h) (hhb : b.history = some h') (hne : h ≠ h') :
    (∀ op : BOp R, op.container a b w = .panic .explicit
        ∧ a.binaryLeftAssign b op.fns.1 op.fns.2.1 op.fns.2.2 w = .panic .explicit
        ∧ a.binaryRightAssign b op.fns.1 op.fns.2.1 op.fns.2.2 w = .panic .explicit)
      ∧ a.matmulTensor b w = .panic .explicit
      ∧ a.matmulMatrix b w = .panic .explicit := by
  have hsame : areSameList a.history b.history = false := by simp [areSameList, hha, hhb, hne]
  refine ⟨fun op => ?_, ?_, ?_⟩
  · have hb := binary_cross a b op.fns.1 op.fns.2.1 op.fns.2.2 w h h' hha hhb hne
    refine ⟨by rw [bop_container_eq]; exact hb, ?_, ?_⟩
    · rw [binaryLeftAssign_eq, hb]; rfl
    · rw [binaryRightAssign_eq, hb]; rfl
  · simp [Cont.matmulTensor, Cont.matmulTensorWith, hsame]
  · simp [Cont.matmulMatrix, hsame]

example : (⟨[("r", 1), ("c", 1)], [((2 : ℚ), 0)], some 0⟩ : Cont ℚ).history = some 0 ∧ (0 : ℕ) ≠ 1 :=
  ⟨rfl, by decide⟩

/-! ## The rest of the surface: iterators as records, conversions, `Clone`, the container as a
source, the by-value forms (Model/RecordContainerSurface.lean)

These are the items the harness drives with comparisons of its own (`api-check-failed`) or
through an ownership form the container model identified with another one. -/

/-! ### `AsRecords` over the C09 iterators -/

/-- **`iter_as_records` / `AsRecords::from_tensor` / `AsRecords::from(history, TensorIterator)`**
    yields exactly the container's element-by-element records, in row-major order of its shape,
    then `None` forever; it never panics and never reads outside the source (every item is
    `some (some _)`).  `state k` is C09's `ShapeIterator` after `k` calls. -/
theorem iter_as_records_items (c : Cont R) (hc : c.WF) :
    Enumerates c.iterAsRecordsNext c.tensorIterStart (elements c.shape)
      (fun k => (c.toRecs[k]?).map some) (fun k => ShapeIter.steps k c.tensorIterStart) := by
  have E := asRecords_enumerates
    ((shape_enumerates (c.shape.map (·.2))).copy c.getReferenceUnchecked (id : R × Nat → R × Nat)) c.history
  refine enumerates_congr E ?_
  intro k
  by_cases hk : k < elements c.shape
  · have hk' : k < prod (c.shape.map (·.2)) := hk
    have hlt : k < c.elems.length := by rw [hc.length_eq]; exact hk
    simp only [shapeItem, hk', if_true, Option.map_some, Cont.getReferenceUnchecked,
      getReference_unravel c k hk, toRecs_getElem?, List.getElem?_eq_getElem hlt, id]
  · have hk' : ¬ k < prod (c.shape.map (·.2)) := hk
    have hge : c.toRecs.length ≤ k := by
      simp only [Cont.toRecs, List.length_map, hc.length_eq]; omega
    simp [shapeItem, hk', List.getElem?_eq_none hge]

example : (⟨[("a", 2)], [((2 : ℚ), 0), (3, 1)], some 0⟩ : Cont ℚ).WF := ⟨by decide, by simp, by simp⟩

/-- … so the first `n` calls return the first `n` records (padded with `None`s), … -/
theorem iter_as_records_collect (c : Cont R) (hc : c.WF) (n : Nat) :
    collect c.iterAsRecordsNext n c.tensorIterStart =
      .ok ((List.range n).map fun k => (c.toRecs[k]?).map some, ShapeIter.steps n c.tensorIterStart) := by
  have := (iter_as_records_items c hc).collect_from n 0
  rw [(iter_as_records_items c hc).start, Nat.zero_add, ← List.range_eq_range'] at this
  exact this

/-- … and `size_hint()` / `len()` after any `k` calls (past the end included) are exactly the
    number of records still to come (for element counts that fit a `usize`). -/
theorem iter_as_records_len (c : Cont R) (hfit : elements c.shape ≤ usizeMax) (k : Nat) :
    c.iterAsRecordsSizeHint (ShapeIter.steps k c.tensorIterStart) =
        .ok (remaining (elements c.shape) k, some (remaining (elements c.shape) k)) ∧
      lenOfHint (c.iterAsRecordsSizeHint (ShapeIter.steps k c.tensorIterStart)) =
        .ok (remaining (elements c.shape) k) :=
  C09.shapeIter_len (c.shape.map fun (d : String × Nat) => d.2) hfit k

example : elements [("a", 2), ("b", 3)] ≤ usizeMax := by decide

/-- **`iter_row_major_as_records` / `AsRecords::from_matrix_row_major`**: the records in
    row-major order, exact lengths at every step. -/
theorem iter_row_major_as_records_items (c : Cont R) (hc : c.WF) (rn cn : String) (r k : Nat)
    (hs : c.shape = [(rn, r), (cn, k)]) :
    Enumerates c.iterRowMajorAsRecordsNext c.matIterStart (r * k)
        (fun n => (c.toRecs[n]?).map some) (rowMajorState r k)
      ∧ (r * k ≤ usizeMax → ∀ n,
          Cont.asRecordsSizeHint rowMajorSizeHint (rowMajorState r k n) =
            .ok (remaining (r * k) n, some (remaining (r * k) n))) := by
  have hlen : c.elems.length = r * k := by
    rw [hc.length_eq, hs]; simp [elements, prod]
  constructor
  · have E := asRecords_enumerates
      ((rowMajor_enumerates r k).copy c.matrixCell (id : R × Nat → R × Nat)) c.history
    have hstart : c.matIterStart = MatIter.new r k := by
      simp [Cont.matIterStart, Cont.viewRows, Cont.viewColumns, hs]
    rw [hstart]
    refine enumerates_congr E ?_
    intro n
    by_cases hn : n < r * k
    · have hk0 : 0 < k := by
        rcases Nat.eq_zero_or_pos k with h0 | h0
        · rw [h0] at hn; simp at hn
        · exact h0
      have hdiv : n / k < r := (Nat.div_lt_iff_lt_mul hk0).mpr hn
      have hmod : n % k < k := Nat.mod_lt _ hk0
      have hpos : n / k * k + n % k = n := Nat.div_add_mod' n k
      have hlt : n < c.elems.length := by rw [hlen]; exact hn
      simp only [rowMajorItem, hn, if_true, Option.map_some, Cont.matrixCell, Cont.tryGetReference,
        Cont.getReference, hs, position_matrix, hdiv, hmod, and_self, hpos, toRecs_getElem?,
        List.getElem?_eq_getElem hlt, id]
    · have hge : c.toRecs.length ≤ n := by
        simp only [Cont.toRecs, List.length_map, hlen]; omega
      simp [rowMajorItem, hn, List.getElem?_eq_none hge]
  · intro hfit n
    exact rowMajorSizeHint_state r k n hfit

/-- **`iter_column_major_as_records` / `AsRecords::from_matrix_column_major`**: call `n` returns
    the record at row `n % rows`, column `n / rows`. -/
theorem iter_column_major_as_records_items (c : Cont R) (hc : c.WF) (rn cn : String) (r k : Nat)
    (hs : c.shape = [(rn, r), (cn, k)]) :
    Enumerates c.iterColumnMajorAsRecordsNext c.matIterStart (r * k)
        (fun n => if n < r * k then some (c.toRecs[n % r * k + n / r]?) else none)
        (colMajorState r k)
      ∧ (∀ n, n < r * k → (c.toRecs[n % r * k + n / r]?).isSome = true)
      ∧ (r * k ≤ usizeMax → ∀ n,
          Cont.asRecordsSizeHint colMajorSizeHint (colMajorState r k n) =
            .ok (remaining (r * k) n, some (remaining (r * k) n))) := by
  have hlen : c.elems.length = r * k := by
    rw [hc.length_eq, hs]; simp [elements, prod]
  have hbound : ∀ n, n < r * k → n % r * k + n / r < r * k := by
    intro n hn
    have hr0 : 0 < r := by
      rcases Nat.eq_zero_or_pos r with h0 | h0
      · rw [h0] at hn; simp at hn
      · exact h0
    have hmod : n % r < r := Nat.mod_lt _ hr0
    have hdiv : n / r < k := (Nat.div_lt_iff_lt_mul hr0).mpr (by rw [Nat.mul_comm]; exact hn)
    calc n % r * k + n / r < n % r * k + k := by omega
      _ = (n % r + 1) * k := by rw [Nat.add_mul, Nat.one_mul]
      _ ≤ r * k := Nat.mul_le_mul_right _ hmod
  refine ⟨?_, ?_, ?_⟩
  · have E := asRecords_enumerates
      ((colMajor_enumerates r k).copy c.matrixCell (id : R × Nat → R × Nat)) c.history
    have hstart : c.matIterStart = MatIter.new r k := by
      simp [Cont.matIterStart, Cont.viewRows, Cont.viewColumns, hs]
    rw [hstart]
    refine enumerates_congr E ?_
    intro n
    by_cases hn : n < r * k
    · have hr0 : 0 < r := by
        rcases Nat.eq_zero_or_pos r with h0 | h0
        · rw [h0] at hn; simp at hn
        · exact h0
      have hmod : n % r < r := Nat.mod_lt _ hr0
      have hdiv : n / r < k := (Nat.div_lt_iff_lt_mul hr0).mpr (by rw [Nat.mul_comm]; exact hn)
      simp only [colMajorItem, hn, if_true, Option.map_some, Cont.matrixCell, Cont.tryGetReference,
        Cont.getReference, hs, position_matrix, hdiv, hmod, and_self, toRecs_getElem?, id]
      cases c.elems[n % r * k + n / r]? <;> rfl
    · simp [colMajorItem, hn]
  · intro n hn
    have : n % r * k + n / r < c.toRecs.length := by
      simp only [Cont.toRecs, List.length_map, hlen]; exact hbound n hn
    simp [List.getElem?_eq_getElem this]
  · intro hfit n
    exact colMajorSizeHint_state r k n hfit

example : (⟨[("r", 1), ("c", 2)], [((2 : ℚ), 0), (3, 1)], some 0⟩ : Cont ℚ).shape
    = [("r", 1), ("c", 2)] := rfl

/-- **`with_index()` / `WithIndex::from`**: every record comes with the index it has in the
    container (the `k`-th index of the shape), nothing else changes. -/
theorem iter_as_records_with_index_items (c : Cont R) (hc : c.WF) :
    Enumerates c.iterAsRecordsWithIndexNext c.tensorIterStart (elements c.shape)
      (fun k => (c.toRecs[k]?).map fun r => (unravel (c.shape.map (·.2)) k, some r))
      (fun k => ShapeIter.steps k c.tensorIterStart) := by
  have E0 := (shape_enumerates (c.shape.map (·.2))).copy c.getReferenceUnchecked (id : R × Nat → R × Nat)
  have E := asRecordsWithIndex_enumerates (E0.withIndex fun s => s.indexes) c.history
  refine enumerates_congr E ?_
  intro k
  by_cases hk : k < elements c.shape
  · have hk' : k < prod (c.shape.map (·.2)) := hk
    have hlt : k < c.elems.length := by rw [hc.length_eq]; exact hk
    have hidx := ((steps_spec (c.shape.map (·.2)) k).2.1 hk').2
    simp only [shapeItem, hk', if_true, Option.map_some, Cont.getReferenceUnchecked,
      getReference_unravel c k hk, toRecs_getElem?, List.getElem?_eq_getElem hlt, id, hidx]
  · have hk' : ¬ k < prod (c.shape.map (·.2)) := hk
    have hge : c.toRecs.length ≤ k := by
      simp only [Cont.toRecs, List.length_map, hc.length_eq]; omega
    simp [shapeItem, hk', List.getElem?_eq_none hge]

/-! ### conversions, `Clone`, the container as a source -/

/-- **The four `From` impls** between `Record` and the 0-dimensional `RecordTensor` keep the
    number, the tape **and the position**: the container made from a record (by value or by
    reference) has exactly that record as its only element-by-element record, converting back
    (by value or by reference) returns it, nothing touches a tape (none of the functions takes
    one). -/
theorem from_conversions_keep_index (r : Rec R) (c : Cont R) :
    Cont.fromRecord r = Cont.ofRecord r ∧ Cont.fromRecordRef r = Cont.ofRecord r
      ∧ (Cont.fromRecordRef r).toRecs = [r] ∧ (Cont.fromRecord r).toRecs = [r]
      ∧ (Cont.fromRecordRef r).intoRecordRef = .ok r ∧ (Cont.fromRecord r).intoRecord = .ok r
      ∧ c.intoRecord = c.toRecord ∧ c.intoRecordRef = c.toRecord := by
  refine ⟨rfl, rfl, rfl, rfl, rfl, rfl, ?_, ?_⟩ <;>
    (simp only [Cont.intoRecord, Cont.intoRecordRef, Cont.toRecord]; cases c.elems <;> rfl)

/-- **`clone` / `clone_from`**: the copy is the same container — same shape, same numbers, same
    tape, same positions (so the same derivatives); `clone_from` is `clone` whatever the
    overwritten container was. -/
theorem clone_eq (c other : Cont R) :
    c.clone = c ∧ Cont.cloneFrom other c = c ∧ c.clone.abs = c.abs := by
  have h : c.clone = c := by
    cases c with
    | mk shape elems history => simp [Cont.clone]
  exact ⟨h, h, by rw [h]⟩

/-- **The container as a `TensorRef` / `MatrixRef` source.**  `view_shape` is the shape;
    `get_reference` (and the unchecked form) at an index is the element `try_get_as_record` turns
    into a record there — present exactly for in-bounds indexes; the matrix getters are the
    2-dimensional case, `(row, column)` designating element `row * columns + column`. -/
theorem source_getters_eq_element_access (c : Cont R) (hc : c.WF) (idx : List Nat) :
    c.viewShape = c.shape
      ∧ (c.getReference idx).map (fun e => Rec.fromExisting e c.history)
          = c.tryGetAsRecord (Cont.position c.shape idx)
      ∧ c.getReferenceUnchecked idx = c.getReference idx
      ∧ (c.getReference idx).isSome = inBounds (c.shape.map (·.2)) idx
      ∧ (∀ rn cn r k i j, c.shape = [(rn, r), (cn, k)] →
          c.viewRows = r ∧ c.viewColumns = k
            ∧ c.tryGetReference i j = if i < r ∧ j < k then c.elems[i * k + j]? else none) := by
  refine ⟨rfl, ?_, rfl, getReference_some_iff c hc.length_eq idx, ?_⟩
  · unfold Cont.getReference Cont.tryGetAsRecord
    cases Cont.position c.shape idx with
    | none => rfl
    | some k => simp [Rec.fromExisting]
  · intro rn cn r k i j hs
    refine ⟨by simp [Cont.viewRows, hs], by simp [Cont.viewColumns, hs], ?_⟩
    simp only [Cont.tryGetReference, Cont.getReference, hs, position_matrix]
    by_cases hij : i < r ∧ j < k <;> simp [hij]

/-- A write through `get_reference_mut` / `try_get_reference_mut` (or the unchecked forms)
    replaces exactly the designated element: reading the index back gives what was written,
    every other position keeps its element, shape and tape are untouched; out of range nothing
    is written. -/
theorem source_write_then_read (c c' : Cont R) (idx : List Nat) (e : R × Nat) :
    (c.writeReference idx e = some c' →
        c'.getReference idx = some e ∧ c'.shape = c.shape ∧ c'.history = c.history
          ∧ ∃ k, Cont.position c.shape idx = some k ∧ c'.elems = c.elems.set k e)
      ∧ (inBounds (c.shape.map (·.2)) idx = false → c.writeReference idx e = none) := by
  constructor
  · intro h
    unfold Cont.writeReference at h
    cases hp : Cont.position c.shape idx with
    | none => simp [hp] at h
    | some k =>
      simp only [hp] at h
      split at h
      · rename_i hk
        injection h with h; subst h
        refine ⟨?_, rfl, rfl, k, rfl, rfl⟩
        simp [Cont.getReference, hp, hk]
      · cases h
  · intro hb
    unfold Cont.writeReference
    rw [position_eq]
    simp [hb]

/-! ### containers over views -/

/-- **An operator applied to a view of a container is the operator applied to the viewed
    records.**  A container made by `from_existing` over a view that shows the source's elements
    at `offsets` (in range, as many as the view's shape has cells, at least one) is well formed,
    its element-by-element records are the source's records at those offsets, and every
    one-container operation on it — and every two-container operation with another container of
    the view's shape — gives the records, tapes and panic of the scalar operator applied to the
    viewed records in the view's row-major order. -/
theorem operator_through_view (c : Cont R) (hc : c.WF) (vshape : Shape String) (offsets : List Nat)
    (hin : ∀ o ∈ offsets, o < c.elems.length) (hlen : offsets.length = elements vshape)
    (hne : offsets ≠ []) :
    (c.viewBy vshape offsets).WF
      ∧ (c.viewBy vshape offsets).toRecs = offsets.filterMap (fun o => c.toRecs[o]?)
      ∧ (∀ (op : UOp R) (w : World R),
          asRecs (op.container (c.viewBy vshape offsets) w)
            = Cont.mapRecs op.scalar (offsets.filterMap fun o => c.toRecs[o]?) w)
      ∧ (∀ (op : BOp R) (b : Cont R) (w : World R), b.WF → b.shape = vshape →
          (op.container (c.viewBy vshape offsets) b w).map asRecs
            = zipRecs op.scalar (offsets.filterMap fun o => c.toRecs[o]?) b.toRecs w) := by
  have hfm : ∀ offs : List Nat, (∀ o ∈ offs, o < c.elems.length) →
      (offs.filterMap fun o => c.elems[o]?).length = offs.length
        ∧ ∀ e ∈ (offs.filterMap fun o => c.elems[o]?), e ∈ c.elems := by
    intro offs
    induction offs with
    | nil => intro _; exact ⟨rfl, fun e he => by cases he⟩
    | cons o rest ih =>
      intro h
      have ho : o < c.elems.length := h o (by simp)
      have ih' := ih fun x hx => h x (by simp [hx])
      simp only [List.filterMap_cons, List.getElem?_eq_getElem ho, List.length_cons, ih'.1]
      refine ⟨trivial, ?_⟩
      intro e he
      rcases List.mem_cons.mp he with rfl | he
      · exact List.getElem_mem ho
      · exact ih'.2 e he
  have hwf : (c.viewBy vshape offsets).WF := by
    refine ⟨by simp only [Cont.viewBy, (hfm offsets hin).1, hlen], ?_, ?_⟩
    · intro hnil
      have : (offsets.filterMap fun o => c.elems[o]?).length = 0 := by
        simp only [Cont.viewBy] at hnil; rw [hnil]; rfl
      rw [(hfm offsets hin).1] at this
      exact hne (List.eq_nil_of_length_eq_zero this)
    · intro hh e he
      exact hc.const_zero hh e ((hfm offsets hin).2 e he)
  have hrecs : (c.viewBy vshape offsets).toRecs = offsets.filterMap (fun o => c.toRecs[o]?) := by
    simp only [Cont.viewBy, Cont.toRecs, List.map_filterMap, List.getElem?_map]
  refine ⟨hwf, hrecs, ?_, ?_⟩
  · intro op w
    rw [(container_eq_elementwise_unary op _ w).1, hrecs]
  · intro op b w hb hs
    rw [container_eq_elementwise_binary op _ b w hwf hb (by simp [Cont.viewBy, hs]), hrecs]

example : ∀ o ∈ [1, 0], o < [((2 : ℚ), 0), (3, 1)].length := by decide

/-! ### the by-value forms -/

/-- **`do_unary_assign`, `do_binary_left_assign`, `do_binary_right_assign`, `do_reset`** (tensor
    and matrix) are the by-reference forms applied to the container that was moved in. -/
theorem do_forms_eq (a b : Cont R) (fx dfx1 : R → R) (f dfx dfy : R → R → R) (w : World R) :
    a.doUnaryAssign fx dfx1 w = a.unaryAssign fx dfx1 w
      ∧ a.doBinaryLeftAssign b f dfx dfy w = a.binaryLeftAssign b f dfx dfy w
      ∧ a.doBinaryRightAssign b f dfx dfy w = a.binaryRightAssign b f dfx dfy w
      ∧ a.doReset w = a.reset w := by
  refine ⟨rfl, ?_, ?_, rfl⟩
  · unfold Cont.doBinaryLeftAssign
    cases a.binaryLeftAssign b f dfx dfy w with
    | ok r => cases r; rfl
    | panic k => rfl
  · unfold Cont.doBinaryRightAssign
    cases a.binaryRightAssign b f dfx dfy w with
    | ok r => cases r; rfl
    | panic k => rfl

/-- **`do_binary_right_assign` pairs every partial derivative with its own operand.**  The
    container that comes back holds, element by element, the scalar record
    `y.binary(x, |y, x| f(x, y), |y, x| f_y(x, y), |y, x| f_x(x, y))` of the right element `y`
    and the left element `x`: the entry appended for it names `y`'s position with the
    derivative `f_y(x, y)` and `x`'s position with `f_x(x, y)`. -/
theorem do_binary_right_assign_eq_elementwise (a b : Cont R) (f dfx dfy : R → R → R) (w : World R)
    (hs : a.shape = b.shape) (ha : a.WF) (hb : b.WF) :
    ((a.doBinaryRightAssign b f dfx dfy w).map fun r => (r.1.shape, r.1.toRecs, r.2))
      = (zipRecs (fun y x w => y.binary x (fun y x => f x y) (fun y x => dfy x y) (fun y x => dfx x y) w)
          b.toRecs a.toRecs w).map fun r => (b.shape, r.1, r.2) := by
  rw [(do_forms_eq a b id id f dfx dfy w).2.2.1]
  unfold Cont.binaryRightAssign
  rw [binaryLeftAssign_eq]
  have key := binary_eq b a (fun y x => f x y) (fun y x => dfy x y) (fun y x => dfx x y) w hs.symm
    hb.nonempty ha.nonempty
  rw [← key]
  cases b.binary a (fun y x => f x y) (fun y x => dfy x y) (fun y x => dfx x y) w with
  | panic k => rfl
  | ok r => simp [Outcome.map, asRecs, toRecs_eq]

/-! ## Shapes and histories through whole programs

What the generator sections "assign forms × pairings × follow-up uses" and "producer → consumer
pairs" sample, for every program: a container that is the result of any sequence of operations
— allocating, in place, multiplications, `reset` — is the same container (shape, numbers, tape,
positions) as the one built element by element, so whatever consumes it next sees the same
operand. -/

/-- After a two-operand assign form (`binary_left_assign`, `binary_right_assign`, the `do_*`
    variants) the overwritten container is on a tape exactly when either operand was, and on that
    operand's tape (the left one's if both were — they are then the same); the one-operand assign
    form keeps the history.  Shapes are untouched. -/
theorem assign_history (op : BOp R) (a b c' : Cont R) (w w' : World R) (ha : a.WF) (hb : b.WF) :
    (a.binaryLeftAssign b op.fns.1 op.fns.2.1 op.fns.2.2 w = .ok (c', w') →
        c'.history = Cont.pickHistory a.history b.history ∧ c'.shape = a.shape
          ∧ (c'.history.isSome ↔ (a.history.isSome ∨ b.history.isSome)))
      ∧ (a.binaryRightAssign b op.fns.1 op.fns.2.1 op.fns.2.2 w = .ok (c', w') →
        c'.history = Cont.pickHistory a.history b.history ∧ c'.shape = b.shape
          ∧ (c'.history.isSome ↔ (a.history.isSome ∨ b.history.isSome)))
      ∧ (∀ (u : UOp R), ((a.unaryAssign u.fns.1 u.fns.2 w).1.history = a.history
          ∧ (a.unaryAssign u.fns.1 u.fns.2 w).1.shape = a.shape)) := by
  have hpick : ∀ x y : Option Nat,
      ((Cont.pickHistory x y).isSome ↔ (x.isSome ∨ y.isSome)) := by
    intro x y; cases x <;> cases y <;> simp [Cont.pickHistory]
  refine ⟨?_, ?_, ?_⟩
  · intro h
    rw [binaryLeftAssign_eq] at h
    cases hbin : a.binary b op.fns.1 op.fns.2.1 op.fns.2.2 w with
    | panic k => rw [hbin] at h; cases h
    | ok r =>
      obtain ⟨c0, w0⟩ := r
      have hspec := binary_ok_spec a b _ _ _ w ha hb c0 w0 hbin
      rw [hbin] at h
      simp only [Outcome.map] at h
      injection h with h; injection h with h1 _; subst h1
      exact ⟨hspec.2.2.2, rfl, by simp only [hspec.2.2.2]; exact hpick _ _⟩
  · intro h
    rw [binaryRightAssign_eq] at h
    cases hbin : a.binary b op.fns.1 op.fns.2.1 op.fns.2.2 w with
    | panic k => rw [hbin] at h; cases h
    | ok r =>
      obtain ⟨c0, w0⟩ := r
      have hspec := binary_ok_spec a b _ _ _ w ha hb c0 w0 hbin
      rw [hbin] at h
      simp only [Outcome.map] at h
      injection h with h; injection h with h1 _; subst h1
      exact ⟨hspec.2.2.2, rfl, by simp only [hspec.2.2.2]; exact hpick _ _⟩
  · intro u
    rw [unaryAssign_eq a _ _ w ha.const_zero]
    exact ⟨(unary_shape a _ _ w).2, rfl⟩

example : (Cont.pickHistory (none : Option Nat) (some 3)).isSome = true := by decide

/-- One instruction of a container program — a constructor, an allocating operator, a
    multiplication, `reset`, an assign form — run by the container code on well-formed
    containers gives the containers (shape and records: numbers, tapes, positions), the tapes and
    the panic that the same instruction gives element by element; and the containers stay well
    formed. -/
theorem history_step_eq_elementwise (i : CInstr R) (cs : List (Cont R)) (w : World R)
    (hwf : AllWF cs) :
    (i.stepModel cs w).map absState = i.stepSpec (cs.map Cont.abs) w
      ∧ ∀ cs' w', i.stepModel cs w = .ok (cs', w') → AllWF cs' := by
  cases i with
  | vars h shape vals =>
    simp only [CInstr.stepModel, CInstr.stepSpec]
    by_cases hbad : vals.length ≠ elements shape ∨ vals.length = 0
    · rw [if_pos hbad, if_pos hbad]
      exact ⟨rfl, fun _ _ h => by cases h⟩
    · rw [if_neg hbad, if_neg hbad]
      have hlen : vals.length = elements shape := by
        by_cases h : vals.length = elements shape
        · exact h
        · exact absurd (Or.inl h) hbad
      have hne : vals ≠ [] := fun h => hbad (Or.inr (by rw [h]; rfl))
      constructor
      · have key := variables_eq h shape vals w hlen
        simp only [asRecs, Prod.ext_iff] at key
        simp only [Outcome.map, absState, List.map_append,
          List.map_cons, List.map_nil, Cont.abs, ← key.1, ← key.2]
        simp [Cont.variables]
      · intro cs' w' h'
        injection h' with h'; injection h' with h1 _; subst h1
        exact allWF_append hwf (((container_wf w).1 shape vals hlen hne).2 h)
  | consts shape vals =>
    simp only [CInstr.stepModel, CInstr.stepSpec]
    by_cases hbad : vals.length ≠ elements shape ∨ vals.length = 0
    · rw [if_pos hbad, if_pos hbad]
      exact ⟨rfl, fun _ _ h => by cases h⟩
    · rw [if_neg hbad, if_neg hbad]
      have hlen : vals.length = elements shape := by
        by_cases h : vals.length = elements shape
        · exact h
        · exact absurd (Or.inl h) hbad
      have hne : vals ≠ [] := fun h => hbad (Or.inr (by rw [h]; rfl))
      constructor
      · simp only [Outcome.map, absState, List.map_append,
          List.map_cons, List.map_nil, Cont.abs]
        simp [Cont.constants, toRecs_eq, recsOf, Rec.constant, List.map_map, Function.comp_def]
      · intro cs' w' h
        injection h with h; injection h with h1 _; subst h1
        exact allWF_append hwf ((container_wf w).1 shape vals hlen hne).1
  | un op a =>
    simp only [CInstr.stepModel, CInstr.stepSpec, abs_get]
    cases hc : cs[a]? with
    | none => exact ⟨rfl, fun _ _ h => by cases h⟩
    | some c =>
      have hcw := allWF_get hwf a c hc
      constructor
      · have key := unary_eq c op.fns.1 op.fns.2 w
        simp only [asRecs, Prod.ext_iff] at key
        simp only [Option.map_some, Outcome.map, absState, List.map_append, List.map_cons,
          List.map_nil, Cont.abs, uop_container_eq, uop_scalar_fun, ← key.1, ← key.2,
          (unary_shape c op.fns.1 op.fns.2 w).1]
      · intro cs' w' h
        injection h with h; injection h with h1 _; subst h1
        exact allWF_append hwf ((container_wf w).2.1 op c hcw)
  | bin op a b =>
    simp only [CInstr.stepModel, CInstr.stepSpec, abs_get]
    cases hx : cs[a]? with
    | none => exact ⟨rfl, fun _ _ h => by cases h⟩
    | some x =>
      cases hy : cs[b]? with
      | none => exact ⟨rfl, fun _ _ h => by cases h⟩
      | some y =>
        have hxw := allWF_get hwf a x hx
        have hyw := allWF_get hwf b y hy
        simp only [Option.map_some, Cont.abs]
        by_cases hs : x.shape = y.shape
        · rw [if_neg (not_not.mpr hs)]
          have key := binary_eq x y op.fns.1 op.fns.2.1 op.fns.2.2 w hs hxw.nonempty hyw.nonempty
          rw [bop_container_eq, bop_scalar_fun]
          cases hbin : x.binary y op.fns.1 op.fns.2.1 op.fns.2.2 w with
          | panic k =>
            rw [hbin] at key
            simp only [Outcome.map] at key
            rw [← key]
            exact ⟨rfl, fun _ _ h => by cases h⟩
          | ok r =>
            obtain ⟨c0, w0⟩ := r
            have hspec := binary_ok_spec x y _ _ _ w hxw hyw c0 w0 hbin
            rw [hbin] at key
            simp only [Outcome.map, asRecs] at key
            rw [← key]
            constructor
            · simp [Outcome.map, absState, Cont.abs, hspec.2.2.1]
            · intro cs' w' h
              simp only [Outcome.map] at h
              injection h with h; injection h with h1 _; subst h1
              exact allWF_append hwf hspec.1
        · rw [if_pos hs, bop_container_eq, binary_shape_mismatch x y _ _ _ w hs]
          exact ⟨rfl, fun _ _ h => by cases h⟩
  | matmulT a b =>
    simp only [CInstr.stepModel, CInstr.stepSpec, abs_get]
    cases hx : cs[a]? with
    | none => exact ⟨rfl, fun _ _ h => by cases h⟩
    | some x =>
      cases hy : cs[b]? with
      | none => exact ⟨rfl, fun _ _ h => by cases h⟩
      | some y =>
        have hxw := allWF_get hwf a x hx
        have hyw := allWF_get hwf b y hy
        simp only [Option.map_some]
        rw [← matmulTensor_eq_spec x y w hxw hyw]
        cases hm : x.matmulTensor y w with
        | panic k => exact ⟨rfl, fun _ _ h => by cases h⟩
        | ok r =>
          obtain ⟨c0, w0⟩ := r
          constructor
          · simp [Outcome.map, absState]
          · intro cs' w' h
            simp only [Outcome.map] at h
            injection h with h; injection h with h1 _; subst h1
            exact allWF_append hwf ((container_wf_matmul x y c0 w w0 hxw hyw).1 hm)
  | matmulM a b =>
    simp only [CInstr.stepModel, CInstr.stepSpec, abs_get]
    cases hx : cs[a]? with
    | none => exact ⟨rfl, fun _ _ h => by cases h⟩
    | some x =>
      cases hy : cs[b]? with
      | none => exact ⟨rfl, fun _ _ h => by cases h⟩
      | some y =>
        have hxw := allWF_get hwf a x hx
        have hyw := allWF_get hwf b y hy
        simp only [Option.map_some]
        rw [← matmulMatrix_eq_spec x y w hxw hyw]
        cases hm : x.matmulMatrix y w with
        | panic k => exact ⟨rfl, fun _ _ h => by cases h⟩
        | ok r =>
          obtain ⟨c0, w0⟩ := r
          constructor
          · simp [Outcome.map, absState]
          · intro cs' w' h
            simp only [Outcome.map] at h
            injection h with h; injection h with h1 _; subst h1
            exact allWF_append hwf ((container_wf_matmul x y c0 w w0 hxw hyw).2 hm)
  | reset a =>
    simp only [CInstr.stepModel, CInstr.stepSpec, abs_get]
    cases hc : cs[a]? with
    | none => exact ⟨rfl, fun _ _ h => by cases h⟩
    | some c =>
      have hcw := allWF_get hwf a c hc
      constructor
      · have key := reset_eq c w hcw.length_eq
        simp only [asRecs, Prod.ext_iff] at key
        have hshape : (c.reset w).1.shape = c.shape := by
          unfold Cont.reset; cases c.history <;> rfl
        simp only [Option.map_some, Outcome.map, absState, List.map_set, Cont.abs, ← key.1,
          ← key.2, hshape]
      · intro cs' w' h
        injection h with h; injection h with h1 _; subst h1
        exact allWF_set hwf a (reset_wf c w hcw)
  | unAssign op a =>
    simp only [CInstr.stepModel, CInstr.stepSpec, abs_get]
    cases hc : cs[a]? with
    | none => exact ⟨rfl, fun _ _ h => by cases h⟩
    | some c =>
      have hcw := allWF_get hwf a c hc
      constructor
      · have key := unary_eq c op.fns.1 op.fns.2 w
        simp only [asRecs, Prod.ext_iff] at key
        simp only [Option.map_some]
        rw [unaryAssign_eq c _ _ w hcw.const_zero]
        simp only [Outcome.map, absState, List.map_set, Cont.abs,
          uop_scalar_fun, ← key.1, ← key.2]
        simp [toRecs_eq]
      · intro cs' w' h
        injection h with h; injection h with h1 _; subst h1
        exact allWF_set hwf a (unaryAssign_wf c _ _ w hcw)
  | leftAssign op a b =>
    simp only [CInstr.stepModel, CInstr.stepSpec, abs_get]
    cases hx : cs[a]? with
    | none => exact ⟨rfl, fun _ _ h => by cases h⟩
    | some x =>
      cases hy : cs[b]? with
      | none => exact ⟨rfl, fun _ _ h => by cases h⟩
      | some y =>
        have hxw := allWF_get hwf a x hx
        have hyw := allWF_get hwf b y hy
        simp only [Option.map_some, Cont.abs]
        rw [binaryLeftAssign_eq]
        by_cases hs : x.shape = y.shape
        · rw [if_neg (not_not.mpr hs)]
          have key := binary_eq x y op.fns.1 op.fns.2.1 op.fns.2.2 w hs hxw.nonempty hyw.nonempty
          rw [bop_scalar_fun]
          cases hbin : x.binary y op.fns.1 op.fns.2.1 op.fns.2.2 w with
          | panic k =>
            rw [hbin] at key
            simp only [Outcome.map] at key
            rw [← key]
            exact ⟨rfl, fun _ _ h => by cases h⟩
          | ok r =>
            obtain ⟨c0, w0⟩ := r
            have hspec := binary_ok_spec x y _ _ _ w hxw hyw c0 w0 hbin
            rw [hbin] at key
            simp only [Outcome.map, asRecs] at key
            rw [← key]
            constructor
            · simp [Outcome.map, absState, Cont.abs, List.map_set, toRecs_eq]
            · intro cs' w' h
              simp only [Outcome.map] at h
              injection h with h; injection h with h1 _; subst h1
              refine allWF_set hwf a ⟨?_, hspec.1.nonempty, hspec.1.const_zero⟩
              have := hspec.1.length_eq
              rw [hspec.2.2.1] at this
              exact this
        · rw [if_pos hs, binary_shape_mismatch x y _ _ _ w hs]
          exact ⟨rfl, fun _ _ h => by cases h⟩

  | rightAssign op a b =>
    simp only [CInstr.stepModel, CInstr.stepSpec, abs_get]
    cases hx : cs[a]? with
    | none => exact ⟨rfl, fun _ _ h => by cases h⟩
    | some x =>
      cases hy : cs[b]? with
      | none => exact ⟨rfl, fun _ _ h => by cases h⟩
      | some y =>
        have hxw := allWF_get hwf a x hx
        have hyw := allWF_get hwf b y hy
        simp only [Option.map_some, Cont.abs]
        rw [(do_forms_eq x y id id _ _ _ w).2.2.1]
        unfold Cont.binaryRightAssign
        rw [binaryLeftAssign_eq]
        by_cases hs : x.shape = y.shape
        · rw [if_neg (not_not.mpr hs)]
          have key := binary_eq y x (fun v u => op.fns.1 u v) (fun v u => op.fns.2.2 u v)
            (fun v u => op.fns.2.1 u v) w hs.symm hyw.nonempty hxw.nonempty
          cases hbin : y.binary x (fun v u => op.fns.1 u v) (fun v u => op.fns.2.2 u v)
              (fun v u => op.fns.2.1 u v) w with
          | panic k =>
            rw [hbin] at key
            simp only [Outcome.map] at key
            rw [← key]
            exact ⟨rfl, fun _ _ h => by cases h⟩
          | ok r =>
            obtain ⟨c0, w0⟩ := r
            have hspec := binary_ok_spec y x _ _ _ w hyw hxw c0 w0 hbin
            rw [hbin] at key
            simp only [Outcome.map, asRecs] at key
            rw [← key]
            constructor
            · simp [Outcome.map, absState, Cont.abs, List.map_set, toRecs_eq]
            · intro cs' w' h
              simp only [Outcome.map] at h
              injection h with h; injection h with h1 _; subst h1
              refine allWF_set hwf b ⟨?_, hspec.1.nonempty, hspec.1.const_zero⟩
              have := hspec.1.length_eq
              rw [hspec.2.2.1] at this
              exact this
        · have hs' : y.shape ≠ x.shape := fun e => hs e.symm
          rw [if_pos hs, binary_shape_mismatch y x _ _ _ w hs']
          exact ⟨rfl, fun _ _ h => by cases h⟩
  | clone a =>
    simp only [CInstr.stepModel, CInstr.stepSpec, abs_get]
    cases hc : cs[a]? with
    | none => exact ⟨rfl, fun _ _ h => by cases h⟩
    | some c =>
      have hcw := allWF_get hwf a c hc
      have hcl : Cont.cloneFrom c c.clone = c := by
        rw [(clone_eq c c).1]; exact (clone_eq c c).2.1
      simp only [Option.map_some]
      rw [hcl]
      constructor
      · simp [Outcome.map, absState]
      · intro cs' w' h
        injection h with h; injection h with h1 _; subst h1
        exact allWF_append hwf hcw
  | viaRecord a =>
    simp only [CInstr.stepModel, CInstr.stepSpec, abs_get]
    cases hc : cs[a]? with
    | none => exact ⟨rfl, fun _ _ h => by cases h⟩
    | some c =>
      have hcw := allWF_get hwf a c hc
      simp only [Option.map_some, Cont.abs, Cont.intoRecord, Cont.intoRecordRef, toRecs_eq]
      cases he : c.elems with
      | nil => exact absurd he hcw.nonempty
      | cons e es =>
        constructor
        · simp [Outcome.map, absState, Cont.abs, Cont.fromRecordRef, Rec.fromExisting, Rec.clone,
            toRecs_eq, recsOf]
        · intro cs' w' h
          simp only [] at h
          injection h with h; injection h with h1 _; subst h1
          exact allWF_append hwf (fromRecord_wf c hcw e (by rw [he]; simp))
  | elem a idx =>
    simp only [CInstr.stepModel, CInstr.stepSpec, abs_get]
    cases hc : cs[a]? with
    | none => exact ⟨rfl, fun _ _ h => by cases h⟩
    | some c =>
      have hcw := allWF_get hwf a c hc
      simp only [Option.map_some, Cont.abs]
      rw [(get_as_record_eq_scalar c (Cont.position c.shape idx)).2]
      cases hr : (Cont.position c.shape idx).bind (fun k => c.toRecs[k]?) with
      | none => exact ⟨rfl, fun _ _ h => by cases h⟩
      | some r =>
        constructor
        · simp [Outcome.map, absState, Cont.abs, Cont.fromRecord, toRecs_eq, recsOf]
        · intro cs' w' h
          simp only [] at h
          injection h with h; injection h with h1 _; subst h1
          -- the record is an element of `c`
          cases hp : Cont.position c.shape idx with
          | none => rw [hp] at hr; cases hr
          | some k =>
            rw [hp] at hr
            simp only [Option.bind_some, toRecs_getElem?] at hr
            cases hek : c.elems[k]? with
            | none => rw [hek] at hr; cases hr
            | some e =>
              rw [hek] at hr
              simp only [Option.map_some, Option.some.injEq, Rec.fromExisting] at hr
              subst hr
              exact allWF_append hwf (fromRecord_wf c hcw e (List.mem_of_getElem? hek))
  | swap a i j =>
    simp only [CInstr.stepModel, CInstr.stepSpec, abs_get]
    cases hc : cs[a]? with
    | none => exact ⟨rfl, fun _ _ h => by cases h⟩
    | some c =>
      have hcw := allWF_get hwf a c hc
      simp only [Option.map_some, Cont.abs]
      cases hpi : Cont.position c.shape i with
      | none => exact ⟨rfl, fun _ _ h => by cases h⟩
      | some pi =>
        cases hpj : Cont.position c.shape j with
        | none => exact ⟨rfl, fun _ _ h => by cases h⟩
        | some pj =>
          have key := swap_elems_eq_scalar c pi pj
          constructor
          · simp [Outcome.map, absState, Cont.abs, List.map_set, key.1, key.2.1]
          · intro cs' w' h
            simp only [] at h
            injection h with h; injection h with h1 _; subst h1
            exact allWF_set hwf a (swapElems_wf c pi pj hcw)
  | fromIter a =>
    simp only [CInstr.stepModel, CInstr.stepSpec, abs_get]
    cases hc : cs[a]? with
    | none => exact ⟨rfl, fun _ _ h => by cases h⟩
    | some c =>
      have hcw := allWF_get hwf a c hc
      simp only [Option.map_some, Cont.abs]
      rw [fromIterTensor_self c hcw]
      have hl : c.toRecs.length = c.elems.length := by simp [Cont.toRecs]
      rw [hl]
      by_cases hv : validateDimensions c.shape c.elems.length = none
      · rw [if_pos hv, if_pos hv]
        constructor
        · simp [Outcome.map, absState, Cont.abs]
        · intro cs' w' h
          simp only [] at h
          injection h with h; injection h with h1 _; subst h1
          exact allWF_append hwf hcw
      · rw [if_neg hv, if_neg hv]
        exact ⟨rfl, fun _ _ h => by cases h⟩

/-- **Histories through programs.**  Any program of container operations — constructors,
    allocating operators, both multiplications, `reset`, the in-place forms, each consuming the
    results of earlier ones — run on well-formed containers ends with the containers, tapes and
    panic the same program ends with when every container is a list of scalar records and every
    operation is done element by element.  In particular each result's history is `Some` exactly
    when the element-by-element records are on a tape. -/
theorem history_eq_elementwise (prog : List (CInstr R))
    (cs : List (Cont R)) (w : World R) (hwf : AllWF cs) :
    (runModel prog cs w).map absState = runSpec prog (cs.map Cont.abs) w
      ∧ ∀ cs' w', runModel prog cs w = .ok (cs', w') → AllWF cs' := by
  induction prog generalizing cs w with
  | nil =>
    refine ⟨rfl, ?_⟩
    intro cs' w' h
    simp only [runModel] at h
    injection h with h; injection h with h1 _; subst h1
    exact hwf
  | cons i rest ih =>
    have hstep := history_step_eq_elementwise i cs w hwf
    simp only [runModel, runSpec]
    rw [← hstep.1]
    cases hm : i.stepModel cs w with
    | panic k => exact ⟨rfl, fun _ _ h => by cases h⟩
    | ok r =>
      obtain ⟨cs1, w1⟩ := r
      simp only [Outcome.map, absState]
      exact ih cs1 w1 (hstep.2 cs1 w1 hm)

/-- **Derivatives after programs.**  When a program of container operations succeeds, the same
    program on scalar records succeeds with the same records and tapes, and `derivatives()` of
    every container in the final state — results of allocating operations, of multiplications,
    containers overwritten in place or `reset` — is the reverse sweep of its element-by-element
    records on the final tapes. -/
theorem program_derivatives_eq_elementwise (prog : List (CInstr R))
    (cs : List (Cont R)) (w : World R) (hwf : AllWF cs) (cs' : List (Cont R)) (w' : World R)
    (hrun : runModel prog cs w = .ok (cs', w')) :
    runSpec prog (cs.map Cont.abs) w = .ok (cs'.map Cont.abs, w')
      ∧ ∀ c ∈ cs', c.derivatives w' = recsDerivatives c.abs.2 w' := by
  have key := history_eq_elementwise prog cs w hwf
  constructor
  · rw [← key.1, hrun]; rfl
  · intro c hc
    have hcw : c.WF := key.2 cs' w' hrun c hc
    rw [container_derivatives_eq_scalar]
    unfold recsDerivatives Cont.abs
    simp only [toRecs_eq]
    cases he : c.elems with
    | nil => exact absurd he hcw.nonempty
    | cons e es =>
      simp only [recsOf_cons, List.head?_cons]
      cases c.history <;> rfl


example : AllWF ([] : List (Cont ℚ)) := fun _ h => by cases h

/-! ### programs keep the tapes well formed: every derivative request of a program succeeds -/

/-- **Programs keep their state sound.**  Started on well-formed tapes (the empty ones, or any
    tapes C04's operations can have produced) with containers whose positions are on their
    tapes, every program of container operations (without `WengertList::clear`) ends — if it
    does not panic — in a state with well-formed containers, well-formed tapes that only grew,
    and every container's positions on its tape. -/
theorem program_keeps_state_sound (prog : List (CInstr R)) (cs : List (Cont R)) (w : World R)
    (h0 : SoundState cs w) (cs' : List (Cont R)) (w' : World R)
    (hrun : runModel prog cs w = .ok (cs', w')) : SoundState cs' w' ∧ Grows w w' := by
  induction prog generalizing cs w with
  | nil =>
    simp only [runModel] at hrun
    injection hrun with hrun; injection hrun with h1 h2; subst h1; subst h2
    exact ⟨h0, Grows.refl w⟩
  | cons i rest ih =>
    simp only [runModel] at hrun
    cases hm : i.stepModel cs w with
    | panic k => rw [hm] at hrun; cases hrun
    | ok r =>
      obtain ⟨cs1, w1⟩ := r
      rw [hm] at hrun
      have hwf1 := (history_step_eq_elementwise i cs w h0.1).2 cs1 w1 hm
      -- one step keeps the state sound
      have hstep : SoundState cs1 w1 ∧ Grows w w1 := by
        have same : ∀ c : Cont R, c.WF → OnTape w c → Keeps w c w :=
          fun c _ hc => ⟨h0.2.1, Grows.refl w, hc⟩
        cases i with
        | vars h shape vals =>
          simp only [CInstr.stepModel] at hm
          split at hm
          · cases hm
          · rename_i hbad
            injection hm with hm; injection hm with h1 h2; subst h1; subst h2
            have hlen : vals.length = elements shape := by
              by_cases h : vals.length = elements shape
              · exact h
              · exact absurd (Or.inl h) hbad
            have k := variables_keeps h shape vals w h0.2.1 hlen
            exact ⟨soundState_append h0 (hwf1 _ (by simp)) k, k.2.1⟩
        | consts shape vals =>
          simp only [CInstr.stepModel] at hm
          split at hm
          · cases hm
          · injection hm with hm; injection hm with h1 h2; subst h1; subst h2
            exact ⟨soundState_append h0 (hwf1 _ (by simp))
              ⟨h0.2.1, Grows.refl w, fun h hh => by simp [Cont.constants] at hh⟩, Grows.refl w⟩
        | un op a =>
          simp only [CInstr.stepModel] at hm
          cases hc : cs[a]? with
          | none => rw [hc] at hm; cases hm
          | some c =>
            rw [hc] at hm
            injection hm with hm; injection hm with h1 h2; subst h1; subst h2
            have k := (tape_invariant w h0.2.1).2.2.1 op c (h0.2.2 c (List.mem_of_getElem? hc))
            exact ⟨soundState_append h0 (hwf1 _ (by simp)) k, k.2.1⟩
        | bin op a b =>
          simp only [CInstr.stepModel] at hm
          cases hx : cs[a]? with
          | none => rw [hx] at hm; cases hm
          | some x =>
            cases hy : cs[b]? with
            | none => rw [hx, hy] at hm; cases hm
            | some y =>
              rw [hx, hy] at hm
              simp only [] at hm
              cases hb : op.container x y w with
              | panic k => rw [hb] at hm; cases hm
              | ok r =>
                obtain ⟨c0, w0⟩ := r
                rw [hb] at hm
                simp only [Outcome.map] at hm
                injection hm with hm; injection hm with h1 h2; subst h1; subst h2
                have hxm := List.mem_of_getElem? hx
                have hym := List.mem_of_getElem? hy
                have k := (tape_invariant w h0.2.1).2.2.2.1 op x y c0 w0 (h0.1 x hxm) (h0.1 y hym)
                  (h0.2.2 x hxm) (h0.2.2 y hym) hb
                exact ⟨soundState_append h0 (hwf1 _ (by simp)) k, k.2.1⟩
        | matmulT a b =>
          simp only [CInstr.stepModel] at hm
          cases hx : cs[a]? with
          | none => rw [hx] at hm; cases hm
          | some x =>
            cases hy : cs[b]? with
            | none => rw [hx, hy] at hm; cases hm
            | some y =>
              rw [hx, hy] at hm
              simp only [] at hm
              cases hb : x.matmulTensor y w with
              | panic k => rw [hb] at hm; cases hm
              | ok r =>
                obtain ⟨c0, w0⟩ := r
                rw [hb] at hm
                simp only [Outcome.map] at hm
                injection hm with hm; injection hm with h1 h2; subst h1; subst h2
                have k := (tape_invariant w h0.2.1).2.2.2.2 x y c0 w0
                  (h0.2.2 x (List.mem_of_getElem? hx)) (h0.2.2 y (List.mem_of_getElem? hy)) (Or.inl hb)
                exact ⟨soundState_append h0 (hwf1 _ (by simp)) k, k.2.1⟩
        | matmulM a b =>
          simp only [CInstr.stepModel] at hm
          cases hx : cs[a]? with
          | none => rw [hx] at hm; cases hm
          | some x =>
            cases hy : cs[b]? with
            | none => rw [hx, hy] at hm; cases hm
            | some y =>
              rw [hx, hy] at hm
              simp only [] at hm
              cases hb : x.matmulMatrix y w with
              | panic k => rw [hb] at hm; cases hm
              | ok r =>
                obtain ⟨c0, w0⟩ := r
                rw [hb] at hm
                simp only [Outcome.map] at hm
                injection hm with hm; injection hm with h1 h2; subst h1; subst h2
                have k := (tape_invariant w h0.2.1).2.2.2.2 x y c0 w0
                  (h0.2.2 x (List.mem_of_getElem? hx)) (h0.2.2 y (List.mem_of_getElem? hy)) (Or.inr hb)
                exact ⟨soundState_append h0 (hwf1 _ (by simp)) k, k.2.1⟩
        | reset a =>
          simp only [CInstr.stepModel] at hm
          cases hc : cs[a]? with
          | none => rw [hc] at hm; cases hm
          | some c =>
            rw [hc] at hm
            injection hm with hm; injection hm with h1 h2; subst h1; subst h2
            have hcm := List.mem_of_getElem? hc
            have k := reset_keeps c w h0.2.1 (h0.1 c hcm)
            exact ⟨soundState_set h0 a (reset_wf c w (h0.1 c hcm)) k, k.2.1⟩
        | unAssign op a =>
          simp only [CInstr.stepModel] at hm
          cases hc : cs[a]? with
          | none => rw [hc] at hm; cases hm
          | some c =>
            rw [hc] at hm
            injection hm with hm; injection hm with h1 h2; subst h1; subst h2
            have hcm := List.mem_of_getElem? hc
            have k := unary_keeps c op.fns.1 op.fns.2 w h0.2.1 (h0.2.2 c hcm)
            have e := unaryAssign_eq c op.fns.1 op.fns.2 w (h0.1 c hcm).const_zero
            have k' : Keeps w (c.unaryAssign op.fns.1 op.fns.2 w).1 (c.unaryAssign op.fns.1 op.fns.2 w).2 := by
              rw [e]; exact ⟨k.1, k.2.1, fun h hh x hx => k.2.2 h hh x hx⟩
            exact ⟨soundState_set h0 a (unaryAssign_wf c _ _ w (h0.1 c hcm)) k', k'.2.1⟩
        | leftAssign op a b =>
          simp only [CInstr.stepModel] at hm
          cases hx : cs[a]? with
          | none => rw [hx] at hm; cases hm
          | some x =>
            cases hy : cs[b]? with
            | none => rw [hx, hy] at hm; cases hm
            | some y =>
              rw [hx, hy] at hm
              simp only [] at hm
              rw [binaryLeftAssign_eq] at hm
              cases hb : x.binary y op.fns.1 op.fns.2.1 op.fns.2.2 w with
              | panic k => rw [hb] at hm; cases hm
              | ok r =>
                obtain ⟨c0, w0⟩ := r
                rw [hb] at hm
                simp only [Outcome.map] at hm
                injection hm with hm; injection hm with h1 h2; subst h1; subst h2
                have hxm := List.mem_of_getElem? hx
                have hym := List.mem_of_getElem? hy
                have k := binary_keeps x y _ _ _ w h0.2.1 (h0.2.2 x hxm) (h0.2.2 y hym) (h0.1 x hxm)
                  (h0.1 y hym) c0 w0 hb
                exact ⟨soundState_set h0 a (hwf1 _ (mem_set_of_getElem? hx))
                  ⟨k.1, k.2.1, fun h hh e he => k.2.2 h hh e he⟩, k.2.1⟩
        | rightAssign op a b =>
          simp only [CInstr.stepModel] at hm
          cases hx : cs[a]? with
          | none => rw [hx] at hm; cases hm
          | some x =>
            cases hy : cs[b]? with
            | none => rw [hx, hy] at hm; cases hm
            | some y =>
              rw [hx, hy] at hm
              simp only [] at hm
              rw [(do_forms_eq x y id id _ _ _ w).2.2.1] at hm
              unfold Cont.binaryRightAssign at hm
              rw [binaryLeftAssign_eq] at hm
              cases hb : y.binary x (fun v u => op.fns.1 u v) (fun v u => op.fns.2.2 u v)
                  (fun v u => op.fns.2.1 u v) w with
              | panic k => rw [hb] at hm; cases hm
              | ok r =>
                obtain ⟨c0, w0⟩ := r
                rw [hb] at hm
                simp only [Outcome.map] at hm
                injection hm with hm; injection hm with h1 h2; subst h1; subst h2
                have hxm := List.mem_of_getElem? hx
                have hym := List.mem_of_getElem? hy
                have k := binary_keeps y x _ _ _ w h0.2.1 (h0.2.2 y hym) (h0.2.2 x hxm) (h0.1 y hym)
                  (h0.1 x hxm) c0 w0 hb
                exact ⟨soundState_set h0 b (hwf1 _ (mem_set_of_getElem? hy))
                  ⟨k.1, k.2.1, fun h hh e he => k.2.2 h hh e he⟩, k.2.1⟩
        | clone a =>
          simp only [CInstr.stepModel] at hm
          cases hc : cs[a]? with
          | none => rw [hc] at hm; cases hm
          | some c =>
            rw [hc] at hm
            simp only [] at hm
            have hcl : Cont.cloneFrom c c.clone = c := by
              rw [(clone_eq c c).1]; exact (clone_eq c c).2.1
            rw [hcl] at hm
            injection hm with hm; injection hm with h1 h2; subst h1; subst h2
            have hcm := List.mem_of_getElem? hc
            exact ⟨soundState_append h0 (h0.1 c hcm) (same c (h0.1 c hcm) (h0.2.2 c hcm)), Grows.refl w⟩
        | viaRecord a =>
          simp only [CInstr.stepModel] at hm
          cases hc : cs[a]? with
          | none => rw [hc] at hm; cases hm
          | some c =>
            rw [hc] at hm
            simp only [] at hm
            have hcm := List.mem_of_getElem? hc
            simp only [Cont.intoRecord, Cont.intoRecordRef] at hm
            cases he : c.elems with
            | nil => exact absurd he (h0.1 c hcm).nonempty
            | cons e es =>
              rw [he] at hm
              injection hm with hm; injection hm with h1 h2; subst h1; subst h2
              refine ⟨soundState_append h0 (hwf1 _ (by simp)) ⟨h0.2.1, Grows.refl w, ?_⟩, Grows.refl w⟩
              intro h hh x hx
              simp only [Cont.fromRecordRef, Rec.fromExisting, Rec.clone, List.mem_singleton] at hx hh
              subst hx
              exact h0.2.2 c hcm h hh e (by rw [he]; simp)
        | elem a idx =>
          simp only [CInstr.stepModel] at hm
          cases hc : cs[a]? with
          | none => rw [hc] at hm; cases hm
          | some c =>
            rw [hc] at hm
            simp only [] at hm
            have hcm := List.mem_of_getElem? hc
            simp only [Cont.getAsRecord, Cont.tryGetAsRecord] at hm
            cases hp : Cont.position c.shape idx with
            | none => rw [hp] at hm; cases hm
            | some k =>
              rw [hp] at hm
              simp only [] at hm
              cases hek : c.elems[k]? with
              | none => rw [hek] at hm; cases hm
              | some e =>
                rw [hek] at hm
                simp only [Option.map_some] at hm
                injection hm with hm; injection hm with h1 h2; subst h1; subst h2
                refine ⟨soundState_append h0 (hwf1 _ (by simp)) ⟨h0.2.1, Grows.refl w, ?_⟩, Grows.refl w⟩
                intro h hh x hx
                simp only [Cont.fromRecord, List.mem_singleton] at hx hh
                subst hx
                exact h0.2.2 c hcm h hh e (List.mem_of_getElem? hek)
        | swap a i j =>
          simp only [CInstr.stepModel] at hm
          cases hc : cs[a]? with
          | none => rw [hc] at hm; cases hm
          | some c =>
            rw [hc] at hm
            simp only [] at hm
            have hcm := List.mem_of_getElem? hc
            cases hpi : Cont.position c.shape i with
            | none => rw [hpi] at hm; cases hm
            | some pi =>
              cases hpj : Cont.position c.shape j with
              | none => rw [hpi, hpj] at hm; cases hm
              | some pj =>
                rw [hpi, hpj] at hm
                injection hm with hm; injection hm with h1 h2; subst h1; subst h2
                refine ⟨soundState_set h0 a (swapElems_wf c pi pj (h0.1 c hcm))
                  ⟨h0.2.1, Grows.refl w, ?_⟩, Grows.refl w⟩
                intro h hh e he
                have hon := h0.2.2 c hcm
                unfold Cont.swapElems at he hh
                cases hxi : c.elems[pi]? with
                | none => rw [hxi] at he hh; exact hon h hh e he
                | some x =>
                  cases hxj : c.elems[pj]? with
                  | none => rw [hxi, hxj] at he hh; exact hon h hh e he
                  | some y =>
                    rw [hxi, hxj] at he hh
                    simp only at he hh
                    rcases List.mem_or_eq_of_mem_set he with he | rfl
                    · rcases List.mem_or_eq_of_mem_set he with he | rfl
                      · exact hon h hh e he
                      · exact hon h hh _ (List.mem_of_getElem? hxj)
                    · exact hon h hh _ (List.mem_of_getElem? hxi)
        | fromIter a =>
          simp only [CInstr.stepModel] at hm
          cases hc : cs[a]? with
          | none => rw [hc] at hm; cases hm
          | some c =>
            rw [hc] at hm
            simp only [] at hm
            have hcm := List.mem_of_getElem? hc
            rw [fromIterTensor_self c (h0.1 c hcm)] at hm
            by_cases hv : validateDimensions c.shape c.elems.length = none
            · rw [if_pos hv] at hm
              simp only [] at hm
              injection hm with hm; injection hm with h1 h2; subst h1; subst h2
              exact ⟨soundState_append h0 (h0.1 c hcm) (same c (h0.1 c hcm) (h0.2.2 c hcm)), Grows.refl w⟩
            · rw [if_neg hv] at hm
              cases hm
      obtain ⟨hs, hg⟩ := ih cs1 w1 hstep.1 hrun
      exact ⟨hs, hstep.2.trans hg⟩

/-- **Every derivative request after a program succeeds**: from the empty state on the empty
    tapes (no hypotheses left), whatever program ran, `derivatives()` of every variable
    container of the final state returns one vector per element, each as long as the tape, and
    they are the reverse sweeps of the element-by-element records. -/
theorem program_from_scratch (prog : List (CInstr R)) (cs' : List (Cont R)) (w' : World R)
    (hrun : runModel prog [] World.empty = .ok (cs', w')) :
    runSpec prog [] World.empty = .ok (cs'.map Cont.abs, w')
      ∧ ∀ c ∈ cs', c.WF ∧ c.derivatives w' = recsDerivatives c.abs.2 w'
          ∧ ∀ h, c.history = some h →
              ∃ ds, c.derivatives w' = .ok (some ds) ∧ ds.length = c.elems.length
                ∧ ∀ d ∈ ds, d.length = (w' h).length := by
  have hwf0 : AllWF ([] : List (Cont R)) := fun _ h => by cases h
  have h0 : SoundState ([] : List (Cont R)) (World.empty : World R) :=
    ⟨hwf0, fun _ => by simp [World.empty, Tape.WF], fun _ h => by cases h⟩
  have key := program_derivatives_eq_elementwise prog [] World.empty hwf0 cs' w' hrun
  have sound := (program_keeps_state_sound prog [] World.empty h0 cs' w' hrun).1
  refine ⟨by simpa using key.1, ?_⟩
  intro c hc
  exact ⟨sound.1 c hc, key.2 c hc, fun h hh => derivatives_total c w' h hh sound.2.1 (sound.2.2 c hc)⟩

/-- a program that runs: a constants container, its clone, an element of it -/
example : ∃ r, runModel [CInstr.consts [("a", 1)] [(1 : R)], CInstr.clone 0, CInstr.elem 1 [0]]
    [] (World.empty : World R) = .ok r :=
  ⟨_, by simp [runModel, CInstr.stepModel, elements, prod, Cont.constants, Cont.clone,
    Cont.cloneFrom, Cont.getAsRecord, Cont.tryGetAsRecord, Cont.position, getIndexDirect,
    getIndexDirectGo, computeStrides]; rfl⟩

example : SoundState ([] : List (Cont ℚ)) (World.empty : World ℚ) := by
  refine ⟨?_, ?_, ?_⟩
  · intro c h; cases h
  · intro h; simp [World.empty, Tape.WF]
  · intro c h; cases h

/-! ### programs compose -/

/-- **Running one program after another is running their concatenation** — with the container
    code and element by element alike: the second program starts in the state the first one
    ended in, a panic of the first ends the run.  (So every statement about programs holds for
    any split of a longer history into pieces.) -/
theorem program_append (p q : List (CInstr R)) :
    (∀ (cs : List (Cont R)) (w : World R),
        runModel (p ++ q) cs w
          = match runModel p cs w with
            | .ok r => runModel q r.1 r.2
            | .panic k => .panic k)
      ∧ (∀ (ss : List (SCont R)) (w : World R),
        runSpec (p ++ q) ss w
          = match runSpec p ss w with
            | .ok r => runSpec q r.1 r.2
            | .panic k => .panic k) := by
  constructor
  · induction p with
    | nil => intro cs w; rfl
    | cons i rest ih =>
      intro cs w
      simp only [List.cons_append, runModel]
      cases i.stepModel cs w with
      | panic k => rfl
      | ok r => obtain ⟨cs1, w1⟩ := r; exact ih cs1 w1
  · induction p with
    | nil => intro ss w; rfl
    | cons i rest ih =>
      intro ss w
      simp only [List.cons_append, runSpec]
      cases i.stepSpec ss w with
      | panic k => rfl
      | ok r => obtain ⟨ss1, w1⟩ := r; exact ih ss1 w1

example : ([CInstr.clone 0] ++ [CInstr.clone 1] : List (CInstr ℚ)) = [CInstr.clone 0, CInstr.clone 1] := rfl

/-! ### the pinned commit: what the repairs change (kernel evaluation on concrete witnesses) -/

section AsWritten

/-- `[[2, 3]]` (variables on tape 0) · `[[5], [7]]` (constants), as tensors -/
def x11 : Cont ℤ × World ℤ := Cont.variables 0 [("a", 1), ("b", 2)] [2, 3] World.empty
def y11 : Cont ℤ := Cont.constants [("b", 2), ("c", 1)] [5, 7]

/-- the derivative vectors of the (single) element of a 1×1 product -/
def derivs11 (r : Outcome (Cont ℤ × World ℤ)) : Option (List (List ℤ)) :=
  match r with
  | .ok (z, w) =>
    match z.derivatives w with
    | .ok d => d
    | .panic _ => none
  | .panic _ => none

/-- Defect 11 at the pinned commit: the product entries stay binary with the constant's stored
    index 0 as a parent, so `∂z/∂x` is reported as `[10, 7]` … -/
theorem asWritten_constant_operand_pollutes :
    derivs11 (x11.1.matmulTensorAsWritten y11 x11.2) = some [[10, 7, 1, 1, 1]] := by decide

/-- … while the repaired code (and scalar records, `matmul_records_eq_scalar`) give `[5, 7]`. -/
theorem repaired_constant_operand :
    derivs11 (x11.1.matmulTensor y11 x11.2) = some [[5, 7, 1, 1, 1]] := by decide

/-- … and at the pinned commit the stored indexes of the constants container do matter
    (`constant_side_no_influence_matmul` fails for it). -/
theorem asWritten_constant_side_influences :
    derivs11 (x11.1.matmulTensorAsWritten (reindex (fun _ => 1) y11) x11.2)
      ≠ derivs11 (x11.1.matmulTensorAsWritten y11 x11.2) := by decide

/-- two 1×1 record matrices of two different tapes -/
def m14 : Cont ℤ × World ℤ := Cont.variables 0 [("r", 1), ("c", 1)] [2] World.empty
def n14 : Cont ℤ × World ℤ := Cont.variables 1 [("r", 1), ("c", 1)] [3] m14.2

def isPanic {α : Type} : Outcome α → Bool
  | .panic _ => true
  | .ok _ => false

/-- Defect 14 at the pinned commit: `RecordMatrix * RecordMatrix` accepts operands of two
    different tapes (`container_cross_tape_rejected` fails for it) … -/
theorem asWritten_matrix_matmul_accepts_two_tapes :
    isPanic (m14.1.matmulMatrixAsWritten n14.1 n14.2) = false := by decide

/-- … the repaired code panics. -/
theorem repaired_matrix_matmul_rejects_two_tapes :
    isPanic (m14.1.matmulMatrix n14.1 n14.2) = true := by decide

end AsWritten

/-! ### the seeded changes of round 6: what they falsify (kernel evaluation on concrete witnesses) -/

section Seeded

/-- two 1×1 record matrices on one tape: `a = [5]` at position 0, `b = [3]` at position 1 -/
def a62 : Cont ℤ × World ℤ := Cont.variables 0 [("r", 1), ("c", 1)] [5] World.empty
def b62 : Cont ℤ × World ℤ := Cont.variables 0 [("r", 1), ("c", 1)] [3] a62.2

/-- `do_binary_right_assign` with `f(x, y) = x − y`: `∂/∂a = 1`, `∂/∂b = −1` (and 1 for the new
    entry itself) — what `do_binary_right_assign_eq_elementwise` says in general … -/
theorem do_binary_right_assign_partials :
    derivs11 (a62.1.doBinaryRightAssign b62.1 (fun x y => x - y) (fun _ _ => 1) (fun _ _ => -1) b62.2)
      = some [[1, -1, 1]] := by decide

/-- … while the seeded variant (C06-r6m2) hands the two partial derivatives to the wrong
    operands: `do_forms_eq` and `do_binary_right_assign_eq_elementwise` fail for it. -/
theorem seeded_do_binary_right_assign_swaps_partials :
    derivs11 (a62.1.doBinaryRightAssignSeeded b62.1 (fun x y => x - y) (fun _ _ => 1) (fun _ _ => -1) b62.2)
      = some [[-1, 1, 1]] := by decide

/-- `From<&Record>` keeps the position (`from_conversions_keep_index`): the record at position 0
    of a tape with two entries becomes a container whose element is at position 0, the tape
    keeps its two entries … -/
theorem from_ref_keeps_position :
    (Cont.fromRecordRef (⟨2, some 0, 0⟩ : Rec ℤ)).toRecs.map (·.index) = [0] := by decide

/-- … while the seeded variant (C06-r6m1) builds a disconnected variable: a new entry at
    position 2 of a tape that now has three entries. -/
theorem seeded_from_ref_disconnects :
    (Cont.fromRecordRefSeeded (⟨2, some 0, 0⟩ : Rec ℤ) x11.2).1.toRecs.map (·.index) = [2]
      ∧ ((Cont.fromRecordRefSeeded (⟨2, some 0, 0⟩ : Rec ℤ) x11.2).2 0).length = 3
      ∧ (x11.2 0).length = 2 := by decide

end Seeded

end EasyMl.C06
