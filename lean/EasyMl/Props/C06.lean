/-
  EasyMl.Props.C06 — property theorems for C06 (record containers differentiate identically to
  element-by-element records) and for the container part of C15 (cross-tape rejection, position
  allocation, `reset`).

  Only property statements live here; helper lemmas are in EasyMl/Lemmas/RecordContainer.lean.
  The theorems are about the very definitions the `emlmodel` driver executes against the
  implementation:

  * the code-shaped container model `Cont.*`, `UOp.container`, `BOp.container`
    (EasyMl/Model/RecordContainer.lean, EasyMl/Spec/RecordContainer.lean) — batch tape
    appenders, one container-level same-tape test, `record_scalar_product` **as repaired**
    (fixes/G-11, G-14);
  * the specification "do it element by element with scalar records": `Cont.mapRecs` /
    `zipRecs` / `matmulRecs` over the scalar operators `UOp.scalar`, `BOp.scalar` of the C04
    model (EasyMl/Model/Tape.lean).

  `asRecs` turns the outcome of a container operation into what the specification speaks about:
  the list of records (number, tape, position) in row-major order and all tapes.  Equality of
  these means equal values, equal positions and an identical final tape, so every statement about
  derivatives of scalar records (C04's `reverse_eq_grad`) holds verbatim for the container.

  `R` is any field with the `Real` functions as uninterpreted operations (commutativity is what
  relates `c + x` computed by a container to `x + c` computed by `&Record + &Record` with a
  constant on the left).  Containers are `Cont.WF`: as many elements as the shape has cells, at
  least one, constants stored with index 0 — what every constructor and operation produces
  (`container_wf`).

  The behaviour of the pinned commit is kept in `Cont.matmulTensorAsWritten`,
  `Cont.matmulMatrixAsWritten`; the theorems at the end show by kernel evaluation on concrete
  witnesses that it violates the statements proved here for the repaired code.
-/
import EasyMl.Lemmas.RecordContainer

namespace EasyMl.C06
open EasyMl EasyMl.RC

variable {R : Type} [Field R] [RealFns R]

/-! ### elementwise operations -/

/-- **Every elementwise operation of one container** (`unary`, container ∘ number in both
    orders, `Neg`, `sin cos exp ln sqrt`, `pow` in both orders), for every shape, every source
    view order, variables and constants alike: the resulting records — values, tape, positions —
    and all tapes are those of the scalar record operator applied to the elements one after the
    other in row-major order.  The shape and the tape of the container are kept. -/
theorem container_eq_elementwise_unary (op : UOp R) (c : Cont R) (w : World R) :
    asRecs (op.container c w) = Cont.mapRecs op.scalar c.toRecs w
      ∧ (op.container c w).1.shape = c.shape
      ∧ (op.container c w).1.history = c.history := by
  rw [uop_container_eq, uop_scalar_fun]
  exact ⟨unary_eq c _ _ w, unary_shape c _ _ w⟩

/-- **Every elementwise operation of two containers** (`binary`, `+`, `-`,
    `elementwise_multiply`, `elementwise_divide`), for every common shape and every one of the
    four variable/constant pairings — and for two variables of two different tapes, where both
    sides panic: the outcome is that of the scalar record operator applied to the element pairs
    one after the other in row-major order. -/
theorem container_eq_elementwise_binary (op : BOp R) (a b : Cont R) (w : World R)
    (ha : a.WF) (hb : b.WF) (hs : a.shape = b.shape) :
    (op.container a b w).map asRecs = zipRecs op.scalar a.toRecs b.toRecs w := by
  rw [bop_container_eq, bop_scalar_fun]
  exact binary_eq a b _ _ _ w hs ha.nonempty hb.nonempty

/-- Containers of different shapes are rejected by every elementwise operation of two
    containers (the scalar computation has no counterpart: there is no pairing of elements). -/
theorem container_shape_mismatch (op : BOp R) (a b : Cont R) (w : World R)
    (hs : a.shape ≠ b.shape) : op.container a b w = .panic .explicit := by
  rw [bop_container_eq]
  exact binary_shape_mismatch a b _ _ _ w hs

/-- the hypotheses are satisfiable: a 1×2 variable container and a constant one -/
example : (⟨[("r", 1), ("c", 2)], [((2 : ℚ), 0), (3, 1)], some 0⟩ : Cont ℚ).WF :=
  ⟨by decide, by simp, by simp⟩

end EasyMl.C06
