/-
  EasyMl.Props.C13 — property theorems for C13 (tensor transformations equal their lazy views;
  equality and similarity laws).

  Only property statements live here; helper lemmas are in EasyMl/Lemmas/{ShapeIter,Transform,
  Swap,Equality}.lean.  Every theorem is about the very definitions the `emlmodel` driver executes
  against the implementation (EasyMl/Model/Transform.lean) and the specification
  (EasyMl/Spec/Transform.lean).

  Reading guide.  A *source* (`TView`: shape + `get_reference`) stands for any `TensorRef`; the
  hypothesis `v.lazy.Valid` is the `TensorRef` contract (unique names, lengths ≥ 1, an element at
  exactly the in-bounds tuples).  `view_valid` shows every tensor built by `Tensor::from` /
  `try_from` meets it, and the `*_valid` theorems show the lazy views (access, transpose, rename)
  preserve it, so the hypotheses are never vacuous and cover views of views.  `Tensor.ofVal x` is
  the tensor storing value `x` (row-major elements, row-major strides).
-/
import EasyMl.Lemmas.Transform
import EasyMl.Lemmas.Equality
import EasyMl.Lemmas.Swap
import EasyMl.Lemmas.MapZip
import EasyMl.Lemmas.MapMut
import EasyMl.Lemmas.EqualBy
import EasyMl.Lemmas.History
import EasyMl.Lemmas.Surface
import EasyMl.Lemmas.ViewBridge
import EasyMl.Lemmas.DisplayValue

namespace EasyMl.C13
open EasyMl EasyMl.Spec

set_option linter.unusedSectionVars false

variable {ν : Type} [DecidableEq ν] {α β : Type}

/-! ### iteration -/

/-- The `ShapeIterator` odometer (increment the last index, carry right-to-left, finish when the
    first index runs out) yields exactly the index tuples of its shape, each once, in row-major
    order — every dimensionality, every shape; shapes with a zero length yield nothing. -/
theorem shapeIterator_enumerates (lens : List Nat) : shapeIndexes lens = allIndexes lens :=
  shapeIndexes_eq_allIndexes lens

/-- Iterating any source (`TensorIterator`, `TensorReferenceIterator`) lists the elements of its
    lazy view in row-major order of the view's own shape. -/
theorem iter_eq_materialise (v : TView ν α) : v.iter = (materialise v.lazy).elems :=
  v.iter_eq

/-- Non-vacuity: 2×3 and a shape with a zero length. -/
example : shapeIndexes [2, 3] = [[0, 0], [0, 1], [0, 2], [1, 0], [1, 1], [1, 2]] := by decide
example : shapeIndexes [2, 0, 3] = [] := by decide
example : shapeIndexes [] = [[]] := by decide

/-! ### tensors and lazy views meet the `TensorRef` contract -/

/-- A tensor accepted by the constructors is a valid source, and it is the view "row-major
    addressing of `data`" whose value is `(shape, data)`. -/
theorem view_valid (shape : Shape ν) (data : List α) (t : Tensor ν α)
    (ht : Tensor.tryFrom shape data = some t) :
    t.view.lazy.Valid ∧ t.view.lazy.Equiv (ofData shape data) ∧
    materialise t.view.lazy = { shape := shape, elems := data } :=
  ⟨EasyMl.view_valid shape data t ht, view_equiv_ofData shape data t ht,
   materialise_view shape data t ht⟩

/-- Storing the value of a valid view gives a tensor the constructors accept, and reading it
    gives back the view's elements: materialisation loses nothing. -/
theorem materialise_roundtrip (v : LazyView ν α) (hv : v.Valid) :
    Tensor.tryFrom v.shape (materialise v).elems = some (Tensor.ofVal (materialise v)) ∧
    (Tensor.ofVal (materialise v)).view.lazy.Equiv v :=
  ⟨hv.tryFrom, rfl, fun idx hlen => hv.ofVal_get idx hlen⟩

theorem access_view_valid (v : LazyView ν α) (hv : v.Valid) (names : List ν)
    (hp : IsOrdering v.shape names) : (reordered v names).Valid := reordered_valid hv names hp

theorem transpose_view_valid (v : LazyView ν α) (hv : v.Valid) (names : List ν)
    (hp : IsOrdering v.shape names) : (transposed v names).Valid := transposed_valid hv names hp

theorem rename_view_valid (v : LazyView ν α) (hv : v.Valid) (names : List ν) (hnd : names.Nodup)
    (hl : names.length = v.shape.length) : (renamed v names).Valid := renamed_valid hv names hnd hl

/-- Non-vacuity: a concrete tensor is a valid view. -/
example : ∃ t, Tensor.tryFrom [("a", 2), ("b", 3)] (List.range 6) = some t ∧ t.view.lazy.Valid :=
  ⟨_, rfl, (view_valid [("a", 2), ("b", 3)] (List.range 6) _ rfl).1⟩

/-! ### the lazy views of the code are the specification's views -/

/-- `TensorAccess::try_from(source, names)` succeeds exactly on orderings of the source's names
    and is then the by-name reordered view (C01's semantics): its shape is the source's shape
    permuted, its element at `idx` the source's element whose coordinates match by name. -/
theorem access_eq_reordered [Inhabited ν] (v : TView ν α) (hv : v.lazy.Valid) (names : List ν) :
    (IsOrdering v.shape names → ∃ a, v.access names = some a ∧ a.lazy = reordered v.lazy names) ∧
    (¬ IsOrdering v.shape names → v.access names = none) :=
  ⟨fun hp => v.access_of_ordering names hv.shape.1 hp, fun hp => v.access_none names hv.shape.1 hp⟩

/-- `TensorTranspose::try_from`: the indexing of the access, the names staying in place. -/
theorem transposeView_eq_transposed [Inhabited ν] (v : TView ν α) (hv : v.lazy.Valid)
    (names : List ν) :
    (IsOrdering v.shape names →
      ∃ a, v.transposeView names = some a ∧ a.lazy = transposed v.lazy names) ∧
    (¬ IsOrdering v.shape names → v.transposeView names = none) := by
  constructor
  · intro hp
    obtain ⟨a, ha, hl⟩ := v.access_of_ordering names hv.shape.1 hp
    refine ⟨{ shape := setNames a.shape (v.shape.map (·.1)), get := a.get },
      by simp only [TView.transposeView, ha], ?_⟩
    have h1 : a.shape = shapeFor v.shape names := congrArg LazyView.shape hl
    have h2 : a.get = (reordered v.lazy names).get := congrArg LazyView.get hl
    simp only [TView.lazy, transposed, setNames_eq_withNames, h1, h2]
  · intro hp
    simp only [TView.transposeView, v.access_none names hv.shape.1 hp]

/-- `TensorRename::from` panics exactly on repeated names, otherwise it is the renamed view. -/
theorem renameView_eq_renamed (v : TView ν α) (names : List ν) :
    v.renameView names =
      if names.Nodup then .ok { shape := (renamed v.lazy names).shape, get := v.get }
      else .panic .explicit := by
  unfold TView.renameView
  by_cases h : names.Nodup
  · have : hasDuplicates names = false := by
      cases hd : hasDuplicates names with
      | false => rfl
      | true => exact absurd h ((hasDuplicates_iff names).1 hd)
    simp [this, h, renamed, setNames_eq_withNames]
  · simp [(hasDuplicates_iff names).2 h, h]

/-! ### allocating transformations = value of the lazy view -/

/-- **reorder.**  For every valid source (a tensor, or a view of any kind) and every name list:
    `reorder` panics unless the list is an ordering of the source's names, and otherwise returns
    exactly the tensor storing the value of the reordered lazy view (`TensorAccess`). -/
theorem reorder_eq_materialise_access [Inhabited ν] (v : TView ν α) (hv : v.lazy.Valid)
    (names : List ν) :
    v.reorder names =
      if IsOrdering v.shape names then .ok (Tensor.ofVal (materialise (reordered v.lazy names)))
      else .panic .explicit :=
  v.reorder_eq hv names

/-- **transpose.**  The same with the dimension names staying in place (`TensorTranspose`). -/
theorem transpose_eq_materialise_transposeView [Inhabited ν] (v : TView ν α) (hv : v.lazy.Valid)
    (names : List ν) :
    v.transpose names =
      if IsOrdering v.shape names then .ok (Tensor.ofVal (materialise (transposed v.lazy names)))
      else .panic .explicit :=
  v.transpose_eq hv names

/-- The same two statements for a tensor built from `shape` and row-major `data`, in terms of
    the data alone. -/
theorem tensor_reorder_eq [Inhabited ν] (shape : Shape ν) (data : List α) (t : Tensor ν α)
    (ht : Tensor.tryFrom shape data = some t) (names : List ν) :
    t.reorder names =
      (if IsOrdering shape names then
        .ok (Tensor.ofVal (materialise (reordered (ofData shape data) names)))
       else .panic .explicit) ∧
    t.transpose names =
      (if IsOrdering shape names then
        .ok (Tensor.ofVal (materialise (transposed (ofData shape data) names)))
       else .panic .explicit) :=
  Tensor.reorder_eq_ofData shape data t ht names

/-- Non-vacuity: reorder and transpose of a 2×3 tensor, and the rejection of a non-ordering. -/
example :
    ∃ t, Tensor.tryFrom [("a", 2), ("b", 3)] [0, 1, 2, 3, 4, 5] = some t ∧
      (t.reorder ["b", "a"]) = .ok (Tensor.ofVal ⟨[("b", 3), ("a", 2)], [0, 3, 1, 4, 2, 5]⟩) ∧
      (t.transpose ["b", "a"]) = .ok (Tensor.ofVal ⟨[("a", 3), ("b", 2)], [0, 3, 1, 4, 2, 5]⟩) ∧
      (t.reorder ["b", "b"]) = .panic .explicit := by
  refine ⟨_, rfl, ?_, ?_, ?_⟩ <;> rfl

/-! ### in-place forms equal the allocating forms — every shape, square or not -/

/-- **`reorder_mut` = `reorder`.**  For every tensor the constructors accept and every name
    list, the in-place form returns exactly what the allocating form returns — the same panic on a
    non-ordering, otherwise the same data, shape and strides.  For square 2-D tensors this is the
    separate branch: the loop that swaps `[i,j]` with its image for `j ≥ i` while reading through
    the *old* shape and strides (invariant: after any prefix of the loop exactly the cells touched
    so far hold their final element; `Lemmas/Swap.lean: foldl_swaps`), with the identity ordering
    a no-op; all other shapes take the fallback. -/
theorem reorderMut_eq_reorder [Inhabited ν] (shape : Shape ν) (data : List α) (t : Tensor ν α)
    (ht : Tensor.tryFrom shape data = some t) (names : List ν) :
    t.reorderMut names = t.reorder names :=
  reorderMut_eq_reorder' shape data t ht names

/-- **`transpose_mut` = `transpose`**, every shape. -/
theorem transposeMut_eq_transpose [Inhabited ν] (shape : Shape ν) (data : List α) (t : Tensor ν α)
    (ht : Tensor.tryFrom shape data = some t) (names : List ν) :
    t.transposeMut names = t.transpose names :=
  transposeMut_eq_transpose' shape data t ht names

/-- The square branch on its own (the statement the swap-loop invariant proves). -/
theorem reorderMut_square_branch [Inhabited ν] (a b : ν) (n : Nat) (data : List α) (t : Tensor ν α)
    (ht : Tensor.tryFrom [(a, n), (b, n)] data = some t) (names : List ν) :
    t.reorderMut names = t.reorder names :=
  reorderMut_square a b n data t ht names

/-- Non-vacuity: a 3×3 tensor takes the square branch; swapped and identity orderings. -/
example :
    ∃ t, Tensor.tryFrom [("r", 3), ("c", 3)] (List.range 9) = some t ∧
      (t.shape.length = 2 ∧ isSquare t.shape = true) ∧
      t.reorderMut ["c", "r"] = .ok (Tensor.ofVal ⟨[("c", 3), ("r", 3)], [0, 3, 6, 1, 4, 7, 2, 5, 8]⟩) ∧
      t.reorderMut ["r", "c"] = .ok (Tensor.ofVal ⟨[("r", 3), ("c", 3)], List.range 9⟩) ∧
      t.reorderMut ["r", "x"] = .panic .explicit := by
  refine ⟨_, rfl, ⟨rfl, rfl⟩, ?_, ?_, ?_⟩ <;> rfl

/-! ### reshape, rename -/

/-- **reshape.**  Both forms accept exactly the targets the constructors accept for the stored
    element count (product matches, unique names, lengths ≥ 1) and then keep the flat row-major
    data untouched: the result is the tensor `(target, data)` — i.e. the element at a tuple of the
    new shape is the one at the same row-major offset of the old one; the in-place form equals the
    owned form. -/
theorem reshape_preserves_flat (shape : Shape ν) (data : List α) (t : Tensor ν α)
    (ht : Tensor.tryFrom shape data = some t) (target : Shape ν) :
    t.reshapeOwned target =
      (if Accepts target data.length then .ok (Tensor.ofVal ⟨target, data⟩) else .panic .explicit) ∧
    t.reshapeMut target = t.reshapeOwned target :=
  Tensor.reshape_eq shape data t ht target

/-- the reshaped tensor is again a tensor the constructors accept (so everything above applies
    to it), namely the row-major view of the same data under the new shape -/
theorem reshape_result_valid (data : List α) (target : Shape ν)
    (h : Accepts target data.length) :
    Tensor.tryFrom target data = some (Tensor.ofVal ⟨target, data⟩) :=
  (tryFrom_eq_some_iff target data _).2 ⟨h, rfl⟩

/-- **rename / rename_owned** = the renamed lazy view (`TensorRename`), panic exactly on
    repeated names. -/
theorem rename_eq_materialise_rename (shape : Shape ν) (data : List α) (t : Tensor ν α)
    (ht : Tensor.tryFrom shape data = some t) (names : List ν) (hl : names.length = shape.length) :
    t.rename names =
      if names.Nodup then .ok (Tensor.ofVal (materialise (renamed (ofData shape data) names)))
      else .panic .explicit :=
  Tensor.rename_eq shape data t ht names hl

example : ∃ t, Tensor.tryFrom [("a", 2), ("b", 3)] (List.range 6) = some t ∧
    t.reshapeMut [("x", 3), ("y", 2)] = .ok (Tensor.ofVal ⟨[("x", 3), ("y", 2)], List.range 6⟩) ∧
    t.reshapeOwned [("x", 4)] = .panic .explicit ∧
    t.rename ["p", "q"] = .ok (Tensor.ofVal ⟨[("p", 2), ("q", 3)], List.range 6⟩) ∧
    t.rename ["p", "p"] = .panic .explicit := by
  refine ⟨_, rfl, ?_, ?_, ?_, ?_⟩ <;> rfl

/-! ### map, map_with_index, elementwise -/

/-- **map / map_with_index** on any valid source, and the `Tensor` forms that work on the data
    directly, all give the value of the mapped lazy view; `map_mut` is `map` in place. -/
theorem map_eq_materialise_map (f : α → β) (g : List Nat → α → β) (v : TView ν α)
    (hv : v.lazy.Valid) :
    v.map f = .ok (Tensor.ofVal (materialise (mapped f v.lazy))) ∧
    v.mapWithIndex g = .ok (Tensor.ofVal (materialise (mappedWithIndex g v.lazy))) :=
  ⟨v.map_eq f hv, v.mapWithIndex_eq g hv⟩

theorem tensor_map_eq (f : α → β) (g : List Nat → α → β) (shape : Shape ν) (data : List α)
    (t : Tensor ν α) (ht : Tensor.tryFrom shape data = some t) :
    t.map f = Tensor.ofVal (materialise (mapped f (ofData shape data))) ∧
    t.mapWithIndex g = Tensor.ofVal (materialise (mappedWithIndex g (ofData shape data))) :=
  ⟨Tensor.map_eq f shape data t ht, Tensor.mapWithIndex_eq g shape data t ht⟩

theorem mapMut_eq_map (f : α → α) (t : Tensor ν α) : t.mapMut f = t.map f := rfl

/-- **`map_mut_with_index` = `map_with_index`**, every shape: the loop over
    `iter_reference_mut().with_index()` (read a cell, overwrite it) visits every cell exactly once
    and never reads a cell it has already overwritten. -/
theorem mapMutWithIndex_eq_mapWithIndex (f : List Nat → α → α) (shape : Shape ν) (data : List α)
    (t : Tensor ν α) (ht : Tensor.tryFrom shape data = some t) :
    t.mapMutWithIndex f = t.mapWithIndex f :=
  Tensor.mapMutWithIndex_eq f shape data t ht

/-- **In-place mapping through a reordered view of a tensor** (`TensorAccess::map_mut*`): the
    tensor afterwards is a valid tensor of the same shape which, seen through the same ordering,
    is the mapped view of the original (so no element is visited twice or skipped whatever the
    ordering). -/
theorem access_mapMut_eq_map [Inhabited ν] (f : List Nat → α → α) (shape : Shape ν)
    (data : List α) (t : Tensor ν α) (ht : Tensor.tryFrom shape data = some t) (names : List ν)
    (a : Access ν α) (ha : t.indexBy names = some a) :
    ∃ d', Tensor.tryFrom shape d' = some (a.mapMutWithIndex f) ∧
      materialise (reordered (ofData shape d') names) =
        materialise (mappedWithIndex f (reordered (ofData shape data) names)) :=
  Access.mapMutWithIndex_eq f shape data t ht names a ha

/-- **elementwise** (with and without index; `Tensor` and `TensorView` forms): panic exactly
    when the two shapes differ, otherwise the value of the element-wise combined view. -/
theorem elementwise_eq_materialise_zip [DecidableEq (Shape ν)] (f : α → α → α)
    (g : List Nat → α → α → α) (l r : TView ν α) (hl : l.lazy.Valid) (hr : r.lazy.Valid) :
    l.elementwise f r =
      (if l.shape = r.shape then
        .ok (Tensor.ofVal (materialise (zipped (fun _ => f) l.lazy r.lazy)))
       else .panic .explicit) ∧
    l.elementwiseWithIndex g r =
      (if l.shape = r.shape then .ok (Tensor.ofVal (materialise (zipped g l.lazy r.lazy)))
       else .panic .explicit) :=
  ⟨TView.elementwise_eq f l r hl hr, TView.elementwiseWithIndex_eq g l r hl hr⟩

theorem tensor_elementwise_eq [DecidableEq (Shape ν)] (f : α → α → α) (g : List Nat → α → α → α)
    (shape : Shape ν) (data : List α) (t : Tensor ν α) (ht : Tensor.tryFrom shape data = some t)
    (r : TView ν α) (hr : r.lazy.Valid) :
    t.elementwise f r =
      (if shape = r.shape then
        .ok (Tensor.ofVal (materialise (zipped (fun _ => f) (ofData shape data) r.lazy)))
       else .panic .explicit) ∧
    t.elementwiseWithIndex g r =
      (if shape = r.shape then
        .ok (Tensor.ofVal (materialise (zipped g (ofData shape data) r.lazy)))
       else .panic .explicit) :=
  ⟨Tensor.elementwise_eq f shape data t ht r hr, Tensor.elementwiseWithIndex_eq g shape data t ht r hr⟩

example : ∃ t, Tensor.tryFrom [("a", 2), ("b", 2)] [1, 2, 3, 4] = some t ∧
    t.map (· * 10) = Tensor.ofVal ⟨[("a", 2), ("b", 2)], [10, 20, 30, 40]⟩ ∧
    t.mapWithIndex (fun i x => x + 100 * i.getD 0 0) = Tensor.ofVal ⟨[("a", 2), ("b", 2)], [1, 2, 103, 104]⟩ ∧
    t.elementwise (· + ·) t.view = .ok (Tensor.ofVal ⟨[("a", 2), ("b", 2)], [2, 4, 6, 8]⟩) ∧
    t.elementwise (· + ·) (Tensor.ofVal ⟨[("b", 2), ("a", 2)], [1, 2, 3, 4]⟩).view = .panic .explicit := by
  refine ⟨_, rfl, ?_, ?_, ?_, ?_⟩ <;> rfl

/-! ### first, scalar, tensor ↔ matrix -/

/-- **first** never panics on a valid source and returns the first element of the value;
    for a `Tensor` that is `data[0]`. -/
theorem first_eq (v : TView ν α) (hv : v.lazy.Valid) :
    ∃ x, v.first = .ok x ∧ (materialise v.lazy).elems.head? = some x := v.first_eq hv

theorem tensor_first_eq (shape : Shape ν) (data : List α) (t : Tensor ν α)
    (ht : Tensor.tryFrom shape data = some t) : ∃ x, t.first = .ok x ∧ data.head? = some x :=
  Tensor.first_eq shape data t ht

/-- **scalar** of a 0-dimensional source is its sole element. -/
theorem scalar_eq (v : TView ν α) (hv : v.lazy.Valid) (h0 : v.shape = []) :
    ∃ x, v.scalar = .ok x ∧ (materialise v.lazy).elems = [x] := v.scalar_eq hv h0

/-- **into_scalar** (`TensorOwnedIterator::from(source).next().unwrap()`) agrees with `scalar`
    on every valid 0-dimensional source, and neither panics. -/
theorem intoScalar_eq_scalar (v : TView ν α) (hv : v.lazy.Valid) (h0 : v.shape = []) :
    v.intoScalar = v.scalar ∧ ∃ x, v.scalar = .ok x := by
  obtain ⟨x, hs, he⟩ := v.scalar_eq hv h0
  refine ⟨?_, x, hs⟩
  unfold TView.intoScalar
  rw [v.iter_eq, he, hs]
  rfl

/-- `dimensions::is_square` ⇔ all lengths are equal (trivially so for `D ≤ 1`); together with
    `D = 2` this is the guard of the in-place branch of `reorder_mut`. -/
theorem isSquare_iff (shape : Shape ν) :
    isSquare shape = true ↔ ∀ d ∈ shape, ∀ e ∈ shape, d.2 = e.2 := by
  cases shape with
  | nil => simp [isSquare]
  | cons d rest =>
    simp only [isSquare, List.all_eq_true, beq_iff_eq, List.mem_cons]
    constructor
    · intro h a ha b hb
      have ha' : a.2 = d.2 := by rcases ha with rfl | ha; rfl; exact h a ha
      have hb' : b.2 = d.2 := by rcases hb with rfl | hb; rfl; exact h b hb
      rw [ha', hb']
    · intro h e he
      exact h e (Or.inr he) d (Or.inl rfl)

/-- **tensor → matrix → tensor** and **matrix → tensor → matrix** are the identity; the matrix has
    the same row-major data with `rows`/`columns` the two lengths; equal names are refused. -/
theorem conversion_roundtrip (r c : ν) (n m : Nat) (data : List α) (t : Tensor ν α)
    (ht : Tensor.tryFrom [(r, n), (c, m)] data = some t) :
    t.intoMatrix = .ok ⟨data, n, m⟩ ∧
    (⟨data, n, m⟩ : Matrix α).intoTensor r c = .ok (some t) :=
  Tensor.intoMatrix_eq r c n m data t ht

theorem conversion_roundtrip_matrix (mat : Matrix α) (hm : mat.Inv) (r c : ν) :
    (r = c → mat.intoTensor r c = .ok none) ∧
    (r ≠ c → ∃ t, Tensor.tryFrom [(r, mat.rows), (c, mat.columns)] mat.data = some t ∧
        mat.intoTensor r c = .ok (some t) ∧ t.intoMatrix = .ok mat) :=
  Matrix.intoTensor_eq mat hm r c

example : (⟨[1, 2, 3, 4, 5, 6], 2, 3⟩ : Matrix Nat).Inv := by decide

/-! ### equality -/

/-- **Equality** (`tensor_equality`, behind all four `PartialEq` impls: tensor/tensor,
    view/view, tensor/view, view/tensor) holds exactly when the two operands have the same value:
    the same shape — names, order and lengths — and the same element at every index tuple. -/
theorem eq_iff [DecidableEq α] (l r : TView ν α) (hl : l.lazy.Valid) (hr : r.lazy.Valid) :
    tensorEquality l r = true ↔
      l.shape = r.shape ∧
      ∀ idx, inBounds (l.shape.map (·.2)) idx = true → l.get idx = r.get idx := by
  rw [tensorEquality_iff l r hl hr]
  constructor
  · intro h
    obtain ⟨hs, hg⟩ := equiv_of_materialise_eq hl hr h
    exact ⟨hs, fun idx hb => hg idx (by simpa using inBounds_length _ _ hb)⟩
  · rintro ⟨hs, hg⟩
    rw [materialise_eq_iff]
    refine ⟨hs, ?_⟩
    simp only [materialise, TView.lazy_shape, TView.lazy_get, ← hs]
    apply filterMap_congr'
    intro x hx
    exact hg x ((mem_allIndexes_iff _ x).1 hx)

/-- the same, as equality of values (shape and row-major elements) -/
theorem eq_iff_value [DecidableEq α] (l r : TView ν α) (hl : l.lazy.Valid) (hr : r.lazy.Valid) :
    tensorEquality l r = true ↔ materialise l.lazy = materialise r.lazy :=
  tensorEquality_iff l r hl hr

theorem eq_refl [DecidableEq α] (v : TView ν α) (hv : v.lazy.Valid) : tensorEquality v v = true :=
  (tensorEquality_iff v v hv hv).2 rfl

theorem eq_symm [DecidableEq α] (l r : TView ν α) (hl : l.lazy.Valid) (hr : r.lazy.Valid)
    (h : tensorEquality l r = true) : tensorEquality r l = true :=
  (tensorEquality_iff r l hr hl).2 ((tensorEquality_iff l r hl hr).1 h).symm

theorem eq_trans [DecidableEq α] (a b c : TView ν α) (ha : a.lazy.Valid) (hb : b.lazy.Valid)
    (hc : c.lazy.Valid) (h1 : tensorEquality a b = true) (h2 : tensorEquality b c = true) :
    tensorEquality a c = true :=
  (tensorEquality_iff a c ha hc).2
    (((tensorEquality_iff a b ha hb).1 h1).trans ((tensorEquality_iff b c hb hc).1 h2))

/-- For tensors built from shape and data: equal ⇔ same shape and same data. -/
theorem tensor_eq_iff [DecidableEq α] (s₁ s₂ : Shape ν) (d₁ d₂ : List α) (t₁ t₂ : Tensor ν α)
    (h₁ : Tensor.tryFrom s₁ d₁ = some t₁) (h₂ : Tensor.tryFrom s₂ d₂ = some t₂) :
    tensorEquality t₁.view t₂.view = true ↔ s₁ = s₂ ∧ d₁ = d₂ := by
  obtain ⟨hv1, _, hm1⟩ := view_valid s₁ d₁ t₁ h₁
  obtain ⟨hv2, _, hm2⟩ := view_valid s₂ d₂ t₂ h₂
  rw [tensorEquality_iff _ _ hv1 hv2, hm1, hm2]
  simp

/-- Non-vacuity: equal / different names / one element differs. -/
example : tensorEquality (Tensor.ofVal ⟨[("a", 2)], [1, 2]⟩).view (Tensor.ofVal ⟨[("a", 2)], [1, 2]⟩).view = true := by decide
example : tensorEquality (Tensor.ofVal ⟨[("a", 2)], [1, 2]⟩).view (Tensor.ofVal ⟨[("b", 2)], [1, 2]⟩).view = false := by decide
example : tensorEquality (Tensor.ofVal ⟨[("a", 2)], [1, 2]⟩).view (Tensor.ofVal ⟨[("a", 2)], [1, 3]⟩).view = false := by decide

/-! ### similarity -/

/-- **Similarity** (`tensor_similarity`, behind all four `Similar` impls) holds exactly when some
    ordering of the right operand's dimension names makes it equal to the left operand. -/
theorem similar_iff_exists_ordering [DecidableEq α] [Inhabited ν] (l r : TView ν α)
    (hl : l.lazy.Valid) (hr : r.lazy.Valid) :
    tensorSimilarity l r = true ↔
      ∃ names, IsOrdering r.shape names ∧
        materialise (reordered r.lazy names) = materialise l.lazy :=
  tensorSimilarity_iff l r hl hr

/-- The same in terms of the library's own operations: similar ⇔ some `reorder` of the right
    operand is `==` to the left operand. -/
theorem similar_iff_exists_reorder [DecidableEq α] [Inhabited ν] (l r : TView ν α)
    (hl : l.lazy.Valid) (hr : r.lazy.Valid) :
    tensorSimilarity l r = true ↔
      ∃ names r', r.reorder names = .ok r' ∧ tensorEquality l r'.view = true := by
  rw [tensorSimilarity_iff l r hl hr]
  constructor
  · rintro ⟨names, hp, hm⟩
    have hp : IsOrdering r.shape names := hp
    have hrv := reordered_valid hr names hp
    refine ⟨names, Tensor.ofVal (materialise (reordered r.lazy names)), ?_, ?_⟩
    · rw [reorder_eq_materialise_access r hr names, if_pos hp]
    · have he : (Tensor.ofVal (materialise (reordered r.lazy names))).view.lazy.Equiv
          (reordered r.lazy names) := ⟨rfl, fun idx hlen => hrv.ofVal_get idx hlen⟩
      rw [tensorEquality_iff _ _ hl (hrv.of_equiv he), materialise_congr he, hm]
  · rintro ⟨names, r', hre, heq⟩
    rw [reorder_eq_materialise_access r hr names] at hre
    by_cases hp : IsOrdering r.shape names
    · rw [if_pos hp] at hre
      simp only [Outcome.ok.injEq] at hre
      subst hre
      have hrv := reordered_valid hr names hp
      have he : (Tensor.ofVal (materialise (reordered r.lazy names))).view.lazy.Equiv
          (reordered r.lazy names) := ⟨rfl, fun idx hlen => hrv.ofVal_get idx hlen⟩
      rw [tensorEquality_iff _ _ hl (hrv.of_equiv he), materialise_congr he] at heq
      exact ⟨names, hp, heq.symm⟩
    · rw [if_neg hp] at hre; cases hre

/-- The driver's executable form of the specification (try every ordering) is `Similar`. -/
theorem similarB_iff_similar [DecidableEq α] (l r : LazyView ν α) :
    similarB l r = true ↔ Similar l r := similarB_iff l r

theorem similar_refl [DecidableEq α] [Inhabited ν] (v : TView ν α) (hv : v.lazy.Valid) :
    tensorSimilarity v v = true :=
  (tensorSimilarity_iff v v hv hv).2 (similar_refl' hv)

theorem similar_symm [DecidableEq α] [Inhabited ν] (l r : TView ν α) (hl : l.lazy.Valid)
    (hr : r.lazy.Valid) (h : tensorSimilarity l r = true) : tensorSimilarity r l = true :=
  (tensorSimilarity_iff r l hr hl).2 (similar_symm' hl hr ((tensorSimilarity_iff l r hl hr).1 h))

/-- Anything `==` is also similar. -/
theorem eq_imp_similar [DecidableEq α] [Inhabited ν] (l r : TView ν α) (hl : l.lazy.Valid)
    (hr : r.lazy.Valid) (h : tensorEquality l r = true) : tensorSimilarity l r = true :=
  (tensorSimilarity_iff l r hl hr).2 (similar_of_eq hr ((tensorEquality_iff l r hl hr).1 h))

/-- Non-vacuity: the documentation's example (similar, not equal; lengths differ ⇒ not similar). -/
example :
    let one := (Tensor.ofVal ⟨[("a", 2), ("b", 3)], [1, 2, 3, 4, 5, 6]⟩).view
    let two := (Tensor.ofVal ⟨[("b", 3), ("a", 2)], [1, 4, 2, 5, 3, 6]⟩).view
    let three := (Tensor.ofVal ⟨[("b", 2), ("a", 3)], [1, 2, 3, 4, 5, 6]⟩).view
    tensorSimilarity one two = true ∧ tensorEquality one two = false ∧
    tensorSimilarity one three = false ∧ tensorSimilarity two one = true := by decide

/-- Similarity is transitive (with `similar_refl`, `similar_symm`: an equivalence relation on
    valid sources, at every dimensionality). -/
theorem similar_trans [DecidableEq α] [Inhabited ν] (a b c : TView ν α) (ha : a.lazy.Valid)
    (hb : b.lazy.Valid) (hc : c.lazy.Valid) (h₁ : tensorSimilarity a b = true)
    (h₂ : tensorSimilarity b c = true) : tensorSimilarity a c = true :=
  (tensorSimilarity_iff a c ha hc).2
    (similar_trans' hb hc ((tensorSimilarity_iff a b ha hb).1 h₁) ((tensorSimilarity_iff b c hb hc).1 h₂))

/-! ### equality and similarity for an arbitrary element comparison (`T: PartialEq` only)

The code requires only `T: PartialEq`; for `f64` that comparison is not reflexive.  The theorems
below are for an arbitrary `rel : α → α → Bool` standing for the element type's `==`; nothing is
assumed about it. -/

/-- the lawful-equality functions above are the instances at `decide (· = ·)` -/
theorem equalityBy_instance [DecidableEq α] [Inhabited ν] (l r : TView ν α) :
    tensorEquality l r = tensorEqualityBy (fun a b => decide (a = b)) l r ∧
    tensorSimilarity l r = tensorSimilarityBy (fun a b => decide (a = b)) l r :=
  ⟨rfl, rfl⟩

/-- **Equality for any element comparison**: `tensor_equality` — hence all four `PartialEq`
    forms — answers exactly "same shape, and `rel (l i) (r i)` at every index tuple `i`". -/
theorem eqBy_iff (rel : α → α → Bool) (l r : TView ν α) (hl : l.lazy.Valid) (hr : r.lazy.Valid) :
    tensorEqualityBy rel l r = true ↔
      l.shape = r.shape ∧
      ∀ idx, inBounds (l.shape.map (·.2)) idx = true →
        cellRel rel (l.get idx) (r.get idx) = true :=
  tensorEqualityBy_iff rel l r hl hr

/-- **A tensor compared with itself** is equal exactly when every stored element is `rel`-related
    to itself.  So for an irreflexive comparison (`NaN`) `t == t` must be `false`: an
    identity shortcut (`ptr::eq(self, other) || …`) is not the function the code computes. -/
theorem eqBy_self_iff (rel : α → α → Bool) (shape : Shape ν) (data : List α) (t : Tensor ν α)
    (ht : Tensor.tryFrom shape data = some t) :
    tensorEqualityBy rel t.view t.view = true ↔ ∀ x ∈ data, rel x x = true := by
  obtain ⟨hv, he, _⟩ := view_valid shape data t ht
  rw [tensorEqualityBy_iff rel _ _ hv hv, equalBy_congr_left rel he,
    ← equalBy_congr_right rel he.symm rfl]
  exact equalBy_self_ofData rel shape data t ht

/-- **Similarity for any element comparison**: some ordering of the right operand's names makes
    it equal (in the sense of `eqBy_iff`) to the left operand. -/
theorem similarBy_iff [Inhabited ν] (rel : α → α → Bool) (l r : TView ν α) (hl : l.lazy.Valid)
    (hr : r.lazy.Valid) :
    tensorSimilarityBy rel l r = true ↔
      ∃ names, IsOrdering r.shape names ∧ EqualBy rel l.lazy (reordered r.lazy names) :=
  tensorSimilarityBy_iff rel l r hl hr

/-- Non-vacuity: an IEEE-like comparison (`none` plays NaN).  A tensor holding it is neither equal
    nor similar to itself; without it both hold. -/
example :
    let rel : Option Nat → Option Nat → Bool := fun a b => a.isSome && decide (a = b)
    let nan := (Tensor.ofVal ⟨[("a", 2)], [some 1, none]⟩).view
    let fin := (Tensor.ofVal ⟨[("a", 2)], [some 1, some 2]⟩).view
    tensorEqualityBy rel nan nan = false ∧ tensorSimilarityBy rel nan nan = false ∧
    tensorEqualityBy rel fin fin = true ∧ tensorSimilarityBy rel fin fin = true := by decide

/-! ### the representation invariant over all histories of in-place transformations -/

/-- **`strides` stay the row-major strides of `shape`, the data stay `Π lengths` long, names
    unique, lengths ≥ 1 — after every history** of `reorder_mut`, `transpose_mut`, `reshape_mut`,
    `rename`, `map_mut`, `map_mut_with_index` (square or not, any dimensionality; argument arrays
    have the tensor's dimensionality, as their types say) that does not panic.  Hence every
    consumer that reads `data` in storage order (`elementwise*` with the tensor on the left,
    `map_with_index`, `into_matrix`, `reshape_*`, the arithmetic operators' direct iterators,
    `first`) sees the logical row-major content: an implementation that permutes the strides and
    leaves the data in place is not a refinement of this model. -/
theorem tensor_strides_row_major_inv [Inhabited ν] (steps : List (InPlace ν α)) (shape : Shape ν)
    (data : List α) (t t' : Tensor ν α) (ht : Tensor.tryFrom shape data = some t)
    (harity : ∀ step ∈ steps, ∀ k, step.arity = some k → k = shape.length)
    (h : t.applyAll steps = .ok t') :
    t'.strides = computeStrides t'.shape ∧ t'.shape.length = shape.length ∧
    Tensor.tryFrom t'.shape t'.data = some t' ∧
    materialise t'.view.lazy = { shape := t'.shape, elems := t'.data } := by
  obtain ⟨s', d', hl, ht'⟩ := applyAll_valid steps shape data t t' ht harity h
  obtain ⟨_, he⟩ := (tryFrom_eq_some_iff s' d' t').1 ht'
  have hs : t'.shape = s' := by rw [he]
  have hd : t'.data = d' := by rw [he]
  refine ⟨by rw [he], by rw [hs, hl], by rw [hs, hd]; exact ht', ?_⟩
  rw [hs, hd]; exact materialise_view s' d' t' ht'

/-- Non-vacuity: a square tensor reordered in place twice and reshaped. -/
example :
    ∃ t, Tensor.tryFrom [("a", 2), ("b", 2)] [1, 2, 3, 4] = some t ∧
      t.applyAll [.reorder ["b", "a"], .transpose ["a", "b"], .reshape [("x", 4), ("y", 1)]] =
        .ok (Tensor.ofVal ⟨[("x", 4), ("y", 1)], [1, 2, 3, 4]⟩) := ⟨_, rfl, rfl⟩

/-- **Every history of in-place transformations computes the specification's history of
    values** (this is what the `chain` operations of the correspondence compare): step by step the
    value of the corresponding lazy view (`Spec.stepValue`), the same refusals (all `explicit`
    panics — the `unwrap`s of the square branch never fire), and the result is the tensor storing
    the final value with row-major strides. -/
theorem history_refines_spec [Inhabited ν] (steps : List (InPlace ν α)) (shape : Shape ν)
    (data : List α) (t : Tensor ν α) (ht : Tensor.tryFrom shape data = some t)
    (harity : ∀ step ∈ steps, ∀ k, step.arity = some k → k = shape.length) :
    t.applyAll steps =
      match runSteps ⟨shape, data⟩ (steps.map InPlace.toSpec) with
      | some v => .ok (Tensor.ofVal v)
      | none => .panic .explicit :=
  applyAll_eq_spec steps shape data t ht harity

example : runSteps (⟨[("a", 2), ("b", 2)], [1, 2, 3, 4]⟩ : TVal String Nat)
    [.reorder ["b", "a"], .map (· * 10), .reshape [("x", 4), ("y", 1)]] =
      some ⟨[("x", 4), ("y", 1)], [10, 30, 20, 40]⟩ := by decide
example : runSteps (⟨[("a", 2), ("b", 2)], [1, 2, 3, 4]⟩ : TVal String Nat)
    [.reorder ["b", "b"]] = none := by decide

/-! ### the "API surface" operations: every route's answer is the lazy view's value -/

/-- Iterating any valid source with index (`WithIndex<…>` of all four iterator flavours) yields
    every index tuple of the shape, in row-major order, each exactly once, paired with the
    element the plain iterator yields at that position. -/
theorem iterWithIndex_eq_zip (v : TView ν α) (hv : v.lazy.Valid) :
    v.iterWithIndex = (allIndexes (v.shape.map (·.2))).zip v.iter ∧
    v.iter.length = (allIndexes (v.shape.map (·.2))).length :=
  ⟨EasyMl.iterWithIndex_eq_zip v hv, by
    rw [v.iter_eq, hv.elems_length, allIndexes_length]; rfl⟩

/-- … and the pairs are exactly "in-bounds index tuple, element the source has there": an index
    is never paired with another tuple's element (for an access of a tensor that element is the
    one whose coordinates match by name: `access_eq_reordered`, C01). -/
theorem iterWithIndex_mem_iff (v : TView ν α) (idx : List Nat) (x : α) :
    (idx, x) ∈ v.iterWithIndex ↔
      inBounds (v.shape.map (·.2)) idx = true ∧ v.get idx = some x := by
  rw [v.iterWithIndex_eq]
  simp only [List.mem_filterMap, mem_allIndexes_iff, Option.map_eq_some_iff, Prod.mk.injEq]
  constructor
  · rintro ⟨i, hb, y, hy, rfl, rfl⟩; exact ⟨hb, hy⟩
  · rintro ⟨hb, hx⟩; exact ⟨idx, hb, x, hx, rfl, rfl⟩

/-- **`sread`**: what is read through a `TensorAccess` / `TensorTranspose` of a tensor — by
    whichever route (inherent getters, the `TensorRef`/`TensorMut` trait methods, iterators) — is
    the value of the reordered / transposed lazy view of `(shape, data)`. -/
theorem surface_read_eq_view_value [Inhabited ν] (shape : Shape ν) (data : List α) (t : Tensor ν α)
    (ht : Tensor.tryFrom shape data = some t) (names : List ν) (hp : IsOrdering shape names) :
    (∃ a, t.view.access names = some a ∧
      a.shape = (reordered (ofData shape data) names).shape ∧
      a.iter = (materialise (reordered (ofData shape data) names)).elems) ∧
    (∃ x, t.view.transposeView names = some x ∧
      x.shape = (transposed (ofData shape data) names).shape ∧
      x.iter = (materialise (transposed (ofData shape data) names)).elems) :=
  read_access_eq shape data t ht names hp

/-- **`swrite`**: after `(idx, x) ↦ f idx x` was written to every cell through a `TensorAccess`
    (`map_mut*`, mutable iterators with index, mutable getters — the model's
    `Access.mapMutWithIndex`), looking at the tensor again through the same access / transpose
    shows the value of the mapped lazy view: the index handed to `f` is the one of the *view*,
    whatever the ordering (non-involutive ones included). -/
theorem surface_write_eq_mapped_view_value [Inhabited ν] (f : List Nat → α → α) (shape : Shape ν)
    (data : List α) (t : Tensor ν α) (ht : Tensor.tryFrom shape data = some t) (names : List ν)
    (a : Access ν α) (ha : t.indexBy names = some a) :
    (∃ r, (a.mapMutWithIndex f).view.access names = some r ∧
      r.shape = (reordered (ofData shape data) names).shape ∧
      r.iter = (materialise (mappedWithIndex f (reordered (ofData shape data) names))).elems) ∧
    (∃ x, (a.mapMutWithIndex f).view.transposeView names = some x ∧
      x.shape = (transposed (ofData shape data) names).shape ∧
      x.iter = (materialise (mappedWithIndex f (transposed (ofData shape data) names))).elems) :=
  write_access_eq f shape data t ht names a ha

/-- … and for the tensor itself. -/
theorem surface_write_tensor_eq (f : List Nat → α → α) (shape : Shape ν) (data : List α)
    (t : Tensor ν α) (ht : Tensor.tryFrom shape data = some t) :
    (t.mapMutWithIndex f).view.shape = shape ∧
    (t.mapMutWithIndex f).view.iter =
      (materialise (mappedWithIndex f (ofData shape data))).elems :=
  write_tensor_eq f shape data t ht

/-- Non-vacuity: the 3-cycle ordering of a 2×3×2 tensor. -/
example :
    ∃ t a, Tensor.tryFrom [("a", 2), ("b", 3), ("c", 2)] (List.range 12) = some t ∧
      t.indexBy ["c", "a", "b"] = some a ∧ IsOrdering [("a", 2), ("b", 3), ("c", 2)] ["c", "a", "b"] :=
  ⟨_, _, rfl, rfl, by decide⟩

/-! ### composition with C02 and C03 -/

/-- **C13's lazy views are C02's view nodes.**  For any C02 view `s` as the source
    (`TView.ofView s`: its `view_shape` and what reading through it returns), C13's
    `TensorAccess` / `TensorTranspose` constructions are C02's `View.mkAccess` / `View.mkTranspose`
    (same acceptance, same shape, same reads), and a C02 tensor leaf is C13's tensor source.  So
    C02's theorems (cell equations, layouts) and C09's (iterators over views) apply to the views
    this file speaks about, and this file's theorems (reorder / transpose / equality /
    similarity of *any valid source*) apply to every composed C02 view meeting the contract. -/
theorem lazy_views_are_C02_views [Inhabited ν] (s : View ν α) (names : List ν) :
    (TView.ofView s).access names = (View.mkAccess s names).map TView.ofView ∧
    (TView.ofView s).transposeView names = (View.mkTranspose s names).map TView.ofView ∧
    ∀ (id : Nat) (t : Tensor ν α), TView.ofView (View.tensor id t) = t.view :=
  ⟨access_ofView s names, transposeView_ofView s names, fun id t => ofView_tensor id t⟩

/-- **C13's `elementwise` model is C03's operator model.**  `Tensor::elementwise*` (tensor on the
    left, data read directly) and `TensorView::elementwise*` of this file equal C03's
    `Arith.elementwise` at a tensor resp. view operand (`TView.toArith`), so C03's cell-level
    theorems (`C03.elementwise_get`) and this file's value-level ones (`tensor_elementwise_eq`)
    describe the same function. -/
theorem elementwise_is_C03_operator [DecidableEq (Shape ν)] (f : α → α → α) (shape : Shape ν)
    (data : List α) (t : Tensor ν α) (ht : Tensor.tryFrom shape data = some t) (l r : TView ν α)
    (hr : r.lazy.Valid) :
    t.elementwise f r = Arith.elementwise f (.tensor t) (.view r.toArith) ∧
    l.elementwise f r = Arith.elementwise f (.view l.toArith) (.view r.toArith) :=
  elementwise_eq_arith f shape data t ht l r hr

/-- **In-place transformations followed by C03's operators.**  After any non-panicking history of
    in-place transformations the tensor is a well-formed operand of C03's tensor operators
    (`Arith.Operand.WF`, the hypothesis of `C03.elementwise_get`, `scalarOp_get`, `matMul_*`), and
    the element sequence their direct iterators consume is the logical row-major content — so
    "operator applied to the transformed tensor" is "operator applied to the transformed logical
    content". -/
theorem inplace_then_operators [Inhabited ν] (steps : List (InPlace ν α)) (shape : Shape ν)
    (data : List α) (t t' : Tensor ν α) (ht : Tensor.tryFrom shape data = some t)
    (harity : ∀ step ∈ steps, ∀ k, step.arity = some k → k = shape.length)
    (h : t.applyAll steps = .ok t') :
    (Arith.Operand.tensor t').WF ∧
    (Arith.Operand.tensor t').seq = (materialise t'.view.lazy).elems :=
  history_operand_wf steps shape data t t' ht harity h

/-- Non-vacuity: a transposed-in-place square tensor is a well-formed C03 operand. -/
example :
    ∃ t t', Tensor.tryFrom [("a", 2), ("b", 2)] [1, 2, 3, 4] = some t ∧
      t.applyAll [.transpose ["b", "a"]] = .ok t' ∧ (Arith.Operand.tensor t').WF ∧
      (Arith.Operand.tensor t').seq = [1, 3, 2, 4] := by
  refine ⟨_, _, rfl, rfl, ?_⟩
  have h := inplace_then_operators (ν := String) (α := Nat) [.transpose ["b", "a"]]
    [("a", 2), ("b", 2)] [1, 2, 3, 4] _ _ rfl (by intro st hst k hk; simp at hst; subst hst; simp [InPlace.arity] at hk; subst hk; rfl) rfl
  exact ⟨h.1, rfl⟩

example : (Tensor.ofVal ⟨[("a", 2), ("b", 2)], [5, 6, 7, 8]⟩ : Tensor String Nat).view.iterWithIndex =
    [([0, 0], 5), ([0, 1], 6), ([1, 0], 7), ([1, 1], 8)] := by decide

/-! ### the laws for tensors the constructors accept (hypotheses discharged by `view_valid`) -/

/-- `==` is an equivalence relation on constructed tensors, and `similar` one containing it. -/
theorem tensor_eq_similar_equivalences [DecidableEq α] [Inhabited ν] (s₁ s₂ s₃ : Shape ν)
    (d₁ d₂ d₃ : List α) (t₁ t₂ t₃ : Tensor ν α) (h₁ : Tensor.tryFrom s₁ d₁ = some t₁)
    (h₂ : Tensor.tryFrom s₂ d₂ = some t₂) (h₃ : Tensor.tryFrom s₃ d₃ = some t₃) :
    tensorEquality t₁.view t₁.view = true ∧
    (tensorEquality t₁.view t₂.view = true → tensorEquality t₂.view t₁.view = true) ∧
    (tensorEquality t₁.view t₂.view = true → tensorEquality t₂.view t₃.view = true →
      tensorEquality t₁.view t₃.view = true) ∧
    tensorSimilarity t₁.view t₁.view = true ∧
    (tensorSimilarity t₁.view t₂.view = true → tensorSimilarity t₂.view t₁.view = true) ∧
    (tensorSimilarity t₁.view t₂.view = true → tensorSimilarity t₂.view t₃.view = true →
      tensorSimilarity t₁.view t₃.view = true) ∧
    (tensorEquality t₁.view t₂.view = true → tensorSimilarity t₁.view t₂.view = true) := by
  have v₁ := (view_valid s₁ d₁ t₁ h₁).1
  have v₂ := (view_valid s₂ d₂ t₂ h₂).1
  have v₃ := (view_valid s₃ d₃ t₃ h₃).1
  exact ⟨eq_refl _ v₁, eq_symm _ _ v₁ v₂, eq_trans _ _ _ v₁ v₂ v₃, similar_refl _ v₁,
    similar_symm _ _ v₁ v₂, similar_trans _ _ _ v₁ v₂ v₃, eq_imp_similar _ _ v₁ v₂⟩

/-! ### Display -/

/-- **`Display` depends on the value only.**  `format_view` (C18's code-shaped model
    `Display.formatView`, every dimensionality: the layouts for 0, 1, 2 and 3 dimensions and the generic
    one) reads a view only through its shape and its elements at index tuples of the shape's
    dimensionality. -/
theorem display_depends_on_value_only (shape : Shape String) (g₁ g₂ : List Nat → Option String)
    (h : ∀ idx, idx.length = shape.length → g₁ idx = g₂ idx) :
    Display.formatView shape g₁ = Display.formatView shape g₂ :=
  formatView_congr shape g₁ g₂ h

/-- Hence a lazy view (access, transpose, rename, … — any valid source) prints exactly as the
    tensor storing its value: what the harness compares textually (`Display(view) ==
    Display(materialised tensor)`) is a theorem of the model. -/
theorem display_view_eq_display_materialised (v : TView String Int) (hv : v.lazy.Valid) :
    Display.formatView v.shape (fun idx => (v.get idx).map toString) =
      Display.formatTensor (Tensor.ofVal (materialise v.lazy)) := by
  unfold Display.formatTensor
  apply formatView_congr
  intro idx hlen
  rw [hv.ofVal_get idx hlen]
  rfl

/-- Non-vacuity: a 2×2 tensor seen through the swapped ordering prints as its reordered copy. -/
example :
    Display.formatView [("b", 2), ("a", 2)]
        (fun idx => ((Tensor.ofVal ⟨[("a", 2), ("b", 2)], [1, 2, 3, 4]⟩ : Tensor String Int).get
          (idx.reverse)).map toString) =
      Display.formatTensor (Tensor.ofVal ⟨[("b", 2), ("a", 2)], [1, 3, 2, 4]⟩) := by
  decide

end EasyMl.C13
