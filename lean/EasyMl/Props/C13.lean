/-
  EasyMl.Props.C13 — property theorems for C13 (tensor transformations equal their lazy views;
  equality and similarity laws).  Helper lemmas are in EasyMl/Lemmas/Transform*.lean.
-/
import EasyMl.Model.Transform
import EasyMl.Spec.Transform

namespace EasyMl.C13
open EasyMl EasyMl.Spec

variable {ν : Type} [DecidableEq ν] {α : Type}

/-- `reshape_owned` keeps the flat data (placeholder until the lemma files land). -/
theorem reshapeOwned_preserves_flat (t : Tensor ν α) (shape : Shape ν) (r : Tensor ν α)
    (h : t.reshapeOwned shape = .ok r) : r.data = t.data ∧ r.shape = shape := by
  unfold Tensor.reshapeOwned Tensor.fromOrPanic at h
  split at h
  · rename_i t' ht
    unfold Tensor.tryFrom at ht
    split at ht
    · simp at ht
    · simp only [Option.some.injEq] at ht
      simp only [Outcome.ok.injEq] at h
      subst h ht
      exact ⟨rfl, rfl⟩
  · simp at h

end EasyMl.C13
