/-
  EasyMl.Props.C08 — property theorems for C08 (placeholder while the correspondence is built).
-/
import EasyMl.Model.Decomp

namespace EasyMl.C08
end EasyMl.C08
