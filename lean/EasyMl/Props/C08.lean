/-
  EasyMl.Props.C08 — property theorems for C08 (Cholesky, LDLᵀ and QR factors satisfy their
  defining identities on all inputs).

  Only property statements live here; helper lemmas are in `EasyMl/Lemmas/Decomp.lean`
  (`Lemmas/RealModel.lean` makes ℝ an instance of the numeric classes the model is written over:
  `sqrt` is `Real.sqrt`, the comparisons are the order of ℝ).  Every theorem is about the very
  definitions (`EasyMl.Decomp.cholesky`, `ldlt`, `householder`, `qr` of `Model/Decomp.lean`) that
  the `emlmodel` driver executes against the implementation at `Fp` and `Rat` points.

  `toMat n m M` is the `n × m` Mathlib matrix of the entries of a model tensor `M`.
  All statements hold for every size (there is no bound on `n`).
-/
import EasyMl.Lemmas.Decomp
import Mathlib.Tactic.NormNum
import Mathlib.LinearAlgebra.Matrix.NonsingularInverse
import EasyMl.Lemmas.DecompArith
import EasyMl.Model.ApiSurface

namespace EasyMl.C08
open EasyMl EasyMl.Decomp Finset
open scoped EasyMl.RealModel

/-! ### Cholesky -/

/-- **Soundness of Cholesky, all sizes.**  Whenever the model returns a factor `L` for a real
    input `A` (of any size, symmetric or not): `A` is square, `L` has `A`'s shape, `L` is lower
    triangular with a strictly positive diagonal and `L·Lᵀ` agrees with `A` on the lower triangle
    (the code never reads the strict upper triangle); hence `L·Lᵀ = A` for symmetric `A`. -/
theorem cholesky_sound (A L : Matrix ℝ) (h : cholesky A = some L) :
    A.rows = A.columns ∧ Shaped A.rows A.rows L ∧
    (∀ i j : Fin A.rows, i < j → toMat A.rows A.rows L i j = 0) ∧
    (∀ i : Fin A.rows, 0 < toMat A.rows A.rows L i i) ∧
    (∀ i j : Fin A.rows, j ≤ i →
      (toMat A.rows A.rows L * (toMat A.rows A.rows L).transpose) i j = toMat A.rows A.rows A i j) ∧
    ((toMat A.rows A.rows A).transpose = toMat A.rows A.rows A →
      toMat A.rows A.rows L * (toMat A.rows A.rows L).transpose = toMat A.rows A.rows A) := by
  obtain ⟨hsq, hsh, hzero, hpos, hid⟩ := cholesky_real h
  have hlow : ∀ i j : Fin A.rows, j ≤ i →
      (toMat A.rows A.rows L * (toMat A.rows A.rows L).transpose) i j = toMat A.rows A.rows A i j := by
    intro i j hji
    simp only [Matrix.mul_apply, Matrix.transpose_apply, toMat_apply]
    rw [Fin.sum_univ_eq_sum_range (fun k => get L i k * get L j k) A.rows]
    exact hid i j i.isLt hji
  refine ⟨hsq, hsh, fun i j hij => hzero i j i.isLt j.isLt hij, fun i => hpos i i.isLt, hlow, ?_⟩
  intro hsym
  ext i j
  by_cases hji : j ≤ i
  · exact hlow i j hji
  · have hij : i ≤ j := le_of_lt (not_le.mp hji)
    have h1 := hlow j i hij
    have h2 : (toMat A.rows A.rows L * (toMat A.rows A.rows L).transpose) i j
        = (toMat A.rows A.rows L * (toMat A.rows A.rows L).transpose) j i := by
      simp only [Matrix.mul_apply, Matrix.transpose_apply]
      exact Finset.sum_congr rfl (fun k _ => mul_comm _ _)
    rw [h2, h1]
    have := congrFun (congrFun hsym i) j
    simpa [Matrix.transpose_apply] using this

/-- **Completeness of Cholesky (explicit factor), all sizes.**  If the square real input is
    `M·Mᵀ` for a lower-triangular `M` with positive diagonal, the model is present and returns
    exactly `M` (in particular the Cholesky factor is unique). -/
theorem cholesky_complete (A : Matrix ℝ) (hsq : A.rows = A.columns)
    (M : _root_.Matrix (Fin A.rows) (Fin A.rows) ℝ) (hlow : ∀ i j, i < j → M i j = 0)
    (hpos : ∀ i, 0 < M i i) (hA : toMat A.rows A.rows A = M * M.transpose) :
    ∃ L, cholesky A = some L ∧ Shaped A.rows A.rows L ∧ toMat A.rows A.rows L = M := by
  -- the factor as a table over ℕ
  let m : ℕ → ℕ → ℝ := fun a b => if h : a < A.rows ∧ b < A.rows then M ⟨a, h.1⟩ ⟨b, h.2⟩ else 0
  have hm : ∀ (a b : Fin A.rows), m a b = M a b := by
    intro a b; simp only [m]; rw [dif_pos ⟨a.isLt, b.isLt⟩]
  have hlow' : ∀ a b, a < b → m a b = 0 := by
    intro a b hab
    simp only [m]
    split
    · next h => exact hlow ⟨a, h.1⟩ ⟨b, h.2⟩ hab
    · rfl
  have hpos' : ∀ a, a < A.rows → 0 < m a a := by
    intro a ha
    have := hm ⟨a, ha⟩ ⟨a, ha⟩
    simp only [] at this
    rw [this]; exact hpos _
  have hA' : ∀ a b, a < A.rows → b ≤ a → get A a b = ∑ k ∈ range A.rows, m a k * m b k := by
    intro a b ha hba
    have hb : b < A.rows := by omega
    have h1 := congrFun (congrFun hA ⟨a, ha⟩) ⟨b, hb⟩
    rw [toMat_apply, Matrix.mul_apply] at h1
    simp only [Matrix.transpose_apply] at h1
    rw [h1, ← Fin.sum_univ_eq_sum_range (fun k => m a k * m b k) A.rows]
    apply Finset.sum_congr rfl
    intro k _
    rw [← hm ⟨a, ha⟩ k, ← hm ⟨b, hb⟩ k]
  obtain ⟨L, h1, h2, h3⟩ := cholesky_complete_aux hsq hlow' hpos' hA'
  refine ⟨L, h1, h2, ?_⟩
  ext i j
  rw [toMat_apply, h3 i j i.isLt j.isLt, hm]

/-- **Whatever Cholesky accepts is positive definite**: if the model returns a factor for a
    symmetric real `A`, then `A` is positive definite (Mathlib's `Matrix.PosDef`). -/
theorem cholesky_posDef_of_some (A L : Matrix ℝ) (h : cholesky A = some L)
    (hsym : (toMat A.rows A.rows A).transpose = toMat A.rows A.rows A) :
    (toMat A.rows A.rows A).PosDef := by
  obtain ⟨_, _, hlow, hpos, _, hfull⟩ := cholesky_sound A L h
  rw [← hfull hsym]
  exact posDef_of_lower _ hlow hpos

/-- **Inputs that are not positive definite yield absence**: for a symmetric real input that
    is not positive definite (indefinite, semidefinite, …) the model returns `none` — never a
    wrong factor, and the model has no panicking path. -/
theorem cholesky_none_of_not_posdef (A : Matrix ℝ)
    (hsym : (toMat A.rows A.rows A).transpose = toMat A.rows A.rows A)
    (hnot : ¬ (toMat A.rows A.rows A).PosDef) : cholesky A = none := by
  cases h : cholesky A with
  | none => rfl
  | some L => exact absurd (cholesky_posDef_of_some A L h hsym) hnot

/-- **Cholesky on every symmetric positive definite input** (the property's first sentence, all
    sizes): for a square real `A` whose matrix is positive definite (Mathlib's `Matrix.PosDef`,
    which includes symmetry) the model is present, and its factor is lower triangular with
    positive diagonal and reproduces the input as `L·Lᵀ`.  The proof shows that every pivot is
    positive: the leading block is `T·diag(1,…,1,pivot)·Tᵀ` for an invertible triangular `T`. -/
theorem cholesky_spd (A : Matrix ℝ) (hsq : A.rows = A.columns)
    (hPD : (toMat A.rows A.rows A).PosDef) :
    ∃ L, cholesky A = some L ∧ Shaped A.rows A.rows L ∧
      (∀ i j : Fin A.rows, i < j → toMat A.rows A.rows L i j = 0) ∧
      (∀ i : Fin A.rows, 0 < toMat A.rows A.rows L i i) ∧
      toMat A.rows A.rows L * (toMat A.rows A.rows L).transpose = toMat A.rows A.rows A := by
  obtain ⟨L, hL⟩ := cholesky_present_aux hsq hPD
  obtain ⟨_, h2, h3, h4, _, h6⟩ := cholesky_sound A L hL
  have hsym : (toMat A.rows A.rows A).transpose = toMat A.rows A.rows A := by
    have := hPD.1
    rwa [Matrix.IsHermitian, Matrix.conjTranspose_eq_transpose_of_trivial] at this
  exact ⟨L, hL, h2, h3, h4, h6 hsym⟩

/-- Presence ⇔ positive definiteness, for symmetric square real inputs. -/
theorem cholesky_some_iff_posDef (A : Matrix ℝ) (hsq : A.rows = A.columns)
    (hsym : (toMat A.rows A.rows A).transpose = toMat A.rows A.rows A) :
    (∃ L, cholesky A = some L) ↔ (toMat A.rows A.rows A).PosDef :=
  ⟨fun ⟨L, h⟩ => cholesky_posDef_of_some A L h hsym,
   fun h => (cholesky_present_aux hsq h)⟩

/-- Non-vacuity of the positive-definiteness hypothesis: `[[4,2],[2,5]]` is positive definite. -/
example : (toMat 2 2 (⟨[4, 2, 2, 5], 2, 2⟩ : Matrix ℝ)).PosDef := by
  have h : toMat 2 2 (⟨[4, 2, 2, 5], 2, 2⟩ : Matrix ℝ)
      = (!![2, 0; 1, 2] : _root_.Matrix (Fin 2) (Fin 2) ℝ) * (!![2, 0; 1, 2]).transpose := by
    ext i j
    fin_cases i <;> fin_cases j <;>
      simp [toMat, Decomp.get, EasyMl.Matrix.getIndex, Matrix.mul_apply, Fin.sum_univ_two] <;> norm_num
  rw [h]
  apply posDef_of_lower
  · intro i j hij; fin_cases i <;> fin_cases j <;> simp_all
  · intro i; fin_cases i <;> simp

/-- Non-vacuity of `cholesky_complete`: `[[4,2],[2,5]] = M·Mᵀ` for `M = [[2,0],[1,2]]`. -/
example : ∃ M : _root_.Matrix (Fin 2) (Fin 2) ℝ, (∀ i j, i < j → M i j = 0) ∧ (∀ i, 0 < M i i) ∧
    toMat 2 2 (⟨[4, 2, 2, 5], 2, 2⟩ : Matrix ℝ) = M * M.transpose := by
  refine ⟨!![2, 0; 1, 2], ?_, ?_, ?_⟩
  · intro i j hij; fin_cases i <;> fin_cases j <;> simp_all
  · intro i; fin_cases i <;> simp
  · ext i j
    fin_cases i <;> fin_cases j <;>
      simp [toMat, Decomp.get, EasyMl.Matrix.getIndex, Matrix.mul_apply, Fin.sum_univ_two] <;> norm_num

/-- Non-vacuity of `cholesky_none_of_not_posdef`: the symmetric `[[1,2],[2,0]]` has a zero on its
    diagonal, so it is not positive definite. -/
example : (toMat 2 2 (⟨[1, 2, 2, 0], 2, 2⟩ : Matrix ℝ)).transpose = toMat 2 2 ⟨[1, 2, 2, 0], 2, 2⟩ ∧
    ¬ (toMat 2 2 (⟨[1, 2, 2, 0], 2, 2⟩ : Matrix ℝ)).PosDef := by
  constructor
  · ext i j
    fin_cases i <;> fin_cases j <;> simp [toMat, Decomp.get, EasyMl.Matrix.getIndex]
  · intro h
    have := h.diag_pos (i := 1)
    simp [toMat, Decomp.get, EasyMl.Matrix.getIndex] at this

theorem sqrt_four : Real.sqrt 4 = 2 := by
  rw [show (4 : ℝ) = 2 * 2 by norm_num]; exact Real.sqrt_mul_self (by norm_num)

/-- Non-vacuity: the model factors the symmetric positive-definite `[[4,2],[2,5]]` over ℝ as
    `[[2,0],[1,2]]`. -/
example : cholesky (⟨[4, 2, 2, 5], 2, 2⟩ : Matrix ℝ) = some ⟨[2, 0, 1, 2], 2, 2⟩ := by
  simp [cholesky, forRange, cholRow, cholEntry, cholSum, foldRange, Decomp.get, Decomp.set, fill, EasyMl.Matrix.getIndex,
    List.range_succ, List.range_zero]
  norm_num [sqrt_four]

/-- **Absence, pivot form.**  The Cholesky model is absent exactly for a non-square input or
    when, after the rows before `i` have been computed, the `i`-th pivot
    `A[i,i] − Σ_{k<i} L[i,k]²` is not positive.  (The model has no other outcome: the code
    returns `None` there and cannot panic — all its indices are below `n`.) -/
theorem cholesky_none_iff_nonpos_pivot (A : Matrix ℝ) :
    cholesky A = none ↔ A.rows ≠ A.columns ∨
      ∃ i, i < A.rows ∧ ∃ L₀ L₁,
        forRange i (fun i L => cholRow A i L) (fill A.rows A.columns 0) = some L₀ ∧
        forRange i (fun j L => cholEntry A L i j) L₀ = some L₁ ∧
        get A i i - ∑ k ∈ range i, get L₁ i k * get L₁ i k ≤ 0 := by
  unfold cholesky
  by_cases hsq : A.rows = A.columns
  · simp only [hsq, ne_eq, not_true_eq_false, if_false, false_or]
    rw [forRange_none_iff]
    constructor
    · rintro ⟨i, hi, L₀, h0, hrow⟩
      refine ⟨i, hi, L₀, ?_⟩
      unfold cholRow at hrow
      rw [forRange_succ] at hrow
      cases h1 : forRange i (fun j L => cholEntry A L i j) L₀ with
      | none =>
        -- the entries left of the diagonal never fail
        exfalso
        obtain ⟨j, hj, t, _, hjt⟩ := (forRange_none_iff _ _ _).mp h1
        simp [cholEntry, show i ≠ j by omega] at hjt
      | some L₁ =>
        refine ⟨L₁, h0, rfl, ?_⟩
        rw [h1] at hrow
        simp only [Option.bind_some, cholEntry, if_true] at hrow
        by_cases hle : NumOrd.le (get A i i - cholSum L₁ i i) 0 = true
        · rw [cholSum_eq] at hle
          exact (RealModel.le_eq _ _).mp hle
        · simp [hle] at hrow
    · rintro ⟨i, hi, L₀, L₁, h0, h1, hle⟩
      refine ⟨i, hi, L₀, h0, ?_⟩
      unfold cholRow
      rw [forRange_succ, h1]
      simp only [Option.bind_some, cholEntry, if_true]
      rw [cholSum_eq, if_pos ((RealModel.le_eq _ _).mpr hle)]
  · simp [hsq]

/-- Non-vacuity: the indefinite `[[1,2],[2,1]]` (second pivot `1 − 2² = −3`) is rejected. -/
example : cholesky (⟨[1, 2, 2, 1], 2, 2⟩ : Matrix ℝ) = none := by
  simp [cholesky, forRange, cholRow, cholEntry, cholSum, foldRange, Decomp.get, Decomp.set, fill, EasyMl.Matrix.getIndex,
    List.range_succ, List.range_zero]
  norm_num

/-! ### LDLᵀ -/

/-- **Soundness of LDLᵀ, all sizes, any field.**  Whenever the model returns `(L, D)`: the
    input is square, both factors have its shape, `L` is unit lower triangular, `D` is diagonal
    with non-zero diagonal, and `L·D·Lᵀ` agrees with `A` on the lower triangle — hence
    `L·D·Lᵀ = A` exactly for symmetric `A`.  `heq`: the element type's `==` decides equality. -/
theorem ldlt_sound {K : Type} [Field K] [NumOrd K]
    (heq : ∀ a b : K, NumOrd.eq a b = true ↔ a = b) (A L D : Matrix K)
    (h : ldlt A = some (L, D)) :
    A.rows = A.columns ∧ Shaped A.rows A.rows L ∧ Shaped A.rows A.rows D ∧
    (∀ i j : Fin A.rows, i < j → toMat A.rows A.rows L i j = 0) ∧
    (∀ i : Fin A.rows, toMat A.rows A.rows L i i = 1) ∧
    (∀ i j : Fin A.rows, i ≠ j → toMat A.rows A.rows D i j = 0) ∧
    (∀ i : Fin A.rows, toMat A.rows A.rows D i i ≠ 0) ∧
    (∀ i j : Fin A.rows, j ≤ i →
      (toMat A.rows A.rows L * toMat A.rows A.rows D * (toMat A.rows A.rows L).transpose) i j
        = toMat A.rows A.rows A i j) ∧
    ((toMat A.rows A.rows A).transpose = toMat A.rows A.rows A →
      toMat A.rows A.rows L * toMat A.rows A.rows D * (toMat A.rows A.rows L).transpose
        = toMat A.rows A.rows A) := by
  obtain ⟨hsq, hshL, hshD, hzL, hzD, _, _⟩ := ldlt_inv h
  obtain ⟨hone, hne, hid⟩ := ldlt_identity heq h
  -- `(L·D)[i,k] = L[i,k]·D[k,k]` because `D` is diagonal
  have hLD : ∀ i k : Fin A.rows, (toMat A.rows A.rows L * toMat A.rows A.rows D) i k
      = get L i k * get D k k := by
    intro i k
    rw [Matrix.mul_apply]
    rw [Finset.sum_eq_single k]
    · simp
    · intro b _ hbk
      have : get D b k = 0 := hzD b k b.isLt k.isLt (fun hh => hbk (Fin.ext hh))
      simp [this]
    · intro hk; exact absurd (Finset.mem_univ k) hk
  have hentry : ∀ i j : Fin A.rows,
      (toMat A.rows A.rows L * toMat A.rows A.rows D * (toMat A.rows A.rows L).transpose) i j
        = ∑ k ∈ range A.rows, get L i k * get D k k * get L j k := by
    intro i j
    rw [Matrix.mul_apply]
    simp only [hLD, Matrix.transpose_apply, toMat_apply]
    exact Fin.sum_univ_eq_sum_range (fun k => get L i k * get D k k * get L j k) A.rows
  have hlow : ∀ i j : Fin A.rows, j ≤ i →
      (toMat A.rows A.rows L * toMat A.rows A.rows D * (toMat A.rows A.rows L).transpose) i j
        = toMat A.rows A.rows A i j := by
    intro i j hji
    rw [hentry]
    exact hid i j i.isLt hji
  refine ⟨hsq, hshL, hshD, fun i j hij => hzL i j i.isLt j.isLt hij, fun i => hone i i.isLt,
    fun i j hij => hzD i j i.isLt j.isLt (fun hh => hij (Fin.ext hh)), fun i => hne i i.isLt,
    hlow, ?_⟩
  intro hsym
  ext i j
  by_cases hji : j ≤ i
  · exact hlow i j hji
  · have hij : i ≤ j := le_of_lt (not_le.mp hji)
    have h1 := hlow j i hij
    have h2 : (toMat A.rows A.rows L * toMat A.rows A.rows D * (toMat A.rows A.rows L).transpose) i j
        = (toMat A.rows A.rows L * toMat A.rows A.rows D * (toMat A.rows A.rows L).transpose) j i := by
      rw [hentry, hentry]
      exact Finset.sum_congr rfl (fun k _ => by ring)
    rw [h2, h1]
    have := congrFun (congrFun hsym i) j
    simpa [Matrix.transpose_apply] using this

/-- Non-vacuity (over ℚ, the exact type of the correspondence runs): the symmetric indefinite
    `[[2,4],[4,3]]` is factored as `L = [[1,0],[2,1]]`, `D = diag(2, −5)`. -/
example : ldlt (⟨[2, 4, 4, 3], 2, 2⟩ : Matrix ℚ) = some (⟨[1, 0, 2, 1], 2, 2⟩, ⟨[2, 0, 0, -5], 2, 2⟩) := by
  decide +kernel

example : ∀ a b : ℚ, NumOrd.eq a b = true ↔ a = b := fun a b => by simp [NumOrd.eq]

/-- **LDLᵀ on every symmetric positive definite input** (all sizes): the model is present, `L` is
    unit lower triangular, `D` is diagonal and `L·D·Lᵀ = A`. -/
theorem ldlt_spd (A : Matrix ℝ) (hsq : A.rows = A.columns)
    (hPD : (toMat A.rows A.rows A).PosDef) :
    ∃ L D, ldlt A = some (L, D) ∧ Shaped A.rows A.rows L ∧ Shaped A.rows A.rows D ∧
      (∀ i j : Fin A.rows, i < j → toMat A.rows A.rows L i j = 0) ∧
      (∀ i : Fin A.rows, toMat A.rows A.rows L i i = 1) ∧
      (∀ i j : Fin A.rows, i ≠ j → toMat A.rows A.rows D i j = 0) ∧
      toMat A.rows A.rows L * toMat A.rows A.rows D * (toMat A.rows A.rows L).transpose
        = toMat A.rows A.rows A := by
  obtain ⟨L, D, h⟩ := ldlt_present_aux hsq hPD
  obtain ⟨_, h2, h3, h4, h5, h6, _, _, h9⟩ :=
    ldlt_sound (fun a b => RealModel.eq_eq a b) A L D h
  have hsym : (toMat A.rows A.rows A).transpose = toMat A.rows A.rows A := by
    have := hPD.1
    rwa [Matrix.IsHermitian, Matrix.conjTranspose_eq_transpose_of_trivial] at this
  exact ⟨L, D, h, h2, h3, h4, h5, h6, h9 hsym⟩

/-- **Completeness of LDLᵀ (explicit factors), any field, all sizes**: if the square input is
    `L·diag(d)·Lᵀ` for a unit lower triangular `L` and a diagonal `d` without zeros, the model is
    present and returns exactly `L` and `diag(d)` (so the factorisation is unique, and present on
    every symmetric input whose leading principal minors do not vanish). -/
theorem ldlt_complete {K : Type} [Field K] [NumOrd K]
    (heq : ∀ a b : K, NumOrd.eq a b = true ↔ a = b) (A : Matrix K) (hsq : A.rows = A.columns)
    (Lm : _root_.Matrix (Fin A.rows) (Fin A.rows) K) (d : Fin A.rows → K)
    (hlow : ∀ i j, i < j → Lm i j = 0) (hone : ∀ i, Lm i i = 1) (hd : ∀ i, d i ≠ 0)
    (hA : toMat A.rows A.rows A = Lm * Matrix.diagonal d * Lm.transpose) :
    ∃ L D, ldlt A = some (L, D) ∧ Shaped A.rows A.rows L ∧ Shaped A.rows A.rows D ∧
      toMat A.rows A.rows L = Lm ∧ toMat A.rows A.rows D = Matrix.diagonal d := by
  let ℓ : ℕ → ℕ → K := fun a b =>
    if h : a < A.rows ∧ b < A.rows then Lm ⟨a, h.1⟩ ⟨b, h.2⟩ else if a = b then 1 else 0
  let dd : ℕ → K := fun a => if h : a < A.rows then d ⟨a, h⟩ else 1
  have hℓ : ∀ (a b : Fin A.rows), ℓ a b = Lm a b := by
    intro a b; simp only [ℓ]; rw [dif_pos ⟨a.isLt, b.isLt⟩]
  have hdd : ∀ (a : Fin A.rows), dd a = d a := by
    intro a; simp only [dd]; rw [dif_pos a.isLt]
  have hlow' : ∀ a b, a < b → ℓ a b = 0 := by
    intro a b hab
    simp only [ℓ]
    split
    · next h => exact hlow ⟨a, h.1⟩ ⟨b, h.2⟩ hab
    · rw [if_neg (by omega)]
  have hone' : ∀ a, ℓ a a = 1 := by
    intro a
    simp only [ℓ]
    split
    · next h => exact hone ⟨a, h.1⟩
    · simp
  have hd' : ∀ a, a < A.rows → dd a ≠ 0 := by
    intro a ha
    have := hdd ⟨a, ha⟩
    simp only [] at this
    rw [this]; exact hd _
  have hA' : ∀ a b, a < A.rows → b ≤ a →
      get A a b = ∑ k ∈ range A.rows, ℓ a k * dd k * ℓ b k := by
    intro a b ha hba
    have hb : b < A.rows := by omega
    have h1 := congrFun (congrFun hA ⟨a, ha⟩) ⟨b, hb⟩
    rw [toMat_apply, Matrix.mul_apply] at h1
    rw [h1, ← Fin.sum_univ_eq_sum_range (fun k => ℓ a k * dd k * ℓ b k) A.rows]
    apply Finset.sum_congr rfl
    intro k _
    rw [Matrix.mul_diagonal, Matrix.transpose_apply, ← hℓ ⟨a, ha⟩ k, ← hℓ ⟨b, hb⟩ k, ← hdd k]
  obtain ⟨L, D, h1, h2, h3, h4, h5⟩ := ldlt_complete_aux heq hsq hlow' hone' hd' hA'
  refine ⟨L, D, h1, h2, h3, ?_, ?_⟩
  · ext i j
    rw [toMat_apply, h4 i j i.isLt j.isLt, hℓ]
  · ext i j
    rw [toMat_apply, h5 i j i.isLt j.isLt, Matrix.diagonal_apply]
    by_cases hij : i = j
    · rw [if_pos (by rw [hij]), if_pos hij, hdd]
    · rw [if_neg (fun h => hij (Fin.ext h)), if_neg hij]

/-- Non-vacuity (over ℚ): `[[2,4],[4,3]] = L·diag(2,−5)·Lᵀ` with `L = [[1,0],[2,1]]`. -/
example : toMat 2 2 (⟨[2, 4, 4, 3], 2, 2⟩ : Matrix ℚ)
    = (!![1, 0; 2, 1] : _root_.Matrix (Fin 2) (Fin 2) ℚ) * Matrix.diagonal ![2, -5]
      * (!![1, 0; 2, 1] : _root_.Matrix (Fin 2) (Fin 2) ℚ).transpose := by
  ext i j
  fin_cases i <;> fin_cases j <;>
    simp [toMat, Decomp.get, EasyMl.Matrix.getIndex, Matrix.mul_apply, Fin.sum_univ_two,
      Matrix.vecMul, dotProduct, Matrix.diagonal_apply] <;> norm_num

/-- **LDLᵀ decides definiteness**: for a symmetric real input on which the model is present, the
    input is positive definite exactly when every diagonal entry of `D` is positive (Sylvester's
    law of inertia for the congruence by the invertible unit-triangular `L`).  So an indefinite
    input is accepted — with a negative entry in `D` — and a positive definite one never has one. -/
theorem ldlt_posDef_iff_diag_pos (A L D : Matrix ℝ) (h : ldlt A = some (L, D))
    (hsym : (toMat A.rows A.rows A).transpose = toMat A.rows A.rows A) :
    (toMat A.rows A.rows A).PosDef ↔ ∀ i : Fin A.rows, 0 < toMat A.rows A.rows D i i := by
  obtain ⟨_, _, _, hlow, hone, hdiag, _, _, hfull⟩ :=
    ldlt_sound (fun a b => RealModel.eq_eq a b) A L D h
  have hprod := hfull hsym
  set Lm := toMat A.rows A.rows L with hLm
  set Dm := toMat A.rows A.rows D with hDm
  have hdet : Lm.det = ∏ i, Lm i i := Matrix.det_of_isLowerTriangular Lm (fun i j hij => hlow i j hij)
  have hunit : IsUnit Lm := by
    rw [Matrix.isUnit_iff_isUnit_det, hdet]
    simp [hone]
  have hDdiag : Dm = Matrix.diagonal (fun i => Dm i i) := by
    ext i j
    by_cases hij : i = j
    · rw [hij, Matrix.diagonal_apply_eq]
    · rw [Matrix.diagonal_apply_ne _ hij, hdiag i j hij]
  have hcongr : (toMat A.rows A.rows A).PosDef ↔ Dm.PosDef := by
    rw [← hprod]
    have := Matrix.IsUnit.posDef_star_right_conjugate_iff (x := Dm) hunit
    rwa [Matrix.star_eq_conjTranspose, Matrix.conjTranspose_eq_transpose_of_trivial] at this
  rw [hcongr, hDdiag, Matrix.posDef_diagonal_iff]
  constructor
  · intro hpos i
    have := hpos i
    rwa [Matrix.diagonal_apply_eq]
  · intro hpos i
    have := hpos i
    rwa [Matrix.diagonal_apply_eq] at this

/-- **Absence of LDLᵀ ⇔ non-square input or a zero pivot.**  The model is absent exactly when
    the input is not square or when, with the columns before `j` computed, the `j`-th pivot
    `A[j,j] − Σ_{k<j} L[j,k]²·D[k,k]` is zero. -/
theorem ldlt_none_iff_zero_pivot {K : Type} [Field K] [NumOrd K]
    (heq : ∀ a b : K, NumOrd.eq a b = true ↔ a = b) (A : Matrix K) :
    ldlt A = none ↔ A.rows ≠ A.columns ∨
      ∃ j, j < A.rows ∧ ∃ L D,
        forRange j (fun j s => ldltColumn A A.rows j s)
          (fill A.rows A.columns 0, fill A.rows A.columns 0) = some (L, D) ∧
        get A j j - ∑ k ∈ range j, get L j k * get L j k * get D k k = 0 := by
  unfold ldlt
  by_cases hsq : A.rows = A.columns
  · simp only [hsq, ne_eq, not_true_eq_false, if_false, false_or]
    rw [forRange_none_iff]
    constructor
    · rintro ⟨j, hj, ⟨L, D⟩, h0, hcol⟩
      refine ⟨j, hj, L, D, h0, ?_⟩
      unfold ldltColumn at hcol
      simp only [] at hcol
      by_cases hz : NumOrd.eq (get A j j - ldltSum L D j j) 0 = true
      · rw [ldltSum_eq] at hz; exact (heq _ _).mp hz
      · simp [hz] at hcol
    · rintro ⟨j, hj, L, D, h0, hz⟩
      refine ⟨j, hj, (L, D), h0, ?_⟩
      unfold ldltColumn
      simp only []
      rw [ldltSum_eq, if_pos ((heq _ _).mpr hz)]
  · simp [hsq]

/-- Non-vacuity: `[[0,1],[1,0]]` has a zero first pivot. -/
example : ldlt (⟨[0, 1, 1, 0], 2, 2⟩ : Matrix ℚ) = none := by decide +kernel

/-! ### Householder reflections and QR -/

/-- **Every Householder matrix the code builds is symmetric and orthogonal**: for every real
    vector `x`, `H = householder x` (the model of `householder_matrix_tensor`, i.e.
    `1 − 2·v·vᵀ` with `v = u/‖u‖`, `u = x ± ‖x‖·e₀`) satisfies `Hᵀ = H`, `H·H = 1`, `Hᵀ·H = 1`.
    (For `x = 0` the code divides `0/0`; in ℝ with `x/0 = 0` this gives `H = 1`, in floating
    point NaN — `householder_defined` shows the division is by a positive number otherwise.) -/
theorem householder_orthogonal (x : List ℝ) :
    (toMat x.length x.length (householder x)).transpose = toMat x.length x.length (householder x) ∧
    toMat x.length x.length (householder x) * toMat x.length x.length (householder x) = 1 ∧
    (toMat x.length x.length (householder x)).transpose * toMat x.length x.length (householder x) = 1 := by
  obtain ⟨h1, h2⟩ := householder_orthogonal_aux x
  exact ⟨h1, h2, by rw [h1, h2]⟩

/-- The sign choice (`a = ‖x‖` if `x₀ > 0`, else `−‖x‖`) makes `u = x + a·e₀` non-zero for
    every non-zero `x`: the normalisation divides by `‖u‖ > 0`. -/
theorem householder_defined (x : List ℝ) (k : ℕ) (hk : x.getD k 0 ≠ 0) :
    0 < Real.sqrt (sumSq (householderU x)) :=
  Real.sqrt_pos.mpr (sumSq_householderU_pos x k hk)

example : ([3, 4] : List ℝ).getD 1 0 ≠ 0 := by norm_num

/-- **QR: `Q·R = A` and `QᵀQ = 1` for every real `M × N` input with `M ≥ N`** (every size, incl.
    `1 × 1` and single-column inputs), with the documented shapes: `Q` is `M × M`, `R` is `M × N`.
    The proof is an induction over the reflections that uses only `Hᵀ = H` and `H·H = 1`. -/
theorem qr_product (A Q R : Matrix ℝ) (h : qr A = some (Q, R)) :
    A.columns ≤ A.rows ∧ Shaped A.rows A.rows Q ∧ Shaped A.rows A.columns R ∧
    toMat A.rows A.rows Q * toMat A.rows A.columns R = toMat A.rows A.columns A ∧
    (toMat A.rows A.rows Q).transpose * toMat A.rows A.rows Q = 1 ∧
    toMat A.rows A.rows Q * (toMat A.rows A.rows Q).transpose = 1 := by
  obtain ⟨h1, h2, h3, h4, h5⟩ := qr_real h
  exact ⟨h1, h2, h3, h4, h5, mul_eq_one_comm.mp h5⟩

/-- **`R` is upper triangular**, all columns, every `M ≥ N` shape: each reflection maps the
    trailing part `x` of its column to `∓‖x‖·e₀` (`H·x = x − u` because `u·u = 2·u·x`) and leaves
    the zeros of the earlier columns in place. -/
theorem qr_upper (A Q R : Matrix ℝ) (h : qr A = some (Q, R)) :
    ∀ (i : Fin A.rows) (j : Fin A.columns), (j : ℕ) < (i : ℕ) → toMat A.rows A.columns R i j = 0 := by
  have hw : A.columns ≤ A.rows := (qr_real h).1
  have hup := qrLoop_upper A hw
  unfold qr at h
  rw [if_neg (by omega)] at h
  simp only [Option.some.injEq, Prod.mk.injEq] at h
  rw [h.2] at hup
  intro i j hji
  exact hup.2 i j i.isLt j.isLt (by have := i.isLt; omega) hji

/-- Non-vacuity: the model factors the 2×1 input `[3, 4]ᵀ` over `Fp` (present, `Q` is 2×2). -/
example : ∃ Q R, qr (⟨[⟨3⟩, ⟨4⟩], 2, 1⟩ : Matrix Fp) = some (Q, R) ∧ Q.rows = 2 ∧ Q.columns = 2 :=
  ⟨_, _, rfl, rfl, rfl⟩

/-- **On the property's domain (linearly independent columns) no reflection divides by zero.**
    `qrState A c` is the state of the loop after `c` iterations (`qrLoop A` is
    `qrState A (min (M−1) N)` by definition).  If the columns of the real `M × N` input are
    linearly independent (`mulVec` injective), the column the `c`-th reflection is built from is
    non-zero for every iteration `c`, hence `‖u‖ > 0` and the normalisation `u / ‖u‖` is a genuine
    division.  So on these inputs `qr_product` / `qr_upper` do not rest on Lean's `x / 0 = 0`. -/
theorem qr_no_zero_division (A : Matrix ℝ)
    (hinj : Function.Injective (toMat A.rows A.columns A).mulVec) (c : ℕ)
    (hc : c < min (A.rows - 1) A.columns) :
    0 < Real.sqrt (sumSq (householderU
      ((List.range (A.rows - c)).map fun t => get (qrState A c).2 (c + t) c))) := by
  obtain ⟨k, hk⟩ := qr_column_ne_zero A hinj c (by omega) (by omega)
  exact householder_defined _ k hk

example : qrLoop (⟨[3, 4], 2, 1⟩ : Matrix ℝ) = qrState ⟨[3, 4], 2, 1⟩ (min (2 - 1) 1) := rfl

/-- Non-vacuity: the single column `[3, 4]ᵀ` is linearly independent. -/
example : Function.Injective (toMat 2 1 (⟨[3, 4], 2, 1⟩ : Matrix ℝ)).mulVec := by
  intro y z h
  have h0 := congrFun h 0
  simp [Matrix.mulVec, dotProduct, toMat, Decomp.get, EasyMl.Matrix.getIndex] at h0
  funext i
  fin_cases i
  simpa using h0

/-- **QR is absent exactly for wide inputs** (`N > M`); in particular it is present for `1 × 1`
    and `M × 1` inputs.  (This is the repaired control flow; see `qr_asWritten_panics_iff`.) -/
theorem qr_none_iff_wide {α : Type} [Add α] [Sub α] [Mul α] [Div α] [Neg α] [Zero α] [One α]
    [RealFns α] [NumOrd α] (A : Matrix α) : qr A = none ↔ A.columns > A.rows := by
  unfold qr
  by_cases h : A.columns > A.rows <;> simp [h]

/-- **Defect I-09 of the pinned code**: `q.unwrap()` panics exactly when the loop makes no
    iteration, i.e. (for a valid, non-wide input) exactly on one-row inputs — the `1 × 1`
    matrices the property demands a factorisation for. -/
theorem qr_asWritten_panics_iff {α : Type} [Add α] [Sub α] [Mul α] [Div α] [Neg α] [Zero α] [One α]
    [RealFns α] [NumOrd α] (A : Matrix α) (hA : A.Inv) (hw : A.columns ≤ A.rows) :
    qrAsWritten A = .panic .unwrap ↔ A.rows = 1 := by
  obtain ⟨_, hr, hc⟩ := hA
  have hq : ∀ n (s : Option (Matrix α) × Matrix α),
      (foldRange n (fun c s => qrStep A.rows c s) s).1 = none ↔ (n = 0 ∧ s.1 = none) := by
    intro n
    induction n with
    | zero => intro s; simp [foldRange_zero]
    | succ n ih =>
      intro s
      rw [foldRange_succ]
      obtain ⟨q, r⟩ := foldRange n (fun c s => qrStep A.rows c s) s
      cases q <;> simp [qrStep]
  unfold qrAsWritten
  rw [if_neg (by omega)]
  have := hq (min (A.rows - 1) A.columns) (none, ofFn A.rows A.columns (get A))
  unfold qrLoop
  generalize foldRange (min (A.rows - 1) A.columns) (fun c s => qrStep A.rows c s)
    (none, ofFn A.rows A.columns (get A)) = s at this ⊢
  obtain ⟨q, r⟩ := s
  cases q with
  | none =>
    simp only [true_iff]
    have := this.mp rfl
    omega
  | some q =>
    simp only [reduceCtorEq, false_iff]
    intro h1
    have : (some q = none) := this.mpr ⟨by omega, rfl⟩
    cases this

/-- the `1 × 1` witness -/
example : qrAsWritten (⟨[⟨5⟩], 1, 1⟩ : Matrix Fp) = .panic .unwrap ∧
    qr (⟨[⟨5⟩], 1, 1⟩ : Matrix Fp) = some (⟨[⟨1⟩], 1, 1⟩, ⟨[⟨5⟩], 1, 1⟩) := by
  constructor <;> rfl

/-- Non-vacuity of `qr_product` / `qr_upper` over ℝ: the 2×1 input `[3, 4]ᵀ` is factored. -/
example : ∃ QR, qr (⟨[3, 4], 2, 1⟩ : Matrix ℝ) = some QR := by
  cases h : qr (⟨[3, 4], 2, 1⟩ : Matrix ℝ) with
  | some x => exact ⟨x, rfl⟩
  | none => exact absurd ((qr_none_iff_wide _).mp h) (by decide)

example : (⟨[⟨5⟩], 1, 1⟩ : Matrix Fp).Inv := by decide

/-- the symmetric input of the Cholesky examples -/
example : (toMat 2 2 (⟨[4, 2, 2, 5], 2, 2⟩ : Matrix ℝ)).transpose = toMat 2 2 ⟨[4, 2, 2, 5], 2, 2⟩ := by
  ext i j
  fin_cases i <;> fin_cases j <;> simp [toMat, Decomp.get, EasyMl.Matrix.getIndex]

/-! ### uniqueness, and the relation between the two symmetric factorisations -/

/-- **The Cholesky factor is unique**: two lower-triangular real matrices with positive diagonals
    and the same product `M·Mᵀ` are equal — both are what the model computes from that product. -/
theorem cholesky_unique {n : ℕ} (M₁ M₂ : _root_.Matrix (Fin n) (Fin n) ℝ)
    (hlow₁ : ∀ i j, i < j → M₁ i j = 0) (hpos₁ : ∀ i, 0 < M₁ i i)
    (hlow₂ : ∀ i j, i < j → M₂ i j = 0) (hpos₂ : ∀ i, 0 < M₂ i i)
    (h : M₁ * M₁.transpose = M₂ * M₂.transpose) : M₁ = M₂ := by
  -- the model tensor of the common product
  let A : Matrix ℝ := ofFn n n fun i j =>
    if hij : i < n ∧ j < n then (M₁ * M₁.transpose) ⟨i, hij.1⟩ ⟨j, hij.2⟩ else 0
  have hA : toMat n n A = M₁ * M₁.transpose := by
    ext i j
    rw [toMat_apply, get_ofFn _ _ _ _ _ i.isLt j.isLt, dif_pos ⟨i.isLt, j.isLt⟩]
  obtain ⟨L₁, h1, _, e1⟩ := cholesky_complete A rfl M₁ hlow₁ hpos₁ hA
  obtain ⟨L₂, h2, _, e2⟩ := cholesky_complete A rfl M₂ hlow₂ hpos₂ (hA.trans h)
  rw [h1] at h2
  cases h2
  exact e1.symm.trans e2

/-- **LDLᵀ and Cholesky of a positive definite input are related by `L_chol = L·√D`**: both
    models are present, every diagonal entry of `D` is positive, and column `j` of the Cholesky
    factor is column `j` of the unit-triangular `L` scaled by `√D[j,j]`. -/
theorem cholesky_eq_ldlt_sqrt (A : Matrix ℝ) (hsq : A.rows = A.columns)
    (hPD : (toMat A.rows A.rows A).PosDef) :
    ∃ Lc L D, cholesky A = some Lc ∧ ldlt A = some (L, D) ∧
      (∀ i : Fin A.rows, 0 < toMat A.rows A.rows D i i) ∧
      ∀ i j : Fin A.rows,
        toMat A.rows A.rows Lc i j = toMat A.rows A.rows L i j * Real.sqrt (toMat A.rows A.rows D j j) := by
  obtain ⟨L, D, hld, _, _, hlow, hone, hdiag, hprod⟩ := ldlt_spd A hsq hPD
  set Lm := toMat A.rows A.rows L with hLm
  set Dm := toMat A.rows A.rows D with hDm
  -- `L` is invertible, so `D` is positive definite
  have hdet : Lm.det = ∏ i, Lm i i := Matrix.det_of_isLowerTriangular Lm (fun i j hij => hlow i j hij)
  have hunit : IsUnit Lm := by
    rw [Matrix.isUnit_iff_isUnit_det, hdet]
    simp [hone]
  have hDpd : Dm.PosDef := by
    have h1 : (Lm * Dm * star Lm).PosDef := by
      rw [Matrix.star_eq_conjTranspose, Matrix.conjTranspose_eq_transpose_of_trivial, hprod]
      exact hPD
    exact (Matrix.IsUnit.posDef_star_right_conjugate_iff hunit).mp h1
  have hDpos : ∀ i, 0 < Dm i i := fun i => hDpd.diag_pos
  -- the Cholesky factor
  let M : _root_.Matrix (Fin A.rows) (Fin A.rows) ℝ := fun i j => Lm i j * Real.sqrt (Dm j j)
  have hLD : ∀ i k, (Lm * Dm) i k = Lm i k * Dm k k := by
    intro i k
    rw [Matrix.mul_apply, Finset.sum_eq_single k]
    · intro b _ hbk
      rw [hdiag b k hbk, mul_zero]
    · intro hk; exact absurd (Finset.mem_univ k) hk
  have hMM : toMat A.rows A.rows A = M * M.transpose := by
    rw [← hprod]
    ext i j
    rw [Matrix.mul_apply, Matrix.mul_apply]
    apply Finset.sum_congr rfl
    intro k _
    rw [hLD, Matrix.transpose_apply, Matrix.transpose_apply]
    simp only [M]
    have := Real.mul_self_sqrt (hDpos k).le
    calc Lm i k * Dm k k * Lm j k = Lm i k * (Real.sqrt (Dm k k) * Real.sqrt (Dm k k)) * Lm j k := by rw [this]
      _ = Lm i k * Real.sqrt (Dm k k) * (Lm j k * Real.sqrt (Dm k k)) := by ring
  have hMlow : ∀ i j, i < j → M i j = 0 := by
    intro i j hij; simp only [M]; rw [hlow i j hij, zero_mul]
  have hMpos : ∀ i, 0 < M i i := by
    intro i; simp only [M]; rw [hone i, one_mul]; exact Real.sqrt_pos.mpr (hDpos i)
  obtain ⟨Lc, hc, _, hcm⟩ := cholesky_complete A hsq M hMlow hMpos hMM
  refine ⟨Lc, L, D, hc, hld, hDpos, ?_⟩
  intro i j
  rw [hcm]

/-- Non-vacuity of `cholesky_unique`: the factor `[[2,0],[1,2]]` meets the hypotheses. -/
example : (∀ i j : Fin 2, i < j → (!![2, 0; 1, 2] : _root_.Matrix (Fin 2) (Fin 2) ℝ) i j = 0) ∧
    (∀ i : Fin 2, 0 < (!![2, 0; 1, 2] : _root_.Matrix (Fin 2) (Fin 2) ℝ) i i) := by
  constructor
  · intro i j hij; fin_cases i <;> fin_cases j <;> simp_all
  · intro i; fin_cases i <;> simp

/-! ### any element type: the factorisations commute with structure-preserving maps -/

section natural
variable {α β : Type}
  [Add α] [Sub α] [Mul α] [Div α] [Neg α] [Zero α] [One α] [RealFns α] [NumOrd α]
  [Add β] [Sub β] [Mul β] [Div β] [Neg β] [Zero β] [One β] [RealFns β] [NumOrd β]

/-- **Cholesky and LDLᵀ are natural in the element type.**  For any map `φ` between element types
    that commutes with `+ − × ÷ 0 1 sqrt` and the comparisons (`NumHom φ`), factoring the image of
    a tensor gives the image of its factors — presence and every entry, every size.  The routines
    are generic: they cannot do anything at one numeric type that they do not do at another. -/
theorem factorisations_natural {φ : α → β} (h : NumHom φ) (A : Matrix α) :
    cholesky (mapM φ A) = (cholesky A).map (mapM φ) ∧
    ldlt (mapM φ A) = (ldlt A).map (fun s => (mapM φ s.1, mapM φ s.2)) :=
  ⟨cholesky_natural h A, ldlt_natural h A⟩

/-- **Over `Trace<T>` the value of the factor is the factor of the values**: for dual numbers
    (`Dual R`, the model of `Trace<T>` with the rules of `trace_operations.rs`) over any element
    type `R`, the number parts of the Cholesky / LDLᵀ factors of `A` are the factors of the number
    parts of `A`, and the decomposition is present for the one exactly when it is for the other —
    whatever the derivative parts are. -/
theorem factorisations_over_trace {R : Type} [Add R] [Sub R] [Mul R] [Div R] [Neg R] [Zero R] [One R]
    [RealFns R] [NumOrd R] (A : Matrix (Dual R)) :
    cholesky (mapM Dual.number A) = (cholesky A).map (mapM Dual.number) ∧
    ldlt (mapM Dual.number A)
      = (ldlt A).map (fun s => (mapM Dual.number s.1, mapM Dual.number s.2)) :=
  factorisations_natural dualNumber_hom A

/-- Non-vacuity: the identity is such a map (and `Dual.number` by `dualNumber_hom`). -/
example : NumHom (id : Fp → Fp) :=
  ⟨rfl, rfl, fun _ _ => rfl, fun _ _ => rfl, fun _ _ => rfl, fun _ _ => rfl, fun _ => rfl,
    fun _ _ => rfl, fun _ _ => rfl⟩

end natural

/-! ### round: reflections, congruence, composition with C03, API surface -/

/-- **`H·x = −a·e₀`**: the Householder matrix built from a real column `x` maps `x` itself to
    `−a` times the first unit vector, where `a = ‖x‖` if the leading entry is positive and `−‖x‖`
    otherwise (`householderA`), so `a·a = ‖x‖²`; every entry below the first is annihilated.  This
    is what makes `R` upper triangular (`qr_upper`). -/
theorem householder_reflects (x : List ℝ) :
    (toMat x.length x.length (householder x)).mulVec (fun i : Fin x.length => x.getD i 0)
      = (fun i : Fin x.length => if (i : ℕ) = 0 then -householderA x else 0) ∧
    householderA x * householderA x = sumSq x := by
  constructor
  · funext i
    simp only [Matrix.mulVec, dotProduct, toMat_apply]
    rw [Fin.sum_univ_eq_sum_range (fun k => get (householder x) i k * x.getD k 0) x.length]
    exact householder_reflects_aux x i i.isLt
  · have hnn : 0 ≤ sumSq x := by rw [sumSq_eq]; exact sum_nonneg (fun t _ => mul_self_nonneg _)
    unfold householderA
    split
    · exact Real.mul_self_sqrt hnn
    · rw [neg_mul_neg]; exact Real.mul_self_sqrt hnn

/-- **`Q` is orthogonal for every real `M × N` input with `M ≥ N`, of any rank** (a product of
    Householder reflections, each symmetric and involutive): `QᵀQ = QQᵀ = 1`. -/
theorem qr_orthogonal (A Q R : Matrix ℝ) (h : qr A = some (Q, R)) :
    (toMat A.rows A.rows Q).transpose * toMat A.rows A.rows Q = 1 ∧
    toMat A.rows A.rows Q * (toMat A.rows A.rows Q).transpose = 1 := by
  obtain ⟨_, _, _, _, h5, h6⟩ := qr_product A Q R h
  exact ⟨h5, h6⟩

section congr
variable {α : Type} [Add α] [Sub α] [Mul α] [Div α] [Neg α] [Zero α] [One α] [RealFns α] [NumOrd α]

/-- **A decomposition of a view is the decomposition of the materialised matrix**: the three
    models depend on their input only through its size and its cells (Cholesky and LDLᵀ only
    through the cells on and below the diagonal), so any two inputs with the same size and the same
    cell function — a tensor, a lazily transposed / ranged / reversed view of another one, a matrix
    — have the same outcome, for every element type. -/
theorem factorisations_congr (A B : Matrix α) (hr : A.rows = B.rows) (hc : A.columns = B.columns) :
    ((∀ i j, i < A.rows → j ≤ i → get A i j = get B i j) → cholesky A = cholesky B ∧ ldlt A = ldlt B) ∧
    ((∀ i j, i < A.rows → j < A.columns → get A i j = get B i j) → qr A = qr B) :=
  ⟨fun h => ⟨cholesky_congr A B hr hc h, ldlt_congr A B hr hc h⟩, fun h => qr_congr A B hr hc h⟩

/-- Non-vacuity: two different tensors with the same lower triangle (the strict upper triangle is
    never read). -/
example : cholesky (⟨[4, 9, 2, 5], 2, 2⟩ : Matrix ℝ) = cholesky ⟨[4, 7, 2, 5], 2, 2⟩ := by
  apply cholesky_congr _ _ rfl rfl
  intro i j hi hj
  have hi' : i < 2 := hi
  interval_cases i <;> interval_cases j <;> simp [Decomp.get, EasyMl.Matrix.getIndex]

end congr

/-- **The product of the models is C03's product** (`Arith.mMatMul`, the model of
    `Matrix * Matrix` on `MatrixRef` views): for operands of matching non-empty shapes the two
    models return the same matrix, any element type. -/
theorem matMul_is_C03 {α : Type} [Add α] [Mul α] [Zero α] {n m k : ℕ} (l r : Matrix α)
    (hl : Shaped n (m + 1) l) (hr : Shaped (m + 1) k r) (hn : 1 ≤ n) (hk : 1 ≤ k) :
    Arith.mMatMul (Arith.MView.ofMatrix l) (Arith.MView.ofMatrix r) = .ok (matMul l r) :=
  matMul_eq_C03 hl hr hn hk

example : Shaped 2 2 (⟨[1, 2, 3, 4], 2, 2⟩ : Matrix ℚ) := ⟨rfl, rfl, rfl⟩

/-- **Producer → consumer** (the `consumers=ok` facts): the Cholesky factor of a symmetric real
    input, multiplied by its transpose through C03's model of the matrix product, reproduces the
    input. -/
theorem cholesky_factor_product_via_C03 (A L : Matrix ℝ) (h : cholesky A = some L) (hn : 1 ≤ A.rows)
    (hsym : (toMat A.rows A.rows A).transpose = toMat A.rows A.rows A) :
    ∃ P, Arith.mMatMul (Arith.MView.ofMatrix L) (Arith.MView.ofMatrix (transposeM L)) = .ok P ∧
      Shaped A.rows A.rows P ∧ toMat A.rows A.rows P = toMat A.rows A.rows A := by
  obtain ⟨_, hsh, _, _, _, hfull⟩ := cholesky_sound A L h
  obtain ⟨m, hm⟩ : ∃ m, A.rows = m + 1 := ⟨A.rows - 1, by omega⟩
  have hT : Shaped A.rows A.rows (transposeM L) := by
    unfold transposeM; rw [hsh.1, hsh.2.1]; exact shaped_ofFn _ _ _
  have hTm : toMat A.rows A.rows (transposeM L) = (toMat A.rows A.rows L).transpose := by
    ext i j
    unfold transposeM
    rw [toMat_apply, hsh.1, hsh.2.1, get_ofFn _ _ _ _ _ i.isLt j.isLt]
    rfl
  have hsh' : Shaped A.rows (m + 1) L := by rw [← hm]; exact hsh
  have hT' : Shaped (m + 1) A.rows (transposeM L) := by rw [← hm]; exact hT
  refine ⟨matMul L (transposeM L), matMul_eq_C03 hsh' hT' hn hn, shaped_matMul hsh' hT', ?_⟩
  rw [toMat_matMul hsh hT, hTm]
  exact hfull hsym

/-- … and the transpose can be taken by C11's model of `Matrix::transpose`
    (`from_fn((columns, rows), |(c, r)| self.get(r, c))`): the whole consumer chain
    `L * L.transpose()` is stated with the other properties' models. -/
theorem cholesky_factor_consumers_C11_C03 (A L : Matrix ℝ) (h : cholesky A = some L) (hn : 1 ≤ A.rows)
    (hsym : (toMat A.rows A.rows A).transpose = toMat A.rows A.rows A) :
    ∃ T P, L.transposeP = .ok T ∧
      Arith.mMatMul (Arith.MView.ofMatrix L) (Arith.MView.ofMatrix T) = .ok P ∧
      toMat A.rows A.rows P = toMat A.rows A.rows A := by
  obtain ⟨_, hsh, _⟩ := cholesky_sound A L h
  have hinv : L.Inv := ⟨by rw [hsh.2.2, hsh.1, hsh.2.1], by rw [hsh.1]; exact hn, by rw [hsh.2.1]; exact hn⟩
  obtain ⟨P, hP, _, hPA⟩ := cholesky_factor_product_via_C03 A L h hn hsym
  exact ⟨transposeM L, P, transposeP_eq_transposeM L hinv, hP, hPA⟩

/-! ### API surface of the result structs (`Model/ApiSurface.lean`) -/

/-- `from_unchecked` stores its arguments in field (name) order; `clone_from` leaves exactly a clone
    of the source, whatever the target held; `Display` prints each factor under its own label. -/
theorem result_struct_surface {F : Type} (a b t1 t2 : F) (la lb : String) (sh : F → String) :
    (Api.fromUnchecked a b).first = a ∧ (Api.fromUnchecked a b).second = b ∧
    Api.cloneFrom (Api.fromUnchecked t1 t2) (Api.fromUnchecked a b) = Api.clone (Api.fromUnchecked a b) ∧
    Api.clone (Api.fromUnchecked a b) = Api.fromUnchecked a b ∧
    Api.display la lb sh (Api.fromUnchecked a b) = la ++ ":\n" ++ sh a ++ "\n" ++ lb ++ ":\n" ++ sh b :=
  ⟨rfl, rfl, rfl, rfl, rfl⟩

/-! ### shape rejection -/

/-- Non-square inputs are rejected by Cholesky and LDLᵀ (any element type). -/
theorem nonsquare_none {α : Type} [Add α] [Sub α] [Mul α] [Div α] [Neg α] [Zero α] [One α]
    [RealFns α] [NumOrd α] (A : Matrix α) (h : A.rows ≠ A.columns) :
    cholesky A = none ∧ ldlt A = none := by
  simp [cholesky, ldlt, h]

example : (⟨[1, 2, 3, 4, 5, 6], 2, 3⟩ : Matrix ℚ).rows ≠ (⟨[1, 2, 3, 4, 5, 6], 2, 3⟩ : Matrix ℚ).columns := by
  decide

end EasyMl.C08
